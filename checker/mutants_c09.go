package main

func init() {
	const (
		pr     = "internal/controllers/phase_reconciler.go"
		osc    = "internal/controllers/objectsets/objectset_controller.go"
		ospc   = "internal/controllers/objectsetphases/objectsetphase_controller.go"
		remote = "internal/controllers/objectsets/remotephase_reconciler.go"
		odr    = "internal/controllers/objectdeployments/objectset_reconciler.go"
		pkgc   = "internal/controllers/packages/package_controller.go"
		adp    = "internal/adapters/objectset.go"
	)
	const pausedBlock = "\tif owner.IsSpecPaused() {\n" +
		"\t\tactualObj = desiredObj.DeepCopy()\n" +
		"\t\tif err := r.dynamicCache.Get(ctx, client.ObjectKeyFromObject(desiredObj), actualObj); err != nil {\n" +
		"\t\t\treturn nil, fmt.Errorf(\"looking up object while paused: %w\", err)\n" +
		"\t\t}\n" +
		"\t\treturn actualObj, nil\n" +
		"\t}\n"
	const reconcileCall = "\tif actualObj, err = r.reconcileObject(ctx, owner, desiredObj, previous, phaseObject.CollisionProtection); err != nil {\n" +
		"\t\treturn nil, err\n" +
		"\t}\n"
	const r3SwitchHead = "\tswitch {\n\tcase unknown ||\n\t\tobjectSet.IsSpecPaused() && !phasesArePaused ||\n\t\t!objectSet.IsSpecPaused() && phasesArePaused:\n\t\t// Could not get status of all remote ObjectSetPhases or they disagree with their parent.\n"
	const r3TrueCase = "\tcase objectSet.IsSpecPaused() && phasesArePaused:\n\t\t// Everything is paused!\n"
	const r3TwoLiterals = r3SwitchHead +
		"\t\tmeta.SetStatusCondition(objectSet.GetConditions(), metav1.Condition{\n\t\t\tType:               corev1alpha1.ObjectSetPaused,\n\t\t\tStatus:             metav1.ConditionUnknown,\n\t\t\tObservedGeneration: objectSet.ClientObject().GetGeneration(),\n\t\t\tReason:             \"PartiallyPaused\",\n\t\t\tMessage:            \"Waiting for ObjectSetPhases.\",\n\t\t})\n\n" +
		r3TrueCase +
		"\t\tmeta.SetStatusCondition(objectSet.GetConditions(), metav1.Condition{\n\t\t\tType:               corev1alpha1.ObjectSetPaused,\n\t\t\tStatus:             metav1.ConditionTrue,\n\t\t\tObservedGeneration: objectSet.ClientObject().GetGeneration(),\n\t\t\tReason:             \"Paused\",\n\t\t\tMessage:            \"Lifecycle state set to paused.\",\n\t\t})\n"
	const r3RemoveCase = "\n\tcase !objectSet.IsSpecPaused() && !phasesArePaused:\n\t\t// Nothing is paused!\n\t\tmeta.RemoveStatusCondition(objectSet.GetConditions(), corev1alpha1.ObjectSetPaused)\n\t}\n"
	const r5PausedTail = "\t// Skip subreconcilers when paused\n\tif pkg.GetSpecPaused() {\n\t\tres, err = c.objDepStatusReconciler.Reconcile(ctx, pkg)\n\t\tif err != nil {\n\t\t\treturn res, err\n\t\t}\n\t\treturn res, c.updateStatus(ctx, pkg)\n\t}\n\n\tfor _, r := range c.reconciler {"
	addMutants(
		// ---- R1
		Mutant{Prop: "C09", Name: "r1-paused-branch-below-reconcileObject", File: pr,
			Old:    pausedBlock + "\n" + reconcileCall,
			New:    reconcileCall + "\n" + pausedBlock,
			Expect: []string{"C09.R1@"}},
		Mutant{Prop: "C09", Name: "r1-pause-guard-weakened", File: pr,
			Old:    "\tif owner.IsSpecPaused() {\n\t\tactualObj = desiredObj.DeepCopy()",
			New:    "\tif owner.IsSpecPaused() && len(previous) == 0 {\n\t\tactualObj = desiredObj.DeepCopy()",
			Expect: []string{"C09.R1@"}},
		Mutant{Prop: "C09", Name: "r1-write-on-paused-edge", File: pr,
			Old:    "\tif owner.IsSpecPaused() {\n\t\tactualObj = desiredObj.DeepCopy()\n",
			New:    "\tif owner.IsSpecPaused() {\n\t\tactualObj = desiredObj.DeepCopy()\n\t\t_ = r.writer.Patch(ctx, desiredObj, client.Apply)\n",
			Expect: []string{"C09.R1@"}},
		Mutant{Prop: "C09", Name: "r1-patcher-invoked-before-pause-check", File: pr,
			Old:    "\tif owner.IsSpecPaused() {\n\t\tactualObj = desiredObj.DeepCopy()\n",
			New:    "\tif err := r.patcher.Patch(ctx, desiredObj, desiredObj, desiredObj); err != nil {\n\t\treturn nil, err\n\t}\n\tif owner.IsSpecPaused() {\n\t\tactualObj = desiredObj.DeepCopy()\n",
			Expect: []string{"C09.R1@"}},
		Mutant{Prop: "C09", Name: "r1-paused-returns-unread-object", File: pr,
			Old:    "\t\tif err := r.dynamicCache.Get(ctx, client.ObjectKeyFromObject(desiredObj), actualObj); err != nil {\n\t\t\treturn nil, fmt.Errorf(\"looking up object while paused: %w\", err)\n\t\t}\n\t\treturn actualObj, nil\n",
			New:    "\t\treturn actualObj, nil\n",
			Expect: []string{"C09.R1@(*internal/controllers.PhaseReconciler).ReconcilePhase#paused-edge"}},
		Mutant{Prop: "C09", Name: "r1-paused-returns-notfound-instead-of-object", File: pr,
			Old:    "\t\treturn actualObj, nil\n\t}\n\n\tif actualObj, err = r.reconcileObject(",
			New:    "\t\treturn nil, fmt.Errorf(\"paused\")\n\t}\n\n\tif actualObj, err = r.reconcileObject(",
			Expect: []string{"C09.R1@(*internal/controllers.PhaseReconciler).ReconcilePhase#paused-edge"}},
		Mutant{Prop: "C09", Name: "r1-benign-else-structure", File: pr, Benign: true,
			Old: pausedBlock + "\n" + reconcileCall,
			New: "\tpaused := owner.IsSpecPaused()\n\tif !paused {\n" +
				"\t\tif actualObj, err = r.reconcileObject(ctx, owner, desiredObj, previous, phaseObject.CollisionProtection); err != nil {\n\t\t\treturn nil, err\n\t\t}\n" +
				"\t} else {\n" +
				"\t\tactualObj = desiredObj.DeepCopy()\n" +
				"\t\tif err := r.dynamicCache.Get(ctx, client.ObjectKeyFromObject(desiredObj), actualObj); err != nil {\n" +
				"\t\t\treturn nil, fmt.Errorf(\"looking up object while paused: %w\", err)\n\t\t}\n\t\treturn actualObj, nil\n\t}\n"},
		Mutant{Prop: "C09", Name: "r1-benign-uncached-read-and-log", File: pr, Benign: true,
			Old: "\t\tif err := r.dynamicCache.Get(ctx, client.ObjectKeyFromObject(desiredObj), actualObj); err != nil {\n\t\t\treturn nil, fmt.Errorf(\"looking up object while paused: %w\", err)\n\t\t}\n",
			New: "\t\tlogr.FromContextOrDiscard(ctx).Info(\"paused, only observing\")\n\t\tkey := client.ObjectKeyFromObject(desiredObj)\n\t\tif err := r.uncachedClient.Get(ctx, key, actualObj); err != nil {\n\t\t\treturn nil, fmt.Errorf(\"looking up object while paused: %w\", err)\n\t\t}\n"},

		// ---- R2
		Mutant{Prop: "C09", Name: "r2-objectset-teardown-when-paused", File: osc,
			Old:    "\tif !objectSet.ClientObject().GetDeletionTimestamp().IsZero() ||\n\t\tobjectSet.IsArchived() {",
			New:    "\tif !objectSet.ClientObject().GetDeletionTimestamp().IsZero() ||\n\t\tobjectSet.IsArchived() || objectSet.IsSpecPaused() {",
			Expect: []string{"C09.R2@"}},
		Mutant{Prop: "C09", Name: "r2-phase-teardown-when-paused", File: ospc,
			Old:    "\tif !objectSetPhase.ClientObject().GetDeletionTimestamp().IsZero() {",
			New:    "\tif !objectSetPhase.ClientObject().GetDeletionTimestamp().IsZero() || objectSetPhase.IsSpecPaused() {",
			Expect: []string{"C09.R2@"}},
		Mutant{Prop: "C09", Name: "r2-teardown-called-from-reconcile-loop", File: ospc,
			Old:    "\tc.reportPausedCondition(ctx, objectSetPhase)\n\treturn res, c.updateStatus(ctx, objectSetPhase)",
			New:    "\tc.reportPausedCondition(ctx, objectSetPhase)\n\tif _, err := c.teardownHandler.Teardown(ctx, objectSetPhase); err != nil {\n\t\treturn res, err\n\t}\n\treturn res, c.updateStatus(ctx, objectSetPhase)",
			Expect: []string{"C09.R2@"}},
		Mutant{Prop: "C09", Name: "r2-benign-operands-swapped", File: osc, Benign: true,
			Old: "\tif !objectSet.ClientObject().GetDeletionTimestamp().IsZero() ||\n\t\tobjectSet.IsArchived() {",
			New: "\tif objectSet.IsArchived() ||\n\t\t!objectSet.ClientObject().GetDeletionTimestamp().IsZero() {"},
		Mutant{Prop: "C09", Name: "r2-benign-deleting-variable", File: osc, Benign: true,
			Old: "\tif !objectSet.ClientObject().GetDeletionTimestamp().IsZero() ||\n\t\tobjectSet.IsArchived() {",
			New: "\tdeleting := !objectSet.ClientObject().GetDeletionTimestamp().IsZero()\n\tif deleting || objectSet.IsArchived() {"},

		// ---- R3
		Mutant{Prop: "C09", Name: "r3-count-every-phase-as-paused", File: osc,
			Old:    "\t\tif meta.IsStatusConditionTrue(phase.GetConditions(), corev1alpha1.ObjectSetPhasePaused) {\n\t\t\tpausedPhases++\n\t\t}\n",
			New:    "\t\tpausedPhases++\n",
			Expect: []string{"C09.R3@(*internal/controllers/objectsets.GenericObjectSetController).reportPausedCondition#Paused=True"}},
		Mutant{Prop: "C09", Name: "r3-objectset-paused-true-without-spec", File: osc,
			Old:    "\tcase objectSet.IsSpecPaused() && phasesArePaused:\n\t\t// Everything is paused!",
			New:    "\tcase !objectSet.IsArchived() && phasesArePaused:\n\t\t// Everything is paused!",
			Expect: []string{"C09.R3@(*internal/controllers/objectsets.GenericObjectSetController).reportPausedCondition#Paused=True"}},
		Mutant{Prop: "C09", Name: "r3-phase-paused-condition-inverted", File: ospc,
			Old:    "\tif objectSetPhase.IsSpecPaused() {\n\t\tmeta.SetStatusCondition(",
			New:    "\tif !objectSetPhase.IsSpecPaused() {\n\t\tmeta.SetStatusCondition(",
			Expect: []string{"C09.R3@(*internal/controllers/objectsetphases.GenericObjectSetPhaseController).reportPausedCondition#Paused=True"}},
		Mutant{Prop: "C09", Name: "r3-pause-patch-whenever-any-paused", File: remote,
			Old:    "\tif currentObjectSetPhase.IsPaused() != desiredObjectSetPhase.IsPaused() {",
			New:    "\tif currentObjectSetPhase.IsPaused() || desiredObjectSetPhase.IsPaused() {",
			Expect: []string{"C09.R3@(*internal/controllers/objectsets.objectSetRemotePhaseReconciler).Reconcile#pause-patch"}},
		Mutant{Prop: "C09", Name: "r3-pause-patch-without-resourceversion", File: remote,
			Old:    "\t\t\t\t\"resourceVersion\": current.GetResourceVersion(),",
			New:    "\t\t\t\t\"name\": current.GetName(),",
			Expect: []string{"C09.R3@(*internal/controllers/objectsets.objectSetRemotePhaseReconciler).Reconcile#pause-patch"}},
		Mutant{Prop: "C09", Name: "r3-pause-patch-sends-current-value", File: remote,
			Old:    "\t\t\t\t\"paused\": desiredObjectSetPhase.IsPaused(),",
			New:    "\t\t\t\t\"paused\": currentObjectSetPhase.IsPaused(),",
			Expect: []string{"C09.R3@(*internal/controllers/objectsets.objectSetRemotePhaseReconciler).Reconcile#pause-patch"}},
		Mutant{Prop: "C09", Name: "r3-delegated-phase-paused-unconditionally", File: remote,
			Old:    "\tif objectSet.IsSpecPaused() {\n\t\t// ObjectSetPhases don't have to support archival.\n\t\tdesiredObjectSetPhase.SetPaused(true)\n\t}\n",
			New:    "\tdesiredObjectSetPhase.SetPaused(true)\n",
			Expect: []string{"C09.R3@(*internal/controllers/objectsets.objectSetRemotePhaseReconciler).Reconcile#pause-patch"}},
		Mutant{Prop: "C09", Name: "r3-delegated-phase-never-paused", File: remote,
			Old:    "\tif objectSet.IsSpecPaused() {\n\t\t// ObjectSetPhases don't have to support archival.\n\t\tdesiredObjectSetPhase.SetPaused(true)\n\t}\n",
			New:    "\tif objectSet.IsSpecPaused() {\n\t\tdesiredObjectSetPhase.SetPaused(false)\n\t}\n",
			Expect: []string{"C09.R3@(*internal/controllers/objectsets.objectSetRemotePhaseReconciler).Reconcile#pause-patch"}},
		Mutant{Prop: "C09", Name: "r3-benign-patch-guard-swapped-setpaused-by-value", File: remote, Benign: true,
			Old: "\tif objectSet.IsSpecPaused() {\n\t\t// ObjectSetPhases don't have to support archival.\n\t\tdesiredObjectSetPhase.SetPaused(true)\n\t}\n",
			New: "\tdesiredObjectSetPhase.SetPaused(objectSet.IsSpecPaused())\n"},
		Mutant{Prop: "C09", Name: "r3-benign-patch-guard-operands-swapped", File: remote, Benign: true,
			Old: "\tif currentObjectSetPhase.IsPaused() != desiredObjectSetPhase.IsPaused() {",
			New: "\tif !(desiredObjectSetPhase.IsPaused() == currentObjectSetPhase.IsPaused()) {"},
		Mutant{Prop: "C09", Name: "r3-benign-case-operands-swapped", File: osc, Benign: true,
			Old: "\tcase objectSet.IsSpecPaused() && phasesArePaused:\n\t\t// Everything is paused!",
			New: "\tcase phasesArePaused && objectSet.IsSpecPaused():\n\t\t// Everything is paused!"},
		// the three-way case list written as one comparison of the two booleans (`a && !b || !a && b` is
		// `a != b`): Paused=True under "spec and phases agree" + "spec is paused"
		Mutant{Prop: "C09", Name: "r3-benign-disagreement-as-comparison", File: osc, Benign: true,
			Old: "\tcase unknown ||\n\t\tobjectSet.IsSpecPaused() && !phasesArePaused ||\n\t\t!objectSet.IsSpecPaused() && phasesArePaused:",
			New: "\tcase unknown || objectSet.IsSpecPaused() != phasesArePaused:",
			More: []Edit{
				{File: osc, Old: "\tcase objectSet.IsSpecPaused() && phasesArePaused:\n\t\t// Everything is paused!", New: "\tcase objectSet.IsSpecPaused():\n\t\t// Everything is paused!"},
				{File: osc, Old: "\tcase !objectSet.IsSpecPaused() && !phasesArePaused:", New: "\tdefault:"},
			}},
		Mutant{Prop: "C09", Name: "r3-comparison-inverted-paused-true-while-phases-run", File: osc,
			Old: "\tcase unknown ||\n\t\tobjectSet.IsSpecPaused() && !phasesArePaused ||\n\t\t!objectSet.IsSpecPaused() && phasesArePaused:",
			New: "\tcase unknown || objectSet.IsSpecPaused() == phasesArePaused:",
			More: []Edit{
				{File: osc, Old: "\tcase objectSet.IsSpecPaused() && phasesArePaused:\n\t\t// Everything is paused!", New: "\tcase objectSet.IsSpecPaused():\n\t\t// Everything is paused!"},
				{File: osc, Old: "\tcase !objectSet.IsSpecPaused() && !phasesArePaused:", New: "\tdefault:"},
			},
			Expect: []string{"C09.R3@(*internal/controllers/objectsets.GenericObjectSetController).reportPausedCondition#Paused=True"}},
		Mutant{Prop: "C09", Name: "r3-comparison-dropped-paused-true-on-spec-alone", File: osc,
			Old: "\tcase unknown ||\n\t\tobjectSet.IsSpecPaused() && !phasesArePaused ||\n\t\t!objectSet.IsSpecPaused() && phasesArePaused:",
			New: "\tcase unknown:",
			More: []Edit{
				{File: osc, Old: "\tcase objectSet.IsSpecPaused() && phasesArePaused:\n\t\t// Everything is paused!", New: "\tcase objectSet.IsSpecPaused():\n\t\t// Everything is paused!"},
				{File: osc, Old: "\tcase !objectSet.IsSpecPaused() && !phasesArePaused:", New: "\tcase !phasesArePaused:"},
			},
			Expect: []string{"C09.R3@(*internal/controllers/objectsets.GenericObjectSetController).reportPausedCondition#Paused=True"}},

		// ---- R4
		Mutant{Prop: "C09", Name: "r4-subreconcilers-run-while-paused", File: odr,
			Old:    "\t\to.setObjectDeploymentStatus(ctx, currentObjectSet, prevObjectSets, objectDeployment)\n\t\treturn ctrl.Result{}, nil\n\t}\n\n\tvar (",
			New:    "\t\to.setObjectDeploymentStatus(ctx, currentObjectSet, prevObjectSets, objectDeployment)\n\t}\n\n\tvar (",
			Expect: []string{"C09.R4@(*internal/controllers/objectdeployments."}},
		Mutant{Prop: "C09", Name: "r4-unpause-every-paused-revision", File: odr,
			Old:    "\t\tif objectDeployment.GetSpecPaused() != objectSet.GetPausedByParent() {",
			New:    "\t\tif objectDeployment.GetSpecPaused() != objectSet.IsSpecPaused() {",
			Expect: []string{"C09.R4@(*internal/controllers/objectdeployments.objectSetReconciler).Reconcile#"}},
		Mutant{Prop: "C09", Name: "r4-propagate-to-archived-revisions", File: odr,
			Old:    "\t\tif objectSet.IsArchived() {\n\t\t\tcontinue\n\t\t}\n\n\t\t// The pause value",
			New:    "\t\t// The pause value",
			Expect: []string{"C09.R4@(*internal/controllers/objectdeployments.objectSetReconciler).Reconcile#propagation-Update"}},
		Mutant{Prop: "C09", Name: "r4-setters-swapped", File: odr,
			Old:    "\t\t\t\tobjectSet.SetPausedByParent()\n\t\t\t\tpauseChangeMsg = \"pause\"\n\t\t\t} else {\n\t\t\t\tobjectSet.SetActiveByParent()",
			New:    "\t\t\t\tobjectSet.SetActiveByParent()\n\t\t\t\tpauseChangeMsg = \"pause\"\n\t\t\t} else {\n\t\t\t\tobjectSet.SetPausedByParent()",
			Expect: []string{"C09.R4@(*internal/controllers/objectdeployments.objectSetReconciler).Reconcile#call-Set"}},
		Mutant{Prop: "C09", Name: "r4-parent-mark-ignored-by-cluster-adapter", File: adp,
			Old:    "\t\ta.Annotations[pausedByParentAnnotation] == pausedByParentTrue\n}\n\nfunc (a *ClusterObjectSetAdapter) SetPausedByParent() {",
			New:    "\t\tlen(a.Annotations) >= 0\n}\n\nfunc (a *ClusterObjectSetAdapter) SetPausedByParent() {",
			Expect: []string{"C09.R4@(*internal/adapters.ClusterObjectSetAdapter).GetPausedByParent"}},
		Mutant{Prop: "C09", Name: "r4-active-by-parent-keeps-mark", File: adp,
			Old:    "\tdelete(a.Annotations, pausedByParentAnnotation)\n\ta.Spec.LifecycleState = corev1alpha1.ObjectSetLifecycleStateActive\n}\n\nfunc (a *ObjectSetAdapter) GetAvailabilityProbes",
			New:    "\ta.Spec.LifecycleState = corev1alpha1.ObjectSetLifecycleStateActive\n}\n\nfunc (a *ObjectSetAdapter) GetAvailabilityProbes",
			Expect: []string{"C09.R4@(*internal/adapters.ObjectSetAdapter).SetActiveByParent"}},
		Mutant{Prop: "C09", Name: "r4-paused-by-parent-without-mark", File: adp,
			Old:    "\ta.Annotations[pausedByParentAnnotation] = pausedByParentTrue\n\ta.Spec.LifecycleState = corev1alpha1.ObjectSetLifecycleStatePaused\n}\n\nfunc (a *ObjectSetAdapter) SetActiveByParent",
			New:    "\ta.Annotations[\"package-operator.run/paused\"] = pausedByParentTrue\n\ta.Spec.LifecycleState = corev1alpha1.ObjectSetLifecycleStatePaused\n}\n\nfunc (a *ObjectSetAdapter) SetActiveByParent",
			Expect: []string{"C09.R4@-#mark-key-agreement"}},
		Mutant{Prop: "C09", Name: "r4-benign-operands-swapped-and-negated-branch", File: odr, Benign: true,
			Old: "\t\tif objectDeployment.GetSpecPaused() != objectSet.GetPausedByParent() {\n\t\t\tvar pauseChangeMsg string\n\t\t\tif objectDeployment.GetSpecPaused() {\n\t\t\t\tobjectSet.SetPausedByParent()\n\t\t\t\tpauseChangeMsg = \"pause\"\n\t\t\t} else {\n\t\t\t\tobjectSet.SetActiveByParent()\n\t\t\t\tpauseChangeMsg = \"unpause\"\n\t\t\t}\n",
			New: "\t\tif objectSet.GetPausedByParent() != objectDeployment.GetSpecPaused() {\n\t\t\tpauseChangeMsg := \"pause\"\n\t\t\tif !objectDeployment.GetSpecPaused() {\n\t\t\t\tobjectSet.SetActiveByParent()\n\t\t\t\tpauseChangeMsg = \"unpause\"\n\t\t\t} else {\n\t\t\t\tobjectSet.SetPausedByParent()\n\t\t\t}\n"},
		Mutant{Prop: "C09", Name: "r4-benign-adapter-conjuncts-swapped", File: adp, Benign: true,
			Old: "\treturn a.Spec.LifecycleState == corev1alpha1.ObjectSetLifecycleStatePaused &&\n\t\ta.Annotations[pausedByParentAnnotation] == pausedByParentTrue\n}\n\nfunc (a *ClusterObjectSetAdapter) SetPausedByParent() {",
			New: "\tif pausedByParentTrue != a.Annotations[pausedByParentAnnotation] {\n\t\treturn false\n\t}\n\treturn corev1alpha1.ObjectSetLifecycleStatePaused == a.Spec.LifecycleState\n}\n\nfunc (a *ClusterObjectSetAdapter) SetPausedByParent() {"},

		// ---- R5
		Mutant{Prop: "C09", Name: "r5-unpack-runs-while-paused", File: pkgc,
			Old:    "\tif pkg.GetSpecPaused() {\n\t\tres, err = c.objDepStatusReconciler.Reconcile(ctx, pkg)",
			New:    "\tif pkg.GetSpecPaused() && len(pkg.ClientObject().GetFinalizers()) > 0 {\n\t\tres, err = c.objDepStatusReconciler.Reconcile(ctx, pkg)",
			Expect: []string{"C09.R5@(*internal/packages/internal/packagedeploy."}},
		Mutant{Prop: "C09", Name: "r5-objdep-updated-whenever-paused", File: pkgc,
			Old:    "\tif pkg.GetSpecPaused() != objDep.GetSpecPaused() {",
			New:    "\tif pkg.GetSpecPaused() || objDep.GetSpecPaused() {",
			Expect: []string{"C09.R5@(*internal/controllers/packages.GenericPackageController).Reconcile#propagation-Update"}},
		Mutant{Prop: "C09", Name: "r5-pause-value-inverted", File: pkgc,
			Old:    "\t\t\tobjDep.SetSpecPaused(true)\n\t\t\tpauseChangeMsg = \"pause\"",
			New:    "\t\t\tobjDep.SetSpecPaused(false)\n\t\t\tpauseChangeMsg = \"pause\"",
			Expect: []string{"C09.R5@(*internal/controllers/packages.GenericPackageController).Reconcile#propagation-Update"}},
		Mutant{Prop: "C09", Name: "r5-benign-set-by-value", File: pkgc, Benign: true,
			Old: "\t\tvar pauseChangeMsg string\n\t\tif pkg.GetSpecPaused() {\n\t\t\tobjDep.SetSpecPaused(true)\n\t\t\tpauseChangeMsg = \"pause\"\n\t\t} else {\n\t\t\tobjDep.SetSpecPaused(false)\n\t\t\tpauseChangeMsg = \"unpause\"\n\t\t}\n",
			New: "\t\tpauseChangeMsg := \"unpause\"\n\t\tif pkg.GetSpecPaused() {\n\t\t\tpauseChangeMsg = \"pause\"\n\t\t}\n\t\tobjDep.SetSpecPaused(pkg.GetSpecPaused())\n"},
		Mutant{Prop: "C09", Name: "r5-benign-operands-swapped", File: pkgc, Benign: true,
			Old: "\tif pkg.GetSpecPaused() != objDep.GetSpecPaused() {",
			New: "\tif objDep.GetSpecPaused() != pkg.GetSpecPaused() {"},

		// ---- round seven (Y2): condition built as a base value + field assignments; sub-reconciler
		// list selected by the pause state
		Mutant{Prop: "C09", Name: "r3-benign-condition-base-value-filled-per-case", File: osc, Benign: true,
			Old: r3TwoLiterals,
			New: "\tpausedCond := metav1.Condition{\n\t\tType:               corev1alpha1.ObjectSetPaused,\n\t\tObservedGeneration: objectSet.ClientObject().GetGeneration(),\n\t}\n\n" +
				r3SwitchHead +
				"\t\tpausedCond.Status = metav1.ConditionUnknown\n\t\tpausedCond.Reason = \"PartiallyPaused\"\n\t\tpausedCond.Message = \"Waiting for ObjectSetPhases.\"\n\t\tmeta.SetStatusCondition(objectSet.GetConditions(), pausedCond)\n\n" +
				r3TrueCase +
				"\t\tpausedCond.Status = metav1.ConditionTrue\n\t\tpausedCond.Reason = \"Paused\"\n\t\tpausedCond.Message = \"Lifecycle state set to paused.\"\n\t\tmeta.SetStatusCondition(objectSet.GetConditions(), pausedCond)\n"},
		Mutant{Prop: "C09", Name: "r3-base-value-true-in-the-partially-paused-case", File: osc,
			Old: r3TwoLiterals,
			New: "\tpausedCond := metav1.Condition{\n\t\tType:               corev1alpha1.ObjectSetPaused,\n\t\tObservedGeneration: objectSet.ClientObject().GetGeneration(),\n\t}\n\n" +
				r3SwitchHead +
				"\t\tpausedCond.Status = metav1.ConditionTrue\n\t\tpausedCond.Reason = \"PartiallyPaused\"\n\t\tpausedCond.Message = \"Waiting for ObjectSetPhases.\"\n\t\tmeta.SetStatusCondition(objectSet.GetConditions(), pausedCond)\n\n" +
				r3TrueCase +
				"\t\tpausedCond.Status = metav1.ConditionTrue\n\t\tpausedCond.Reason = \"Paused\"\n\t\tpausedCond.Message = \"Lifecycle state set to paused.\"\n\t\tmeta.SetStatusCondition(objectSet.GetConditions(), pausedCond)\n",
			Expect: []string{"C09.R3@(*internal/controllers/objectsets.GenericObjectSetController).reportPausedCondition#Paused=True"}},
		Mutant{Prop: "C09", Name: "r3-benign-condition-filled-per-case-set-once-after-switch", File: osc, Benign: true,
			Old: r3TwoLiterals + r3RemoveCase,
			New: "\tvar pausedCond metav1.Condition\n\tpausedCond.Type = corev1alpha1.ObjectSetPaused\n\tpausedCond.ObservedGeneration = objectSet.ClientObject().GetGeneration()\n\n" +
				r3SwitchHead +
				"\t\tpausedCond.Status = metav1.ConditionUnknown\n\t\tpausedCond.Reason = \"PartiallyPaused\"\n\t\tpausedCond.Message = \"Waiting for ObjectSetPhases.\"\n\n" +
				r3TrueCase +
				"\t\tpausedCond.Status = metav1.ConditionTrue\n\t\tpausedCond.Reason = \"Paused\"\n\t\tpausedCond.Message = \"Lifecycle state set to paused.\"\n" +
				"\n\tcase !objectSet.IsSpecPaused() && !phasesArePaused:\n\t\t// Nothing is paused!\n\t\tmeta.RemoveStatusCondition(objectSet.GetConditions(), corev1alpha1.ObjectSetPaused)\n\t\treturn nil\n\tdefault:\n\t\treturn nil\n\t}\n\tmeta.SetStatusCondition(objectSet.GetConditions(), pausedCond)\n"},
		Mutant{Prop: "C09", Name: "r3-set-once-after-switch-true-also-in-the-partially-paused-case", File: osc,
			Old: r3TwoLiterals + r3RemoveCase,
			New: "\tvar pausedCond metav1.Condition\n\tpausedCond.Type = corev1alpha1.ObjectSetPaused\n\tpausedCond.ObservedGeneration = objectSet.ClientObject().GetGeneration()\n\n" +
				r3SwitchHead +
				"\t\tpausedCond.Status = metav1.ConditionTrue\n\t\tpausedCond.Reason = \"PartiallyPaused\"\n\t\tpausedCond.Message = \"Waiting for ObjectSetPhases.\"\n\n" +
				r3TrueCase +
				"\t\tpausedCond.Status = metav1.ConditionTrue\n\t\tpausedCond.Reason = \"Paused\"\n\t\tpausedCond.Message = \"Lifecycle state set to paused.\"\n" +
				"\n\tcase !objectSet.IsSpecPaused() && !phasesArePaused:\n\t\t// Nothing is paused!\n\t\tmeta.RemoveStatusCondition(objectSet.GetConditions(), corev1alpha1.ObjectSetPaused)\n\t\treturn nil\n\tdefault:\n\t\treturn nil\n\t}\n\tmeta.SetStatusCondition(objectSet.GetConditions(), pausedCond)\n",
			Expect: []string{"C09.R3@(*internal/controllers/objectsets.GenericObjectSetController).reportPausedCondition#Paused=True"}},
		Mutant{Prop: "C09", Name: "r5-benign-active-list-from-new-helper", File: pkgc, Benign: true,
			Old:  r5PausedTail,
			New:  "\tfor _, r := range c.activeReconcilers(pkg) {",
			More: []Edit{{File: pkgc, Old: "func (c *GenericPackageController) updateStatus(", New: "func (c *GenericPackageController) activeReconcilers(pkg adapters.GenericPackageAccessor) []reconciler {\n\tif pkg.GetSpecPaused() {\n\t\treturn []reconciler{c.objDepStatusReconciler}\n\t}\n\treturn c.reconciler\n}\n\nfunc (c *GenericPackageController) updateStatus("}}},
		Mutant{Prop: "C09", Name: "r5-benign-active-list-selected-in-place", File: pkgc, Benign: true, OwnOnly: true,
			Why: "silent for C09; C16.R5 counts the sub-reconciler invocations of the package controller and loses two of its four instances when the paused and the unpaused list share one loop (known imprecision of C16.R5, DESIGN 8.5)",
			Old: r5PausedTail,
			New: "\tactive := c.reconciler\n\tif pkg.GetSpecPaused() {\n\t\tactive = []reconciler{c.objDepStatusReconciler}\n\t}\n\tfor _, r := range active {"},
		Mutant{Prop: "C09", Name: "r5-active-list-selection-inverted", File: pkgc,
			Old:    r5PausedTail,
			New:    "\tactive := c.reconciler\n\tif !pkg.GetSpecPaused() {\n\t\tactive = []reconciler{c.objDepStatusReconciler}\n\t}\n\tfor _, r := range active {",
			Expect: []string{"C09.R5@"}},
		Mutant{Prop: "C09", Name: "r5-paused-list-also-holds-the-first-writing-reconciler", File: pkgc,
			Old:    r5PausedTail,
			New:    "\tactive := c.reconciler\n\tif pkg.GetSpecPaused() {\n\t\tactive = []reconciler{c.objDepStatusReconciler, c.reconciler[0]}\n\t}\n\tfor _, r := range active {",
			Expect: []string{"C09.R5@"}},
		Mutant{Prop: "C09", Name: "r5-new-helper-returns-all-reconcilers-when-paused-without-finalizer", File: pkgc,
			Old:    r5PausedTail,
			New:    "\tfor _, r := range c.activeReconcilers(pkg) {",
			More:   []Edit{{File: pkgc, Old: "func (c *GenericPackageController) updateStatus(", New: "func (c *GenericPackageController) activeReconcilers(pkg adapters.GenericPackageAccessor) []reconciler {\n\tif pkg.GetSpecPaused() && len(pkg.ClientObject().GetFinalizers()) > 0 {\n\t\treturn []reconciler{c.objDepStatusReconciler}\n\t}\n\treturn c.reconciler\n}\n\nfunc (c *GenericPackageController) updateStatus("}},
			Expect: []string{"C09.R5@"}},
	)
}
