package main

import (
	"fmt"
	"go/ast"
	"go/token"
	"go/types"
	"os"
	"reflect"
	"sort"
	"strings"

	"golang.org/x/tools/go/packages"
	"golang.org/x/tools/go/ssa"
	"golang.org/x/tools/go/ssa/ssautil"
)

// Program is the loaded, type-checked and SSA-converted workspace of /repo.
type Program struct {
	RepoDir  string
	Tier     string
	Fset     *token.FileSet
	Pkgs     []*packages.Package // workspace packages only (roots)
	ByPath   map[string]*packages.Package
	SSA      *ssa.Program
	SSAPkgs  map[string]*ssa.Package
	Funcs    []*ssa.Function // every source function of the workspace packages (incl. methods, closures, generic instances)
	funcByID map[string]*ssa.Function

	df map[*ssa.Function]*funcFacts // cached dataflow per function

	callers        map[*ssa.Function][]Call
	alias          map[*ssa.Function]string // renamed function -> recorded identity
	renameCand     map[*ssa.Function]bool   // unmatched new functions with the signature of a disappeared recorded one
	synthFile      *ast.File                // synthetic loop helpers for std generic search functions (normalize.go)
	synthSrc       map[string][]byte
	Renames        []string
	Normalized     []string // new helpers inlined by the normalisation pre-pass (normalize.go)
	addrTaken      map[*ssa.Function]bool
	invokedMethods map[string]bool
	importing      map[*ssa.Function]bool
}

// currentProgram is the program being analysed (one per process); used to present renamed functions
// under their recorded identity.
var currentProgram *Program

// repoModules are the three go.work modules of package-operator.
var loadPatterns = []string{
	"./...",
	"package-operator.run/apis/...",
	"package-operator.run/pkg/...",
}

// sanitizedEnv returns the environment for the `go list` driver: the repository is a go.work
// workspace with a toolchain line, so GOFLAGS=-mod=mod / GOTOOLCHAIN=local / GOSUMDB=off /
// GOWORK=off (all common in this sandbox) must not leak into it.
func sanitizedEnv() []string {
	drop := map[string]bool{"GOFLAGS": true, "GOWORK": true, "GOSUMDB": true, "GOTOOLCHAIN": true, "GOPROXY": true, "GONOSUMDB": true, "GONOSUMCHECK": true, "GOINSECURE": true}
	var env []string
	for _, kv := range os.Environ() {
		k := kv
		if i := strings.IndexByte(kv, '='); i >= 0 {
			k = kv[:i]
		}
		if drop[k] {
			continue
		}
		env = append(env, kv)
	}
	env = append(env, "GOPROXY=off")
	return env
}

// Load loads the workspace. overlay maps absolute file names to replacement contents
// (used only by the mutant self-test of the thorough tier).
func Load(repoDir, tier string, overlay map[string][]byte) (*Program, error) {
	mode := packages.LoadSyntax
	if tier == "deep" {
		mode = packages.LoadAllSyntax
	}
	cfg := &packages.Config{
		Mode:    mode | packages.NeedModule,
		Dir:     repoDir,
		Env:     sanitizedEnv(),
		Tests:   false,
		Overlay: overlay,
	}
	pkgs, err := packages.Load(cfg, loadPatterns...)
	if err != nil {
		return nil, fmt.Errorf("packages.Load: %w", err)
	}
	if len(pkgs) == 0 {
		return nil, fmt.Errorf("no packages loaded from %s", repoDir)
	}
	var errs []string
	packages.Visit(pkgs, nil, func(p *packages.Package) {
		for _, e := range p.Errors {
			errs = append(errs, fmt.Sprintf("%s: %s", p.PkgPath, e.Error()))
		}
	})
	if len(errs) > 0 {
		sort.Strings(errs)
		if len(errs) > 10 {
			errs = errs[:10]
		}
		return nil, fmt.Errorf("package errors (tree does not type-check):\n  %s", strings.Join(errs, "\n  "))
	}
	sort.Slice(pkgs, func(i, j int) bool { return pkgs[i].PkgPath < pkgs[j].PkgPath })

	p := &Program{
		RepoDir:  repoDir,
		Tier:     tier,
		Pkgs:     pkgs,
		ByPath:   map[string]*packages.Package{},
		SSAPkgs:  map[string]*ssa.Package{},
		funcByID: map[string]*ssa.Function{},
		df:       map[*ssa.Function]*funcFacts{},
	}
	p.Fset = pkgs[0].Fset
	for _, pk := range pkgs {
		p.ByPath[pk.PkgPath] = pk
	}
	bmode := ssa.InstantiateGenerics
	var prog *ssa.Program
	var spkgs []*ssa.Package
	if tier == "deep" {
		prog, spkgs = ssautil.AllPackages(pkgs, bmode)
	} else {
		prog, spkgs = ssautil.Packages(pkgs, bmode)
	}
	prog.Build()
	p.SSA = prog
	for i, sp := range spkgs {
		if sp == nil {
			return nil, fmt.Errorf("no SSA package for %s", pkgs[i].PkgPath)
		}
		p.SSAPkgs[pkgs[i].PkgPath] = sp
	}
	// Collect all source functions that belong to workspace packages.
	seen := map[*ssa.Function]bool{}
	var add func(f *ssa.Function)
	add = func(f *ssa.Function) {
		if f == nil || seen[f] {
			return
		}
		seen[f] = true
		if f.Blocks != nil {
			p.Funcs = append(p.Funcs, f)
		}
		for _, af := range f.AnonFuncs {
			add(af)
		}
	}
	for fn := range ssautil.AllFunctions(prog) {
		pk := funcPkgPath(fn)
		if pk == "" {
			continue
		}
		if _, ok := p.ByPath[pk]; !ok {
			continue
		}
		if fn.Synthetic != "" && !strings.HasPrefix(fn.Synthetic, "instance of") {
			continue // wrappers, bound-method thunks, package initialisers
		}
		add(fn)
	}
	sort.Slice(p.Funcs, func(i, j int) bool { return funcID(p.Funcs[i]) < funcID(p.Funcs[j]) })
	for _, f := range p.Funcs {
		p.funcByID[funcID(f)] = f
	}
	p.resolveRenames()
	currentProgram = p
	p.dropDeadNewHelpers()
	return p, nil
}

// funcPkgPath returns the package path a function belongs to (declaring package for methods,
// generic instances and closures).
func funcPkgPath(fn *ssa.Function) string {
	for fn.Parent() != nil {
		fn = fn.Parent()
	}
	if o := fn.Origin(); o != nil {
		fn = o
	}
	if fn.Pkg != nil {
		return fn.Pkg.Pkg.Path()
	}
	if obj := fn.Object(); obj != nil && obj.Pkg() != nil {
		return obj.Pkg().Path()
	}
	return ""
}

// funcID is a stable textual identity: "<pkgpath>.<Name>" or "<pkgpath>.(*T).Name" ;
// closures get "$n" suffixes from go/ssa.
func funcID(fn *ssa.Function) string {
	return fn.String()
}

// shortFuncID drops the module prefix to keep obligation keys readable.
func shortFuncID(fn *ssa.Function) string {
	s := fn.String()
	if currentProgram != nil {
		if id, ok := currentProgram.alias[fn]; ok {
			s = id
		} else if par := fn.Parent(); par != nil {
			// closures of a renamed function keep the recorded prefix
			root := par
			for root.Parent() != nil {
				root = root.Parent()
			}
			if id, ok := currentProgram.alias[root]; ok {
				s = id + strings.TrimPrefix(s, root.String())
			}
		}
	}
	s = strings.ReplaceAll(s, "package-operator.run/", "")
	return s
}

// Func looks a function up by package path and name; name is "F" for functions and
// "(*T).M" / "(T).M" for methods.
func (p *Program) Func(pkgPath, name string) *ssa.Function {
	var id string
	if strings.HasPrefix(name, "(") {
		// (*T).M -> (*pkg.T).M
		i := strings.LastIndex(name, ")")
		recv := name[1:i]
		star := ""
		if strings.HasPrefix(recv, "*") {
			star = "*"
			recv = recv[1:]
		}
		id = "(" + star + pkgPath + "." + recv + ")" + name[i+1:]
	} else {
		id = pkgPath + "." + name
	}
	return p.funcByID[id]
}

// FuncsIn returns all source functions (incl. closures) of a package.
func (p *Program) FuncsIn(pkgPath string) []*ssa.Function {
	var out []*ssa.Function
	for _, f := range p.Funcs {
		if funcPkgPath(f) == pkgPath {
			out = append(out, f)
		}
	}
	return out
}

// FuncsUnder returns all source functions whose package path has the given prefix.
func (p *Program) FuncsUnder(prefix string) []*ssa.Function {
	var out []*ssa.Function
	for _, f := range p.Funcs {
		if strings.HasPrefix(funcPkgPath(f), prefix) {
			out = append(out, f)
		}
	}
	return out
}

func (p *Program) Pos(pos token.Pos) string {
	if !pos.IsValid() {
		return "-"
	}
	ps := p.Fset.Position(pos)
	fn := ps.Filename
	if strings.HasPrefix(fn, p.RepoDir+"/") {
		fn = fn[len(p.RepoDir)+1:]
	}
	return fmt.Sprintf("%s:%d", fn, ps.Line)
}

// instrPos returns the best source position for an instruction.
func instrPos(in ssa.Instruction) token.Pos {
	if in == nil {
		return token.NoPos
	}
	if rv := reflect.ValueOf(in); rv.Kind() == reflect.Ptr && rv.IsNil() {
		return token.NoPos // a typed nil handed over as "no site"
	}
	if p := in.Pos(); p.IsValid() {
		return p
	}
	if v, ok := in.(ssa.Value); ok {
		_ = v
	}
	// fall back to any operand with a position
	var ops []*ssa.Value
	ops = in.Operands(ops)
	for _, o := range ops {
		if o != nil && *o != nil {
			if oi, ok := (*o).(ssa.Instruction); ok && oi.Pos().IsValid() {
				return oi.Pos()
			}
		}
	}
	if b := in.Block(); b != nil {
		for _, x := range b.Instrs {
			if x.Pos().IsValid() {
				return x.Pos()
			}
		}
	}
	return token.NoPos
}

func (p *Program) IPos(in ssa.Instruction) string { return p.Pos(instrPos(in)) }

// namedTypeString returns "pkgpath.Name" for (pointers to) named types, else "".
func namedTypeString(t types.Type) string {
	if t == nil {
		return ""
	}
	if pt, ok := t.(*types.Pointer); ok {
		t = pt.Elem()
	}
	t = types.Unalias(t)
	if n, ok := t.(*types.Named); ok {
		o := n.Obj()
		if o.Pkg() != nil {
			return o.Pkg().Path() + "." + o.Name()
		}
		return o.Name()
	}
	return ""
}

// dropDeadNewHelpers removes from the analysed function set the new helpers (not part of the pinned
// tree, see normalize.go) that have no caller left — after the normalisation pre-pass inlined all
// their call sites their definitions are dead code, and rules that enumerate "every function of the
// package" must not judge them a second time out of context.
func (p *Program) dropDeadNewHelpers() {
	recorded := recordedAnchors()
	if len(recorded) < 100 {
		return
	}
	dead := map[*ssa.Function]bool{}
	for _, fn := range p.Funcs {
		if fn.Parent() != nil || fn.Synthetic != "" || fn.Object() == nil || fn.Object().Exported() {
			continue
		}
		if _, ok := recorded[funcID(fn)]; ok {
			continue
		}
		if _, renamed := p.alias[fn]; renamed {
			continue
		}
		if len(p.callersOf(fn)) > 0 || p.addressTaken(fn) {
			continue
		}
		if fn.Signature.Recv() != nil && p.implementsSomeInvokedMethod(fn) {
			continue
		}
		dead[fn] = true
	}
	if len(dead) == 0 {
		return
	}
	var kept []*ssa.Function
	for _, fn := range p.Funcs {
		root := fn
		for root.Parent() != nil {
			root = root.Parent()
		}
		if dead[root] {
			delete(p.funcByID, funcID(fn))
			continue
		}
		kept = append(kept, fn)
	}
	p.Funcs = kept
	// caller / address-taken indexes were built including the dead functions' bodies
	p.callers = nil
	p.addrTaken = nil
	p.invokedMethods = nil
}
