package main

// Self-test variants for the rules of rules_extra7.go (seeded round 6, second batch).

func init() {
	const (
		rm       = "internal/packages/internal/packageimport/request_manager.go"
		objvalid = "internal/packages/internal/packagevalidation/objectvalidation.go"
		deprec   = "internal/packages/internal/packagedeploy/deployment_reconciler.go"
		tmplf    = "internal/packages/internal/packagerender/template.go"
		celf     = "internal/packages/internal/packagerender/celctx/cel.go"
	)
	const slotField = "\tinFlightLock sync.Mutex\n"
	const slotFieldNew = "\tinFlightLock sync.Mutex\n\tpullSlots    chan struct{}\n"
	const goHead = "\t\tgo func(ctx context.Context, image string) {\n\t\t\trawPkg, err := r.pullImage("
	const dupKey = "\t\t\tkey := fmt.Sprintf(\"%s %s\", groupKind, objectKey)\n"
	const chunkCall = "\t\terr := r.chunkPhase(ctx, actualDeploy, phase, chunker)\n"
	addMutants(
		// ---- C20.R7
		Mutant{Prop: "C20", Name: "r7-pull-slot-taken-under-lock", File: rm,
			Old:    goHead,
			New:    "\t\tr.pullSlots <- struct{}{}\n\t\tgo func(ctx context.Context, image string) {\n\t\t\tdefer func() { <-r.pullSlots }()\n\t\t\trawPkg, err := r.pullImage(",
			More:   []Edit{{File: rm, Old: slotField, New: slotFieldNew}},
			Expect: []string{"C20.R7@(*internal/packages/internal/packageimport.RequestManager).handleRequest#critical-section-does-not-block"}},
		Mutant{Prop: "C20", Name: "r7-broadcast-waits-for-ack-under-lock", File: rm,
			Old:    "\tdelete(r.inFlight, image)\n",
			New:    "\tdelete(r.inFlight, image)\n\t<-r.pullSlots\n",
			More:   []Edit{{File: rm, Old: slotField, New: slotFieldNew}},
			Expect: []string{"C20.R7@(*internal/packages/internal/packageimport.RequestManager).handleResponse#critical-section-does-not-block"}},
		Mutant{Prop: "C20", Name: "benign-pull-slot-taken-inside-goroutine", File: rm, Benign: true,
			Old: goHead,
			New: "\t\tgo func(ctx context.Context, image string) {\n\t\t\tr.pullSlots <- struct{}{}\n\t\t\trawPkg, err := r.pullImage(",
			More: []Edit{{File: rm, Old: slotField, New: slotFieldNew},
				{File: rm, Old: "\t\t\tr.handleResponse(image, response{\n", New: "\t\t\t<-r.pullSlots\n\t\t\tr.handleResponse(image, response{\n"}}},
		// ---- C16.R10
		Mutant{Prop: "C16", Name: "r10-duplicate-key-includes-version", File: objvalid,
			Old:    dupKey,
			New:    "\t\t\tkey := fmt.Sprintf(\"%s %s\", gvk.String(), objectKey)\n\t\t\t_ = groupKind\n",
			Expect: []string{"C16.R10@(*internal/packages/internal/packagevalidation.ObjectDuplicateValidator).ValidateObjects#duplicate-key"}},
		Mutant{Prop: "C16", Name: "r10-duplicate-key-includes-label", File: objvalid,
			Old:    dupKey,
			New:    "\t\t\tkey := fmt.Sprintf(\"%s %s %s\", groupKind, objectKey, object.GetLabels()[\"variant\"])\n",
			Expect: []string{"C16.R10@(*internal/packages/internal/packagevalidation.ObjectDuplicateValidator).ValidateObjects#duplicate-key"}},
		Mutant{Prop: "C16", Name: "benign-duplicate-key-spelled-out", File: objvalid, Benign: true,
			Old: dupKey,
			New: "\t\t\tkey := fmt.Sprint(gvk.Group, \"/\", gvk.Kind, \" \", object.GetNamespace(), \"/\", object.GetName())\n\t\t\t_, _ = groupKind, objectKey\n"},
		// ---- C14.R9
		Mutant{Prop: "C14", Name: "r9-chunking-retried-in-loop", File: deprec,
			Old:    chunkCall,
			New:    "\t\tvar err error\n\t\tfor attempt := 0; attempt < 3; attempt++ {\n\t\t\tif err = r.chunkPhase(ctx, actualDeploy, phase, chunker); err == nil {\n\t\t\t\tbreak\n\t\t\t}\n\t\t}\n",
			Expect: []string{"C14.R9@(*internal/packages/internal/packagedeploy.DeploymentReconciler).Reconcile#consumes-phase-once:chunkPhase"}},
		Mutant{Prop: "C14", Name: "r9-chunking-retried-on-error", File: deprec,
			Old:    chunkCall,
			New:    "\t\terr := retry.OnError(retry.DefaultBackoff, apimachineryerrors.IsServerTimeout, func() error {\n\t\t\treturn r.chunkPhase(ctx, actualDeploy, phase, chunker)\n\t\t})\n",
			Expect: []string{"C14.R9@(*internal/packages/internal/packagedeploy.DeploymentReconciler).Reconcile#consuming-closure-runs-once"}},
		Mutant{Prop: "C14", Name: "benign-chunking-through-local-closure", File: deprec, Benign: true,
			Old: chunkCall,
			New: "\t\tchunk := func() error { return r.chunkPhase(ctx, actualDeploy, phase, chunker) }\n\t\terr := chunk()\n"},
		// ---- C13.R14
		Mutant{Prop: "C13", Name: "r14-template-context-shares-config", File: tmplf,
			Old:    "\tworkaroundnovalue(actualCtx)\n",
			New:    "\tif tmplCtx.Config != nil {\n\t\tactualCtx[\"config\"] = tmplCtx.Config\n\t}\n\tworkaroundnovalue(actualCtx)\n",
			Expect: []string{"C13.R14@internal/packages/internal/packagerender.templateContext#context-not-aliased"}},
		Mutant{Prop: "C13", Name: "r14-cel-context-shares-images", File: celf,
			Old:    "\topts := make([]cel.EnvOption, 0, len(ctxMap))\n",
			New:    "\tctxMap[\"images\"] = tmplCtx.Images\n\topts := make([]cel.EnvOption, 0, len(ctxMap))\n",
			Expect: []string{"C13.R14@internal/packages/internal/packagerender/celctx.unpackContext#context-not-aliased"}},
		Mutant{Prop: "C13", Name: "benign-template-context-defaults-nil-config", File: tmplf, Benign: true,
			Old: "\tp, err := json.Marshal(tmplCtx)\n",
			New: "\tif tmplCtx.Config == nil || len(tmplCtx.Images) == 0 {\n\t\ttmplCtx.Config = map[string]any{}\n\t}\n\tp, err := json.Marshal(tmplCtx)\n"},
	)

	// ---- local records (normalize_records.go): a few locals collected into a new struct type
	const osctl = "internal/controllers/objectsets/objectset_controller.go"
	const pausedHead = "\tvar phasesArePaused, unknown bool\n\tif len(objectSet.GetRemotePhases()) > 0 {\n\t\tvar err error\n\t\tphasesArePaused, unknown, err = c.areRemotePhasesPaused(ctx, objectSet)\n"
	const pausedHeadRec = "\tvar phases pkoPauseState\n\tif len(objectSet.GetRemotePhases()) > 0 {\n\t\tvar err error\n\t\tphases.paused, phases.unknown, err = c.areRemotePhasesPaused(ctx, objectSet)\n"
	const pausedType = "type pkoPauseState struct {\n\tpaused  bool\n\tunknown bool\n}\n\nfunc (c *GenericObjectSetController) reportPausedCondition(\n"
	recEdits := func(firstCase, trueCase string) []Edit {
		return []Edit{
			{File: osctl, Old: "func (c *GenericObjectSetController) reportPausedCondition(\n", New: pausedType},
			{File: osctl, Old: "\t\tphasesArePaused = objectSet.IsSpecPaused()\n", New: "\t\tphases.paused = objectSet.IsSpecPaused()\n"},
			{File: osctl, Old: "\tcase unknown ||\n\t\tobjectSet.IsSpecPaused() && !phasesArePaused ||\n\t\t!objectSet.IsSpecPaused() && phasesArePaused:\n", New: firstCase},
			{File: osctl, Old: "\tcase objectSet.IsSpecPaused() && phasesArePaused:\n", New: trueCase},
			{File: osctl, Old: "\tcase !objectSet.IsSpecPaused() && !phasesArePaused:\n", New: "\tcase !objectSet.IsSpecPaused() && !phases.paused:\n"},
		}
	}
	addMutants(
		Mutant{Prop: "C09", Name: "benign-pause-state-collected-into-record", File: osctl, Benign: true,
			Old: pausedHead, New: pausedHeadRec, More: recEdits("\tcase phases.unknown ||\n\t\tobjectSet.IsSpecPaused() && !phases.paused ||\n\t\t!objectSet.IsSpecPaused() && phases.paused:\n", "\tcase objectSet.IsSpecPaused() && phases.paused:\n")},
		Mutant{Prop: "C09", Name: "record-paused-true-without-phase-state", File: osctl,
			Old: pausedHead, New: pausedHeadRec, More: recEdits("\tcase phases.unknown ||\n\t\t!objectSet.IsSpecPaused() && phases.paused:\n", "\tcase objectSet.IsSpecPaused():\n"),
			Expect: []string{"C09.R3@(*internal/controllers/objectsets.GenericObjectSetController).reportPausedCondition#Paused=True"}},
	)

	// ---- C18.R11: merge of rendered and existing metadata, spelled out with range loops
	const tmplrec = "internal/controllers/objecttemplate/template_reconciler.go"
	const mergeLabels = "\tobj.SetLabels(labels.Merge(existingObj.GetLabels(), obj.GetLabels()))\n"
	loops := func(first, second string) string {
		return "\tmergedLabels := map[string]string{}\n\tfor k, v := range " + first + ".GetLabels() {\n\t\tmergedLabels[k] = v\n\t}\n\tfor k, v := range " + second + ".GetLabels() {\n\t\tmergedLabels[k] = v\n\t}\n\tobj.SetLabels(mergedLabels)\n"
	}
	addMutants(
		Mutant{Prop: "C18", Name: "benign-label-merge-spelled-out", File: tmplrec, Benign: true, Old: mergeLabels, New: loops("existingObj", "obj")},
		Mutant{Prop: "C18", Name: "r11-spelled-out-merge-existing-labels-win", File: tmplrec, Old: mergeLabels, New: loops("obj", "existingObj"),
			Expect: []string{"C18.R11@(*internal/controllers/objecttemplate.templateReconciler).Reconcile#rendered-labels-win"}},
		Mutant{Prop: "C18", Name: "r11-existing-annotations-win", File: tmplrec,
			Old:    "\tobj.SetAnnotations(labels.Merge(existingObj.GetAnnotations(), obj.GetAnnotations()))\n",
			New:    "\tobj.SetAnnotations(labels.Merge(obj.GetAnnotations(), existingObj.GetAnnotations()))\n",
			Expect: []string{"C18.R11@(*internal/controllers/objecttemplate.templateReconciler).Reconcile#rendered-annotations-win"}},
	)
}
