package main

import (
	"go/token"
	"go/types"
	"sort"
	"strings"

	"golang.org/x/tools/go/ssa"
)

// C12 — feasible-path exploration for the rollback rules (R4, and the R4/R5 division of labour).
//
// After the normalisation pre-pass merged a helper whose error the caller tests
// (`if err := c.startInformer(…); err != nil { return err }`), the helper's returns meet in one block
// `pkoInl<n>End: r := phi(E1, E2, nil); if r != nil { return r }`. A path-insensitive must-analysis sees
// two paths that no execution takes: "helper succeeded, caller returns its error" and "helper failed
// (rolled back), caller returns nil". c12Walk follows only paths that do not contradict themselves: a
// nil-able or boolean Phi holds the value of the edge its block was entered through, and a later test
// of it follows only the matching branch (compare rvReachesOnEdge, which does the same for booleans).
//
// The same walk gives helpers that are *not* merged (a helper with a defer stays in place) a summary:
// "every return of h is preceded by the event" (the call is the event) or "every return of h that may
// carry a non-nil error is preceded by the event" (the call is the event wherever the caller knows
// that error to be non-nil: on the non-nil branch of its test, or when it returns that very error).

// c12PathState: a point of the exploration.
type c12PathState struct {
	b       *ssa.BasicBlock
	idx     int
	env     map[*ssa.Phi]ssa.Value // value a tracked Phi took when its block was last entered
	pending []ssa.Value            // error results of conditional events executed and not decided since
}

type c12Walk struct {
	p *Program
	// stop: the event has happened; the path needs no further look
	stop func(in ssa.Instruction) bool
	// cond: the event has happened iff the returned error value is non-nil (nil: not such a call)
	cond func(in ssa.Instruction) ssa.Value
	// assume: error values taken to be non-nil throughout
	assume []ssa.Value
	// ret is called for every return reached on a feasible path that did not pass the event
	ret func(r *ssa.Return, st *c12PathState)

	overflow bool
}

func c12TrackedPhi(ph *ssa.Phi) bool {
	switch t := ph.Type().Underlying().(type) {
	case *types.Basic:
		return t.Kind() == types.Bool || t.Kind() == types.UntypedBool
	case *types.Interface, *types.Pointer, *types.Map, *types.Slice, *types.Chan, *types.Signature:
		return true
	}
	return false
}

func c12ValueName(v ssa.Value) string {
	if v == nil {
		return "?"
	}
	return v.Name()
}

func (st *c12PathState) key() string {
	var ks []string
	for ph, v := range st.env {
		ks = append(ks, ph.Name()+"="+c12ValueName(v))
	}
	sort.Strings(ks)
	var ps []string
	for _, v := range st.pending {
		ps = append(ps, c12ValueName(v))
	}
	sort.Strings(ps)
	return itoa(st.b.Index) + ":" + itoa(st.idx) + "|" + strings.Join(ks, ",") + "|" + strings.Join(ps, ",")
}

// under resolves v through the Phis whose incoming edge is known on this path.
func (st *c12PathState) under(v ssa.Value) ssa.Value {
	for i := 0; i < 4; i++ {
		ph, ok := stripConv(v).(*ssa.Phi)
		if !ok {
			return v
		}
		nv, known := st.env[ph]
		if !known || nv == nil {
			return v
		}
		v = nv
	}
	return v
}

// nilness of a nil-able value on this path: Phi values resolved, assumptions applied.
func (w *c12Walk) nilness(st *c12PathState, v ssa.Value, facts []Fact) tri {
	p := w.p
	v = st.under(v)
	for _, a := range w.assume {
		if a != nil && p.sameValue(a, v) {
			return noTri
		}
	}
	if isNilConst(stripConv(v)) {
		return yesTri
	}
	if definitelyNonNil(v) {
		return noTri
	}
	return p.errorValueNilness(v, facts)
}

// errNilness: nilness of the error result of r on this path, and the returned error value.
func (w *c12Walk) errNilness(r *ssa.Return, st *c12PathState) (tri, ssa.Value) {
	fn := r.Parent()
	idx := errResultIndex(fn)
	if idx < 0 || idx >= len(r.Results) {
		return yesTri, nil
	}
	v := w.p.resolveResult(r.Results[idx], r)
	v = st.under(v)
	return w.nilness(st, v, w.p.FactsAt(r.Block())), v
}

// satisfiedByPending: a conditional event the path executed is known to have happened at r: the
// helper's error is known non-nil there, or r returns that very error (nil = success needs no
// rollback, non-nil = the helper rolled back).
func (w *c12Walk) satisfiedByPending(r *ssa.Return, st *c12PathState) bool {
	if len(st.pending) == 0 {
		return false
	}
	p := w.p
	_, rv := w.errNilness(r, st)
	facts := p.FactsAt(r.Block())
	for _, e := range st.pending {
		if rv != nil && (stripConv(rv) == stripConv(e) || p.sameValue(rv, e)) {
			return true
		}
		if p.nilnessFromFacts(facts, e) == noTri {
			return true
		}
	}
	return false
}

// run explores fn from the instruction behind start (start == nil: from the entry).
func (w *c12Walk) run(fn *ssa.Function, start ssa.Instruction) {
	if fn == nil || len(fn.Blocks) == 0 {
		return
	}
	p := w.p
	first := &c12PathState{b: fn.Blocks[0], env: map[*ssa.Phi]ssa.Value{}}
	if start != nil {
		first.b, first.idx = start.Block(), instrIndex(start)+1
	}
	seen := map[string]bool{}
	work := []*c12PathState{first}
	const maxStates = 20000
	for len(work) > 0 {
		st := work[len(work)-1]
		work = work[:len(work)-1]
		k := st.key()
		if seen[k] {
			continue
		}
		if len(seen) > maxStates {
			w.overflow = true
			return
		}
		seen[k] = true
		ended := false
		for i := st.idx; i < len(st.b.Instrs) && !ended; i++ {
			in := st.b.Instrs[i]
			switch x := in.(type) {
			case *ssa.Return:
				if w.ret != nil {
					w.ret(x, st)
				}
				ended = true
				continue
			case *ssa.Panic:
				ended = true
				continue
			case *ssa.If, *ssa.Jump:
				continue
			}
			if w.stop != nil && w.stop(in) {
				ended = true
				continue
			}
			if w.cond != nil {
				if e := w.cond(in); e != nil {
					st.pending = append(append([]ssa.Value{}, st.pending...), e)
				}
			}
		}
		if ended {
			continue
		}
		// successors that this path can take
		succs := st.b.Succs
		pend := st.pending
		var pendPerSucc [][]ssa.Value
		if len(st.b.Instrs) > 0 {
			if iff, isIf := st.b.Instrs[len(st.b.Instrs)-1].(*ssa.If); isIf && len(succs) == 2 {
				cond, pol := iff.Cond, true
				for {
					if u, isU := cond.(*ssa.UnOp); isU && u.Op == token.NOT {
						cond, pol = u.X, !pol
						continue
					}
					break
				}
				takeTrue, takeFalse := true, true
				decide := func(condTrue bool) {
					if condTrue == pol {
						takeFalse = false
					} else {
						takeTrue = false
					}
				}
				if cb, isC := constBool(st.under(cond)); isC {
					decide(cb)
				} else if x, trueMeansNonNil, isTest := errNilTest(cond); isTest {
					switch w.nilness(st, x, nil) {
					case noTri:
						decide(trueMeansNonNil)
					case yesTri:
						decide(!trueMeansNonNil)
					default:
						// a test of the error of a conditional event decides that event
						xr := st.under(x)
						hit := -1
						for i, e := range pend {
							if stripConv(xr) == stripConv(e) || p.sameValue(xr, e) {
								hit = i
							}
						}
						if hit >= 0 {
							rest := append(append([]ssa.Value{}, pend[:hit]...), pend[hit+1:]...)
							// successor on which x is non-nil: the event happened, nothing left to look at
							nonNilSucc := 0
							if trueMeansNonNil != pol {
								nonNilSucc = 1
							}
							if nonNilSucc == 0 {
								takeTrue = false
							} else {
								takeFalse = false
							}
							pendPerSucc = [][]ssa.Value{rest, rest}
						}
					}
				}
				switch {
				case takeTrue && !takeFalse:
					succs = succs[:1]
					if pendPerSucc != nil {
						pendPerSucc = pendPerSucc[:1]
					}
				case !takeTrue && takeFalse:
					succs = succs[1:]
					if pendPerSucc != nil {
						pendPerSucc = pendPerSucc[1:]
					}
				case !takeTrue && !takeFalse:
					succs = nil
				}
			}
		}
		for si, s := range succs {
			ns := &c12PathState{b: s, env: map[*ssa.Phi]ssa.Value{}, pending: pend}
			if pendPerSucc != nil && si < len(pendPerSucc) {
				ns.pending = pendPerSucc[si]
			}
			for ph, v := range st.env {
				ns.env[ph] = v
			}
			pi := -1
			for i, pr := range s.Preds {
				if pr == st.b {
					pi = i
					break
				}
			}
			for _, in := range s.Instrs {
				ph, isPhi := in.(*ssa.Phi)
				if !isPhi {
					break
				}
				if !c12TrackedPhi(ph) {
					continue
				}
				delete(ns.env, ph)
				if pi >= 0 && pi < len(ph.Edges) {
					ns.env[ph] = st.under(ph.Edges[pi]) // all Phis of a block read the values of the edge
				}
			}
			work = append(work, ns)
		}
	}
}

// ---------------------------------------------------------------------------------------------
// rollback events

const (
	c12EvRemovesRef = iota // delete(informerReferences, key)
	c12EvStopsInformer
)

func (p *Program) c12DirectEvent(kind int, in ssa.Instruction, key ssa.Value) bool {
	switch kind {
	case c12EvRemovesRef:
		if args, ok := builtinCall(in, "delete"); ok && len(args) == 2 {
			_, isRefs := c12IsRefsMap(args[0])
			return isRefs && p.sameValue(args[1], key)
		}
	case c12EvStopsInformer:
		if ci, ok := in.(*ssa.Call); ok && c12InformerMapCall(ci.Common(), "Delete") {
			a := callArgs(ci.Common())
			return len(a) == 2 && p.sameValue(a[1], key)
		}
	}
	return false
}

// c12CallErrValue: the error result of a call as a value of the calling function (nil when the callee
// has none or the caller drops it).
func c12CallErrValue(ci *ssa.Call) ssa.Value {
	sig := ci.Common().Signature()
	if sig == nil {
		return nil
	}
	res := sig.Results()
	hi := -1
	for i := res.Len() - 1; i >= 0; i-- {
		if res.At(i).Type().String() == "error" {
			hi = i
			break
		}
	}
	if hi < 0 {
		return nil
	}
	if res.Len() == 1 {
		return ci
	}
	for _, r := range referrersOf(ci) {
		if e, ok := r.(*ssa.Extract); ok && e.Index == hi {
			return e
		}
	}
	return nil
}

// c12EventAt: how executing `in` relates to the event for key. always: the event has happened
// whenever `in` completes (the operation itself, or a call of a static helper every return of which
// is preceded by it). onErr != nil: `in` is a call of a static helper that performs the event before
// every return that may carry a non-nil error — the event has happened iff that error is non-nil.
func (p *Program) c12EventAt(kind int, in ssa.Instruction, key ssa.Value, depth int) (always bool, onErr ssa.Value) {
	if p.c12DirectEvent(kind, in, key) {
		return true, nil
	}
	ci, ok := in.(*ssa.Call)
	if !ok || depth <= 0 || ci.Common().IsInvoke() {
		return false, nil
	}
	h := staticCallee(ci.Common())
	if h == nil || len(h.Blocks) == 0 || h == in.Parent() {
		return false, nil
	}
	for i, a := range ci.Common().Args {
		if i >= len(h.Params) || !p.sameValue(a, key) {
			continue
		}
		missAny, missErr, undecided := p.c12HelperMisses(kind, h, h.Params[i], depth-1)
		if undecided {
			continue
		}
		if !missAny {
			return true, nil
		}
		if !missErr {
			if e := c12CallErrValue(ci); e != nil {
				onErr = e
			}
		}
	}
	return false, onErr
}

// c12HelperMisses: is there a feasible path through h to a return (missAny) / to a return whose error
// may be non-nil (missErr) that has not performed the event for prm?
func (p *Program) c12HelperMisses(kind int, h *ssa.Function, prm ssa.Value, depth int) (missAny, missErr, undecided bool) {
	w := p.c12EventWalk(kind, prm, depth)
	w.ret = func(r *ssa.Return, st *c12PathState) {
		if h.Recover != nil && r.Block() == h.Recover {
			return
		}
		if w.satisfiedByPending(r, st) {
			return
		}
		missAny = true
		if n, _ := w.errNilness(r, st); n != yesTri {
			missErr = true
		}
	}
	w.run(h, nil)
	return missAny, missErr, w.overflow
}

// c12EventWalk: a walk that ends paths at the event for key and tracks conditional events.
func (p *Program) c12EventWalk(kind int, key ssa.Value, depth int) *c12Walk {
	type verdict struct {
		always bool
		onErr  ssa.Value
	}
	memo := map[ssa.Instruction]verdict{}
	at := func(in ssa.Instruction) verdict {
		if v, ok := memo[in]; ok {
			return v
		}
		var v verdict
		v.always, v.onErr = p.c12EventAt(kind, in, key, depth)
		memo[in] = v
		return v
	}
	return &c12Walk{
		p:    p,
		stop: func(in ssa.Instruction) bool { return at(in).always },
		cond: func(in ssa.Instruction) ssa.Value { return at(in).onErr },
	}
}

// c12ErrReturnsWithout: the returns of start's function that a feasible path from behind start
// reaches with a possibly non-nil error and without the event for key.
func (p *Program) c12ErrReturnsWithout(kind int, start ssa.Instruction, key ssa.Value) (rets []*ssa.Return, undecided bool) {
	fn := start.Parent()
	w := p.c12EventWalk(kind, key, 2)
	seen := map[*ssa.Return]bool{}
	w.ret = func(r *ssa.Return, st *c12PathState) {
		if fn.Recover != nil && r.Block() == fn.Recover {
			return
		}
		if n, _ := w.errNilness(r, st); n == yesTri {
			return
		}
		if w.satisfiedByPending(r, st) {
			return
		}
		if !seen[r] {
			seen[r] = true
			rets = append(rets, r)
		}
	}
	w.run(fn, start)
	return rets, w.overflow
}

// c12OnlyErrorReturnsAfter: every return a feasible path from behind `in` reaches certainly carries a
// non-nil error (assume: an error value known to be non-nil, e.g. the error of the helper call `in`
// on whose failure path we are).
func (p *Program) c12OnlyErrorReturnsAfter(in ssa.Instruction, assume ssa.Value) bool {
	fn := in.Parent()
	w := &c12Walk{p: p}
	if assume != nil {
		w.assume = []ssa.Value{assume}
	}
	n, bad := 0, false
	w.ret = func(r *ssa.Return, st *c12PathState) {
		if fn.Recover != nil && r.Block() == fn.Recover {
			return
		}
		n++
		if t, _ := w.errNilness(r, st); t != noTri {
			bad = true
		}
	}
	w.run(fn, in)
	return n > 0 && !bad && !w.overflow
}

// c12FailsWatch: whenever `in` executes (and, if assume is given, that error is non-nil), the Watch
// call it runs under reports an error: `in` lies behind the kind's insert in a watch function and
// every return it can still reach carries a non-nil error — or `in` lies in a helper that is only
// called statically, every return of the helper behind `in` carries a non-nil error (a helper without
// an error result simply returns), and each call of the helper is itself such a point, given the
// helper's error. Returns the rolled-back kind as a value of in's function.
func (p *Program) c12FailsWatch(c *Ctx, in ssa.Instruction, assume ssa.Value, depth int) (ssa.Value, bool) {
	fn := in.Parent()
	for _, w := range c12WatchFuncs(c) {
		if fn != w {
			continue
		}
		if !p.c12OnlyErrorReturnsAfter(in, assume) {
			return nil, false
		}
		for _, mu := range c12KindInserts(w) {
			for _, y := range reachableAfter(mu, nil) {
				if y == in {
					return mu.Key, true
				}
			}
		}
		return nil, false
	}
	if depth <= 0 || fn.Parent() != nil || p.mayBeCalledDynamically(fn) != "" {
		return nil, false
	}
	callers := p.callersOf(fn)
	if len(callers) == 0 {
		return nil, false
	}
	hasErr := errResultIndex(fn) >= 0
	if hasErr && !p.c12OnlyErrorReturnsAfter(in, assume) {
		return nil, false
	}
	cand := map[int]bool{}
	for i := range fn.Params {
		cand[i] = true
	}
	for _, cs := range callers {
		call, isCall := cs.Instr.(*ssa.Call)
		if !isCall { // go / defer: runs at another time
			return nil, false
		}
		var a ssa.Value
		if hasErr {
			a = c12CallErrValue(call)
		}
		ck, ok := p.c12FailsWatch(c, cs.Instr, a, depth-1)
		if !ok {
			return nil, false
		}
		for i := range fn.Params {
			if i >= len(cs.Common.Args) || !p.sameValue(cs.Common.Args[i], ck) {
				delete(cand, i)
			}
		}
	}
	for i, prm := range fn.Params {
		if cand[i] {
			return prm, true
		}
	}
	return nil, false
}
