package main

import (
	"fmt"
	"go/token"
	"go/types"
	"sort"
	"strings"

	"golang.org/x/tools/go/ssa"
)

// C14 — ObjectSlices are a transparent, lossless encoding of phase objects.

const (
	typePhase   = pkgCoreV1 + ".ObjectSetTemplatePhase"
	pkgEquality = "k8s.io/apimachinery/pkg/api/equality"
)

func init() {
	register(&Property{
		ID: "C14",
		Explanation: "Decides structural necessary conditions of lossless slicing on every path of the current source: (R1) both chunkers emit every object of the phase exactly once and in order " +
			"(EachObject: out[i] = {Objects[i]}; BinpackNextFit: the object of each iteration is appended to the open chunk, the open chunk is flushed to the result before it is replaced and after the loop, " +
			"the bypass returns nil only when nothing was flushed), chunkPhase names slice i after the slice built from chunk i and clears phase.Objects only on the chunked path, and the loader appends " +
			"each slice's objects in phase.Slices order; (R2) the ObjectSet controller runs the slice loader before the phases reconciler, stops at the first error, and the loader publishes the inlined " +
			"phases on the accessor; (R3) every function that obtains an ObjectSet's phases and consumes their .Objects is reachable only behind the loader or reads .Slices itself; (R4) slice names are " +
			"deployment name + '-' + FNV32 of (content, collision count), an existing slice of that name is accepted only when controlled by the deployment and semantically equal, any other clash " +
			"retries with the next count; (R5) slice GC deletes only slices missing from a set that received every slice name of the deployment template and of every listed ObjectSet, runs only after the " +
			"deployment update succeeded, and only looks at slices labelled with this deployment.",
		NotDecided: []string{"object sizes around the chunk limit (numeric)", "equality of whole inline and sliced executions beyond R2/R3", "hash collisions themselves (probabilistic)",
			"API server behaviour for label-selected List and owner references", "ObjectSetPhase objects (always carry inline objects; written from phases behind the loader)"},
		Technique: "SSA loop-structure rules (index loops, per-iteration post-dominance) + guard-dominance dataflow + return classification + constructor wiring (A11) + value-flow of GetPhases() results with class-hierarchy backward reachability (A6)",
		Rules: []Rule{
			{ID: "C14.R1", Min: 7, Run: c14r1, Statement: "chunkers, chunkPhase and the slice loader conserve the phase's objects in order"},
			{ID: "C14.R2", Min: 3, Run: c14r2, Statement: "ObjectSlices are inlined before anything consumes the phases of an active ObjectSet"},
			{ID: "C14.R3", Min: 8, Run: c14r3, Statement: "every consumer of an ObjectSet's phase objects runs behind the slice loader or handles .Slices itself"},
			{ID: "C14.R4", Min: 3, Run: c14r4, Statement: "slice names are content addressed and a colliding name is never reused for different content"},
			{ID: "C14.R5", Min: 5, Run: c14r5, Statement: "slice garbage collection keeps every slice referenced by the deployment template or by any existing ObjectSet"},
		},
	})
}

// ---------------------------------------------------------------------------------------------
// Loop helpers

// idxLoop is a loop that visits every element of a slice from the first to the last by a
// unit-step index (`for i := range s`, `for i, x := range s`, `for i := 0; i < len(s); i++`).
type idxLoop struct {
	L     *Loop
	Slice ssa.Value // the slice whose length bounds the loop
	Index ssa.Value // the SSA value that is the element index inside the body
}

func fullIndexLoop(l *Loop) (*idxLoop, string) {
	if len(l.Head.Instrs) == 0 {
		return nil, "empty loop header"
	}
	iff, ok := l.Head.Instrs[len(l.Head.Instrs)-1].(*ssa.If)
	if !ok {
		return nil, "loop header has no condition"
	}
	bo, ok := iff.Cond.(*ssa.BinOp)
	if !ok {
		return nil, "loop condition is not a comparison"
	}
	idx, bound := bo.X, bo.Y
	switch bo.Op {
	case token.LSS:
	case token.GTR:
		idx, bound = bo.Y, bo.X
	default:
		return nil, "loop condition is not index < len(slice)"
	}
	lc, ok := bound.(*ssa.Call)
	if !ok {
		return nil, "loop bound is not len(slice)"
	}
	if b, isB := lc.Call.Value.(*ssa.Builtin); !isB || b.Name() != "len" {
		return nil, "loop bound is not len(slice)"
	}
	var ph *ssa.Phi
	switch x := idx.(type) {
	case *ssa.Phi:
		ph = x
	case *ssa.BinOp:
		if one, isC := constInt(x.Y); x.Op == token.ADD && isC && one == 1 {
			ph, _ = x.X.(*ssa.Phi)
		}
	}
	if ph == nil || ph.Block() != l.Head || !c13IsLoopIndexPhi(ph) {
		return nil, "loop index is not a unit-step counter starting at the first element"
	}
	// rangeindex form: phi starts at -1 and idx = phi+1; classic form: phi starts at 0 and idx = phi
	start := int64(99)
	for _, e := range ph.Edges {
		if n, isC := constInt(e); isC {
			start = n
		}
	}
	if _, isPhi := idx.(*ssa.Phi); isPhi && start != 0 {
		return nil, "loop index does not start at 0"
	}
	if _, isBin := idx.(*ssa.BinOp); isBin && start != -1 {
		return nil, "loop index does not start at 0"
	}
	return &idxLoop{L: l, Slice: lc.Call.Args[0], Index: idx}, ""
}

// loopAt returns the innermost loop containing block b as an index loop.
func loopAt(fn *ssa.Function, b *ssa.BasicBlock) (*idxLoop, string) {
	l := innermostLoop(fn, b)
	if l == nil {
		return nil, "not inside a loop"
	}
	return fullIndexLoop(l)
}

// isElemOf: v is the element of il.Slice at the loop index (directly, or through a local copy).
func (p *Program) isElemOf(v ssa.Value, il *idxLoop) bool {
	v = stripConv(v)
	for i := 0; i < 4; i++ {
		u, ok := v.(*ssa.UnOp)
		if !ok || u.Op != token.MUL {
			return false
		}
		if ia, isIA := u.X.(*ssa.IndexAddr); isIA {
			return (ia.X == il.Slice || p.sameValue(ia.X, il.Slice)) && ia.Index == il.Index
		}
		src, ok := p.loadSource(u)
		if !ok {
			return false
		}
		v = stripConv(src)
	}
	return false
}

// isErrorReturnBlock: the block returns with a non-nil error as last result.
func isErrorReturnBlock(b *ssa.BasicBlock) bool {
	if len(b.Instrs) == 0 {
		return false
	}
	ret, ok := b.Instrs[len(b.Instrs)-1].(*ssa.Return)
	if !ok || len(ret.Results) == 0 {
		return false
	}
	last := ret.Results[len(ret.Results)-1]
	return last.Type().String() == "error" && !isNilConst(stripConv(last))
}

// everyIterationPasses: inside loop l every path from the body entry that reaches the next
// iteration executes `must`; paths that leave the function with an error (or panic) are exempt.
func everyIterationPasses(l *Loop, must ssa.Instruction) bool {
	entry := c13BodyEntry(l)
	if entry == nil {
		return false
	}
	seen := map[*ssa.BasicBlock]bool{}
	var walk func(b *ssa.BasicBlock) bool
	walk = func(b *ssa.BasicBlock) bool {
		if b == must.Block() {
			return true
		}
		if b == l.Head {
			return false
		}
		if !l.Body[b] {
			return isPanicBlock(b) || isErrorReturnBlock(b)
		}
		if seen[b] {
			return true
		}
		seen[b] = true
		if len(b.Succs) == 0 {
			return isPanicBlock(b) || isErrorReturnBlock(b)
		}
		for _, s := range b.Succs {
			if !walk(s) {
				return false
			}
		}
		return true
	}
	return walk(entry)
}

// appendCall recognises `append(base, elems...)`.
func appendCall(v ssa.Value) (call *ssa.Call, base ssa.Value, more ssa.Value, ok bool) {
	c, isC := v.(*ssa.Call)
	if !isC {
		return nil, nil, nil, false
	}
	b, isB := c.Call.Value.(*ssa.Builtin)
	if !isB || b.Name() != "append" || len(c.Call.Args) != 2 {
		return nil, nil, nil, false
	}
	return c, c.Call.Args[0], c.Call.Args[1], true
}

// appendsSingle: v == append(base, x) with exactly one element; returns base and x.
func appendsSingle(v ssa.Value) (base, x ssa.Value, ok bool) {
	_, b, more, isApp := appendCall(v)
	if !isApp {
		return nil, nil, false
	}
	elems, okE := sliceElems(more)
	if !okE || len(elems) != 1 {
		return nil, nil, false
	}
	return b, elems[0], true
}

// ---------------------------------------------------------------------------------------------
// R1

func c14r1(c *Ctx) {
	p := c.P
	// (a) EachObjectChunker
	if fn := c.MustFunc(pkgPkgDeploy, "(*EachObjectChunker).Chunk"); fn != nil {
		o := c.Ob(fn, "each-object-singleton", nil, "EachObjectChunker returns out with out[i] = {phase.Objects[i]} for every i")
		col, problems := p.c14FindCollector(fn, func(t types.Type) bool {
			_, isSl := t.Underlying().(*types.Slice)
			return isSl && strings.HasPrefix(t.String(), "[][]")
		})
		if col == nil {
			o.Unknown("no indexed store into and no per-iteration append onto the [][]ObjectSetObject result found")
		} else {
			problems = append(problems, col.Problems...)
			if il := col.IL; il != nil {
				if !c14IsFieldLoadOfParam(il.Slice, fn.Params[len(fn.Params)-1], "Objects") {
					problems = append(problems, "loop does not range over phase.Objects")
				}
				elems, ok := sliceElems(col.Elem)
				if !ok || len(elems) != 1 || !p.isElemOf(elems[0], il) {
					problems = append(problems, "stored chunk is not the singleton of the object at the same index")
				}
				if col.Site != nil && !everyIterationPasses(il.L, col.Site) {
					problems = append(problems, "some iteration skips the store")
				}
				// out is what is returned
				for _, rc := range p.returnCases(fn) {
					if isNilConst(stripConv(rc.Results[1])) && (rc.Results[0] != col.Result || il.L.Body[rc.Ret.Block()]) {
						problems = append(problems, "a different slice is returned")
					}
				}
			}
			if len(problems) == 0 {
				o.OK()
			} else {
				o.Fail("%s", strings.Join(problems, "; "))
			}
		}
	}
	// (b) BinpackNextFitChunker
	if fn := c.MustFunc(pkgPkgDeploy, "(*BinpackNextFitChunker).Chunk"); fn != nil {
		c14Binpack(c, fn)
	}
	// (c) chunkPhase
	if fn := c.MustFunc(pkgPkgDeploy, "(*DeploymentReconciler).chunkPhase"); fn != nil {
		c14ChunkPhase(c, fn)
	}
	// (d) loader
	if fn := c.MustFunc(pkgObjectSets, "(*objectSliceLoadReconciler).Reconcile"); fn != nil {
		o := c.Ob(fn, "append-in-slices-order", nil, "the loader appends the objects of every slice named in phase.Slices, in that order, to the same phase's Objects")
		var problems []string
		var store *ssa.Store
		for _, b := range fn.Blocks {
			for _, in := range b.Instrs {
				st, ok := in.(*ssa.Store)
				if !ok {
					continue
				}
				if fa, isFA := st.Addr.(*ssa.FieldAddr); isFA && namedTypeString(fa.X.Type()) == typePhase && fieldName(fa.X.Type(), fa.Field) == "Objects" {
					if store != nil {
						problems = append(problems, "more than one store to phase.Objects")
					}
					store = st
				}
			}
		}
		if store == nil {
			o.Unknown("no store to phase.Objects found")
			return
		}
		fa := store.Addr.(*ssa.FieldAddr)
		_, base, more, isApp := appendCall(store.Val)
		if !isApp {
			problems = append(problems, "phase.Objects is not extended by append")
		} else {
			// base = load of the same phase's Objects
			if u, ok := base.(*ssa.UnOp); !ok || u.Op != token.MUL {
				problems = append(problems, "append base is not phase.Objects")
			} else if bfa, isFA := u.X.(*ssa.FieldAddr); !isFA || !p.c14SameAddr(bfa.X, fa.X) || bfa.Field != fa.Field {
				problems = append(problems, "append base is not the Objects of the same phase")
			}
			gc, _ := asCall(more)
			inner, why := loopAt(fn, store.Block())
			if gc == nil || calleeName(gc.Common()) != "GetObjects" {
				problems = append(problems, "appended value is not <slice>.GetObjects()")
			} else if inner == nil {
				problems = append(problems, "append: "+why)
			} else {
				objSlice := callRecv(gc.Common())
				// inner loop ranges over this phase's Slices
				if u, ok := inner.Slice.(*ssa.UnOp); !ok || u.Op != token.MUL {
					problems = append(problems, "inner loop does not range over phase.Slices")
				} else if sfa, isFA := u.X.(*ssa.FieldAddr); !isFA || !p.c14SameAddr(sfa.X, fa.X) || fieldName(sfa.X.Type(), sfa.Field) != "Slices" {
					problems = append(problems, "inner loop does not range over the Slices of the phase being filled")
				}
				// objSlice was read by an error-free Get keyed by the slice name of this iteration
				okGet := false
				for _, call := range callsIn(fn) {
					cv, isCall := call.Instr.(*ssa.Call)
					if !isCall || !isReaderGet(call.Common) {
						continue
					}
					a := callArgs(call.Common)
					oc, _ := asCall(a[2])
					if oc == nil || calleeName(oc.Common()) != "ClientObject" || callRecv(oc.Common()) != objSlice {
						continue
					}
					if !p.errOfCallIsNil(p.FactsAt(store.Block()), cv) {
						continue
					}
					kf, _, okc := compositeFields(a[1])
					if okc && kf["Name"] != nil && p.isElemOf(kf["Name"], inner) {
						okGet = true
					}
				}
				if !okGet {
					problems = append(problems, "the slice whose objects are appended was not read by an error-free Get keyed by phase.Slices[i] of this iteration")
				}
				if !everyIterationPasses(inner.L, store) {
					problems = append(problems, "some iteration over phase.Slices reaches the next one without appending")
				}
				// outer loop covers all phases
				outerL := c14OuterLoop(fn, inner.L)
				if outerL == nil {
					problems = append(problems, "no outer loop over the phases")
				} else if ol, why := fullIndexLoop(outerL); ol == nil {
					problems = append(problems, "outer loop: "+why)
				} else if ia, isIA := fa.X.(*ssa.IndexAddr); !isIA || ia.X != ol.Slice || ia.Index != ol.Index {
					problems = append(problems, "phase being filled is not &phases[i] of the outer loop")
				}
			}
		}
		if len(problems) == 0 {
			o.OK()
		} else {
			o.Fail("%s", strings.Join(problems, "; "))
		}
	}
}

// c14SameAddr: a and b address the same variable: the same SSA value, or &s[i] formed twice from the
// same slice and the same index value (`phases[i].Slices` ... `phases[i].Objects` without a
// `phase := &phases[i]` temporary).
func (p *Program) c14SameAddr(a, b ssa.Value) bool {
	if a == b {
		return true
	}
	ia, ok1 := a.(*ssa.IndexAddr)
	ib, ok2 := b.(*ssa.IndexAddr)
	return ok1 && ok2 && ia.Index == ib.Index && (ia.X == ib.X || p.sameValue(ia.X, ib.X))
}

// c14Collector is a list filled with exactly one element per iteration of a complete index loop,
// so that list[i] stems from iteration i:
//
//	out := make(T, len(s)); for i := range s { out[i] = x }                       (indexed)
//	out := make(T, 0, n) | nil | T{}; for i := range s { out = append(out, x) }   (appended)
type c14Collector struct {
	IL       *idxLoop
	Site     ssa.Instruction // the indexed store / the append call
	Elem     ssa.Value       // x
	Result   ssa.Value       // the value that is the complete list once the loop has finished
	Problems []string
}

// c14FindCollector finds the one list of a type accepted by isList that fn fills element by
// element. The second result reports ambiguity.
func (p *Program) c14FindCollector(fn *ssa.Function, isList func(types.Type) bool) (*c14Collector, []string) {
	var cols []*c14Collector
	for _, b := range fn.Blocks {
		for _, in := range b.Instrs {
			st, ok := in.(*ssa.Store)
			if !ok {
				continue
			}
			ia, isIA := st.Addr.(*ssa.IndexAddr)
			if !isIA || !isList(ia.X.Type()) {
				continue
			}
			col := &c14Collector{Site: st, Elem: st.Val, Result: ia.X}
			cols = append(cols, col)
			il, why := loopAt(fn, b)
			if il == nil {
				col.Problems = append(col.Problems, "store into the list: "+why)
				continue
			}
			col.IL = il
			if ia.Index != il.Index {
				col.Problems = append(col.Problems, "element is stored at "+p.describe(ia.Index)+", not at the index of the element it was built from")
			}
			ms, isMS := ia.X.(*ssa.MakeSlice)
			if !isMS {
				col.Problems = append(col.Problems, "list is not a fresh slice")
			} else if lc, isCall := ms.Len.(*ssa.Call); !isCall || len(lc.Call.Args) != 1 || !(lc.Call.Args[0] == il.Slice || p.sameValue(lc.Call.Args[0], il.Slice)) {
				col.Problems = append(col.Problems, "list length is not the length of the slice ranged over")
			} else if b, isB := lc.Call.Value.(*ssa.Builtin); !isB || b.Name() != "len" {
				col.Problems = append(col.Problems, "list length is not the length of the slice ranged over")
			}
		}
	}
	for _, l := range loopsOf(fn) {
		for _, in := range l.Head.Instrs {
			ph, ok := in.(*ssa.Phi)
			if !ok || !isList(ph.Type()) {
				continue
			}
			col := &c14Collector{Result: ph}
			cols = append(cols, col)
			il, why := fullIndexLoop(l)
			if il == nil {
				col.Problems = append(col.Problems, "loop appending to the list: "+why)
			}
			col.IL = il
			for i, e := range ph.Edges {
				if !l.Body[l.Head.Preds[i]] {
					if !c14IsEmptyFreshSlice(e) {
						col.Problems = append(col.Problems, "the list does not start empty: "+p.describe(e))
					}
					continue
				}
				if e == ssa.Value(ph) {
					col.Problems = append(col.Problems, "some iteration reaches the next one without appending")
					continue
				}
				ac, base, more, isApp := appendCall(e)
				if !isApp {
					col.Problems = append(col.Problems, "the list carried to the next iteration is not append(list, x): "+p.describe(e))
					continue
				}
				if base != ssa.Value(ph) {
					col.Problems = append(col.Problems, "the append base is not the list built by the previous iterations")
				}
				elems, okE := sliceElems(more)
				if !okE || len(elems) != 1 {
					col.Problems = append(col.Problems, "not exactly one element is appended per iteration")
					continue
				}
				if col.Site != nil && col.Site != ssa.Instruction(ac) {
					col.Problems = append(col.Problems, "several appends feed the list")
				}
				col.Site, col.Elem = ac, elems[0]
			}
			if col.Site == nil && len(col.Problems) == 0 {
				col.Problems = append(col.Problems, "no append inside the loop")
			}
		}
	}
	if len(cols) == 0 {
		return nil, nil
	}
	var problems []string
	if len(cols) > 1 {
		problems = append(problems, "more than one list of this type is filled")
	}
	col := cols[len(cols)-1]
	// the loop must not be left early with a partial list (error returns and panics excepted)
	if col.IL != nil {
		for b := range col.IL.L.Body {
			if b == col.IL.L.Head {
				continue
			}
			for _, s := range b.Succs {
				if !col.IL.L.Body[s] && !isPanicBlock(s) && !isErrorReturnBlock(s) {
					col.Problems = append(col.Problems, "the loop can be left before every element was handled")
				}
			}
		}
	}
	return col, problems
}

func c14OuterLoop(fn *ssa.Function, inner *Loop) *Loop {
	var best *Loop
	for _, l := range loopsOf(fn) {
		if l.Head != inner.Head && l.Body[inner.Head] {
			if best == nil || len(l.Body) < len(best.Body) {
				best = l
			}
		}
	}
	return best
}

func c14IsFieldLoadOfParam(v ssa.Value, prm *ssa.Parameter, field string) bool {
	u, ok := stripConv(v).(*ssa.UnOp)
	if !ok || u.Op != token.MUL {
		return false
	}
	fa, ok := u.X.(*ssa.FieldAddr)
	return ok && fa.X == ssa.Value(prm) && fieldName(fa.X.Type(), fa.Field) == field
}

func c14Binpack(c *Ctx, fn *ssa.Function) {
	p := c.P
	phaseParam := fn.Params[len(fn.Params)-1]
	// the loop over phase.Objects
	var il *idxLoop
	for _, l := range loopsOf(fn) {
		if x, _ := fullIndexLoop(l); x != nil && c14IsFieldLoadOfParam(x.Slice, phaseParam, "Objects") {
			il = x
		}
	}
	if il == nil {
		c.Ob(fn, "append-every-object", nil, "loop over phase.Objects").Unknown("no index loop over phase.Objects found")
		return
	}
	// header phis: chunks ([][]T) and currentChunk ([]T)
	var chunksPhi, curPhi *ssa.Phi
	for _, in := range il.L.Head.Instrs {
		ph, ok := in.(*ssa.Phi)
		if !ok {
			continue
		}
		ts := ph.Type().String()
		switch {
		case strings.HasPrefix(ts, "[][]") && strings.HasSuffix(ts, "ObjectSetObject"):
			chunksPhi = ph
		case strings.HasPrefix(ts, "[]") && strings.HasSuffix(ts, "ObjectSetObject"):
			curPhi = ph
		}
	}
	if curPhi == nil {
		c.Ob(fn, "append-every-object", nil, "loop-carried open chunk").Unknown("loop-carried variable for the open chunk not found")
		return
	}
	if chunksPhi == nil {
		// the chunk list is never extended inside the loop
		resets := 0
		for i, e := range curPhi.Edges {
			if !il.L.Body[il.L.Head.Preds[i]] {
				continue
			}
			if base, _, ok := appendsSingle(e); ok {
				for _, pv := range c14PhiLeaves(base, il.L) {
					if pv != ssa.Value(curPhi) {
						resets++
					}
				}
			}
		}
		o := c.Ob(fn, "flush-before-reset", nil, "whenever the open chunk is replaced by a fresh one inside the loop, the open chunk has been appended to the chunk list on that path")
		if resets > 0 {
			o.Fail("the open chunk is replaced inside the loop but the chunk list is never extended there: the replaced chunk's objects are lost")
		} else {
			o.Unknown("no loop-carried chunk list found")
		}
		return
	}
	inLoop := func(v ssa.Value) bool {
		in, ok := v.(ssa.Instruction)
		return ok && il.L.Body[in.Block()]
	}
	// (1) the value fed back into currentChunk is append(<open or fresh chunk>, obj) on every iteration
	{
		o := c.Ob(fn, "append-every-object", nil, "on every iteration the current object is appended to the open chunk")
		var problems []string
		var back ssa.Value
		for i, e := range curPhi.Edges {
			if il.L.Body[il.L.Head.Preds[i]] {
				if back != nil && back != e {
					problems = append(problems, "open chunk has several loop-carried definitions")
				}
				back = e
			}
		}
		base, x, ok := appendsSingle(back)
		if !ok {
			problems = append(problems, "the open chunk carried to the next iteration is not append(chunk, obj)")
		} else {
			if !p.isElemOf(x, il) {
				problems = append(problems, "the appended element is not phase.Objects[i] of this iteration")
			}
			// base is the open chunk or a fresh empty chunk
			for _, pv := range c14PhiLeaves(base, il.L) {
				if pv == ssa.Value(curPhi) || c14IsEmptyFreshSlice(pv) {
					continue
				}
				problems = append(problems, "the chunk appended to is neither the open chunk nor a fresh empty chunk: "+p.describe(pv))
			}
			if !everyIterationPasses(il.L, back.(ssa.Instruction)) {
				problems = append(problems, "some iteration reaches the next one without appending its object")
			}
		}
		if len(problems) == 0 {
			o.OK()
		} else {
			o.Fail("%s", strings.Join(problems, "; "))
		}
	}
	// (2) every replacement of the open chunk by a fresh one is accompanied by flushing the open chunk
	{
		o := c.Ob(fn, "flush-before-reset", nil, "whenever the open chunk is replaced by a fresh one inside the loop, the open chunk has been appended to the chunk list on that path")
		var problems []string
		var back ssa.Value
		for i, e := range curPhi.Edges {
			if il.L.Body[il.L.Head.Preds[i]] {
				back = e
			}
		}
		base, _, ok := appendsSingle(back)
		resets := 0
		if ok {
			// base is typically phi(open, open, fresh): for every edge carrying a fresh slice, the chunk-list value on the same edge must be append(chunks, open)
			bph, isPhi := base.(*ssa.Phi)
			if !isPhi {
				if c14IsEmptyFreshSlice(base) && inLoop(base) {
					problems = append(problems, "the open chunk is replaced on every iteration")
				}
			} else {
				// the chunk-list value merged in the same block
				var cph *ssa.Phi
				for _, in := range bph.Block().Instrs {
					if x, isP := in.(*ssa.Phi); isP && x.Type() == chunksPhi.Type() {
						cph = x
					}
				}
				for i, e := range bph.Edges {
					if e == ssa.Value(curPhi) {
						continue
					}
					if !c14IsEmptyFreshSlice(e) {
						problems = append(problems, "open chunk replaced by "+p.describe(e))
						continue
					}
					resets++
					if cph == nil {
						problems = append(problems, "chunk list is not updated where the open chunk is reset")
						continue
					}
					fb, fx, okF := appendsSingle(cph.Edges[i])
					if !okF || fx != ssa.Value(curPhi) || (fb != ssa.Value(chunksPhi)) {
						problems = append(problems, "open chunk is reset without appending it to the chunk list on that path")
					}
				}
				// and the merged chunk list is what is carried to the next iteration
				if cph != nil {
					for i, e := range chunksPhi.Edges {
						if il.L.Body[il.L.Head.Preds[i]] && e != ssa.Value(cph) {
							problems = append(problems, "the flushed chunk list is not carried to the next iteration")
						}
					}
				}
			}
		} else {
			problems = append(problems, "open chunk update not recognised")
		}
		// the chunk list only ever grows by flushing
		for i, e := range chunksPhi.Edges {
			if !il.L.Body[il.L.Head.Preds[i]] {
				continue
			}
			for _, pv := range c14PhiLeaves(e, il.L) {
				if pv == ssa.Value(chunksPhi) {
					continue
				}
				if fb, fx, okF := appendsSingle(pv); okF && fb == ssa.Value(chunksPhi) && fx == ssa.Value(curPhi) {
					continue
				}
				problems = append(problems, "chunk list is modified other than by appending the open chunk: "+p.describe(pv))
			}
		}
		if len(problems) == 0 {
			o.OK(fmt.Sprintf("%d reset site(s), each paired with a flush", resets))
		} else {
			o.Fail("%s", strings.Join(problems, "; "))
		}
	}
	// (3) after the loop: nil only if nothing was flushed; otherwise the open chunk is flushed when non-empty
	{
		o := c.Ob(fn, "flush-open-chunk-or-bypass", nil, "after the loop the chunker returns nil only when no chunk was flushed (objects stay inline), otherwise the chunk list including the non-empty open chunk")
		var problems []string
		n := 0
		for _, rc := range p.returnCases(fn) {
			if len(rc.Results) != 2 || !isNilConst(stripConv(rc.Results[1])) {
				continue
			}
			n++
			res := rc.Results[0]
			switch {
			case isNilConst(stripConv(res)):
				if p.emptinessFromFacts(rc.Facts, chunksPhi) != yesTri {
					problems = append(problems, "returns no chunks on a path where chunks may have been flushed (objects lost)")
				}
			case res == ssa.Value(chunksPhi):
				if p.emptinessFromFacts(rc.Facts, curPhi) != yesTri {
					problems = append(problems, "returns the chunk list without the open chunk although it may be non-empty")
				}
			default:
				fb, fx, okF := appendsSingle(res)
				if !okF || fb != ssa.Value(chunksPhi) || fx != ssa.Value(curPhi) {
					problems = append(problems, "returns "+p.describe(res)+", which is not the chunk list plus the open chunk")
				}
			}
		}
		if n == 0 {
			problems = append(problems, "no successful return found")
		}
		if len(problems) == 0 {
			o.OK()
		} else {
			o.Fail("%s", strings.Join(problems, "; "))
		}
	}
}

// c14PhiLeaves expands phis located inside the loop.
func c14PhiLeaves(v ssa.Value, l *Loop) []ssa.Value {
	var out []ssa.Value
	seen := map[ssa.Value]bool{}
	var walk func(v ssa.Value)
	walk = func(v ssa.Value) {
		if seen[v] {
			return
		}
		seen[v] = true
		if ph, ok := v.(*ssa.Phi); ok && l.Body[ph.Block()] && ph.Block() != l.Head {
			for _, e := range ph.Edges {
				walk(e)
			}
			return
		}
		out = append(out, v)
	}
	walk(v)
	return out
}

// c14IsEmptyFreshSlice: make([]T, 0[, n]) / []T{} / nil.
func c14IsEmptyFreshSlice(v ssa.Value) bool {
	v = stripConv(v)
	switch x := v.(type) {
	case *ssa.Const:
		return x.Value == nil
	case *ssa.MakeSlice:
		n, ok := constInt(x.Len)
		return ok && n == 0
	case *ssa.Slice:
		if _, isAlloc := x.X.(*ssa.Alloc); !isAlloc {
			return false
		}
		if x.High != nil {
			n, ok := constInt(x.High)
			return ok && n == 0
		}
		if at, ok := x.X.Type().Underlying().(*types.Pointer); ok {
			if arr, isArr := at.Elem().Underlying().(*types.Array); isArr {
				return arr.Len() == 0
			}
		}
	}
	return false
}

func c14ChunkPhase(c *Ctx, fn *ssa.Function) {
	p := c.P
	var chunkCall *ssa.Call
	for _, call := range callsIn(fn) {
		if call.Common.IsInvoke() && call.Common.Method.Name() == "Chunk" {
			chunkCall, _ = call.Instr.(*ssa.Call)
		}
	}
	if chunkCall == nil {
		c.AnchorLost("chunker.Chunk call in chunkPhase")
		return
	}
	var chunks ssa.Value
	for _, r := range referrersOf(chunkCall) {
		if e, ok := r.(*ssa.Extract); ok && e.Index == 0 {
			chunks = e
		}
	}
	phaseParam := callArgs(chunkCall.Common())[1]
	// (1) names by index
	{
		o := c.Ob(fn, "slice-name-index", nil, "phase.Slices[i] is the name of the ObjectSlice that was reconciled with chunk i, for every i, and phase.Slices is set to that list")
		col, problems := p.c14FindCollector(fn, func(t types.Type) bool { return t.String() == "[]string" })
		if col == nil || chunks == nil {
			o.Unknown("neither an indexed store into nor a per-iteration append onto the slice-name list found")
		} else {
			problems = append(problems, col.Problems...)
			il, store := col.IL, col.Site
			if il == nil || store == nil {
				// already reported by the collector
			} else {
				if il.Slice != chunks {
					problems = append(problems, "the loop does not range over the chunks returned by the chunker")
				}
				// stored value = S.ClientObject().GetName() where S.SetObjects(chunks[i]) and reconcileSlice(..., S) succeeded
				nc, _ := asCall(col.Elem)
				var sliceObj ssa.Value
				if nc != nil && calleeName(nc.Common()) == "GetName" {
					if co, _ := asCall(callRecv(nc.Common())); co != nil && calleeName(co.Common()) == "ClientObject" {
						sliceObj = callRecv(co.Common())
					}
				}
				if sliceObj == nil {
					problems = append(problems, "stored name is not <slice>.ClientObject().GetName()")
				} else {
					setOK, recOK := false, false
					// the construction of the slice (factory, SetObjects) may live in an extracted helper:
					// calls are taken from the inlined view, helper parameters are read through the
					// call chain, and the object is identified through the helper's result
					sliceVals := p.rvValuesX(sliceObj)
					isSliceObj := func(v ssa.Value) bool {
						if stripConv(v) == stripConv(sliceObj) {
							return true
						}
						xs := p.rvValuesX(v)
						return len(sliceVals) == 1 && len(xs) == 1 && stripConv(xs[0]) == stripConv(sliceVals[0])
					}
					recFn := c.MustFunc(pkgPkgDeploy, "(*DeploymentReconciler).reconcileSlice")
					for _, xc := range p.callsInX(fn) {
						call := xc.Call
						outer := call.Block()
						if len(xc.Chain) > 0 {
							outer = xc.Chain[0].Block()
						}
						if !il.L.Body[outer] {
							continue
						}
						if calleeName(call.Common) == "SetObjects" && isSliceObj(callRecv(call.Common)) {
							if a := callArgs(call.Common); len(a) == 1 && p.isElemOf(p.xcResolve(a[0], xc.Chain), il) {
								if p.mustPrecedeX(store, func(in ssa.Instruction) bool { return in == call.Instr }) {
									setOK = true
								}
							}
						}
						if recFn != nil && staticCallee(call.Common) == recFn && len(xc.Chain) == 0 {
							a := callArgs(call.Common)
							if cv, isCall := call.Instr.(*ssa.Call); isCall && len(a) == 3 && a[2] == sliceObj && p.errOfCallIsNil(p.FactsAt(store.Block()), cv) {
								recOK = true
							}
						}
					}
					if !setOK {
						problems = append(problems, "the named slice was not given chunk i (SetObjects(chunks[i])) before its name is recorded")
					}
					if !recOK {
						problems = append(problems, "the name is recorded without an error-free reconcileSlice of that slice")
					}
				}
				if !everyIterationPasses(il.L, store) {
					problems = append(problems, "some iteration reaches the next one without recording a name")
				}
				// publication
				{
					published := false
					for _, b := range fn.Blocks {
						for _, in := range b.Instrs {
							st, ok := in.(*ssa.Store)
							if !ok || st.Val != col.Result {
								continue
							}
							if fa, isFA := st.Addr.(*ssa.FieldAddr); isFA && fa.X == phaseParam && fieldName(fa.X.Type(), fa.Field) == "Slices" && !il.L.Body[b] {
								published = true
							}
						}
					}
					if !published {
						problems = append(problems, "the name list is not stored in phase.Slices after the loop")
					}
				}
			}
			if len(problems) == 0 {
				o.OK()
			} else {
				o.Fail("%s", strings.Join(problems, "; "))
			}
		}
	}
	// (2) Objects cleared only on the chunked path
	{
		o := c.Ob(fn, "objects-cleared-only-when-chunked", nil, "phase.Objects is cleared only when the chunker returned chunks; a bypass leaves the objects inline and sets no slices")
		var problems []string
		n := 0
		for _, b := range fn.Blocks {
			for _, in := range b.Instrs {
				st, ok := in.(*ssa.Store)
				if !ok {
					continue
				}
				fa, isFA := st.Addr.(*ssa.FieldAddr)
				if !isFA || fa.X != phaseParam {
					continue
				}
				switch fieldName(fa.X.Type(), fa.Field) {
				case "Objects":
					n++
					if !isNilConst(stripConv(st.Val)) {
						problems = append(problems, "phase.Objects is overwritten with "+p.describe(st.Val))
					}
					if chunks == nil || p.emptinessFromFacts(p.FactsAt(b), chunks) != noTri {
						problems = append(problems, "phase.Objects is cleared on a path where the chunker may have returned no chunks (objects lost)")
					}
				case "Slices":
					if chunks == nil || p.emptinessFromFacts(p.FactsAt(b), chunks) != noTri {
						problems = append(problems, "phase.Slices is set on the bypass path")
					}
				}
			}
		}
		if n == 0 {
			problems = append(problems, "phase.Objects is never cleared: objects would be stored inline and in slices")
		}
		if len(problems) == 0 {
			o.OK()
		} else {
			o.Fail("%s", strings.Join(problems, "; "))
		}
	}
}

// ---------------------------------------------------------------------------------------------
// R2

// c14ReconcilerList resolves the `reconciler` slice literal of newGenericObjectSetController to
// the ordered list of element types.
func c14ReconcilerList(c *Ctx) (fn *ssa.Function, elemTypes []types.Type, site ssa.Instruction) {
	fn = c.MustFunc(pkgObjectSets, "newGenericObjectSetController")
	if fn == nil {
		return nil, nil, nil
	}
	for _, b := range fn.Blocks {
		for _, in := range b.Instrs {
			st, ok := in.(*ssa.Store)
			if !ok {
				continue
			}
			fa, isFA := st.Addr.(*ssa.FieldAddr)
			if !isFA || fieldName(fa.X.Type(), fa.Field) != "reconciler" {
				continue
			}
			elems, okE := sliceElems(st.Val)
			if !okE {
				return fn, nil, st
			}
			for _, e := range elems {
				elemTypes = append(elemTypes, stripConv(e).Type())
			}
			return fn, elemTypes, st
		}
	}
	return fn, nil, nil
}

func c14r2(c *Ctx) {
	p := c.P
	ctor, elems, site := c14ReconcilerList(c)
	if ctor == nil {
		return
	}
	{
		o := c.Ob(ctor, "reconciler-order", site, "the reconciler list places the slice loader before the phases reconciler")
		if site == nil || elems == nil {
			o.Unknown("the reconciler list is not a slice literal stored into the controller")
		} else {
			li, pi := -1, -1
			var names []string
			for i, t := range elems {
				n := namedTypeString(t)
				names = append(names, n[strings.LastIndex(n, ".")+1:])
				switch n {
				case pkgObjectSets + ".objectSliceLoadReconciler":
					li = i
				case pkgObjectSets + ".objectSetPhasesReconciler":
					if pi < 0 {
						pi = i
					}
				}
			}
			switch {
			case li < 0:
				o.Fail("the slice loader is not in the reconciler list [%s]", strings.Join(names, ", "))
			case pi < 0:
				o.Fail("the phases reconciler is not in the reconciler list [%s]", strings.Join(names, ", "))
			case li > pi:
				o.Fail("the slice loader (#%d) runs after the phases reconciler (#%d): phases are consumed before their slices are inlined", li, pi)
			default:
				o.OK("[" + strings.Join(names, ", ") + "]")
			}
		}
	}
	// the controller runs the list in order, on one accessor, and stops at the first error
	if rec := c.MustFunc(pkgObjectSets, "(*GenericObjectSetController).Reconcile"); rec != nil {
		o := c.Ob(rec, "loop-in-order-stop-on-error", nil, "Reconcile runs the reconcilers front to back on the same ObjectSet accessor and does not start the next one after an error")
		var call *ssa.Call
		for _, cc := range callsIn(rec) {
			if cc.Common.IsInvoke() && cc.Common.Method.Name() == "Reconcile" && namedTypeString(cc.Common.Value.Type()) == pkgObjectSets+".reconciler" {
				call, _ = cc.Instr.(*ssa.Call)
			}
		}
		if call == nil {
			o.Unknown("invoke of reconciler.Reconcile not found")
		} else {
			var problems []string
			il, why := loopAt(rec, call.Block())
			if il == nil {
				problems = append(problems, why)
			} else {
				if u, ok := il.Slice.(*ssa.UnOp); !ok || !c13IsFieldLoad(u, "reconciler") {
					problems = append(problems, "the loop does not range over c.reconciler")
				}
				if !p.isElemOf(call.Common().Value, il) {
					problems = append(problems, "the reconciler invoked is not c.reconciler[i]")
				}
				// every back edge is taken only when the call's error is nil
				for _, tail := range il.L.Tails {
					if p.errOfCall(p.FactsOnEdge(tail, il.L.Head), call) != yesTri {
						problems = append(problems, "the next reconciler is started although the previous one may have failed")
					}
				}
			}
			if len(problems) == 0 {
				o.OK()
			} else {
				o.Fail("%s", strings.Join(problems, "; "))
			}
		}
	}
	// the loader publishes the inlined phases
	if ld := c.MustFunc(pkgObjectSets, "(*objectSliceLoadReconciler).Reconcile"); ld != nil {
		o := c.Ob(ld, "loader-sets-phases", nil, "every successful return of the loader is preceded by objectSet.SetPhases(<the phases it inlined>)")
		var problems []string
		var get *ssa.Call
		for _, cc := range callsIn(ld) {
			if cc.Common.IsInvoke() && cc.Common.Method.Name() == "GetPhases" && cc.Common.Value == ssa.Value(ld.Params[2]) {
				get, _ = cc.Instr.(*ssa.Call)
			}
		}
		if get == nil {
			problems = append(problems, "objectSet.GetPhases() not found")
		}
		isSet := func(in ssa.Instruction) bool {
			ci, ok := in.(ssa.CallInstruction)
			if !ok || !ci.Common().IsInvoke() || ci.Common().Method.Name() != "SetPhases" || ci.Common().Value != ssa.Value(ld.Params[2]) {
				return false
			}
			return get != nil && ci.Common().Args[0] == ssa.Value(get)
		}
		n := 0
		for _, rc := range p.returnCases(ld) {
			if !isNilConst(stripConv(rc.Results[len(rc.Results)-1])) {
				continue
			}
			n++
			if !p.mustPrecede(rc.Ret, isSet) {
				problems = append(problems, "a successful return is not preceded by SetPhases(phases)")
			}
		}
		if n == 0 {
			problems = append(problems, "no successful return found")
		}
		if len(problems) == 0 {
			o.OK()
		} else {
			o.Fail("%s", strings.Join(problems, "; "))
		}
	}
}

// ---------------------------------------------------------------------------------------------
// R3 — value flow of GetPhases() results

type phaseFlow struct {
	p            *Program
	readsObjects []ssa.Instruction
	readsSlices  []ssa.Instruction
	copies       []ssa.Instruction
	visited      map[string]bool
	ifaceImpl    map[string][]*ssa.Function
}

func newPhaseFlow(p *Program) *phaseFlow {
	return &phaseFlow{p: p, visited: map[string]bool{}, ifaceImpl: map[string][]*ssa.Function{}}
}

// implementers: workspace methods that an invoke of iface.method may dispatch to.
func (pf *phaseFlow) implementers(cc *ssa.CallCommon) []*ssa.Function {
	p := pf.p
	key := cc.Value.Type().String() + "." + cc.Method.Name()
	if r, ok := pf.ifaceImpl[key]; ok {
		return r
	}
	iface, ok := cc.Value.Type().Underlying().(*types.Interface)
	var out []*ssa.Function
	if ok {
		for _, pk := range p.Pkgs {
			if isNonProductPkg(pk.PkgPath) {
				continue
			}
			sc := pk.Types.Scope()
			for _, n := range sc.Names() {
				tn, isTN := sc.Lookup(n).(*types.TypeName)
				if !isTN || tn.IsAlias() {
					continue
				}
				if _, isIface := tn.Type().Underlying().(*types.Interface); isIface {
					continue
				}
				if nt, isNamed := tn.Type().(*types.Named); isNamed && nt.TypeParams().Len() > 0 {
					continue
				}
				for _, t := range []types.Type{tn.Type(), types.NewPointer(tn.Type())} {
					if types.Implements(t, iface) {
						if m := p.methodOf(t, cc.Method.Name()); m != nil && funcHasBody(m) {
							out = append(out, m)
						}
						break
					}
				}
			}
		}
	}
	pf.ifaceImpl[key] = out
	return out
}

// follow propagates "derived from the phases value" through fn starting at seeds.
func (pf *phaseFlow) follow(fn *ssa.Function, seeds []ssa.Value, depth int) {
	derived := map[ssa.Value]bool{}
	var work []ssa.Value
	add := func(v ssa.Value) {
		if v != nil && !derived[v] {
			derived[v] = true
			work = append(work, v)
		}
	}
	for _, s := range seeds {
		add(s)
	}
	for len(work) > 0 {
		v := work[len(work)-1]
		work = work[:len(work)-1]
		for _, r := range referrersOf(v) {
			switch x := r.(type) {
			case *ssa.IndexAddr:
				if x.X == v {
					add(x)
				}
			case *ssa.Index:
				if x.X == v {
					add(x)
				}
			case *ssa.FieldAddr:
				if x.X != v {
					continue
				}
				if namedTypeString(x.X.Type()) == typePhase {
					switch fieldName(x.X.Type(), x.Field) {
					case "Objects":
						for _, rr := range referrersOf(x) {
							if u, isU := rr.(*ssa.UnOp); isU && u.Op == token.MUL {
								pf.readsObjects = append(pf.readsObjects, u)
							}
						}
						continue
					case "Slices":
						for _, rr := range referrersOf(x) {
							if u, isU := rr.(*ssa.UnOp); isU && u.Op == token.MUL {
								pf.readsSlices = append(pf.readsSlices, u)
							}
						}
						continue
					}
				}
				add(x)
			case *ssa.Field:
				if x.X != v {
					continue
				}
				if namedTypeString(x.X.Type()) == typePhase {
					switch fieldName(x.X.Type(), x.Field) {
					case "Objects":
						pf.readsObjects = append(pf.readsObjects, x)
						continue
					case "Slices":
						pf.readsSlices = append(pf.readsSlices, x)
						continue
					}
				}
				add(x)
			case *ssa.UnOp:
				if x.Op == token.MUL {
					add(x)
				}
			case *ssa.Store:
				if x.Val == v {
					if a := allocOf(x.Addr); a != nil {
						add(a)
					}
				}
			case *ssa.Phi, *ssa.Extract, *ssa.Slice, *ssa.ChangeType, *ssa.MakeInterface, *ssa.ChangeInterface, *ssa.Convert, *ssa.TypeAssert:
				add(r.(ssa.Value))
			case *ssa.MakeClosure:
				if depth > 0 {
					if g, ok := x.Fn.(*ssa.Function); ok {
						for i, b := range x.Bindings {
							if b == v && i < len(g.FreeVars) {
								pf.enter(g, g.FreeVars[i], depth-1)
							}
						}
					}
				}
			case ssa.CallInstruction:
				pf.call(x, v, depth, add)
			}
		}
	}
}

func (pf *phaseFlow) enter(g *ssa.Function, seed ssa.Value, depth int) {
	k := g.String() + "#" + seed.Name()
	if pf.visited[k] {
		return
	}
	pf.visited[k] = true
	pf.follow(g, []ssa.Value{seed}, depth)
}

func (pf *phaseFlow) call(ci ssa.CallInstruction, v ssa.Value, depth int, add func(ssa.Value)) {
	cc := ci.Common()
	if b, ok := cc.Value.(*ssa.Builtin); ok {
		if b.Name() == "append" {
			if cv, isV := ci.(*ssa.Call); isV {
				add(cv)
			}
		}
		return
	}
	name := calleeName(cc)
	var targets []*ssa.Function
	if cc.IsInvoke() {
		if cc.Value == v {
			return // method called on the derived value itself
		}
		targets = pf.implementers(cc)
	} else if g := staticCallee(cc); g != nil && funcHasBody(g) && pf.p.isWorkspaceFunc(g) {
		targets = []*ssa.Function{g}
	}
	if strings.HasPrefix(name, "Set") && len(targets) == 0 || (strings.HasPrefix(name, "Set") && cc.IsInvoke()) {
		pf.copies = append(pf.copies, ci)
	}
	if depth <= 0 {
		return
	}
	for _, g := range targets {
		off := 0
		if cc.IsInvoke() {
			off = 1 // receiver is params[0] of the implementation
		}
		for i, a := range cc.Args {
			if a == v && i+off < len(g.Params) {
				pf.enter(g, g.Params[i+off], depth-1)
			}
		}
	}
}

// callersCHA: static callers, invoke sites that may dispatch to fn, and (when fn is used as a
// value) dynamic call sites of identical signature.
func (p *Program) callersCHA(fn *ssa.Function) []Call {
	out := append([]Call{}, p.callersOf(fn)...)
	recv := fn.Signature.Recv()
	if recv != nil {
		for _, f := range p.productFuncs() {
			for _, c := range callsIn(f) {
				if !c.Common.IsInvoke() || c.Common.Method.Name() != fn.Name() {
					continue
				}
				if iface, ok := c.Common.Value.Type().Underlying().(*types.Interface); ok && types.Implements(recv.Type(), iface) {
					out = append(out, c)
				}
			}
		}
	}
	if p.addressTaken(fn) || p.boundMethodTaken(fn) {
		want := types.NewSignatureType(nil, nil, nil, fn.Signature.Params(), fn.Signature.Results(), fn.Signature.Variadic())
		for _, f := range p.productFuncs() {
			for _, c := range callsIn(f) {
				if c.Common.IsInvoke() || staticCallee(c.Common) != nil {
					continue
				}
				if _, isB := c.Common.Value.(*ssa.Builtin); isB {
					continue
				}
				if sig, ok := c.Common.Value.Type().Underlying().(*types.Signature); ok && types.Identical(sig, want) {
					out = append(out, c)
				}
			}
		}
	}
	return out
}

// boundMethodTaken: a bound-method closure of fn is created somewhere (x.M used as a value).
func (p *Program) boundMethodTaken(fn *ssa.Function) bool {
	for _, f := range p.Funcs {
		for _, b := range f.Blocks {
			for _, in := range b.Instrs {
				mc, ok := in.(*ssa.MakeClosure)
				if !ok {
					continue
				}
				g, isF := mc.Fn.(*ssa.Function)
				if !isF || !strings.HasSuffix(g.Name(), "$bound") {
					continue
				}
				for _, bb := range g.Blocks {
					for _, ii := range bb.Instrs {
						if ci, isC := ii.(ssa.CallInstruction); isC && staticCallee(ci.Common()) == fn {
							return true
						}
					}
				}
			}
		}
	}
	return false
}

// reachedWithoutLoader walks callers backwards from fn; returns a call path from an entry point
// (function without callers) to fn that does not pass through one of the `cut` functions.
func (p *Program) reachedWithoutLoader(fn *ssa.Function, cut map[*ssa.Function]bool) (string, bool) {
	type node struct {
		f    *ssa.Function
		path []string
	}
	seen := map[*ssa.Function]bool{fn: true}
	work := []node{{fn, []string{shortFuncID(fn)}}}
	for len(work) > 0 {
		n := work[0]
		work = work[1:]
		if cut[n.f] {
			continue
		}
		f := n.f
		for f.Parent() != nil { // closures are reached through their creator
			f = f.Parent()
		}
		callers := p.callersCHA(f)
		if f != n.f {
			callers = append(callers, Call{Fn: f})
			callers = callers[len(callers)-1:]
		}
		if len(callers) == 0 {
			return strings.Join(n.path, " <- "), true
		}
		for _, c := range callers {
			g := c.Fn
			if g == nil || isNonProductPkg(funcPkgPath(g)) {
				continue
			}
			if seen[g] {
				continue
			}
			seen[g] = true
			work = append(work, node{g, append(append([]string{}, n.path...), shortFuncID(g))})
		}
	}
	return "", false
}

func c14r3(c *Ctx) {
	p := c.P
	// reconcilers positioned behind the loader (from the wiring checked by R2)
	_, elems, _ := c14ReconcilerList(c)
	cut := map[*ssa.Function]bool{}
	seenLoader := false
	var behind []string
	for _, t := range elems {
		n := namedTypeString(t)
		if n == pkgObjectSets+".objectSliceLoadReconciler" {
			seenLoader = true
			continue
		}
		if seenLoader {
			if m := p.methodOf(t, "Reconcile"); m != nil {
				cut[m] = true
				behind = append(behind, shortFuncID(m))
			}
		}
	}
	if len(cut) == 0 {
		c.AnchorLost("reconcilers positioned behind the slice loader in newGenericObjectSetController")
		return
	}
	loader := p.Func(pkgObjectSets, "(*objectSliceLoadReconciler).Reconcile")
	covered := map[*ssa.Function]bool{}
	outOfScope := func(pk string) bool {
		// accessor implementations, CLIs working on local package files, API types, and the renderer
		// (which *produces* inline phases from files) never see ObjectSets that reference slices.
		return pk == pkgAdapters || strings.HasPrefix(pk, modPKO+"/cmd/") || pk == modPKO+"/internal/cmd" || strings.HasPrefix(pk, modPKO+"/apis") || pk == pkgPkgRender
	}
	defer func() { c14ReaderClosure(c, covered, outOfScope) }()
	for _, fn := range p.productFuncs() {
		pk := funcPkgPath(fn)
		if outOfScope(pk) {
			continue
		}
		for _, call := range callsIn(fn) {
			if calleeName(call.Common) != "GetPhases" {
				continue
			}
			cv, ok := call.Instr.(*ssa.Call)
			if !ok {
				continue
			}
			sl, isSl := cv.Type().Underlying().(*types.Slice)
			if !isSl || namedTypeString(sl.Elem()) != typePhase {
				continue
			}
			pf := newPhaseFlow(p)
			pf.follow(fn, []ssa.Value{cv}, 4)
			for _, r := range pf.readsObjects {
				covered[r.Parent()] = true
			}
			if len(pf.readsObjects) == 0 && len(pf.readsSlices) == 0 && len(pf.copies) == 0 {
				continue // phases only passed along / counted
			}
			o := c.Ob(fn, "GetPhases", call.Instr, "a consumer of an ObjectSet's phase objects sees inlined phases (runs behind the slice loader) or handles .Slices itself")
			var where []string
			for _, r := range pf.readsObjects {
				where = append(where, p.IPos(r))
			}
			sort.Strings(where)
			if len(where) > 4 {
				where = append(where[:4], "…")
			}
			switch {
			case fn == loader:
				o.OK("the loader itself: reads .Slices and fills .Objects")
			case len(pf.readsObjects) == 0 && len(pf.copies) == 0:
				o.OK("reads only .Slices of the phases")
			case len(pf.readsSlices) > 0:
				o.OK("reads .Objects and .Slices (handles sliced phases itself)")
			default:
				path, bad := p.reachedWithoutLoader(fn, cut)
				if bad {
					what := ".Objects read at " + strings.Join(where, ", ")
					if len(pf.readsObjects) == 0 {
						what = "phases copied into another object"
					}
					o.Fail("phases are consumed (%s) but .Slices is ignored, and the function is reachable without the slice loader having run: %s", what, path)
				} else {
					o.OK("every call path passes through " + strings.Join(behind, " / ") + ", which runs after the slice loader")
				}
			}
		}
	}
}

// c14ReviewedReaders: functions that read phase.Objects of phases that never reference slices.
var c14ReviewedReaders = map[string]string{
	"(*" + pkgPkgDeploy + ".EachObjectChunker).Chunk":     "phase of the freshly rendered deployment template (inline by construction; this is where slicing happens)",
	"(*" + pkgPkgDeploy + ".BinpackNextFitChunker).Chunk": "phase of the freshly rendered deployment template (inline by construction; this is where slicing happens)",
}

// c14ReaderClosure (A6): every function that reads ObjectSetTemplatePhase.Objects is either
// reached by the value flow from an examined GetPhases() site (and judged there) or reviewed.
func c14ReaderClosure(c *Ctx, covered map[*ssa.Function]bool, outOfScope func(string) bool) {
	p := c.P
	readers := map[*ssa.Function]ssa.Instruction{}
	for _, fn := range p.productFuncs() {
		if outOfScope(funcPkgPath(fn)) {
			continue
		}
		for _, b := range fn.Blocks {
			for _, in := range b.Instrs {
				switch x := in.(type) {
				case *ssa.FieldAddr:
					if namedTypeString(x.X.Type()) != typePhase || fieldName(x.X.Type(), x.Field) != "Objects" {
						continue
					}
					for _, rr := range referrersOf(x) {
						if u, isU := rr.(*ssa.UnOp); isU && u.Op == token.MUL && !c14OnlyMeasured(u) {
							readers[fn] = u
						}
					}
				case *ssa.Field:
					if namedTypeString(x.X.Type()) == typePhase && fieldName(x.X.Type(), x.Field) == "Objects" && !c14OnlyMeasured(x) {
						readers[fn] = x
					}
				}
			}
		}
	}
	var names []string
	n := 0
	for fn, at := range readers {
		n++
		if covered[fn] {
			continue
		}
		if _, ok := c14ReviewedReaders[fn.String()]; ok {
			continue
		}
		names = append(names, shortFuncID(fn))
		c.Ob(fn, "unreviewed-objects-reader", at, "every reader of phase.Objects is reached from an examined GetPhases() site or reviewed").
			Fail("reads ObjectSetTemplatePhase.Objects but is neither reached from an examined GetPhases() consumer nor in the reviewed table (new consumer of phase objects: does it handle .Slices?)")
	}
	o := c.Ob(nil, "objects-reader-closure", nil, "every reader of phase.Objects is reached from an examined GetPhases() site or reviewed")
	switch {
	case n < 6:
		o.Fail("reason=anchor-lost: only %d reader(s) of ObjectSetTemplatePhase.Objects found, at least 6 were confirmed on the pinned tree", n)
	case len(names) > 0:
		sort.Strings(names)
		o.Fail("unreviewed readers: %s", strings.Join(names, ", "))
	default:
		o.OK(fmt.Sprintf("%d functions read phase.Objects; all judged through their GetPhases() source or reviewed", n))
	}
}

// ---------------------------------------------------------------------------------------------
// R4

// concatParts flattens a string concatenation.
func concatParts(v ssa.Value) []ssa.Value {
	if bo, ok := v.(*ssa.BinOp); ok && bo.Op == token.ADD {
		return append(concatParts(bo.X), concatParts(bo.Y)...)
	}
	return []ssa.Value{v}
}

func c14r4(c *Ctx) {
	p := c.P
	fn := c.MustFunc(pkgPkgDeploy, "(*DeploymentReconciler).reconcileSliceWithCollisionCount")
	outer := c.MustFunc(pkgPkgDeploy, "(*DeploymentReconciler).reconcileSlice")
	if fn == nil || outer == nil {
		return
	}
	deploy, slice, count := fn.Params[2], fn.Params[3], fn.Params[4]
	// Inlined view: the naming of the slice and the read of the conflicting slice may live in
	// extracted helpers. Calls are taken from callsInX, values of a helper are interpreted through
	// the chain of helper calls that leads to them (xcResolve), ordering and error facts are lifted
	// through the helper.
	isAccessorOfX := func(v ssa.Value, chain []Call, recv ssa.Value, names ...string) bool {
		for i := len(names) - 1; i >= 0; i-- {
			call, _ := asCall(v)
			if call == nil || calleeName(call.Common()) != names[i] {
				return false
			}
			v = callRecv(call.Common())
		}
		return p.xcResolve(v, chain) == recv
	}
	isAccessorOf := func(v ssa.Value, recv ssa.Value, names ...string) bool {
		return isAccessorOfX(v, nil, recv, names...)
	}
	var create, get *ssa.Call
	var getChain []Call
	for _, xc := range p.callsInX(fn) {
		call := xc.Call
		if ws, ok := classifyWriter(call); ok && ws.Verb == "Create" && len(xc.Chain) == 0 {
			create, _ = call.Instr.(*ssa.Call)
		}
		if isReaderGet(call.Common) {
			get, _ = call.Instr.(*ssa.Call)
			getChain = xc.Chain
		}
	}
	// errNilX: the facts (of fn) establish that the error of call g — possibly made inside the
	// helpers of chain — is nil: the helper call's own error is nil and every return of the helper
	// that can return a nil error does so only when g's error is nil.
	var errNilX func(fs []Fact, g *ssa.Call, chain []Call) bool
	errNilX = func(fs []Fact, g *ssa.Call, chain []Call) bool {
		if len(chain) == 0 {
			return p.errOfCallIsNil(fs, g)
		}
		hc, isCall := chain[0].Instr.(*ssa.Call)
		h := staticCallee(chain[0].Common)
		if !isCall || h == nil || !p.errOfCallIsNil(fs, hc) {
			return false
		}
		ei := -1
		for i := 0; i < h.Signature.Results().Len(); i++ {
			if h.Signature.Results().At(i).Type().String() == "error" {
				ei = i
			}
		}
		if ei < 0 {
			return false
		}
		for _, rc := range p.returnCases(h) {
			if h.Recover != nil && rc.Ret.Block() == h.Recover {
				continue
			}
			if ei >= len(rc.Results) || rc.Results[ei] == nil {
				return false
			}
			res := stripConv(rc.Results[ei])
			if !isNilConst(res) {
				if ec, _ := asCall(res); ec != nil && isCallTo(ec.Common(), "fmt.Errorf", "errors.New") {
					continue
				}
				if p.nilnessFromFacts(rc.Facts, res) == noTri {
					continue
				}
				// the helper passes an error on: it is nil only if it is g's own error
				pvs := p.possibleValues(res)
				own := len(pvs) > 0
				for _, pv := range pvs {
					if pc, _ := asCall(pv); pc != g {
						own = false
					}
				}
				if own && len(chain) == 1 {
					continue
				}
				return false
			}
			if !errNilX(rc.Facts, g, chain[1:]) {
				return false
			}
		}
		return true
	}
	// (1) name
	{
		o := c.Ob(fn, "slice-name-from-content-hash", nil, "the slice is created under the name <deployment name>-<FNV32(slice objects, collision count)>")
		var problems []string
		var setName ssa.Instruction
		for _, xc := range p.callsInX(fn) {
			call := xc.Call
			ch := xc.Chain
			if calleeName(call.Common) != "SetName" || !isAccessorOfX(callRecv(call.Common), ch, slice, "ClientObject") {
				continue
			}
			if setName != nil {
				problems = append(problems, "the slice is named more than once")
			}
			setName = call.Instr
			parts := concatParts(callArgs(call.Common)[0])
			if len(parts) != 3 {
				problems = append(problems, "name is not deployName + \"-\" + hash")
				continue
			}
			if !isAccessorOfX(parts[0], ch, deploy, "ClientObject", "GetName") {
				problems = append(problems, "name prefix is not deploy.ClientObject().GetName()")
			}
			if s, ok := constString(parts[1]); !ok || s != "-" {
				problems = append(problems, "separator is not \"-\"")
			}
			hc, _ := asCall(parts[2])
			if hc == nil || !isCallTo(hc.Common(), pkgUtils+".ComputeFNV32Hash") {
				problems = append(problems, "name suffix is not utils.ComputeFNV32Hash(...)")
				continue
			}
			if !isAccessorOfX(hc.Common().Args[0], ch, slice, "GetObjects") {
				problems = append(problems, "the hash is not computed over slice.GetObjects()")
			}
			okCount := false
			if a, isAlloc := hc.Common().Args[1].(*ssa.Alloc); isAlloc {
				if sts, known := p.storesReaching(a, hc); known && len(sts) == 1 && p.xcResolve(sts[0].Val, ch) == ssa.Value(count) {
					okCount = true
				}
			}
			if !okCount {
				problems = append(problems, "the collision count passed to the hash is not the collisionCount parameter")
			}
		}
		if setName == nil {
			problems = append(problems, "slice.ClientObject().SetName(...) not found")
		}
		if create == nil {
			problems = append(problems, "no Create call")
		} else {
			if !isAccessorOf(callArgs(create.Common())[1], slice, "ClientObject") {
				problems = append(problems, "Create is not applied to slice.ClientObject()")
			}
			if setName != nil && !p.mustPrecedeX(create, func(in ssa.Instruction) bool { return in == setName }) {
				problems = append(problems, "the slice is created before it is named")
			}
		}
		if len(problems) == 0 {
			o.OK()
		} else {
			o.Fail("%s", strings.Join(problems, "; "))
		}
	}
	// (2) accept existing only if own and equal
	collTypes := map[string]bool{} // the collision error type(s) returned by fn
	{
		o := c.Ob(fn, "existing-slice-accepted-only-if-own-and-equal", nil, "success is reported only when Create succeeded, or the existing slice of that name is controlled by the deployment and semantically equal in content; otherwise a collision error is returned")
		var problems []string
		if create == nil || get == nil {
			problems = append(problems, "Create / Get of the conflicting slice not found")
		} else {
			ga := callArgs(get.Common())
			var conflicting ssa.Value
			if oc, _ := asCall(ga[2]); oc != nil && calleeName(oc.Common()) == "ClientObject" {
				conflicting = stripConv(callRecv(oc.Common()))
			}
			if kc, _ := asCall(ga[1]); kc == nil || !isCallTo(kc.Common(), pkgClient+".ObjectKeyFromObject") || !isAccessorOfX(kc.Common().Args[0], getChain, slice, "ClientObject") {
				problems = append(problems, "the conflicting slice is not read under the key of the slice being created")
			}
			if conflicting == nil {
				problems = append(problems, "object read by Get not recognised")
			}
			// isConflicting: v (a value of fn) is the object read by the Get — directly, or as the
			// (non-nil) result of the helper that performs the read
			isConflicting := func(v ssa.Value) bool {
				if conflicting == nil {
					return false
				}
				if stripConv(v) == conflicting {
					return true
				}
				n := 0
				for _, x := range p.rvValuesX(v) {
					x = stripConv(x)
					if isNilConst(x) {
						continue
					}
					if x != conflicting {
						return false
					}
					n++
				}
				return n > 0
			}
			isAccessorOfConflicting := func(v ssa.Value, name string) bool {
				call, _ := asCall(v)
				return call != nil && calleeName(call.Common()) == name && isConflicting(callRecv(call.Common()))
			}
			collisionRet := 0
			for _, rc := range p.returnCases(fn) {
				res := rc.Results[0]
				if !isNilConst(stripConv(res)) {
					// the collision error: a pointer to an error struct declared next to the reconciler
					// (matched against the errors.As target of the retry loop in (3), not by name)
					if mi, ok := res.(*ssa.MakeInterface); ok {
						if pt, isPtr := mi.X.Type().(*types.Pointer); isPtr {
							if nt := namedTypeString(pt.Elem()); strings.HasPrefix(nt, pkgPkgDeploy+".") {
								if _, isStruct := pt.Elem().Underlying().(*types.Struct); isStruct {
									collisionRet++
									collTypes[nt] = true
								}
							}
						}
					}
					continue
				}
				if p.errOfCallIsNil(rc.Facts, create) {
					continue
				}
				// must be: Get ok, IsController(deploy, conflicting) true, DeepEqual(conflicting objs, slice objs) true
				var miss []string
				if !errNilX(rc.Facts, get, getChain) {
					miss = append(miss, "error-free Get of the existing slice")
				}
				ctrl, eq := false, false
				for _, f := range p.xImplied(rc.Facts) {
					if !f.Pol {
						continue
					}
					call, _ := asCall(f.Cond)
					if call == nil {
						continue
					}
					a := callArgs(call.Common())
					switch calleeName(call.Common()) {
					case "IsController":
						if len(a) == 2 && isAccessorOf(p.rvParamRoot(a[0]), deploy, "ClientObject") && isAccessorOfConflicting(p.rvParamRoot(a[1]), "ClientObject") {
							ctrl = true
						}
					case "DeepEqual":
						if len(a) == 2 &&
							((isAccessorOfConflicting(a[0], "GetObjects") && isAccessorOf(a[1], slice, "GetObjects")) ||
								(isAccessorOfConflicting(a[1], "GetObjects") && isAccessorOf(a[0], slice, "GetObjects"))) {
							eq = true
						}
					}
				}
				if !ctrl {
					miss = append(miss, "IsController(deploy, existing)")
				}
				if !eq {
					miss = append(miss, "DeepEqual(existing.GetObjects(), slice.GetObjects())")
				}
				if len(miss) > 0 {
					problems = append(problems, "returns success at "+p.IPos(rc.Ret)+" without "+strings.Join(miss, " and "))
				}
			}
			if collisionRet == 0 {
				problems = append(problems, "no path returns *sliceCollisionError")
			}
		}
		if len(problems) == 0 {
			o.OK()
		} else {
			o.Fail("%s", strings.Join(problems, "; "))
		}
	}
	// (3) retry with next count
	{
		o := c.Ob(outer, "collision-retries-with-next-count", nil, "on a collision error reconcileSlice retries with the collision count incremented by one; it reports success only when the attempt returned nil")
		var problems []string
		var call *ssa.Call
		for _, cc := range callsIn(outer) {
			if staticCallee(cc.Common) == fn {
				call, _ = cc.Instr.(*ssa.Call)
			}
		}
		if call == nil {
			problems = append(problems, "call of reconcileSliceWithCollisionCount not found")
		} else {
			cnt := callArgs(call.Common())[3]
			ph, isPhi := cnt.(*ssa.Phi)
			if !isPhi || len(ph.Edges) != 2 {
				problems = append(problems, "collision count is not a loop-carried counter")
			} else {
				for i, e := range ph.Edges {
					if n, isC := constInt(e); isC {
						if n != 0 {
							problems = append(problems, "collision count does not start at 0")
						}
						continue
					}
					bo, isB := e.(*ssa.BinOp)
					one := int64(0)
					if isB {
						one, _ = constInt(bo.Y)
					}
					if !isB || bo.Op != token.ADD || bo.X != ssa.Value(ph) || one != 1 {
						problems = append(problems, "collision count is not incremented by one")
						continue
					}
					// the retry edge is under errors.As(err, **sliceCollisionError) == true
					fs := p.FactsOnEdge(ph.Block().Preds[i], ph.Block())
					okAs := false
					for _, f := range fs {
						ac, _ := asCall(f.Cond)
						if f.Pol && ac != nil && isCallTo(ac.Common(), "errors.As") && ac.Common().Args[0] == ssa.Value(call) {
							// target is **T with *T the collision error type returned by the attempt
							if pp, isPP := stripConv(ac.Common().Args[1]).Type().(*types.Pointer); isPP {
								if pt, isPtr := pp.Elem().(*types.Pointer); isPtr && collTypes[namedTypeString(pt.Elem())] {
									okAs = true
								}
							}
						}
					}
					if !okAs {
						problems = append(problems, "the retry is not guarded by errors.As(err, *sliceCollisionError)")
					}
				}
			}
			for _, rc := range p.returnCases(outer) {
				res := rc.Results[0]
				if isNilConst(stripConv(res)) {
					if p.nilnessFromFacts(rc.Facts, call) != yesTri {
						problems = append(problems, "reports success although the attempt may have failed")
					}
				} else if stripConv(res) != ssa.Value(call) {
					if inner, _ := asCall(res); inner == nil || !strings.HasSuffix(calleeID(inner.Common()), "fmt.Errorf") {
						problems = append(problems, "returns an error other than the attempt's")
					}
				}
			}
		}
		if len(problems) == 0 {
			o.OK()
		} else {
			o.Fail("%s", strings.Join(problems, "; "))
		}
	}
}

// ---------------------------------------------------------------------------------------------
// R5

func c14r5(c *Ctx) {
	p := c.P
	gc := c.MustFunc(pkgPkgDeploy, "(*DeploymentReconciler).sliceGarbageCollection")
	rec := c.MustFunc(pkgPkgDeploy, "(*DeploymentReconciler).Reconcile")
	lister := c.MustFunc(pkgPkgDeploy, "(*DeploymentReconciler).listObjectSetsForDeployment")
	if gc == nil || rec == nil || lister == nil {
		return
	}
	deploy := gc.Params[2]
	var del *WriterSite
	for _, ws := range allWriterSites([]*ssa.Function{gc}) {
		if ws.Verb == "Delete" {
			w := ws
			if del != nil {
				c.Ob(gc, "gc-delete-guard", ws.Call.Instr, "one delete site").Unknown("more than one Delete in sliceGarbageCollection")
				return
			}
			del = &w
		}
	}
	if del == nil {
		c.AnchorLost("Delete call in sliceGarbageCollection")
		return
	}
	// (1) guard: !referenced where referenced = set[slice.ClientObject().GetName()]
	var set ssa.Value
	var deleted ssa.Value // the item (accessor) being deleted
	{
		o := c.Ob(gc, "gc-delete-guard", del.Call.Instr, "a slice is deleted only when its name is not in the referenced set")
		var problems []string
		if oc, _ := asCall(del.Obj); oc != nil && calleeName(oc.Common()) == "ClientObject" {
			deleted = stripConv(callRecv(oc.Common()))
		}
		if deleted == nil {
			problems = append(problems, "deleted object is not <item>.ClientObject()")
		}
		for _, f := range p.FactsAt(del.Call.Block()) {
			e, isE := f.Cond.(*ssa.Extract)
			if !isE || e.Index != 1 || f.Pol {
				continue
			}
			lk, isL := e.Tuple.(*ssa.Lookup)
			if !isL || !lk.CommaOk {
				continue
			}
			nc, _ := asCall(lk.Index)
			if nc == nil || calleeName(nc.Common()) != "GetName" {
				continue
			}
			co, _ := asCall(callRecv(nc.Common()))
			if co == nil || calleeName(co.Common()) != "ClientObject" || deleted == nil || !p.sameValue(stripConv(callRecv(co.Common())), deleted) {
				continue
			}
			set = lk.X
		}
		if set == nil {
			problems = append(problems, "the Delete is not dominated by the failed lookup of the deleted slice's name in the referenced set")
		}
		if len(problems) == 0 {
			o.OK("guard: !ok of " + p.describe(set) + "[slice.ClientObject().GetName()]")
		} else {
			o.Fail("%s", strings.Join(problems, "; "))
		}
	}
	// inserts into the set, classified by where the key comes from
	type ins struct {
		mu   *ssa.MapUpdate
		from string // "template" | "objectsets" | ""
	}
	var inserts []ins
	var listCall *ssa.Call
	for _, call := range callsIn(gc) {
		if staticCallee(call.Common) == lister {
			listCall, _ = call.Instr.(*ssa.Call)
		}
	}
	// The set may be built by an extracted helper (`referenced := collectX(deploy, objectSets)`): it is
	// resolved through the helper's result to the map object; the inserts and their loops are then
	// judged inside the helper, whose call necessarily precedes the guarded delete.
	var setObj ssa.Value
	var setFn *ssa.Function
	if set != nil {
		if xs := p.rvValuesX(set); len(xs) == 1 {
			setObj = stripConv(xs[0])
			if in, isInstr := setObj.(ssa.Instruction); isInstr {
				setFn = in.Parent()
			}
		}
		if setFn != nil && setFn != gc {
			// only a helper called directly for the set is followed
			hc, _ := asCall(set)
			if hc == nil || staticCallee(hc.Common()) != setFn {
				setFn = nil
			}
		}
		if setFn != nil {
			for _, r := range referrersOf(setObj) {
				mu, ok := r.(*ssa.MapUpdate)
				if !ok || mu.Map != setObj {
					continue
				}
				inserts = append(inserts, ins{mu: mu, from: c14SliceNameOrigin(p, mu.Key, deploy, listCall)})
			}
		}
	}
	completeBefore := func(mu *ssa.MapUpdate) string {
		// all enclosing loops of the insert are complete index loops and are finished before the delete
		b := mu.Block()
		fnm := mu.Parent()
		var outermost *Loop
		for _, l := range loopsOf(fnm) {
			if l.Body[b] && (outermost == nil || len(l.Body) > len(outermost.Body)) {
				outermost = l
			}
		}
		for _, l := range loopsOf(fnm) {
			if !l.Body[b] {
				continue
			}
			if _, why := fullIndexLoop(l); why != "" {
				return "insert loop is not a complete index loop: " + why
			}
			if fnm == gc {
				if l.Body[del.Call.Block()] {
					return "the delete happens inside the insert loop"
				}
				if l.Head == outermost.Head && !l.Head.Dominates(del.Call.Block()) {
					return "the insert loop does not precede the delete on every path"
				}
			} else if l.Head == outermost.Head {
				// inside the helper the loop must lie on every path to the helper's returns
				for _, rb := range fnm.Blocks {
					if len(rb.Instrs) == 0 || (fnm.Recover != nil && rb == fnm.Recover) {
						continue
					}
					if _, isRet := rb.Instrs[len(rb.Instrs)-1].(*ssa.Return); isRet && (!l.Head.Dominates(rb) || l.Body[rb]) {
						return "the insert loop does not precede the return of the set on every path"
					}
				}
			}
			// no iteration may skip the insert (innermost loop) / the next inner loop (enclosing loops)
			var must ssa.Instruction = mu
			if innermostLoop(fnm, b).Head != l.Head {
				var inner *Loop
				for _, l2 := range loopsOf(fnm) {
					if l2.Body[b] && l2.Head != l.Head && l.Body[l2.Head] && (inner == nil || len(l2.Body) > len(inner.Body)) {
						inner = l2
					}
				}
				if inner == nil {
					return "nested loop structure not recognised"
				}
				must = inner.Head.Instrs[0]
			}
			if !everyIterationPasses(l, must) {
				return "some iteration skips the insert"
			}
		}
		return ""
	}
	for _, want := range []struct{ key, what string }{
		{"template", "referenced-from-template"},
		{"objectsets", "referenced-from-objectsets"},
	} {
		stmt := "the referenced set receives every slice name of the deployment's template phases"
		if want.key == "objectsets" {
			stmt = "the referenced set receives every slice name of every ObjectSet returned by listObjectSetsForDeployment, whose error aborts GC"
		}
		o := c.Ob(gc, want.what, nil, stmt)
		if set == nil {
			o.Fail("referenced set not identified")
			continue
		}
		var problems []string
		found := false
		for _, in := range inserts {
			if in.from != want.key {
				continue
			}
			found = true
			if why := completeBefore(in.mu); why != "" {
				problems = append(problems, why)
			}
		}
		if !found {
			problems = append(problems, "no insert of slice names from this source into the referenced set")
		}
		if want.key == "objectsets" {
			if listCall == nil {
				problems = append(problems, "listObjectSetsForDeployment is not called")
			} else if !p.errOfCallIsNil(p.FactsAt(del.Call.Block()), listCall) {
				problems = append(problems, "slices can be deleted although listing the ObjectSets failed")
			} else if a := callArgs(listCall.Common()); len(a) != 2 || a[1] != ssa.Value(deploy) {
				problems = append(problems, "ObjectSets are listed for a different deployment")
			}
		}
		if len(problems) == 0 {
			o.OK()
		} else {
			o.Fail("%s", strings.Join(problems, "; "))
		}
	}
	// (4) GC only after the deployment update succeeded
	{
		o := c.Ob(rec, "gc-after-update", nil, "slice GC runs only after the deployment (with the new slice references) was updated successfully")
		var problems []string
		// Every call site of the GC is judged on its own: the normaliser's tail duplication (and any
		// hand-written early-return structure) may leave one copy of the call per path, each of which
		// must be preceded by the successful update. Call sites outside Reconcile are not judged here
		// and therefore fail closed.
		var gcCalls []ssa.Instruction
		for _, call := range callsIn(rec) {
			if staticCallee(call.Common) == gc {
				gcCalls = append(gcCalls, call.Instr)
			}
		}
		for _, cl := range p.callersOf(gc) {
			if !isNonProductPkg(funcPkgPath(cl.Fn)) && cl.Fn != rec {
				problems = append(problems, fmt.Sprintf("sliceGarbageCollection is also called from %s (%s), where the update is not known to have succeeded", shortFuncID(cl.Fn), p.IPos(cl.Instr)))
			}
		}
		if len(gcCalls) == 0 {
			problems = append(problems, "GC is not called from Reconcile")
		}
		seenBad := map[string]bool{}
		for _, gcCall := range gcCalls {
			okUpd := false
			for _, call := range callsIn(rec) {
				cv, isCall := call.Instr.(*ssa.Call)
				if !isCall || !strings.HasSuffix(calleeID(call.Common), "util/retry.RetryOnConflict") {
					continue
				}
				// closure argument contains the Update of the deployment
				hasUpdate := false
				for _, a := range call.Common.Args {
					if mc, isMC := a.(*ssa.MakeClosure); isMC {
						if g, isF := mc.Fn.(*ssa.Function); isF {
							for _, ws := range allWriterSites([]*ssa.Function{g}) {
								if ws.Verb == "Update" {
									hasUpdate = true
								}
							}
						}
					}
				}
				if hasUpdate && p.errOfCallIsNil(p.FactsAt(gcCall.Block()), cv) {
					okUpd = true
				}
			}
			if !okUpd {
				// direct Update without retry wrapper
				for _, ws := range allWriterSites([]*ssa.Function{rec}) {
					if cv, isCall := ws.Call.Instr.(*ssa.Call); isCall && ws.Verb == "Update" && p.errOfCallIsNil(p.FactsAt(gcCall.Block()), cv) {
						okUpd = true
					}
				}
			}
			if !okUpd {
				msg := "GC (" + p.IPos(gcCall) + ") can run although updating the deployment failed or did not happen"
				if !seenBad[msg] {
					seenBad[msg] = true
					problems = append(problems, msg)
				}
			}
		}
		if len(problems) == 0 {
			o.OK()
		} else {
			o.Fail("%s", strings.Join(problems, "; "))
		}
	}
	// (5) candidates: only slices labelled with this deployment, in its namespace; deleted item comes from that list
	{
		o := c.Ob(gc, "gc-lists-own-slices", nil, "GC candidates are the slices labelled slices.package-operator.run/owner=<deployment name> in the deployment's namespace, and only listed items are deleted")
		var problems []string
		var list *ssa.Call
		for _, call := range callsIn(gc) {
			if call.Common.IsInvoke() && call.Common.Method.Name() == "List" {
				list, _ = call.Instr.(*ssa.Call)
			}
		}
		if list == nil {
			problems = append(problems, "List of candidate slices not found")
		} else {
			a := callArgs(list.Common())
			opts, ok := sliceElems(a[len(a)-1])
			labelOK, nsOK := false, false
			if ok {
				for _, opt := range opts {
					var ov ssa.Value = opt
					if mi, isMI := opt.(*ssa.MakeInterface); isMI {
						ov = mi.X
					}
					switch namedTypeString(ov.Type()) {
					case pkgClient + ".MatchingLabels":
						kv, okM := mapLiteral(ov)
						if okM && len(kv) == 1 {
							for k, v := range kv {
								if k == "slices.package-operator.run/owner" {
									if nc, _ := asCall(v); nc != nil && calleeName(nc.Common()) == "GetName" {
										if co, _ := asCall(callRecv(nc.Common())); co != nil && calleeName(co.Common()) == "ClientObject" && stripConv(callRecv(co.Common())) == ssa.Value(deploy) {
											labelOK = true
										}
									}
								}
							}
						}
					case pkgClient + ".InNamespace":
						if ct, isCT := ov.(*ssa.ChangeType); isCT {
							ov = ct.X
						}
						if nc, _ := asCall(ov); nc != nil && calleeName(nc.Common()) == "GetNamespace" {
							if co, _ := asCall(callRecv(nc.Common())); co != nil && calleeName(co.Common()) == "ClientObject" && stripConv(callRecv(co.Common())) == ssa.Value(deploy) {
								nsOK = true
							}
						}
					}
				}
			}
			if !labelOK {
				problems = append(problems, "candidates are not restricted to the owner label of this deployment")
			}
			if !nsOK {
				problems = append(problems, "candidates are not restricted to the deployment's namespace")
			}
			if !p.errOfCallIsNil(p.FactsAt(del.Call.Block()), list) {
				problems = append(problems, "delete can run after a failed List")
			}
			// deleted item = element of <list>.GetItems() where <list>.ClientObjectList() was the List argument
			okItem := false
			if lo, _ := asCall(a[1]); lo != nil && calleeName(lo.Common()) == "ClientObjectList" && deleted != nil {
				listAcc := stripConv(callRecv(lo.Common()))
				if il, _ := loopAt(gc, del.Call.Block()); il != nil && p.isElemOf(deleted, il) {
					if ic, _ := asCall(il.Slice); ic != nil && calleeName(ic.Common()) == "GetItems" && stripConv(callRecv(ic.Common())) == listAcc {
						okItem = true
					}
				}
			}
			if !okItem {
				problems = append(problems, "the deleted object is not an item of the label-selected list")
			}
		}
		if len(problems) == 0 {
			o.OK()
		} else {
			o.Fail("%s", strings.Join(problems, "; "))
		}
	}
}

// c14SameX: a and b denote the same object once parameters of extracted helpers are replaced by the
// arguments of their single call site (identity of the producing instruction, not of a pure-accessor key).
func c14SameX(p *Program, a, b ssa.Value) bool {
	return p.rvParamRoot(a) == p.rvParamRoot(b)
}

// c14SliceNameOrigin classifies the key inserted into the referenced set: an element of the
// .Slices of a phase of deploy.GetTemplateSpec() ("template") or of <objectSets[i]>.GetPhases()
// where objectSets is result 0 of the lister ("objectsets").
func c14SliceNameOrigin(p *Program, key ssa.Value, deploy *ssa.Parameter, listCall *ssa.Call) string {
	v := stripConv(key)
	// key = *(&slices[j]); slices = *(&phase.Slices); phase = local copy of *(&phases[i])
	step := func(v ssa.Value) ssa.Value {
		switch x := v.(type) {
		case *ssa.UnOp:
			if x.Op != token.MUL {
				return nil
			}
			switch a := x.X.(type) {
			case *ssa.IndexAddr:
				return a.X
			case *ssa.FieldAddr:
				return a.X
			case *ssa.Alloc:
				if src, ok := p.loadSource(x); ok {
					return src
				}
				// field store into a local copy: find the whole-value store
				return nil
			}
		case *ssa.Alloc:
			sts := []*ssa.Store{}
			for _, r := range referrersOf(x) {
				if st, ok := r.(*ssa.Store); ok && st.Addr == ssa.Value(x) {
					sts = append(sts, st)
				}
			}
			if len(sts) == 1 {
				return sts[0].Val
			}
		case *ssa.IndexAddr:
			// `phases[i].Slices` read in place (no per-iteration copy of the phase)
			return x.X
		case *ssa.FieldAddr:
			return x.X
		case *ssa.Field:
			return x.X
		case *ssa.Index:
			return x.X
		case *ssa.Extract:
			return x.Tuple
		}
		return nil
	}
	// every element taken on the way is the element of the current iteration of a complete index loop
	// over that very slice (s[0] inside `for i := range s` is one element, not every element)
	iterElem := func(ia *ssa.IndexAddr) bool {
		for _, l := range loopsOf(ia.Parent()) {
			if !l.Body[ia.Block()] {
				continue
			}
			if il, _ := fullIndexLoop(l); il != nil && il.Index == ia.Index && (il.Slice == ia.X || p.sameValue(il.Slice, ia.X)) {
				return true
			}
		}
		return false
	}
	sawSlices := false
	for i := 0; i < 14 && v != nil; i++ {
		var via *ssa.IndexAddr
		switch x := v.(type) {
		case *ssa.IndexAddr:
			via = x
		case *ssa.UnOp:
			via, _ = x.X.(*ssa.IndexAddr)
		}
		if via != nil && !iterElem(via) {
			return ""
		}
		if u, ok := v.(*ssa.UnOp); ok && u.Op == token.MUL {
			if fa, isFA := u.X.(*ssa.FieldAddr); isFA && namedTypeString(fa.X.Type()) == typePhase && fieldName(fa.X.Type(), fa.Field) == "Slices" {
				sawSlices = true
			}
		}
		if call, ok := v.(*ssa.Call); ok {
			if !sawSlices {
				return ""
			}
			switch calleeName(call.Common()) {
			case "GetTemplateSpec":
				if r := stripConv(callRecv(call.Common())); r == ssa.Value(deploy) || c14SameX(p, r, deploy) {
					return "template"
				}
				return ""
			case "GetPhases":
				// receiver = element of result 0 of the lister
				r := stripConv(callRecv(call.Common()))
				if u, isU := r.(*ssa.UnOp); isU {
					if ia, isIA := u.X.(*ssa.IndexAddr); isIA {
						lst := p.rvParamRoot(ia.X) // the list may arrive as a parameter of an extracted helper
						if e, isE := lst.(*ssa.Extract); isE && e.Index == 0 && listCall != nil && e.Tuple == ssa.Value(listCall) {
							return "objectsets"
						}
					}
				}
				return ""
			}
			return ""
		}
		v = step(v)
	}
	return ""
}

// c14OnlyMeasured: the loaded Objects slice is used for nothing but len()/cap() whose result goes
// straight into an `any` argument (a log key/value) — that is not a consumer of the phase's objects.
// A count that is added up, compared or returned still is one.
func c14OnlyMeasured(v ssa.Value) bool {
	refs := referrersOf(v)
	if len(refs) == 0 {
		return false
	}
	for _, r := range refs {
		ci, ok := r.(ssa.CallInstruction)
		if !ok {
			if _, isDbg := r.(*ssa.DebugRef); isDbg {
				continue
			}
			return false
		}
		b, isB := ci.Common().Value.(*ssa.Builtin)
		if !isB || (b.Name() != "len" && b.Name() != "cap") {
			return false
		}
		val := ci.Value()
		if val == nil {
			return false
		}
		uses := referrersOf(val)
		if len(uses) == 0 {
			return false
		}
		for _, u := range uses {
			switch u.(type) {
			case *ssa.MakeInterface, *ssa.DebugRef:
			default:
				return false
			}
		}
	}
	return true
}
