package main

import (
	"fmt"
	"go/ast"
	"go/token"
	"go/types"
	"os"
	"sort"
	"strings"
)

// Normalisation pre-pass, part four: undo "a few locals collected into a local record".
//
// A refactoring that replaces `var paused, unknown bool` by `var st pauseState` (a struct type added
// for the purpose) and `paused` by `st.paused` changes nothing, but go/ssa keeps such a variable in
// memory (an Alloc with per-field stores and loads) where the separate locals were registers joined
// by Phis — the form every rule and the fact engine read. The rewrite below is scalar replacement at
// source level, applied only where it is exact:
//
//   - the variable is a local declared by `var v T`, `var v = T{…}` or `v := T{…}` directly in a
//     block, T is a struct type without embedded fields that is NOT part of the recorded tree (a new
//     named type of the package, a type declared inside the function, or an anonymous struct);
//   - every other use of v is `v.f` (a direct field selection; also as an assignment target or under
//     `&`) or the target of `v = T{…}`;
//
// each field becomes the local `v_f` (declared with the field's zero value `T{}.f`, so that no type
// has to be written out), literals become tuple assignments (all operands are evaluated before any
// field is written, in source order, as in the literal). Positions are kept by //line comments.
func (p *Program) localRecordOverlay(current map[string][]byte) (map[string][]byte, []string) {
	rec := recordedDecls()
	if len(rec) < 10 {
		return nil, nil
	}
	edits := map[string][]fileEdit{}
	var notes []string
	for _, pk := range p.Pkgs {
		if pk.Types == nil || isNonProductPkg(pk.PkgPath) {
			continue
		}
		old, known := rec[pk.PkgPath]
		info := pk.TypesInfo
		for _, f := range pk.Syntax {
			fname := p.Fset.PositionFor(f.Pos(), false).Filename
			if strings.HasSuffix(fname, "_test.go") {
				continue
			}
			src := current[fname]
			if src == nil {
				src, _ = os.ReadFile(fname)
			}
			off := func(pos token.Pos) int { return p.Fset.PositionFor(pos, false).Offset }
			text := func(a, b token.Pos) string { return string(src[off(a):off(b)]) }
			lineDir := func(pos token.Pos) string {
				ps := p.Fset.PositionFor(pos, false)
				return fmt.Sprintf("/*line %s:%d:%d*/", ps.Filename, ps.Line, ps.Column)
			}
			importNames := map[string]string{} // package path -> name in this file
			for _, is := range f.Imports {
				var pn *types.PkgName
				if is.Name != nil {
					pn, _ = info.Defs[is.Name].(*types.PkgName)
				} else {
					pn, _ = info.Implicits[is].(*types.PkgName)
				}
				if pn != nil && pn.Name() != "_" && pn.Name() != "." {
					importNames[pn.Imported().Path()] = pn.Name()
				}
			}
			idents := map[string]bool{}
			ast.Inspect(f, func(n ast.Node) bool {
				if id, ok := n.(*ast.Ident); ok {
					idents[id.Name] = true
				}
				return true
			})
			// parents
			parent := map[ast.Node]ast.Node{}
			var stack []ast.Node
			ast.Inspect(f, func(n ast.Node) bool {
				if n == nil {
					stack = stack[:len(stack)-1]
					return true
				}
				if len(stack) > 0 {
					parent[n] = stack[len(stack)-1]
				}
				stack = append(stack, n)
				return true
			})
			inBlock := func(st ast.Stmt) bool {
				switch parent[st].(type) {
				case *ast.BlockStmt, *ast.CaseClause, *ast.CommClause:
					return true
				}
				return false
			}
			eligibleType := func(t types.Type, typeExpr ast.Expr) (*types.Struct, bool) {
				st, ok := t.Underlying().(*types.Struct)
				if !ok || st.NumFields() == 0 {
					return nil, false
				}
				for i := 0; i < st.NumFields(); i++ {
					if st.Field(i).Embedded() || st.Field(i).Name() == "_" {
						return nil, false
					}
				}
				switch tt := types.Unalias(t).(type) {
				case *types.Named:
					o := tt.Obj()
					if o.Pkg() != pk.Types || tt.TypeArgs().Len() > 0 {
						return nil, false
					}
					if o.Parent() == pk.Types.Scope() && known {
						if _, recorded := old.Types[o.Name()]; recorded {
							return nil, false
						}
					}
				case *types.Struct:
				default:
					return nil, false
				}
				// the type expression must be a plain identifier or a struct type (re-usable as `T{}`)
				switch ast.Unparen(typeExpr).(type) {
				case *ast.Ident, *ast.StructType:
					return st, true
				}
				return nil, false
			}
			type cand struct {
				obj      *types.Var
				st       *types.Struct
				typeText string
				declStmt ast.Stmt
				lit      *ast.CompositeLit // initialiser, may be nil
				fn       string
			}
			var cands []*cand
			var funcName string
			ast.Inspect(f, func(n ast.Node) bool {
				switch x := n.(type) {
				case *ast.FuncDecl:
					funcName = x.Name.Name
				case *ast.DeclStmt:
					gd, ok := x.Decl.(*ast.GenDecl)
					if !ok || gd.Tok != token.VAR || len(gd.Specs) != 1 || !inBlock(x) {
						return true
					}
					vs := gd.Specs[0].(*ast.ValueSpec)
					if len(vs.Names) != 1 || len(vs.Values) > 1 || vs.Names[0].Name == "_" {
						return true
					}
					obj, _ := info.Defs[vs.Names[0]].(*types.Var)
					if obj == nil {
						return true
					}
					var lit *ast.CompositeLit
					typeExpr := vs.Type
					if len(vs.Values) == 1 {
						lit, _ = ast.Unparen(vs.Values[0]).(*ast.CompositeLit)
						if lit == nil || lit.Type == nil {
							return true
						}
						if typeExpr == nil {
							typeExpr = lit.Type
						}
					}
					if typeExpr == nil {
						return true
					}
					if st, ok := eligibleType(obj.Type(), typeExpr); ok {
						cands = append(cands, &cand{obj: obj, st: st, typeText: text(typeExpr.Pos(), typeExpr.End()), declStmt: x, lit: lit, fn: funcName})
					}
				case *ast.AssignStmt:
					if x.Tok != token.DEFINE || len(x.Lhs) != 1 || len(x.Rhs) != 1 || !inBlock(x) {
						return true
					}
					id, ok := x.Lhs[0].(*ast.Ident)
					if !ok || id.Name == "_" {
						return true
					}
					obj, _ := info.Defs[id].(*types.Var)
					lit, _ := ast.Unparen(x.Rhs[0]).(*ast.CompositeLit)
					if obj == nil || lit == nil || lit.Type == nil {
						return true
					}
					if st, ok := eligibleType(obj.Type(), lit.Type); ok {
						cands = append(cands, &cand{obj: obj, st: st, typeText: text(lit.Type.Pos(), lit.Type.End()), declStmt: x, lit: lit, fn: funcName})
					}
				}
				return true
			})
			for _, c := range cands {
				// literal elements -> field index
				litFields := func(lit *ast.CompositeLit) (map[int]ast.Expr, bool) {
					out := map[int]ast.Expr{}
					for i, e := range lit.Elts {
						if kv, ok := e.(*ast.KeyValueExpr); ok {
							k, ok := kv.Key.(*ast.Ident)
							if !ok {
								return nil, false
							}
							idx := -1
							for j := 0; j < c.st.NumFields(); j++ {
								if c.st.Field(j).Name() == k.Name {
									idx = j
								}
							}
							if idx < 0 {
								return nil, false
							}
							out[idx] = kv.Value
						} else {
							if i >= c.st.NumFields() {
								return nil, false
							}
							out[i] = e
						}
					}
					return out, true
				}
				names := make([]string, c.st.NumFields())
				okNames := true
				for i := range names {
					names[i] = c.obj.Name() + "_" + c.st.Field(i).Name()
					if idents[names[i]] {
						okNames = false
					}
				}
				if !okNames {
					continue
				}
				var ces []fileEdit
				ok := true
				// uses
				ast.Inspect(f, func(n ast.Node) bool {
					id, isID := n.(*ast.Ident)
					if !isID || info.Uses[id] != types.Object(c.obj) {
						return true
					}
					switch par := parent[id].(type) {
					case *ast.SelectorExpr:
						sel := info.Selections[par]
						if par.X == ast.Expr(id) && sel != nil && sel.Kind() == types.FieldVal && len(sel.Index()) == 1 {
							ces = append(ces, fileEdit{off(par.Pos()), off(par.End()), names[sel.Index()[0]]})
							return true
						}
					case *ast.AssignStmt:
						if par.Tok == token.ASSIGN && len(par.Lhs) == 1 && len(par.Rhs) == 1 && par.Lhs[0] == ast.Expr(id) {
							if lit, isLit := ast.Unparen(par.Rhs[0]).(*ast.CompositeLit); isLit && lit.Type != nil && types.Identical(info.TypeOf(lit), c.obj.Type()) {
								if fields, fok := litFields(lit); fok {
									var rhs []string
									for i := range names {
										if e, has := fields[i]; has {
											rhs = append(rhs, lineDir(e.Pos())+text(e.Pos(), e.End()))
										} else {
											rhs = append(rhs, "("+c.typeText+"{})."+c.st.Field(i).Name())
										}
									}
									ces = append(ces, fileEdit{off(par.Pos()), off(par.End()), strings.Join(names, ", ") + " = " + strings.Join(rhs, ", ") + lineDir(par.End())})
									return true
								}
							}
						}
					}
					ok = false
					return true
				})
				if !ok {
					continue
				}
				// declaration: `var v_f T_f` when the field types can be written with this file's import
				// names (the SSA zero value is then a plain typed constant), else `v_f := (T{}).f`
				var zero, typed []string
				typesOK := true
				for i := range names {
					zero = append(zero, "("+c.typeText+"{})."+c.st.Field(i).Name())
					ts := types.TypeString(c.st.Field(i).Type(), func(other *types.Package) string {
						if other == pk.Types {
							return ""
						}
						if n, ok := importNames[other.Path()]; ok {
							return n
						}
						typesOK = false
						return other.Name()
					})
					typed = append(typed, "var "+names[i]+" "+ts)
				}
				decl := strings.Join(names, ", ") + " := " + strings.Join(zero, ", ")
				if typesOK {
					decl = strings.Join(typed, "; ")
				}
				decl += "; " + strings.Repeat("_, ", len(names)-1) + "_ = " + strings.Join(names, ", ")
				if c.lit != nil && len(c.lit.Elts) > 0 {
					fields, fok := litFields(c.lit)
					if !fok {
						continue
					}
					var lhs, rhs []string
					for i := range names {
						if e, has := fields[i]; has {
							lhs = append(lhs, names[i])
							rhs = append(rhs, lineDir(e.Pos())+text(e.Pos(), e.End()))
						}
					}
					decl += "; " + strings.Join(lhs, ", ") + " = " + strings.Join(rhs, ", ")
				}
				// uses inside the initialiser literal were collected as edits as well: they are replaced
				// as part of the declaration text, so drop the ones that lie inside the declaration
				ds, de := off(c.declStmt.Pos()), off(c.declStmt.End())
				inner := false
				for _, e := range ces {
					if e.start >= ds && e.end <= de {
						inner = true
					}
				}
				if inner {
					continue
				}
				ces = append(ces, fileEdit{ds, de, decl + lineDir(c.declStmt.End())})
				// nested edits (a use inside the literal of a re-assignment) cannot be combined textually
				sort.Slice(ces, func(i, j int) bool { return ces[i].start < ces[j].start })
				overlap := false
				for i := 1; i < len(ces); i++ {
					if ces[i].start < ces[i-1].end {
						overlap = true
					}
				}
				if overlap {
					continue
				}
				// must not overlap with edits of another candidate of this file
				for _, e := range edits[fname] {
					for _, n := range ces {
						if n.start < e.end && e.start < n.end {
							overlap = true
						}
					}
				}
				if overlap {
					continue
				}
				edits[fname] = append(edits[fname], ces...)
				notes = append(notes, fmt.Sprintf("local record %s (%s) of %s.%s split into %d locals", c.obj.Name(), c.typeText, shortPkg(pk.PkgPath), c.fn, len(names)))
			}
		}
	}
	if len(edits) == 0 {
		return nil, nil
	}
	out := map[string][]byte{}
	for fname, es := range edits {
		src := current[fname]
		if src == nil {
			src, _ = os.ReadFile(fname)
		}
		sort.SliceStable(es, func(i, j int) bool { return es[i].start > es[j].start })
		buf := string(src)
		for _, e := range es {
			if e.end > len(buf) {
				return nil, nil
			}
			buf = buf[:e.start] + e.text + buf[e.end:]
		}
		out[fname] = []byte(buf)
	}
	sort.Strings(notes)
	return out, notes
}
