package main

import (
	_ "embed"
	"encoding/json"
	"fmt"
	"go/ast"
	"go/types"
	"os"
	"regexp"
	"sort"
	"strings"

	"golang.org/x/tools/go/packages"
)

// Normalisation pre-pass, part 1: undo pure renames of types, struct fields, package-level variables
// and constants.
//
// Rules, frozen tables and obligation keys name types and fields of the pinned tree
// ("dynamiccache.mapEntry.StopCh", "controllers.recordingProbe.failures"). A pure rename is a
// behaviour-preserving edit and must not turn into an alarm. decls.json records, per workspace
// package of the pinned tree, every named type (kind, fields with types, method names) and every
// package-level variable/constant (type, initialiser). At load time every recorded declaration that
// no longer exists under its name is matched against the declarations of the same package that are
// new; an unambiguous structural match makes the loader rewrite (in memory, as a go/packages overlay)
// every identifier that resolves to the new declaration back to the recorded name — an
// alpha-conversion, so the rewritten program has the same behaviour as the tree on disk. A rename
// that cannot be matched unambiguously, would be captured by a local of the same name, or whose
// rewritten program does not type-check is left as it is (rules then see the new names and fail
// loudly where they depend on the old one, as before).
//
// Function and method renames are handled by fingerprints (anchors.go) after this pass has restored
// the receiver and parameter type names.

//go:embed decls.json
var declsJSON []byte

type declField struct {
	Name     string `json:"name"`
	Type     string `json:"type"`
	Embedded bool   `json:"embedded,omitempty"`
}

type declType struct {
	Kind    string      `json:"kind"` // struct | interface | other
	Under   string      `json:"under,omitempty"`
	Fields  []declField `json:"fields,omitempty"`
	Methods []string    `json:"methods,omitempty"`
	TParams int         `json:"tparams,omitempty"`
}

type declVar struct {
	Type  string `json:"type"`
	Init  string `json:"init,omitempty"`
	Const bool   `json:"const,omitempty"`
}

type declPkg struct {
	Types map[string]declType `json:"types"`
	Vars  map[string]declVar  `json:"vars"`
}

func fullQualifier(p *types.Package) string { return p.Path() }

func describeType(tn *types.TypeName) declType {
	dt := declType{Kind: "other"}
	named, _ := tn.Type().(*types.Named)
	if named != nil && named.TypeParams() != nil {
		dt.TParams = named.TypeParams().Len()
	}
	switch u := tn.Type().Underlying().(type) {
	case *types.Struct:
		dt.Kind = "struct"
		for i := 0; i < u.NumFields(); i++ {
			f := u.Field(i)
			dt.Fields = append(dt.Fields, declField{Name: f.Name(), Type: types.TypeString(f.Type(), fullQualifier), Embedded: f.Embedded()})
		}
	case *types.Interface:
		dt.Kind = "interface"
		dt.Under = types.TypeString(u, fullQualifier)
	default:
		dt.Under = types.TypeString(u, fullQualifier)
	}
	if named != nil {
		for i := 0; i < named.NumMethods(); i++ {
			dt.Methods = append(dt.Methods, named.Method(i).Name())
		}
		sort.Strings(dt.Methods)
	}
	return dt
}

// pkgVarInits maps package-level var/const objects to the text of their initialiser (literal text
// kept: types.ExprString elides it).
func pkgVarInits(pk *packages.Package) map[types.Object]string {
	out := map[types.Object]string{}
	for _, f := range pk.Syntax {
		for _, d := range f.Decls {
			gd, ok := d.(*ast.GenDecl)
			if !ok {
				continue
			}
			for _, sp := range gd.Specs {
				vs, ok := sp.(*ast.ValueSpec)
				if !ok {
					continue
				}
				for i, nm := range vs.Names {
					obj := pk.TypesInfo.Defs[nm]
					if obj == nil {
						continue
					}
					if len(vs.Values) == len(vs.Names) {
						out[obj] = exprText(pk, vs.Values[i])
					} else if len(vs.Values) == 1 {
						out[obj] = fmt.Sprintf("%s#%d", exprText(pk, vs.Values[0]), i)
					}
				}
			}
		}
	}
	return out
}

func exprText(pk *packages.Package, e ast.Expr) string {
	// constants: the value; otherwise a structural rendering with literal values
	if tv, ok := pk.TypesInfo.Types[e]; ok && tv.Value != nil {
		return tv.Value.ExactString()
	}
	var sb strings.Builder
	ast.Inspect(e, func(n ast.Node) bool {
		switch x := n.(type) {
		case *ast.BasicLit:
			sb.WriteString(x.Value)
			sb.WriteByte(' ')
		case *ast.Ident:
			sb.WriteString(x.Name)
			sb.WriteByte(' ')
		}
		return true
	})
	return sb.String()
}

func describePkg(pk *packages.Package) declPkg {
	dp := declPkg{Types: map[string]declType{}, Vars: map[string]declVar{}}
	inits := pkgVarInits(pk)
	sc := pk.Types.Scope()
	for _, name := range sc.Names() {
		switch obj := sc.Lookup(name).(type) {
		case *types.TypeName:
			if obj.IsAlias() {
				continue
			}
			dp.Types[name] = describeType(obj)
		case *types.Var:
			dp.Vars[name] = declVar{Type: types.TypeString(obj.Type(), fullQualifier), Init: inits[obj]}
		case *types.Const:
			dp.Vars[name] = declVar{Type: types.TypeString(obj.Type(), fullQualifier), Init: obj.Val().ExactString(), Const: true}
		}
	}
	return dp
}

func genDecls(p *Program, path string) error {
	out := map[string]declPkg{}
	for _, pk := range p.Pkgs {
		if isNonProductPkg(pk.PkgPath) {
			continue
		}
		out[pk.PkgPath] = describePkg(pk)
	}
	b, err := json.MarshalIndent(out, "", " ")
	if err != nil {
		return err
	}
	return os.WriteFile(path, append(b, '\n'), 0o644)
}

func recordedDecls() map[string]declPkg {
	var rec map[string]declPkg
	if len(declsJSON) == 0 || json.Unmarshal(declsJSON, &rec) != nil {
		return nil
	}
	return rec
}

// blankNames replaces every occurrence of pkgPath.<name> (name in names) in a type string by "?", so
// that type strings of the pinned and of the current tree compare equal modulo renamed types.
func blankNames(s, pkgPath string, names map[string]bool) string {
	if len(names) == 0 || !strings.Contains(s, pkgPath+".") {
		return s
	}
	re := regexp.MustCompile(regexp.QuoteMeta(pkgPath) + `\.([A-Za-z_][A-Za-z0-9_]*)`)
	return re.ReplaceAllStringFunc(s, func(m string) string {
		nm := m[len(pkgPath)+1:]
		if names[nm] {
			return "?"
		}
		return m
	})
}

type renamePlan struct {
	objs  map[types.Object]string // object of the current tree -> recorded name
	notes []string
}

// planUnrename matches disappeared declarations with new ones.
func (p *Program) planUnrename() *renamePlan {
	rec := recordedDecls()
	if len(rec) < 10 {
		return nil
	}
	plan := &renamePlan{objs: map[types.Object]string{}}
	for _, pk := range p.Pkgs {
		old, ok := rec[pk.PkgPath]
		if !ok {
			continue
		}
		cur := describePkg(pk)
		sc := pk.Types.Scope()
		// names that exist on one side only (any kind of package-level declaration occupies the name)
		missingT, newT := map[string]bool{}, map[string]bool{}
		for n := range old.Types {
			if sc.Lookup(n) == nil {
				missingT[n] = true
			}
		}
		for n := range cur.Types {
			if _, ok := old.Types[n]; !ok {
				if _, clash := old.Vars[n]; !clash {
					newT[n] = true
				}
			}
		}
		normOld := func(s string) string { return blankNames(s, pk.PkgPath, missingT) }
		normNew := func(s string) string { return blankNames(s, pk.PkgPath, newT) }

		fieldBag := func(dt declType, norm func(string) string) string {
			var xs []string
			for _, f := range dt.Fields {
				e := ""
				if f.Embedded {
					e = "E:"
				}
				xs = append(xs, e+norm(f.Type))
			}
			sort.Strings(xs)
			return strings.Join(xs, ";")
		}
		typeMatch := map[string]string{} // old -> new
		if len(missingT) > 0 && len(newT) > 0 {
			var olds []string
			for n := range missingT {
				olds = append(olds, n)
			}
			sort.Strings(olds)
			taken := map[string]bool{}
			for _, on := range olds {
				ot := old.Types[on]
				var best string
				bestS, second := -1.0, -1.0
				for nn := range newT {
					if taken[nn] {
						continue
					}
					nt := cur.Types[nn]
					if nt.Kind != ot.Kind || nt.TParams != ot.TParams {
						continue
					}
					switch ot.Kind {
					case "struct":
						if len(nt.Fields) != len(ot.Fields) || fieldBag(nt, normNew) != fieldBag(ot, normOld) {
							continue
						}
					default:
						if normNew(nt.Under) != normOld(ot.Under) {
							continue
						}
					}
					s := jaccard(nt.Methods, ot.Methods)
					if s > bestS {
						second = bestS
						bestS, best = s, nn
					} else if s > second {
						second = s
					}
				}
				if best != "" && (second < 0 || bestS-second >= 0.15) {
					taken[best] = true
					typeMatch[on] = best
				}
			}
		}
		for on, nn := range typeMatch {
			obj := sc.Lookup(nn)
			if obj == nil {
				continue
			}
			plan.objs[obj] = on
			plan.notes = append(plan.notes, fmt.Sprintf("type %s.%s is recorded as %s", shortPkg(pk.PkgPath), nn, on))
		}
		// struct fields of types that exist on both sides (same name or matched)
		for on, ot := range old.Types {
			if ot.Kind != "struct" {
				continue
			}
			nn := on
			if m, ok := typeMatch[on]; ok {
				nn = m
			} else if missingT[on] {
				continue
			}
			tn, _ := sc.Lookup(nn).(*types.TypeName)
			if tn == nil {
				continue
			}
			st, _ := tn.Type().Underlying().(*types.Struct)
			if st == nil {
				continue
			}
			nt := cur.Types[nn]
			oldNames, newNames := map[string]bool{}, map[string]bool{}
			for _, f := range ot.Fields {
				oldNames[f.Name] = true
			}
			for _, f := range nt.Fields {
				newNames[f.Name] = true
			}
			// unmatched on each side, grouped by normalised type, in declaration order
			goneBy, addedBy := map[string][]string{}, map[string][]int{}
			for _, f := range ot.Fields {
				if !newNames[f.Name] && !f.Embedded {
					k := normOld(f.Type)
					goneBy[k] = append(goneBy[k], f.Name)
				}
			}
			for i, f := range nt.Fields {
				if !oldNames[f.Name] && !f.Embedded {
					k := normNew(f.Type)
					addedBy[k] = append(addedBy[k], i)
				}
			}
			for k, gone := range goneBy {
				added := addedBy[k]
				if len(added) != len(gone) {
					continue // fields were added or removed: not a pure rename
				}
				if len(gone) > 1 && len(ot.Fields) != len(nt.Fields) {
					continue
				}
				for i, oname := range gone {
					fv := st.Field(added[i])
					plan.objs[fv] = oname
					plan.notes = append(plan.notes, fmt.Sprintf("field %s.%s.%s is recorded as %s", shortPkg(pk.PkgPath), nn, fv.Name(), oname))
				}
			}
			// embedded fields of renamed types carry the type's name
			for i := 0; i < st.NumFields(); i++ {
				f := st.Field(i)
				if !f.Embedded() {
					continue
				}
				ft := f.Type()
				if pt, ok := ft.(*types.Pointer); ok {
					ft = pt.Elem()
				}
				if nm, ok := ft.(*types.Named); ok {
					if oname, ren := plan.objs[nm.Obj()]; ren {
						plan.objs[f] = oname
					}
				}
			}
		}
		// package-level variables and constants
		missingV, newV := []string{}, []string{}
		for n := range old.Vars {
			if sc.Lookup(n) == nil {
				missingV = append(missingV, n)
			}
		}
		for n := range cur.Vars {
			if _, ok := old.Vars[n]; !ok {
				if _, clash := old.Types[n]; !clash {
					newV = append(newV, n)
				}
			}
		}
		sort.Strings(missingV)
		sort.Strings(newV)
		takenV := map[string]bool{}
		for _, on := range missingV {
			ov := old.Vars[on]
			var cands []string
			for _, nn := range newV {
				nv := cur.Vars[nn]
				if takenV[nn] || nv.Const != ov.Const || normNew(nv.Type) != normOld(ov.Type) {
					continue
				}
				cands = append(cands, nn)
			}
			if len(cands) > 1 {
				var same []string
				for _, nn := range cands {
					if cur.Vars[nn].Init == ov.Init {
						same = append(same, nn)
					}
				}
				cands = same
			} else if len(cands) == 1 && ov.Const && cur.Vars[cands[0]].Init != ov.Init {
				cands = nil // a constant with a different value is not a rename
			}
			if len(cands) != 1 {
				continue
			}
			nn := cands[0]
			takenV[nn] = true
			if obj := sc.Lookup(nn); obj != nil {
				plan.objs[obj] = on
				plan.notes = append(plan.notes, fmt.Sprintf("%s.%s is recorded as %s", shortPkg(pk.PkgPath), nn, on))
			}
		}
	}
	if len(plan.objs) == 0 {
		return nil
	}
	sort.Strings(plan.notes)
	return plan
}

// unrenameOverlay rewrites every identifier resolving to a planned object back to its recorded name.
func (p *Program) unrenameOverlay(plan *renamePlan, current map[string][]byte) map[string][]byte {
	// capture check: a use of a package-level object must not sit in a scope where the recorded name
	// denotes something else
	blocked := map[types.Object]bool{}
	type occ struct {
		file       string
		start, end int
		obj        types.Object
	}
	var occs []occ
	for _, pk := range p.Pkgs {
		visit := func(id *ast.Ident, obj types.Object) {
			if obj == nil {
				return
			}
			// methods/fields of instantiated generic types resolve to instantiated objects
			selector := false
			switch o := obj.(type) {
			case *types.Var:
				if o.IsField() {
					obj = o.Origin()
					selector = true
				}
			case *types.Func:
				obj = o.Origin()
				if sig, _ := o.Type().(*types.Signature); sig != nil && sig.Recv() != nil {
					selector = true
				}
			}
			old, ok := plan.objs[obj]
			if !ok || id.Name == old {
				return
			}
			pos := p.Fset.PositionFor(id.Pos(), false)
			if !selector {
				if inner := pk.Types.Scope().Innermost(id.Pos()); inner != nil {
					if _, found := inner.LookupParent(old, id.Pos()); found != nil {
						blocked[obj] = true
					}
				}
			}
			occs = append(occs, occ{pos.Filename, pos.Offset, pos.Offset + len(id.Name), obj})
		}
		for id, obj := range pk.TypesInfo.Defs {
			visit(id, obj)
		}
		for id, obj := range pk.TypesInfo.Uses {
			visit(id, obj)
		}
	}
	edits := map[string][]fileEdit{}
	seen := map[string]bool{}
	for _, o := range occs {
		if blocked[o.obj] {
			continue
		}
		k := fmt.Sprintf("%s:%d", o.file, o.start)
		if seen[k] {
			continue
		}
		seen[k] = true
		edits[o.file] = append(edits[o.file], fileEdit{o.start, o.end, plan.objs[o.obj]})
	}
	out := map[string][]byte{}
	for fname, es := range edits {
		src := current[fname]
		if src == nil {
			b, err := os.ReadFile(fname)
			if err != nil {
				return nil
			}
			src = b
		}
		sort.Slice(es, func(i, j int) bool { return es[i].start > es[j].start })
		buf := string(src)
		for _, e := range es {
			if e.end > len(buf) {
				return nil
			}
			buf = buf[:e.start] + e.text + buf[e.end:]
		}
		out[fname] = []byte(buf)
	}
	return out
}

// planFuncUnrename turns the function renames found by fingerprint (anchors.go) into a source-level
// plan, so that name-based callee tests of the rules see the recorded names.
func (p *Program) planFuncUnrename() *renamePlan {
	if len(p.alias) == 0 {
		return nil
	}
	plan := &renamePlan{objs: map[types.Object]string{}}
	for fn, id := range p.alias {
		obj := fn.Object()
		if obj == nil {
			continue
		}
		name := aliasBaseName(id)
		if name == "" || name == obj.Name() {
			continue
		}
		// a method that became a function (or the reverse) keeps its alias only
		isMethod := fn.Signature.Recv() != nil
		wasMethod := strings.Contains(id, ").")
		if isMethod != wasMethod {
			continue
		}
		plan.objs[obj] = name
		plan.notes = append(plan.notes, fmt.Sprintf("%s is recorded as %s", shortPkg(funcID(fn)), name))
	}
	if len(plan.objs) == 0 {
		return nil
	}
	sort.Strings(plan.notes)
	return plan
}

// aliasBaseName: the declared name in a recorded function id — "pkg.F", "(*pkg.T).M" and, for an
// instance of a generic function, "pkg.F[type arguments]" (the argument list is not part of the name).
func aliasBaseName(id string) string {
	if strings.HasSuffix(id, "]") {
		depth := 0
		for i := len(id) - 1; i >= 0; i-- {
			switch id[i] {
			case ']':
				depth++
			case '[':
				depth--
			}
			if depth == 0 {
				id = id[:i]
				break
			}
		}
	}
	if i := strings.LastIndex(id, "."); i >= 0 {
		return id[i+1:]
	}
	return id
}
