package main

import (
	"go/types"
	"sort"
	"strings"

	"golang.org/x/tools/go/ssa"
)

// A10 — effect reachability: static call-graph closure from a root set and the table of
// non-hermetic sinks (clock, randomness, environment, network, host files).
//
// Edges followed: static callees, closures created (MakeClosure, including bound-method
// wrappers), functions referenced as values (callbacks). Interface invokes are NOT followed by
// class hierarchy (that would pull every implementation of e.g. PackageValidator into the set,
// including ones that are never wired into rendering); the implementations that are wired in are
// added as roots through constructor wiring (A11, see c13ValidatorRoots). Calls through
// function-typed parameters are resolved at the callers (resolveFuncValue).

// funcHasBody: the function's SSA body is available in this load (workspace functions always;
// dependency functions only in the deep tier).
func funcHasBody(f *ssa.Function) bool { return f != nil && len(f.Blocks) > 0 }

// isWorkspaceFunc: function declared in one of the workspace packages.
func (p *Program) isWorkspaceFunc(f *ssa.Function) bool {
	pk := funcPkgPathAny(f)
	if pk == "" {
		return false
	}
	_, ok := p.ByPath[pk]
	return ok
}

// funcPkgPathAny is funcPkgPath that also resolves synthetic wrappers (bound-method closures,
// thunks) to the package of the wrapped method.
func funcPkgPathAny(f *ssa.Function) string {
	if s := funcPkgPath(f); s != "" {
		return s
	}
	for f.Parent() != nil {
		f = f.Parent()
	}
	if obj := f.Object(); obj != nil && obj.Pkg() != nil {
		return obj.Pkg().Path()
	}
	// bound method wrappers have no Object(); their single static callee is the method.
	if strings.HasSuffix(f.Name(), "$bound") || strings.HasSuffix(f.Name(), "$thunk") {
		for _, b := range f.Blocks {
			for _, in := range b.Instrs {
				if ci, ok := in.(ssa.CallInstruction); ok {
					if g := staticCallee(ci.Common()); g != nil && g != f {
						return funcPkgPathAny(g)
					}
				}
			}
		}
	}
	return ""
}

// referencedFuncs lists the functions an instruction refers to: static callee, closure created,
// function used as a value.
func referencedFuncs(in ssa.Instruction) []*ssa.Function {
	var out []*ssa.Function
	var ops []*ssa.Value
	ops = in.Operands(ops)
	for _, o := range ops {
		if o == nil || *o == nil {
			continue
		}
		switch x := (*o).(type) {
		case *ssa.Function:
			out = append(out, x)
		case *ssa.MakeClosure:
			if f, ok := x.Fn.(*ssa.Function); ok {
				out = append(out, f)
			}
		}
	}
	if mc, ok := in.(*ssa.MakeClosure); ok {
		if f, ok := mc.Fn.(*ssa.Function); ok {
			out = append(out, f)
		}
	}
	return out
}

// callClosure computes the set of functions reachable from roots through referencedFuncs,
// descending only into functions accepted by `into` (which must imply a body is available).
// Functions that are referenced but not descended into are returned as leaves with one
// referencing instruction each (for reports).
type closureResult struct {
	Set    map[*ssa.Function]bool
	Order  []*ssa.Function
	Leaves map[*ssa.Function]ssa.Instruction // external / not-descended function -> a site referencing it
	From   map[*ssa.Function]*ssa.Function   // discovery parent (for path reports)
	// package-level variables of sink packages that are referenced (crypto/rand.Reader, time.Local, os.Args …)
	SinkGlobals map[*ssa.Global]ssa.Instruction
}

// sinkGlobal classifies a package-level variable as non-hermetic state.
func sinkGlobal(g *ssa.Global) string {
	if g.Pkg == nil {
		return ""
	}
	pk := g.Pkg.Pkg.Path()
	if pk == "time" && g.Name() == "Local" {
		return "host time zone"
	}
	if pk == "os" && (strings.HasPrefix(g.Name(), "Err") || g.Name() == "Stdout" || g.Name() == "Stderr") {
		return ""
	}
	if why, ok := sinkPackages[pk]; ok && !isStdlibErrVar(g) {
		return why
	}
	return ""
}

func isStdlibErrVar(g *ssa.Global) bool {
	return strings.HasPrefix(g.Name(), "Err") || strings.HasPrefix(g.Name(), "err") || g.Name() == "EOF"
}

func callClosure(roots []*ssa.Function, into func(*ssa.Function) bool) *closureResult {
	res := &closureResult{Set: map[*ssa.Function]bool{}, Leaves: map[*ssa.Function]ssa.Instruction{}, From: map[*ssa.Function]*ssa.Function{}, SinkGlobals: map[*ssa.Global]ssa.Instruction{}}
	var work []*ssa.Function
	push := func(f, from *ssa.Function) {
		if f == nil || res.Set[f] {
			return
		}
		res.Set[f] = true
		res.From[f] = from
		res.Order = append(res.Order, f)
		work = append(work, f)
	}
	for _, r := range roots {
		push(r, nil)
	}
	for len(work) > 0 {
		f := work[0]
		work = work[1:]
		for _, b := range f.Blocks {
			for _, in := range b.Instrs {
				var ops []*ssa.Value
				for _, o := range in.Operands(ops) {
					if o == nil || *o == nil {
						continue
					}
					if gv, ok := (*o).(*ssa.Global); ok && sinkGlobal(gv) != "" {
						if _, seen := res.SinkGlobals[gv]; !seen {
							res.SinkGlobals[gv] = in
						}
					}
				}
				for _, g := range referencedFuncs(in) {
					if funcHasBody(g) && into(g) {
						push(g, f)
					} else if _, seen := res.Leaves[g]; !seen && !res.Set[g] {
						res.Leaves[g] = in
						if _, ok := res.From[g]; !ok {
							res.From[g] = f
						}
					}
				}
			}
		}
	}
	sort.Slice(res.Order, func(i, j int) bool { return res.Order[i].String() < res.Order[j].String() })
	return res
}

// pathTo renders the discovery chain root -> ... -> f.
func (r *closureResult) pathTo(f *ssa.Function) string {
	var parts []string
	for i := 0; f != nil && i < 12; i++ {
		parts = append([]string{shortFuncID(f)}, parts...)
		f = r.From[f]
	}
	return strings.Join(parts, " -> ")
}

// ---------------------------------------------------------------------------------------------
// Sinks

// sinkPackages: every function of these packages is non-hermetic (reads clock, randomness,
// environment, host files or the network) unless listed in sinkExceptions.
var sinkPackages = map[string]string{
	"math/rand":                         "randomness",
	"math/rand/v2":                      "randomness",
	"crypto/rand":                       "randomness",
	"os":                                "environment / host files",
	"os/user":                           "host identity",
	"os/exec":                           "host processes",
	"net":                               "network",
	"net/http":                          "network",
	"syscall":                           "host",
	"github.com/google/uuid":            "randomness / clock",
	"k8s.io/apimachinery/pkg/util/rand": "randomness",
	"k8s.io/apimachinery/pkg/util/uuid": "randomness",
	"github.com/google/go-containerregistry/pkg/crane":     "network",
	"github.com/google/go-containerregistry/pkg/v1/remote": "network",
}

// sinkExceptions: deterministic members of sink packages.
var sinkExceptions = map[string]bool{
	"k8s.io/apimachinery/pkg/util/rand.SafeEncodeString": true, // pure re-encoding of its argument
	"github.com/google/uuid.Parse":                       true,
	"github.com/google/uuid.MustParse":                   true,
	"github.com/google/uuid.Validate":                    true,
	"(github.com/google/uuid.UUID).String":               true,
	"net.ParseIP":                                        true,
	"net.ParseCIDR":                                      true,
	"net.JoinHostPort":                                   true,
	"net.SplitHostPort":                                  true,
	"(net.IP).String":                                    true,
	"(net.IP).To4":                                       true,
	"(net.IP).To16":                                      true,
	"(net.IP).Equal":                                     true,
	"(*net.IPNet).Contains":                              true,
	"(*net.IPNet).String":                                true,
	"os.IsNotExist":                                      true,
	"os.IsExist":                                         true,
	"os.IsPermission":                                    true,
	"os.IsTimeout":                                       true,
	"(*os.PathError).Error":                              true,
	"(*os.PathError).Unwrap":                             true,
	"(os.FileMode).String":                               true,
	"(os.FileMode).IsDir":                                true,
	"(*os.SyscallError).Error":                           true,
	"(syscall.Errno).Error":                              true,
	"(syscall.Errno).Is":                                 true,
}

// sinkFuncs: individual non-hermetic functions of otherwise harmless packages.
var sinkFuncs = map[string]string{
	"time.Now":                   "clock",
	"time.Since":                 "clock",
	"time.Until":                 "clock",
	"time.Sleep":                 "clock",
	"time.After":                 "clock",
	"time.AfterFunc":             "clock",
	"time.Tick":                  "clock",
	"time.NewTimer":              "clock",
	"time.NewTicker":             "clock",
	"time.LoadLocation":          "host files (zoneinfo)",
	"(time.Time).Local":          "host time zone",
	"path/filepath.Abs":          "host working directory",
	"path/filepath.Glob":         "host files",
	"path/filepath.Walk":         "host files",
	"path/filepath.WalkDir":      "host files",
	"path/filepath.EvalSymlinks": "host files",
	"io/ioutil.ReadFile":         "host files",
	"io/ioutil.ReadDir":          "host files",
	"io/ioutil.TempFile":         "host files",
	"io/ioutil.TempDir":          "host files",
	"runtime.NumCPU":             "host",
	"runtime.GOMAXPROCS":         "host",
}

// sinkOf classifies a function as a non-hermetic sink ("" when it is not one).
func sinkOf(f *ssa.Function) string {
	g := f
	if o := g.Origin(); o != nil {
		g = o
	}
	id := g.String()
	if sinkExceptions[id] {
		return ""
	}
	if why, ok := sinkFuncs[id]; ok {
		return why
	}
	pk := ""
	if g.Pkg != nil {
		pk = g.Pkg.Pkg.Path()
	} else if obj := g.Object(); obj != nil && obj.Pkg() != nil {
		pk = obj.Pkg().Path()
	}
	if why, ok := sinkPackages[pk]; ok {
		return why
	}
	if pk == "github.com/Masterminds/goutils" && (strings.HasPrefix(g.Name(), "Random") || strings.HasPrefix(g.Name(), "CryptoRandom")) {
		return "randomness"
	}
	return ""
}

// isStdlibPkg: import path without a dot in its first element.
func isStdlibPkg(path string) bool {
	first := path
	if i := strings.IndexByte(path, '/'); i >= 0 {
		first = path[:i]
	}
	return !strings.Contains(first, ".")
}

// sinkHit is one reachable sink.
type sinkHit struct {
	Global *ssa.Global
	Sink   *ssa.Function
	Why    string
	Site   ssa.Instruction
	Path   string
}

// sinksReachable lists the sinks referenced from the closure (leaves and members).
func (r *closureResult) sinksReachable() []sinkHit {
	var out []sinkHit
	for f, site := range r.Leaves {
		if why := sinkOf(f); why != "" {
			out = append(out, sinkHit{Sink: f, Why: why, Site: site, Path: r.pathTo(r.From[f]) + " -> " + f.String()})
		}
	}
	for g, site := range r.SinkGlobals {
		out = append(out, sinkHit{Why: sinkGlobal(g), Site: site, Path: r.pathTo(site.Parent()) + " -> variable " + g.String(), Global: g})
	}
	sort.Slice(out, func(i, j int) bool { return out[i].Path < out[j].Path })
	return out
}

// ---------------------------------------------------------------------------------------------
// Function-value resolution and package-level initialisers

// resolveFuncValue resolves a function-typed value to the functions it may denote: a function,
// a closure, or a parameter resolved at every static caller (bounded). ok=false when some source
// cannot be resolved.
func (p *Program) resolveFuncValue(v ssa.Value, depth int) (fns []*ssa.Function, ok bool) {
	v = stripConv(v)
	switch x := v.(type) {
	case *ssa.Function:
		return []*ssa.Function{x}, true
	case *ssa.MakeClosure:
		if f, isF := x.Fn.(*ssa.Function); isF {
			return []*ssa.Function{f}, true
		}
	case *ssa.Parameter:
		if depth <= 0 {
			return nil, false
		}
		fn := x.Parent()
		idx := -1
		for i, pp := range fn.Params {
			if pp == x {
				idx = i
			}
		}
		callers := p.callersOf(fn)
		if idx < 0 || len(callers) == 0 || p.addressTaken(fn) {
			return nil, false
		}
		for _, c := range callers {
			if isNonProductPkg(funcPkgPath(c.Fn)) {
				continue
			}
			if idx >= len(c.Common.Args) {
				return nil, false
			}
			sub, subOK := p.resolveFuncValue(c.Common.Args[idx], depth-1)
			if !subOK {
				return nil, false
			}
			fns = append(fns, sub...)
		}
		return fns, len(fns) > 0
	case *ssa.Call:
		// result of a repository factory that returns closures
		g := staticCallee(x.Common())
		if g == nil || !funcHasBody(g) || !p.isWorkspaceFunc(g) || depth <= 0 {
			return nil, false
		}
		for _, rc := range p.returnCases(g) {
			if len(rc.Results) != 1 {
				return nil, false
			}
			sub, subOK := p.resolveFuncValue(rc.Results[0], depth-1)
			if !subOK {
				return nil, false
			}
			fns = append(fns, sub...)
		}
		return fns, len(fns) > 0
	case *ssa.Phi:
		for _, e := range x.Edges {
			sub, subOK := p.resolveFuncValue(e, depth-1)
			if !subOK {
				return nil, false
			}
			fns = append(fns, sub...)
		}
		return fns, len(fns) > 0
	}
	return nil, false
}

// pkgInit returns the synthetic package initialiser of a package (it holds the initialisers of
// package-level variables such as allow-list literals and default validator lists).
func (p *Program) pkgInit(pkgPath string) *ssa.Function {
	var sp *ssa.Package
	if x, ok := p.SSAPkgs[pkgPath]; ok {
		sp = x
	} else {
		for _, x := range p.SSA.AllPackages() {
			if x.Pkg.Path() == pkgPath {
				sp = x
			}
		}
	}
	if sp == nil {
		return nil
	}
	return sp.Func("init")
}

// globalInitValue returns the value stored into the package-level variable `name` by the package
// initialiser (nil when there is not exactly one such store).
func (p *Program) globalInitValue(pkgPath, name string) (ssa.Value, *ssa.Function) {
	init := p.pkgInit(pkgPath)
	if init == nil {
		return nil, nil
	}
	var found ssa.Value
	n := 0
	for _, b := range init.Blocks {
		for _, in := range b.Instrs {
			st, ok := in.(*ssa.Store)
			if !ok {
				continue
			}
			g, ok := st.Addr.(*ssa.Global)
			if !ok || g.Name() != name || g.Pkg == nil || g.Pkg.Pkg.Path() != pkgPath {
				continue
			}
			found = st.Val
			n++
		}
	}
	if n != 1 {
		return nil, init
	}
	return found, init
}

// ifaceListElemTypes resolves a package-level slice literal of interface values
// (`var L = T{&A{}, &B{}, ...}`) to the dynamic types of its elements.
func (p *Program) ifaceListElemTypes(pkgPath, name string) ([]types.Type, bool) {
	v, _ := p.globalInitValue(pkgPath, name)
	if v == nil {
		return nil, false
	}
	elems, ok := sliceElems(v)
	if !ok {
		return nil, false
	}
	var out []types.Type
	for _, e := range elems {
		mi, isMI := e.(*ssa.MakeInterface)
		if !isMI {
			return nil, false
		}
		out = append(out, mi.X.Type())
	}
	return out, true
}

// methodOf returns the SSA function of method `name` in the method set of t (nil if absent).
func (p *Program) methodOf(t types.Type, name string) *ssa.Function {
	ms := p.SSA.MethodSets.MethodSet(t)
	for i := 0; i < ms.Len(); i++ {
		if ms.At(i).Obj().Name() == name {
			return p.SSA.MethodValue(ms.At(i))
		}
	}
	return nil
}

func (h sinkHit) name() string {
	if h.Global != nil {
		return "variable " + h.Global.String()
	}
	return h.Sink.String()
}
