package main

func init() {
	const (
		osc  = "internal/controllers/objectsets/objectset_controller.go"
		ctl  = "internal/controllers/controllers.go"
		pr   = "internal/controllers/phase_reconciler.go"
		tmpl = "internal/controllers/objecttemplate/template_reconciler.go"
	)
	addMutants(
		// ---- R1 --------------------------------------------------------------------------------
		Mutant{Prop: "C10", Name: "r1-status-update-error-discarded", File: osc,
			Old:    "\tif err := c.client.Status().Update(ctx, objectSet.ClientObject()); err != nil {\n\t\treturn fmt.Errorf(\"updating ObjectSet status: %w\", err)\n\t}\n\treturn nil\n",
			New:    "\t_ = c.client.Status().Update(ctx, objectSet.ClientObject())\n\treturn nil\n",
			Expect: []string{"C10.R1@(*internal/controllers/objectsets.GenericObjectSetController).updateStatus"}},
		Mutant{Prop: "C10", Name: "r1-finalizer-error-logged-and-swallowed", File: osc,
			Old:    "\tif err := controllers.EnsureCachedFinalizer(ctx, c.client, objectSet.ClientObject()); err != nil {\n\t\treturn res, err\n\t}\n",
			New:    "\tif err := controllers.EnsureCachedFinalizer(ctx, c.client, objectSet.ClientObject()); err != nil {\n\t\tlog.Error(err, \"ensuring finalizer\")\n\t}\n",
			Expect: []string{"C10.R1@(*internal/controllers/objectsets.GenericObjectSetController).Reconcile"}},
		Mutant{Prop: "C10", Name: "r1-cache-free-error-discarded", File: ctl,
			Old:    "\tif err := cache.Free(ctx, obj); err != nil {\n\t\treturn fmt.Errorf(\"free cache: %w\", err)\n\t}\n",
			New:    "\tcache.Free(ctx, obj) //nolint:errcheck\n",
			Expect: []string{"C10.R1@internal/controllers.FreeCacheAndRemoveFinalizer"}},
		Mutant{Prop: "C10", Name: "r1-teardown-read-error-only-tested", File: pr,
			Old:    "\tif err != nil {\n\t\treturn false, fmt.Errorf(\"getting object for teardown: %w\", err)\n\t}\n",
			New:    "",
			Expect: []string{"C10.R1@(*internal/controllers.PhaseReconciler).teardownPhaseObject"}},
		Mutant{Prop: "C10", Name: "r1-benign-early-return-on-success", File: osc, Benign: true,
			Old: "\tif err := c.client.Status().Update(ctx, objectSet.ClientObject()); err != nil {\n\t\treturn fmt.Errorf(\"updating ObjectSet status: %w\", err)\n\t}\n\treturn nil\n",
			New: "\terr := c.client.Status().Update(ctx, objectSet.ClientObject())\n\tif err == nil {\n\t\treturn nil\n\t}\n\tlogr.FromContextOrDiscard(ctx).Info(\"status update failed\", \"err\", err)\n\treturn fmt.Errorf(\"updating ObjectSet status: %w\", err)\n"},
		Mutant{Prop: "C10", Name: "r1-benign-error-returned-unwrapped", File: ctl, Benign: true,
			Old: "\tif err := cache.Free(ctx, obj); err != nil {\n\t\treturn fmt.Errorf(\"free cache: %w\", err)\n\t}\n",
			New: "\tfreeErr := cache.Free(ctx, obj)\n\tif freeErr != nil {\n\t\treturn freeErr\n\t}\n"},

		// ---- R2 --------------------------------------------------------------------------------
		Mutant{Prop: "C10", Name: "r2-teardown-without-rewatch", File: pr,
			Old:    "\tif err := r.dynamicCache.Watch(\n\t\tctx, owner.ClientObject(), desiredObj); err != nil {\n\t\treturn false, fmt.Errorf(\"watching new resource: %w\", err)\n\t}\n",
			New:    "",
			Expect: []string{"C10.R2@(*internal/controllers.PhaseReconciler).teardownPhaseObject"}},
		Mutant{Prop: "C10", Name: "r2-watch-error-ignored-while-paused", File: pr,
			Old:    "\t\tctx, owner.ClientObject(), desiredObj); err != nil {\n\t\treturn nil, fmt.Errorf(\"watching new resource: %w\", err)\n",
			New:    "\t\tctx, owner.ClientObject(), desiredObj); err != nil && !owner.IsSpecPaused() {\n\t\treturn nil, fmt.Errorf(\"watching new resource: %w\", err)\n",
			Expect: []string{"C10.R2@(*internal/controllers.PhaseReconciler).reconcilePhaseObject"}},
		Mutant{Prop: "C10", Name: "r2-source-watch-on-wrong-object", File: tmpl,
			Old:    "\t\tctx, objectTemplate, sourceObj); err != nil {\n",
			New:    "\t\tctx, objectTemplate, objectTemplate); err != nil {\n",
			Expect: []string{"C10.R2@(*internal/controllers/objecttemplate.templateReconciler).getSourceObject"}},
		Mutant{Prop: "C10", Name: "r2-target-read-before-watch", File: tmpl,
			Old:    "\tif err := r.dynamicCache.Watch(\n\t\tctx, objectTemplate.ClientObject(), obj); err != nil {\n\t\treturn res, fmt.Errorf(\"watching new child: %w\", err)\n\t}\n\n\texistingObj := &unstructured.Unstructured{}\n\texistingObj.SetGroupVersionKind(obj.GroupVersionKind())\n",
			New:    "\texistingObj := &unstructured.Unstructured{}\n\texistingObj.SetGroupVersionKind(obj.GroupVersionKind())\n\tdefer func() {\n\t\tif wErr := r.dynamicCache.Watch(ctx, objectTemplate.ClientObject(), obj); wErr != nil && err == nil {\n\t\t\terr = wErr\n\t\t}\n\t}()\n",
			Expect: []string{"C10.R2@(*internal/controllers/objecttemplate.templateReconciler).Reconcile"}},
		Mutant{Prop: "C10", Name: "r2-benign-watch-error-in-named-result", File: pr, Benign: true,
			Old: "\tif err := r.dynamicCache.Watch(\n\t\tctx, owner.ClientObject(), desiredObj); err != nil {\n\t\treturn false, fmt.Errorf(\"watching new resource: %w\", err)\n\t}\n",
			New: "\terr = r.dynamicCache.Watch(ctx, owner.ClientObject(), desiredObj)\n\tif nil != err {\n\t\treturn false, fmt.Errorf(\"watching new resource: %w\", err)\n\t}\n"},

		// ---- R3 --------------------------------------------------------------------------------
		Mutant{Prop: "C10", Name: "r3-progress-kept-in-controller-field", File: osc,
			Old:    "\tfor _, r := range c.reconciler {\n\t\tres, err = r.Reconcile(ctx, objectSet)\n",
			New:    "\tc.reconciler = append(c.reconciler[:0:0], c.reconciler...)\n\tfor _, r := range c.reconciler {\n\t\tres, err = r.Reconcile(ctx, objectSet)\n",
			Expect: []string{"C10.R3@(*internal/controllers/objectsets.GenericObjectSetController).Reconcile"}},
		Mutant{Prop: "C10", Name: "r3-package-level-variable-written-on-reconcile", File: pr,
			Old:    "\tobjKey := client.ObjectKeyFromObject(desiredObj)\n\tcurrentObj := desiredObj.DeepCopy()\n\terr = r.dynamicCache.Get(ctx, objKey, currentObj)\n",
			New:    "\tobjKey := client.ObjectKeyFromObject(desiredObj)\n\toldFieldOwners = sets.New(constants.FieldOwner)\n\tcurrentObj := desiredObj.DeepCopy()\n\terr = r.dynamicCache.Get(ctx, objKey, currentObj)\n",
			Expect: []string{"C10.R3@(*internal/controllers.PhaseReconciler).reconcileObject"}},
		Mutant{Prop: "C10", Name: "r3-finalizer-patch-without-resourceversion", File: ctl,
			Old:    "\tcontrollerutil.AddFinalizer(obj, finalizer)\n\tpatch := map[string]any{\n\t\t\"metadata\": map[string]any{\n\t\t\t\"resourceVersion\": obj.GetResourceVersion(),\n",
			New:    "\tcontrollerutil.AddFinalizer(obj, finalizer)\n\tpatch := map[string]any{\n\t\t\"metadata\": map[string]any{\n",
			Expect: []string{"C10.R3@internal/controllers.EnsureFinalizer#finalizer-patch"}},
		Mutant{Prop: "C10", Name: "r3-benign-patch-keys-reordered", File: ctl, Benign: true,
			Old: "\tcontrollerutil.AddFinalizer(obj, finalizer)\n\tpatch := map[string]any{\n\t\t\"metadata\": map[string]any{\n\t\t\t\"resourceVersion\": obj.GetResourceVersion(),\n\t\t\t\"finalizers\":      obj.GetFinalizers(),\n",
			New: "\tcontrollerutil.AddFinalizer(obj, finalizer)\n\tpatch := map[string]any{\n\t\t\"metadata\": map[string]any{\n\t\t\t\"finalizers\":      obj.GetFinalizers(),\n\t\t\t\"resourceVersion\": obj.GetResourceVersion(),\n"},
		Mutant{Prop: "C10", Name: "r3-benign-local-accumulator", File: osc, Benign: true, OwnOnly: true, Why: "known imprecision of C04.R7/C14.R2: the ordered reconciler list is recognised only when ranged directly from the controller field, not through a defensive copy",
			Old: "\tfor _, r := range c.reconciler {\n\t\tres, err = r.Reconcile(ctx, objectSet)\n",
			New: "\treconcilers := append(c.reconciler[:0:0], c.reconciler...)\n\tfor _, r := range reconcilers {\n\t\tres, err = r.Reconcile(ctx, objectSet)\n"},
	)
}

// Round three: the `include` closure of SprigFuncs as a method of an object that SprigFuncs allocates
// per call (the nesting depths live in a field of that object instead of a captured local).
func init() {
	const sprig = "internal/transform/transformfiles_funcs.go"
	const closure = "\tincludedNames := map[string]int{}\n\t// Include function executes a template with given data and returns the result as string.\n\t// Use this helper function if you need to modify the resulting output via e.g. | indent.\n\t// Example:\n\t// {{- define \"test-helper\" -}}{{.}}{{- end -}}{{- include \"test-helper\" . | upper -}}\n\tallowedFuncs[\"include\"] = func(name string, data any) (string, error) {\n\t\tvar buf strings.Builder\n\t\tif v, ok := includedNames[name]; ok {\n\t\t\tif v > recursionDepth {\n\t\t\t\treturn \"\", fmt.Errorf(\"including template with name %s: %w\", name, ErrExceededIncludeRecursion)\n\t\t\t}\n\t\t\tincludedNames[name]++\n\t\t} else {\n\t\t\tincludedNames[name] = 1\n\t\t}\n\t\terr := t.ExecuteTemplate(&buf, name, data)\n\t\tincludedNames[name]--\n\t\treturn buf.String(), err\n\t}\n\n"
	const decl = "const recursionDepth = 1000\n"
	addMutants(
		Mutant{Prop: "C10", Name: "r3-benign-closure-state-in-fresh-object", File: sprig, Benign: true,
			Old: closure, New: "\tinc := &includer{tmpl: t, includedNames: map[string]int{}}\n\tallowedFuncs[\"include\"] = inc.include\n\n", More: []Edit{{File: sprig, Old: decl, New: "const recursionDepth = 1000\n\ntype includer struct {\n\ttmpl          *template.Template\n\tincludedNames map[string]int\n}\n\nfunc (i *includer) include(name string, data any) (string, error) {\n\tvar buf strings.Builder\n\tif v, ok := i.includedNames[name]; ok {\n\t\tif v > recursionDepth {\n\t\t\treturn \"\", fmt.Errorf(\"including template with name %s: %w\", name, ErrExceededIncludeRecursion)\n\t\t}\n\t\ti.includedNames[name]++\n\t} else {\n\t\ti.includedNames[name] = 1\n\t}\n\terr := i.tmpl.ExecuteTemplate(&buf, name, data)\n\ti.includedNames[name]--\n\treturn buf.String(), err\n}\n"}}},
		Mutant{Prop: "C10", Name: "r3-fresh-object-holds-package-level-map", File: sprig,
			Why: "the nesting depths of all renders of the process share one package-level map",
			Old: closure, New: "\tinc := &includer{tmpl: t, includedNames: includeDepths}\n\tallowedFuncs[\"include\"] = inc.include\n\n", More: []Edit{{File: sprig, Old: decl, New: "const recursionDepth = 1000\n\ntype includer struct {\n\ttmpl          *template.Template\n\tincludedNames map[string]int\n}\n\nfunc (i *includer) include(name string, data any) (string, error) {\n\tvar buf strings.Builder\n\tif v, ok := i.includedNames[name]; ok {\n\t\tif v > recursionDepth {\n\t\t\treturn \"\", fmt.Errorf(\"including template with name %s: %w\", name, ErrExceededIncludeRecursion)\n\t\t}\n\t\ti.includedNames[name]++\n\t} else {\n\t\ti.includedNames[name] = 1\n\t}\n\terr := i.tmpl.ExecuteTemplate(&buf, name, data)\n\ti.includedNames[name]--\n\treturn buf.String(), err\n}\n\nvar includeDepths = map[string]int{}\n"}},
			Expect: []string{"C10.R3@(*internal/transform.includer).include#mapupdate-internal/transform.includer.includedNames"}},
		Mutant{Prop: "C10", Name: "r3-method-object-shared-by-all-renders", File: sprig,
			Why: "one package-level includer serves every render: state survives the reconcile",
			Old: closure, New: "\tinc := theIncluder\n\tinc.tmpl = t\n\tallowedFuncs[\"include\"] = inc.include\n\n", More: []Edit{{File: sprig, Old: decl, New: "const recursionDepth = 1000\n\ntype includer struct {\n\ttmpl          *template.Template\n\tincludedNames map[string]int\n}\n\nfunc (i *includer) include(name string, data any) (string, error) {\n\tvar buf strings.Builder\n\tif v, ok := i.includedNames[name]; ok {\n\t\tif v > recursionDepth {\n\t\t\treturn \"\", fmt.Errorf(\"including template with name %s: %w\", name, ErrExceededIncludeRecursion)\n\t\t}\n\t\ti.includedNames[name]++\n\t} else {\n\t\ti.includedNames[name] = 1\n\t}\n\terr := i.tmpl.ExecuteTemplate(&buf, name, data)\n\ti.includedNames[name]--\n\treturn buf.String(), err\n}\n\nvar theIncluder = &includer{includedNames: map[string]int{}}\n"}},
			Expect: []string{"C10.R3@(*internal/transform.includer).include#mapupdate-internal/transform.includer.includedNames"}},
	)
}
