package main

func init() {
	const (
		cache = "internal/dynamiccache/cache.go"
		imap  = "internal/dynamiccache/informer_map.go"
		src   = "internal/dynamiccache/cache_source.go"
		ctl   = "internal/controllers/controllers.go"
		osc   = "internal/controllers/objectsets/objectset_controller.go"
	)
	const getBody = "\tif _, ok := c.informerReferences[gvk]; !ok {\n\t\treturn &CacheNotStartedError{}\n\t}\n\n\t_, reader, err := c.informerMap.Get(ctx, gvk, uns)\n\tif err != nil {\n\t\treturn fmt.Errorf(\"getting Informer from Map: %w\", err)\n\t}\n\n\tif err := reader.Get("
	const listBody = "\tif _, ok := c.informerReferences[gvk]; !ok {\n\t\treturn &CacheNotStartedError{}\n\t}\n\n\t_, reader, err := c.informerMap.Get(ctx, gvk, uns)\n\tif err != nil {\n\t\treturn fmt.Errorf(\"getting Informer from Map: %w\", err)\n\t}\n\n\tif err := reader.List("
	const freeLoop = "\tfor gvk, refs := range c.informerReferences {\n\t\tif _, ok := refs[ownerRef]; ok {\n\t\t\tdelete(refs, ownerRef)\n\n\t\t\tif len(refs) == 0 {\n\t\t\t\tlog.Info(\"releasing watcher\",\n\t\t\t\t\t\"kind\", gvk.Kind, \"group\", gvk.Group,\n\t\t\t\t\t\"ownerNamespace\", owner.GetNamespace())\n\n\t\t\t\tif err := c.informerMap.Delete(ctx, gvk); err != nil {\n\t\t\t\t\treturn fmt.Errorf(\"releasing informer for %v: %w\", gvk, err)\n\t\t\t\t}\n\n\t\t\t\tdelete(c.informerReferences, gvk)\n\t\t\t}\n\t\t}\n\t}\n"
	addMutants(
		// ---- R1 lock discipline -------------------------------------------------------------
		Mutant{Prop: "C12", Name: "r1-samplemetrics-defer-before-unlock", File: cache,
			Old:    "\tdefer c.informerReferencesMux.Unlock()\n\tdefer c.sampleMetrics(ctx)\n\n\tlog := logr.FromContextOrDiscard(ctx)\n\n\tgvk, err",
			New:    "\tdefer c.sampleMetrics(ctx)\n\tdefer c.informerReferencesMux.Unlock()\n\n\tlog := logr.FromContextOrDiscard(ctx)\n\n\tgvk, err",
			Expect: []string{"C12.R1@(*internal/dynamiccache.Cache).sampleMetrics", "C12.R1@(*internal/dynamiccache.Cache).list"}},
		Mutant{Prop: "C12", Name: "r1-get-without-rlock", File: cache,
			Old:    "\tc.informerReferencesMux.RLock()\n\tdefer c.informerReferencesMux.RUnlock()\n\tif _, ok := c.informerReferences[gvk]; !ok {",
			New:    "\tif _, ok := c.informerReferences[gvk]; !ok {",
			Expect: []string{"C12.R1@(*internal/dynamiccache.Cache).Get", "C12.R6@"}},
		Mutant{Prop: "C12", Name: "r1-free-under-read-lock", File: cache,
			Old:    "func (c *Cache) Free(\n\tctx context.Context, owner client.Object,\n) error {\n\tc.informerReferencesMux.Lock()\n\tdefer c.informerReferencesMux.Unlock()",
			New:    "func (c *Cache) Free(\n\tctx context.Context, owner client.Object,\n) error {\n\tc.informerReferencesMux.RLock()\n\tdefer c.informerReferencesMux.RUnlock()",
			Expect: []string{"C12.R1@(*internal/dynamiccache.Cache).Free"}},
		Mutant{Prop: "C12", Name: "r1-list-unlocks-before-helper", File: cache,
			Old:    "\tdefer c.informerReferencesMux.RUnlock()\n\n\treturn c.list(ctx, out, opts...)",
			New:    "\tc.informerReferencesMux.RUnlock()\n\n\treturn c.list(ctx, out, opts...)",
			Expect: []string{"C12.R1@(*internal/dynamiccache.Cache).list", "C12.R6@(*internal/dynamiccache.Cache).list"}},
		Mutant{Prop: "C12", Name: "r1-samplemetrics-in-goroutine", File: cache,
			Old:    "\tdefer c.sampleMetrics(ctx)\n\n\tlog := logr.FromContextOrDiscard(ctx)\n\n\townerRef, err",
			New:    "\tdefer func() { go c.sampleMetrics(ctx) }()\n\n\tlog := logr.FromContextOrDiscard(ctx)\n\n\townerRef, err",
			Expect: []string{"C12.R1@(*internal/dynamiccache.Cache).sampleMetrics"}},
		Mutant{Prop: "C12", Name: "r1-blocknew-store-unlocked", File: src,
			Old:    "func (e *cacheSource) blockNewRegistrations() {\n\te.mu.Lock()\n\tdefer e.mu.Unlock()\n",
			New:    "func (e *cacheSource) blockNewRegistrations() {\n",
			Expect: []string{"C12.R1@(*internal/dynamiccache.cacheSource).blockNewRegistrations"}},
		Mutant{Prop: "C12", Name: "r1-rollback-exported-entrypoint", File: cache,
			Old:    "// CacheNotStartedError is returned when",
			New:    "// Forget drops a kind.\nfunc (c *Cache) Forget(ctx context.Context, gvk schema.GroupVersionKind) { c.rollbackWatch(ctx, gvk) }\n\n// CacheNotStartedError is returned when",
			Expect: []string{"C12.R1@(*internal/dynamiccache.Cache).rollbackWatch"}},
		Mutant{Prop: "C12", Name: "r1-informers-insert-under-read-lock", File: imap,
			Old:    "\tim.informersMux.Lock()\n\tdefer im.informersMux.Unlock()\n\n\t// Ensure we are not creating",
			New:    "\tim.informersMux.RLock()\n\tdefer im.informersMux.RUnlock()\n\n\t// Ensure we are not creating",
			Expect: []string{"C12.R1@(*internal/dynamiccache.InformerMap).addInformerToMap", "C12.R8@"}},
		Mutant{Prop: "C12", Name: "r1-lock-of-other-instance", File: imap,
			Old:    "\t\tim.informersMux.RLock()\n\t\tdefer im.informersMux.RUnlock()\n\t\tentry, ok := im.informers[gvk]",
			New:    "\t\tother := &InformerMap{}\n\t\tother.informersMux.RLock()\n\t\tdefer other.informersMux.RUnlock()\n\t\tentry, ok := im.informers[gvk]",
			Expect: []string{"C12.R1@(*internal/dynamiccache.InformerMap).Get$1"}},
		Mutant{Prop: "C12", Name: "r1-lock-taken-on-one-branch-only", File: cache,
			Old:    "\tc.informerReferencesMux.RLock()\n\tdefer c.informerReferencesMux.RUnlock()\n\n\trefs, ok := c.informerReferences[gvk]",
			New:    "\tif gvk.Kind != \"\" {\n\t\tc.informerReferencesMux.RLock()\n\t\tdefer c.informerReferencesMux.RUnlock()\n\t}\n\n\trefs, ok := c.informerReferences[gvk]",
			Expect: []string{"C12.R1@(*internal/dynamiccache.Cache).OwnersForGKV"}},
		Mutant{Prop: "C12", Name: "r1-closure-unlocks-before-access", File: cache,
			Old:    "\tc.informerReferencesMux.RLock()\n\tdefer c.informerReferencesMux.RUnlock()\n\tif _, ok := c.informerReferences[gvk]; !ok {",
			New:    "\tc.informerReferencesMux.RLock()\n\tunlock := func() { c.informerReferencesMux.RUnlock() }\n\tunlock()\n\tif _, ok := c.informerReferences[gvk]; !ok {",
			Expect: []string{"C12.R1@(*internal/dynamiccache.Cache).Get"}},
		Mutant{Prop: "C12", Name: "r1-map-used-after-unlock", File: cache,
			Old:    "\tc.informerReferencesMux.RLock()\n\tdefer c.informerReferencesMux.RUnlock()\n\n\trefs, ok := c.informerReferences[gvk]\n\tif !ok {\n\t\treturn nil\n\t}\n",
			New:    "\tc.informerReferencesMux.RLock()\n\trefs, ok := c.informerReferences[gvk]\n\tc.informerReferencesMux.RUnlock()\n\tif !ok {\n\t\treturn nil\n\t}\n",
			Expect: []string{"C12.R1@(*internal/dynamiccache.Cache).OwnersForGKV#Cache.informerReferences:elem-"}},
		// ---- R2 ------------------------------------------------------------------------------
		Mutant{Prop: "C12", Name: "r2-informer-for-existing-kind", File: cache,
			Old:    "\tif !informerExists {\n\t\tlog.Info(\"adding new watcher\",",
			New:    "\t{\n\t\tlog.Info(\"adding new watcher\",",
			Expect: []string{"C12.R2@(*internal/dynamiccache.Cache).Watch#informerMap.Get", "C12.R2@(*internal/dynamiccache.Cache).Watch#handleNewInformer"}},
		Mutant{Prop: "C12", Name: "r2-existence-read-after-insert", File: cache,
			Old:    "\t_, informerExists := c.informerReferences[gvk]\n\tif !informerExists {\n\t\tc.informerReferences[gvk] = map[OwnerReference]struct{}{}\n\t}\n\tc.informerReferences[gvk][ownerRef] = struct{}{}\n",
			New:    "\tif _, ok := c.informerReferences[gvk]; !ok {\n\t\tc.informerReferences[gvk] = map[OwnerReference]struct{}{}\n\t}\n\tc.informerReferences[gvk][ownerRef] = struct{}{}\n\t_, informerExists := c.informerReferences[gvk]\n",
			Expect: []string{"C12.R2@(*internal/dynamiccache.Cache).Watch#informerMap.Get"}},
		Mutant{Prop: "C12", Name: "r2-owner-recorded-only-for-new-kind", File: cache,
			Old:    "\t\tc.informerReferences[gvk] = map[OwnerReference]struct{}{}\n\t}\n\tc.informerReferences[gvk][ownerRef] = struct{}{}\n",
			New:    "\t\tc.informerReferences[gvk] = map[OwnerReference]struct{}{}\n\t\tc.informerReferences[gvk][ownerRef] = struct{}{}\n\t}\n",
			Expect: []string{"C12.R2@(*internal/dynamiccache.Cache).Watch#owner-insert"}},
		Mutant{Prop: "C12", Name: "r2-owner-set-overwritten", File: cache,
			Old:    "\tif !informerExists {\n\t\tc.informerReferences[gvk] = map[OwnerReference]struct{}{}\n\t}\n",
			New:    "\tc.informerReferences[gvk] = map[OwnerReference]struct{}{}\n",
			Expect: []string{"C12.R2@(*internal/dynamiccache.Cache).Watch#kind-insert"}},
		Mutant{Prop: "C12", Name: "r2-ownerref-without-uid", File: cache,
			Old:    "\t\tUID:       owner.GetUID(),\n",
			New:    "",
			Expect: []string{"C12.R2@(*internal/dynamiccache.Cache).ownerRef"}},
		// ---- R3 ------------------------------------------------------------------------------
		Mutant{Prop: "C12", Name: "r3-skip-handleNewInformer", File: cache,
			Old:    "\t\tif err := c.cacheSource.handleNewInformer(informer); err != nil {",
			New:    "\t\t_ = informer\n\t\tif err := error(nil); err != nil {",
			Expect: []string{"C12.R3@(*internal/dynamiccache.Cache).Watch#handlers-after-Get"}},
		Mutant{Prop: "C12", Name: "r3-handlers-loop-returns-after-first", File: src,
			Old:    "\t\tif err := s.Start(eh.ctx, eh.queue); err != nil {\n\t\t\treturn err\n\t\t}\n",
			New:    "\t\treturn s.Start(eh.ctx, eh.queue)\n",
			Expect: []string{"C12.R3@(*internal/dynamiccache.cacheSource).handleNewInformer"}},
		Mutant{Prop: "C12", Name: "r3-handler-registration-not-frozen", File: src,
			Old:    "\tif e.source.blockNew {\n\t\tpanic(\"Trying to add EventHandlers to dynamiccache.CacheSource after manager start\")\n\t}\n",
			New:    "",
			Expect: []string{"C12.R3@"}},
		Mutant{Prop: "C12", Name: "r3-start-does-not-freeze", File: cache,
			Old:    "\tc.cacheSource.blockNewRegistrations()\n\treturn nil",
			New:    "\treturn nil",
			Expect: []string{"C12.R3@(*internal/dynamiccache.Cache).Start"}},
		// ---- R4 (D2 repaired: removing the repair must be caught) -----------------------------
		Mutant{Prop: "C12", Name: "r4-no-rollback-when-informer-fails", File: cache,
			Old:    "\t\t\tc.rollbackWatch(ctx, gvk)\n\t\t\treturn fmt.Errorf(\"getting informer from InformerMap: %w\", err)",
			New:    "\t\t\treturn fmt.Errorf(\"getting informer from InformerMap: %w\", err)",
			Expect: []string{"C12.R4@(*internal/dynamiccache.Cache).Watch#rollback-after-insert"}},
		Mutant{Prop: "C12", Name: "r4-no-rollback-when-handlers-fail", File: cache,
			Old:    "\t\t\tc.rollbackWatch(ctx, gvk)\n\t\t\treturn fmt.Errorf(\"registering EventHandlers for %v: %w\", gvk, err)",
			New:    "\t\t\treturn fmt.Errorf(\"registering EventHandlers for %v: %w\", gvk, err)",
			Expect: []string{"C12.R4@(*internal/dynamiccache.Cache).Watch#rollback-after-insert"}},
		Mutant{Prop: "C12", Name: "r4-rollback-keeps-half-started-informer", File: cache,
			Old:    "\tif err := c.informerMap.Delete(ctx, gvk); err != nil {\n\t\tlogr.FromContextOrDiscard(ctx).Error(err, \"releasing informer after failed start\", \"gvk\", gvk.String())\n\t}\n",
			New:    "",
			Expect: []string{"C12.R4@(*internal/dynamiccache.Cache).Watch#rollback-after-insert"}},
		Mutant{Prop: "C12", Name: "r4-rollback-keeps-reference", File: cache,
			Old:    "\tdelete(c.informerReferences, gvk)\n\t// Stop a half-started informer.",
			New:    "\t// Stop a half-started informer.",
			Expect: []string{"C12.R4@(*internal/dynamiccache.Cache).Watch#rollback-after-insert"}},
		// ---- R5 ------------------------------------------------------------------------------
		Mutant{Prop: "C12", Name: "r5-stop-when-any-owner-frees", File: cache,
			Old:    "\t\t\tif len(refs) == 0 {\n",
			New:    "\t\t\tif len(refs) >= 0 {\n",
			Expect: []string{"C12.R5@(*internal/dynamiccache.Cache).Free#informerMap.Delete", "C12.R5@(*internal/dynamiccache.Cache).Free#kind-removal"}},
		Mutant{Prop: "C12", Name: "r5-emptiness-tested-before-removal", File: cache,
			Old:    "\t\t\tdelete(refs, ownerRef)\n\n\t\t\tif len(refs) == 0 {",
			New:    "\t\t\tdefer delete(refs, ownerRef)\n\n\t\t\tif len(refs) == 0 {",
			Expect: []string{"C12.R5@(*internal/dynamiccache.Cache).Free#informerMap.Delete"}},
		Mutant{Prop: "C12", Name: "r5-stop-without-membership", File: cache,
			Old:    "\t\tif _, ok := refs[ownerRef]; ok {\n",
			New:    "\t\tif _, ok := refs[ownerRef]; ok || len(refs) < 2 {\n",
			Expect: []string{"C12.R5@(*internal/dynamiccache.Cache).Free#informerMap.Delete"}},
		Mutant{Prop: "C12", Name: "r5-free-stops-at-first-kind", File: cache,
			Old:    "\t\t\t\tdelete(c.informerReferences, gvk)\n\t\t\t}\n",
			New:    "\t\t\t\tdelete(c.informerReferences, gvk)\n\t\t\t\treturn nil\n\t\t\t}\n",
			Expect: []string{"C12.R5@(*internal/dynamiccache.Cache).Free#owner-removal"}},
		Mutant{Prop: "C12", Name: "r5-kind-kept-after-stop", File: cache,
			Old:    "\n\t\t\t\tdelete(c.informerReferences, gvk)\n",
			New:    "\n",
			Expect: []string{"C12.R5@(*internal/dynamiccache.Cache).Free#informerMap.Delete"}},
		Mutant{Prop: "C12", Name: "r5-removes-all-owners", File: cache,
			Old:    "\t\t\tdelete(refs, ownerRef)\n\n",
			New:    "\t\t\tfor other := range refs {\n\t\t\t\tdelete(refs, other)\n\t\t\t}\n\n",
			Expect: []string{"C12.R5@"}},
		Mutant{Prop: "C12", Name: "r5-informer-stopped-after-successful-watch", File: cache,
			Old:    "\t\t\treturn fmt.Errorf(\"registering EventHandlers for %v: %w\", gvk, err)\n\t\t}\n\t}\n\n\treturn nil\n",
			New:    "\t\t\treturn fmt.Errorf(\"registering EventHandlers for %v: %w\", gvk, err)\n\t\t}\n\t}\n\t_ = c.informerMap.Delete(ctx, gvk)\n\n\treturn nil\n",
			Expect: []string{"C12.R5@(*internal/dynamiccache.Cache).Watch#informerMap.Delete"}},
		// ---- R6 ------------------------------------------------------------------------------
		Mutant{Prop: "C12", Name: "r6-get-informer-before-reference-check", File: cache,
			Old:    getBody,
			New:    "\t_, reader, err := c.informerMap.Get(ctx, gvk, uns)\n\tif err != nil {\n\t\treturn fmt.Errorf(\"getting Informer from Map: %w\", err)\n\t}\n\tif _, ok := c.informerReferences[gvk]; !ok {\n\t\treturn &CacheNotStartedError{}\n\t}\n\n\tif err := reader.Get(",
			Expect: []string{"C12.R6@(*internal/dynamiccache.Cache).Get#read-informerMap.Get"}},
		Mutant{Prop: "C12", Name: "r6-list-unwatched-kind-returns-nil", File: cache,
			Old:    listBody,
			New:    "\tif _, ok := c.informerReferences[gvk]; !ok {\n\t\treturn nil\n\t}\n\n\t_, reader, err := c.informerMap.Get(ctx, gvk, uns)\n\tif err != nil {\n\t\treturn fmt.Errorf(\"getting Informer from Map: %w\", err)\n\t}\n\n\tif err := reader.List(",
			Expect: []string{"C12.R6@(*internal/dynamiccache.Cache).list#not-started-error"}},
		Mutant{Prop: "C12", Name: "r6-list-checks-other-kind", File: cache,
			Old:    "\tgvk.Kind = strings.TrimSuffix(gvk.Kind, \"List\")\n\n\tif _, ok := c.informerReferences[gvk]; !ok {",
			New:    "\tlistGVK := gvk\n\tgvk.Kind = strings.TrimSuffix(gvk.Kind, \"List\")\n\n\tif _, ok := c.informerReferences[listGVK]; !ok {",
			Expect: []string{"C12.R6@(*internal/dynamiccache.Cache).list"}},
		// ---- R7 ------------------------------------------------------------------------------
		Mutant{Prop: "C12", Name: "r7-finalizer-removed-despite-free-error", File: ctl,
			Old:    "\tif err := cache.Free(ctx, obj); err != nil {\n\t\treturn fmt.Errorf(\"free cache: %w\", err)\n\t}\n",
			New:    "\t_ = cache.Free(ctx, obj)\n",
			Expect: []string{"C12.R7@internal/controllers.FreeCacheAndRemoveFinalizer"}},
		Mutant{Prop: "C12", Name: "r7-objectset-removes-finalizer-without-free", File: osc,
			Old:    "\tif err := controllers.FreeCacheAndRemoveFinalizer(\n\t\tctx, c.client, objectSet.ClientObject(), c.dynamicCache); err != nil {",
			New:    "\tif err := controllers.RemoveFinalizer(\n\t\tctx, c.client, objectSet.ClientObject(), constants.CachedFinalizer); err != nil {",
			Expect: []string{"C12.R7@"}},
		// ---- R8 ------------------------------------------------------------------------------
		Mutant{Prop: "C12", Name: "r8-entry-kept-after-close", File: imap,
			Old:    "\tclose(entry.StopCh)\n\tdelete(im.informers, gvk)\n",
			New:    "\tclose(entry.StopCh)\n",
			Expect: []string{"C12.R8@(*internal/dynamiccache.InformerMap).Delete#close-StopCh"}},
		Mutant{Prop: "C12", Name: "r8-close-without-existence-check", File: imap,
			Old:    "\tentry, ok := im.informers[gvk]\n\tif !ok {\n\t\treturn nil\n\t}\n\n\tclose(entry.StopCh)",
			New:    "\tentry, ok := im.informers[gvk]\n\t_ = ok\n\n\tclose(entry.StopCh)",
			Expect: []string{"C12.R8@(*internal/dynamiccache.InformerMap).Delete#close-StopCh"}},
		Mutant{Prop: "C12", Name: "r8-no-recheck-under-write-lock", File: imap,
			Old:    "\tif entry, ok := im.informers[gvk]; ok {\n\t\treturn entry.Informer, entry.Reader, nil\n\t}\n",
			New:    "",
			Expect: []string{"C12.R8@(*internal/dynamiccache.InformerMap).addInformerToMap#informers-insert"}},
		Mutant{Prop: "C12", Name: "r8-run-with-unstored-stop-channel", File: imap,
			Old:    "\tgo e.Informer.Run(e.StopCh)",
			New:    "\tgo e.Informer.Run(make(chan struct{}))",
			Expect: []string{"C12.R8@(*internal/dynamiccache.InformerMap).addInformerToMap#informer-run"}},

		// ---- benign variants ------------------------------------------------------------------
		Mutant{Prop: "C12", Name: "benign-watch-else-restructure", File: cache, Benign: true,
			Old: "\tif !informerExists {\n\t\tc.informerReferences[gvk] = map[OwnerReference]struct{}{}\n\t}\n",
			New: "\tif informerExists {\n\t\tlog.V(1).Info(\"kind already watched\")\n\t} else {\n\t\tc.informerReferences[gvk] = make(map[OwnerReference]struct{})\n\t}\n"},
		Mutant{Prop: "C12", Name: "benign-watch-early-return-for-known-kind", File: cache, Benign: true,
			Old: "\tif !informerExists {\n\t\tlog.Info(\"adding new watcher\",",
			New: "\tif informerExists == true {\n\t\treturn nil\n\t}\n\t{\n\t\tlog.Info(\"adding new watcher\","},
		Mutant{Prop: "C12", Name: "benign-rollback-inlined", File: cache, Benign: true,
			Old: "\t\t\tc.rollbackWatch(ctx, gvk)\n\t\t\treturn fmt.Errorf(\"getting informer from InformerMap: %w\", err)",
			New: "\t\t\tdelete(c.informerReferences, gvk)\n\t\t\t_ = c.informerMap.Delete(ctx, gvk)\n\t\t\treturn fmt.Errorf(\"getting informer from InformerMap: %w\", err)"},
		Mutant{Prop: "C12", Name: "benign-rollback-steps-swapped", File: cache, Benign: true,
			Old: "\tdelete(c.informerReferences, gvk)\n\t// Stop a half-started informer. This is a no-op if none was registered.\n\tif err := c.informerMap.Delete(ctx, gvk); err != nil {\n\t\tlogr.FromContextOrDiscard(ctx).Error(err, \"releasing informer after failed start\", \"gvk\", gvk.String())\n\t}\n",
			New: "\tif err := c.informerMap.Delete(ctx, gvk); err != nil {\n\t\tlogr.FromContextOrDiscard(ctx).Error(err, \"releasing informer after failed start\", \"gvk\", gvk.String())\n\t}\n\tdelete(c.informerReferences, gvk)\n"},
		Mutant{Prop: "C12", Name: "benign-free-continue-style", File: cache, Benign: true,
			Old: freeLoop,
			New: "\tfor gvk, refs := range c.informerReferences {\n\t\tif _, ok := refs[ownerRef]; !ok {\n\t\t\tcontinue\n\t\t}\n\t\tdelete(refs, ownerRef)\n\t\tif len(refs) > 0 {\n\t\t\tcontinue\n\t\t}\n\t\tlog.Info(\"releasing watcher\", \"kind\", gvk.Kind, \"group\", gvk.Group)\n\t\tif err := c.informerMap.Delete(ctx, gvk); err != nil {\n\t\t\treturn fmt.Errorf(\"releasing informer for %v: %w\", gvk, err)\n\t\t}\n\t\tdelete(c.informerReferences, gvk)\n\t}\n"},
		Mutant{Prop: "C12", Name: "benign-get-named-ok-and-logging", File: cache, Benign: true,
			Old: getBody,
			New: "\t_, watched := c.informerReferences[gvk]\n\tif watched == false {\n\t\treturn &CacheNotStartedError{}\n\t}\n\tlogr.FromContextOrDiscard(ctx).V(2).Info(\"cache read\", \"gvk\", gvk.String())\n\n\t_, reader, err := c.informerMap.Get(ctx, gvk, uns)\n\tif err != nil {\n\t\treturn fmt.Errorf(\"getting Informer from Map: %w\", err)\n\t}\n\n\tif err := reader.Get("},
		Mutant{Prop: "C12", Name: "benign-list-explicit-unlock-after-helper", File: cache, Benign: true,
			Old: "\tdefer c.informerReferencesMux.RUnlock()\n\n\treturn c.list(ctx, out, opts...)",
			New: "\terr := c.list(ctx, out, opts...)\n\tc.informerReferencesMux.RUnlock()\n\treturn err"},
		Mutant{Prop: "C12", Name: "benign-samplemetrics-in-deferred-closure", File: cache, Benign: true,
			Old: "\tdefer c.sampleMetrics(ctx)\n\n\tlog := logr.FromContextOrDiscard(ctx)\n\n\townerRef, err",
			New: "\tdefer func() {\n\t\tc.sampleMetrics(ctx)\n\t}()\n\n\tlog := logr.FromContextOrDiscard(ctx)\n\n\townerRef, err"},
		Mutant{Prop: "C12", Name: "benign-informermap-delete-restructured", File: imap, Benign: true,
			Old: "\tentry, ok := im.informers[gvk]\n\tif !ok {\n\t\treturn nil\n\t}\n\n\tclose(entry.StopCh)\n\tdelete(im.informers, gvk)\n\treturn nil",
			New: "\tif entry, ok := im.informers[gvk]; ok {\n\t\tdelete(im.informers, gvk)\n\t\tclose(entry.StopCh)\n\t}\n\treturn nil"},
		Mutant{Prop: "C12", Name: "benign-handlers-index-loop", File: src, Benign: true,
			Old: "\tfor _, eh := range e.handlers {\n\t\ts := source.Informer{Informer: informer, Handler: eh.handler, Predicates: eh.predicates}\n",
			New: "\tfor i := range e.handlers {\n\t\teh := e.handlers[i]\n\t\ts := source.Informer{Predicates: eh.predicates, Handler: eh.handler, Informer: informer}\n"},
		Mutant{Prop: "C12", Name: "benign-finalizer-error-style", File: ctl, Benign: true,
			Old: "\tif err := cache.Free(ctx, obj); err != nil {\n\t\treturn fmt.Errorf(\"free cache: %w\", err)\n\t}\n\n\treturn RemoveFinalizer(ctx, c, obj, constants.CachedFinalizer)",
			New: "\terr := cache.Free(ctx, obj)\n\tif nil == err {\n\t\treturn RemoveFinalizer(ctx, c, obj, constants.CachedFinalizer)\n\t}\n\treturn fmt.Errorf(\"free cache: %w\", err)"},
		Mutant{Prop: "C12", Name: "benign-informer-run-through-locals", File: imap, Benign: true,
			Old: "\tgo e.Informer.Run(e.StopCh)",
			New: "\tstopCh := e.StopCh\n\tgo ni.Run(stopCh)"},
		Mutant{Prop: "C12", Name: "benign-ownersforgvk-explicit-unlock", File: cache, Benign: true,
			Old: "\tc.informerReferencesMux.RLock()\n\tdefer c.informerReferencesMux.RUnlock()\n\n\trefs, ok := c.informerReferences[gvk]\n\tif !ok {\n\t\treturn nil\n\t}\n",
			New: "\tc.informerReferencesMux.RLock()\n\tdefer func() { c.informerReferencesMux.RUnlock() }()\n\n\trefs, ok := c.informerReferences[gvk]\n\tif !ok {\n\t\treturn nil\n\t}\n"},
	)

	// ---- shapes met in the refactoring corpus (round two): standard-library iterators over a guarded
	// container, and the stop+forget pair of Free behind an error-returning helper
	const stdImports = "\t\"fmt\"\n\t\"strings\"\n\t\"sync\"\n"
	const stdImportsNew = "\t\"fmt\"\n\t\"maps\"\n\t\"slices\"\n\t\"strings\"\n\t\"sync\"\n"
	const ownersLoop = "\townerRefs := make([]OwnerReference, len(refs))\n\tvar i int\n\tfor ownerRef := range refs {\n\t\townerRefs[i] = ownerRef\n\t\ti++\n\t}\n\treturn ownerRefs\n"
	const ownersLocked = "\tc.informerReferencesMux.RLock()\n\tdefer c.informerReferencesMux.RUnlock()\n\n\trefs, ok := c.informerReferences[gvk]\n\tif !ok {\n\t\treturn nil\n\t}\n\n" + ownersLoop
	const stopAndForget = "\t\t\t\tif err := c.informerMap.Delete(ctx, gvk); err != nil {\n\t\t\t\t\treturn fmt.Errorf(\"releasing informer for %v: %w\", gvk, err)\n\t\t\t\t}\n\n\t\t\t\tdelete(c.informerReferences, gvk)\n"
	const viaRelease = "\t\t\t\tif err := c.releaseInformer(ctx, gvk); err != nil {\n\t\t\t\t\treturn err\n\t\t\t\t}\n"
	const notStartedDoc = "// CacheNotStartedError is returned when trying to read from a cache before starting a watch.\n"
	releaseHelper := func(onError string) string {
		return "func (c *Cache) releaseInformer(ctx context.Context, gvk schema.GroupVersionKind) error {\n\tif err := c.informerMap.Delete(ctx, gvk); err != nil {\n\t\t" + onError + "\n\t}\n\n\tdelete(c.informerReferences, gvk)\n\treturn nil\n}\n\n" + notStartedDoc
	}
	addMutants(
		Mutant{Prop: "C12", Name: "benign-owners-collected-with-maps-keys", File: cache, Benign: true,
			Old:  ownersLoop,
			New:  "\treturn slices.AppendSeq(make([]OwnerReference, 0, len(refs)), maps.Keys(refs))\n",
			More: []Edit{{File: cache, Old: stdImports, New: stdImportsNew}}},
		Mutant{Prop: "C12", Name: "r1-owner-iterator-drained-after-unlock", File: cache,
			Old:    ownersLocked,
			New:    "\tc.informerReferencesMux.RLock()\n\trefs, ok := c.informerReferences[gvk]\n\tif !ok {\n\t\tc.informerReferencesMux.RUnlock()\n\t\treturn nil\n\t}\n\tkeys, n := maps.Keys(refs), len(refs)\n\tc.informerReferencesMux.RUnlock()\n\n\treturn slices.AppendSeq(make([]OwnerReference, 0, n), keys)\n",
			More:   []Edit{{File: cache, Old: stdImports, New: stdImportsNew}},
			Expect: []string{"C12.R1@(*internal/dynamiccache.Cache).OwnersForGKV"}, Why: "the lazy iterator reads the owner set while Watch/Free may write it"},
		Mutant{Prop: "C12", Name: "r1-owner-iterator-handed-to-goroutine", File: cache,
			Old:    ownersLoop,
			New:    "\tkeys := maps.Keys(refs)\n\tgo func() { _ = slices.Collect(keys) }()\n\treturn slices.AppendSeq(make([]OwnerReference, 0, len(refs)), keys)\n",
			More:   []Edit{{File: cache, Old: stdImports, New: stdImportsNew}},
			Expect: []string{"C12.R1@(*internal/dynamiccache.Cache).OwnersForGKV"}},
		Mutant{Prop: "C12", Name: "benign-free-stop-and-forget-in-helper", File: cache, Benign: true,
			Old:  stopAndForget,
			New:  viaRelease,
			More: []Edit{{File: cache, Old: notStartedDoc, New: releaseHelper("return fmt.Errorf(\"releasing informer for %v: %w\", gvk, err)")}}},
		Mutant{Prop: "C12", Name: "r5-release-helper-swallows-stop-error", File: cache,
			Old:    stopAndForget,
			New:    viaRelease,
			More:   []Edit{{File: cache, Old: notStartedDoc, New: releaseHelper("return nil")}},
			Expect: []string{"C12.R5@"}, Why: "the kind keeps its (empty) reference after a failed stop that is reported as success: a later Watch never restarts the informer"},
		Mutant{Prop: "C12", Name: "r5-release-helper-error-dropped-by-free", File: cache,
			Old:    stopAndForget,
			New:    "\t\t\t\tif err := c.releaseInformer(ctx, gvk); err != nil {\n\t\t\t\t\treturn nil\n\t\t\t\t}\n",
			More:   []Edit{{File: cache, Old: notStartedDoc, New: releaseHelper("return fmt.Errorf(\"releasing informer for %v: %w\", gvk, err)")}},
			Expect: []string{"C12.R5@"}},
	)
	// ---- shapes met in the refactoring corpus (round three): the owner set held in a local that is
	// either read from the map or freshly stored into it; the handler loop left by `break` with the
	// error in a result variable
	const watchInsert = "\t_, informerExists := c.informerReferences[gvk]\n\tif !informerExists {\n\t\tc.informerReferences[gvk] = map[OwnerReference]struct{}{}\n\t}\n\tc.informerReferences[gvk][ownerRef] = struct{}{}\n"
	const handlerLoop = "\tfor _, eh := range e.handlers {\n\t\ts := source.Informer{Informer: informer, Handler: eh.handler, Predicates: eh.predicates}\n\t\tif err := s.Start(eh.ctx, eh.queue); err != nil {\n\t\t\treturn err\n\t\t}\n\t}\n\treturn nil\n"
	const loopHead = "\tvar startErr error\n\tfor _, eh := range e.handlers {\n\t\ts := source.Informer{Informer: informer, Handler: eh.handler, Predicates: eh.predicates}\n"
	addMutants(
		Mutant{Prop: "C12", Name: "benign-watch-owner-set-in-local", File: cache, Benign: true,
			Old: watchInsert,
			New: "\trefs, informerExists := c.informerReferences[gvk]\n\tif !informerExists {\n\t\trefs = map[OwnerReference]struct{}{}\n\t\tc.informerReferences[gvk] = refs\n\t}\n\trefs[ownerRef] = struct{}{}\n"},
		Mutant{Prop: "C12", Name: "r2-owner-recorded-in-unstored-set", File: cache,
			Old:    watchInsert,
			New:    "\trefs, informerExists := c.informerReferences[gvk]\n\tif !informerExists {\n\t\trefs = map[OwnerReference]struct{}{}\n\t\tc.informerReferences[gvk] = map[OwnerReference]struct{}{}\n\t}\n\trefs[ownerRef] = struct{}{}\n",
			Expect: []string{"C12.R2@(*internal/dynamiccache.Cache).Watch#owner-insert"}, Why: "for a new kind the owner lands in a set that is not the one stored under the kind"},
		Mutant{Prop: "C12", Name: "r2-owner-recorded-in-stale-set", File: cache,
			Old:    watchInsert,
			New:    "\trefs, informerExists := c.informerReferences[gvk]\n\tif !informerExists {\n\t\tc.informerReferences[gvk] = map[OwnerReference]struct{}{}\n\t}\n\tif refs != nil {\n\t\trefs[ownerRef] = struct{}{}\n\t}\n",
			Expect: []string{"C12.R2@(*internal/dynamiccache.Cache).Watch#owner-insert"}, Why: "the set was read before the kind's entry was created: the first owner of a kind is never recorded"},
		Mutant{Prop: "C12", Name: "benign-handlers-loop-break-with-result", File: src, Benign: true,
			Old: handlerLoop,
			New: loopHead + "\t\tif startErr = s.Start(eh.ctx, eh.queue); startErr != nil {\n\t\t\tbreak\n\t\t}\n\t}\n\treturn startErr\n"},
		Mutant{Prop: "C12", Name: "benign-handlers-loop-break-flag-and-test", File: src, Benign: true,
			Old: handlerLoop,
			New: "\tfailed := false\n" + loopHead + "\t\tif err := s.Start(eh.ctx, eh.queue); err != nil {\n\t\t\tstartErr, failed = err, true\n\t\t\tbreak\n\t\t}\n\t}\n\tif failed {\n\t\treturn startErr\n\t}\n\treturn nil\n"},
		Mutant{Prop: "C12", Name: "r3-handlers-loop-break-without-error", File: src,
			Old:    handlerLoop,
			New:    loopHead + "\t\tif eh.handler == nil {\n\t\t\tbreak\n\t\t}\n\t\tif startErr = s.Start(eh.ctx, eh.queue); startErr != nil {\n\t\t\tbreak\n\t\t}\n\t}\n\treturn startErr\n",
			Expect: []string{"C12.R3@(*internal/dynamiccache.cacheSource).handleNewInformer"}, Why: "the loop stops at the first handler-less entry and reports success: later handlers never see events of the new informer"},
		Mutant{Prop: "C12", Name: "r3-handlers-loop-break-result-dropped", File: src,
			Old:    handlerLoop,
			New:    loopHead + "\t\tif startErr = s.Start(eh.ctx, eh.queue); startErr != nil {\n\t\t\tbreak\n\t\t}\n\t}\n\tif startErr == nil {\n\t\treturn startErr\n\t}\n\treturn nil\n",
			Expect: []string{"C12.R3@(*internal/dynamiccache.cacheSource).handleNewInformer"}, Why: "a failed Start ends the loop but success is returned: Watch keeps the reference although handlers are missing"},
		// ---- round T: library helpers instead of hand-built literals ----------------------------
		Mutant{Prop: "C12", Name: "r2-benign-ownerref-groupkind-helper", File: cache, Benign: true,
			Old: "\t\tGroupKind: schema.GroupKind{\n\t\t\tGroup: ownerGVK.Group,\n\t\t\tKind:  ownerGVK.Kind,\n\t\t},\n",
			New: "\t\tGroupKind: ownerGVK.GroupKind(),\n"},
		Mutant{Prop: "C12", Name: "r2-ownerref-groupkind-helper-drops-group", File: cache,
			Old:    "\t\tGroupKind: schema.GroupKind{\n\t\t\tGroup: ownerGVK.Group,\n\t\t\tKind:  ownerGVK.Kind,\n\t\t},\n",
			New:    "\t\tGroupKind: schema.GroupVersionKind{Kind: ownerGVK.Kind}.GroupKind(),\n",
			Expect: []string{"C12.R2@(*internal/dynamiccache.Cache).ownerRef"}, Why: "owners of equal name/uid but different API groups collapse into one reference"},
		Mutant{Prop: "C12", Name: "r2-ownerref-groupkind-fields-crossed", File: cache,
			Old:    "\t\tGroupKind: schema.GroupKind{\n\t\t\tGroup: ownerGVK.Group,\n\t\t\tKind:  ownerGVK.Kind,\n\t\t},\n",
			New:    "\t\tGroupKind: schema.GroupKind{\n\t\t\tGroup: ownerGVK.Group,\n\t\t\tKind:  ownerGVK.Version,\n\t\t},\n",
			Expect: []string{"C12.R2@(*internal/dynamiccache.Cache).ownerRef"}},
	)
	// ---- round seven (X5): blocks of Watch / Free extracted into error-returning helpers. The
	// normalisation pre-pass merges such a helper into its caller (its returns meet in one block whose
	// error Phi the caller tests); a helper with a defer stays in place and is judged through its
	// summary (R4: rollback before every return that may carry an error; R5: owner set, owner
	// reference and the loop over the kinds are those of the single call site).
	const startBlock = "\t\t// Create/Get Informer\n\t\tinformer, _, err := c.informerMap.Get(ctx, gvk, uns)\n\t\tif err != nil {\n\t\t\tc.rollbackWatch(ctx, gvk)\n\t\t\treturn fmt.Errorf(\"getting informer from InformerMap: %w\", err)\n\t\t}\n\n\t\t// ensure to add all event handlers to the new informer\n\t\tif err := c.cacheSource.handleNewInformer(informer); err != nil {\n\t\t\tc.rollbackWatch(ctx, gvk)\n\t\t\treturn fmt.Errorf(\"registering EventHandlers for %v: %w\", gvk, err)\n\t\t}\n"
	const viaStart = "\t\tif err := c.startInformer(ctx, gvk, uns); err != nil {\n\t\t\treturn err\n\t\t}\n"
	const rollbackDoc = "// rollbackWatch forgets a GVK whose informer could not be started or did not get its event handlers.\n"
	const withDefer = "\tdefer logr.FromContextOrDiscard(ctx).V(1).Info(\"informer start attempted\")\n"
	const getFailed = "\t\tc.rollbackWatch(ctx, gvk)\n\t\treturn fmt.Errorf(\"getting informer from InformerMap: %w\", err)\n"
	const handlersFailed = "\t\tc.rollbackWatch(ctx, gvk)\n\t\treturn fmt.Errorf(\"registering EventHandlers for %v: %w\", gvk, err)\n"
	startHelper := func(pre, onGetErr, onHandlersErr string) []Edit {
		return []Edit{{File: cache, Old: rollbackDoc, New: "func (c *Cache) startInformer(ctx context.Context, gvk schema.GroupVersionKind, uns *unstructured.Unstructured) error {\n" + pre +
			"\tinformer, _, err := c.informerMap.Get(ctx, gvk, uns)\n\tif err != nil {\n" + onGetErr + "\t}\n\tif err := c.cacheSource.handleNewInformer(informer); err != nil {\n" + onHandlersErr +
			"\t}\n\treturn nil\n}\n\n" + rollbackDoc}}
	}
	const viaReleaseOwner = "\tfor gvk, refs := range c.informerReferences {\n\t\tif err := c.releaseOwner(ctx, log, owner, ownerRef, gvk, refs); err != nil {\n\t\t\treturn err\n\t\t}\n\t}\n"
	releaseOwnerHelper := func(emptyTest string) []Edit {
		return []Edit{{File: cache, Old: notStartedDoc, New: "func (c *Cache) releaseOwner(\n\tctx context.Context, log logr.Logger, owner client.Object, ownerRef OwnerReference,\n\tgvk schema.GroupVersionKind, refs map[OwnerReference]struct{},\n) error {\n" +
			"\tdefer log.V(1).Info(\"owner released\")\n\tif _, ok := refs[ownerRef]; ok {\n\t\tdelete(refs, ownerRef)\n\n\t\tif " + emptyTest + " {\n\t\t\tlog.Info(\"releasing watcher\",\n\t\t\t\t\"kind\", gvk.Kind, \"group\", gvk.Group,\n\t\t\t\t\"ownerNamespace\", owner.GetNamespace())\n\n" +
			"\t\t\tif err := c.informerMap.Delete(ctx, gvk); err != nil {\n\t\t\t\treturn fmt.Errorf(\"releasing informer for %v: %w\", gvk, err)\n\t\t\t}\n\n\t\t\tdelete(c.informerReferences, gvk)\n\t\t}\n\t}\n\treturn nil\n}\n\n" + notStartedDoc}}
	}
	addMutants(
		Mutant{Prop: "C12", Name: "benign-watch-informer-start-in-helper", File: cache, Benign: true,
			Old: startBlock, New: viaStart, More: startHelper("", getFailed, handlersFailed)},
		Mutant{Prop: "C12", Name: "benign-watch-informer-start-in-helper-with-defer", File: cache, Benign: true,
			Old: startBlock, New: viaStart, More: startHelper(withDefer, getFailed, handlersFailed)},
		Mutant{Prop: "C12", Name: "r4-start-helper-no-rollback-when-informer-fails", File: cache,
			Old: startBlock, New: viaStart, More: startHelper("", "\t\treturn fmt.Errorf(\"getting informer from InformerMap: %w\", err)\n", handlersFailed),
			Expect: []string{"C12.R4@(*internal/dynamiccache.Cache).Watch#rollback-after-insert"}},
		Mutant{Prop: "C12", Name: "r4-start-helper-with-defer-no-rollback-when-handlers-fail", File: cache,
			Old: startBlock, New: viaStart, More: startHelper(withDefer, getFailed, "\t\treturn fmt.Errorf(\"registering EventHandlers for %v: %w\", gvk, err)\n"),
			Expect: []string{"C12.R4@(*internal/dynamiccache.Cache).Watch#rollback-after-insert"}},
		Mutant{Prop: "C12", Name: "r4-error-after-successful-start-helper", File: cache,
			Old: startBlock, New: viaStart + "\t\tif err := ctx.Err(); err != nil {\n\t\t\treturn err\n\t\t}\n", More: startHelper(withDefer, getFailed, handlersFailed),
			Expect: []string{"C12.R4@(*internal/dynamiccache.Cache).Watch#rollback-after-insert"}, Why: "the informer runs, but Watch reports failure and keeps the reference: the caller retries and never learns that events already flow"},
		Mutant{Prop: "C12", Name: "r4-start-helper-error-tested-after-another-exit", File: cache,
			Old: startBlock, New: "\t\terr := c.startInformer(ctx, gvk, uns)\n\t\tif cerr := ctx.Err(); cerr != nil {\n\t\t\treturn cerr\n\t\t}\n\t\tif err != nil {\n\t\t\treturn err\n\t\t}\n", More: startHelper("", getFailed, handlersFailed),
			Expect: []string{"C12.R4@(*internal/dynamiccache.Cache).Watch#rollback-after-insert"}},
		Mutant{Prop: "C12", Name: "r3-start-helper-with-defer-reports-rollback-as-success", File: cache,
			Old: startBlock, New: viaStart, More: startHelper(withDefer, "\t\tc.rollbackWatch(ctx, gvk)\n\t\treturn nil\n", handlersFailed),
			Expect: []string{"C12.R3@(*internal/dynamiccache.Cache).Watch#handlers-after-Get", "C12.R5@(*internal/dynamiccache.Cache).rollbackWatch"}, Why: "Watch reports success for a kind without informer; the rollback is no longer confined to failing Watch calls"},
		Mutant{Prop: "C12", Name: "benign-free-loop-body-in-helper-with-defer", File: cache, Benign: true,
			Old: freeLoop, New: viaReleaseOwner, More: releaseOwnerHelper("len(refs) == 0")},
		Mutant{Prop: "C12", Name: "r5-release-owner-helper-stops-shared-informer", File: cache,
			Old: freeLoop, New: viaReleaseOwner, More: releaseOwnerHelper("len(refs) >= 0"),
			Expect: []string{"C12.R5@(*internal/dynamiccache.Cache).releaseOwner#informerMap.Delete", "C12.R5@(*internal/dynamiccache.Cache).releaseOwner#kind-removal"}},
		Mutant{Prop: "C12", Name: "r5-release-owner-helper-error-dropped-by-free", File: cache,
			Old: freeLoop, New: "\tfor gvk, refs := range c.informerReferences {\n\t\t_ = c.releaseOwner(ctx, log, owner, ownerRef, gvk, refs)\n\t}\n", More: releaseOwnerHelper("len(refs) == 0"),
			Expect: []string{"C12.R5@(*internal/dynamiccache.Cache).releaseOwner#informerMap.Delete"}, Why: "a failed stop is reported as success while the kind keeps its empty reference: a later Watch never restarts the informer"},
		Mutant{Prop: "C12", Name: "r1-release-owner-helper-under-read-lock", File: cache,
			Old: freeLoop, New: viaReleaseOwner,
			More: append(releaseOwnerHelper("len(refs) == 0"), Edit{File: cache,
				Old: "error {\n\tc.informerReferencesMux.Lock()\n\tdefer c.informerReferencesMux.Unlock()\n\tdefer c.sampleMetrics(ctx)\n\n\tlog := logr.FromContextOrDiscard(ctx)\n\n\townerRef, err := c.ownerRef(owner)\n\tif err != nil {\n\t\treturn err\n\t}\n\n\tfor gvk",
				New: "error {\n\tc.informerReferencesMux.RLock()\n\tdefer c.informerReferencesMux.RUnlock()\n\tdefer c.sampleMetrics(ctx)\n\n\tlog := logr.FromContextOrDiscard(ctx)\n\n\townerRef, err := c.ownerRef(owner)\n\tif err != nil {\n\t\treturn err\n\t}\n\n\tfor gvk"}),
			Expect: []string{"C12.R1@(*internal/dynamiccache.Cache).releaseOwner"}},
	)
}
