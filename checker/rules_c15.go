package main

import (
	"fmt"
	"go/token"
	"go/types"
	"sort"
	"strings"

	"golang.org/x/tools/go/ssa"
)

// C15 — Delegating a phase to an ObjectSetPhase preserves behaviour.

func init() {
	register(&Property{
		ID: "C15",
		Explanation: "Decides the structural core of C15 on every path of the current source. (R1) The function that builds the delegated phase object (selected as the producer of the object " +
			"handed to the only Create of phase objects) unconditionally copies phase, availability probes, revision and previous revisions from the ObjectSet, pauses it iff the ObjectSet is paused, " +
			"names it by a pure function of (ObjectSet, phase), takes namespace and labels from the ObjectSet and sets the controller reference; the ObjectSet-side and phase-controller-side adapters " +
			"write/read these values through the same Spec fields and the class label. (R2) The Create is reachable only under IsNotFound of the Get by that very key; there is no other Create of " +
			"phase objects. (R3) A zero ProbingResult with nil error is returned only when the phase's Available condition exists, was observed for the phase object's current generation and is True " +
			"(or the phase has no class); controllerOf is relayed from, and the RemotePhaseReference recorded from, the same current object. (R4) Remote teardown reports done only when the phase " +
			"object is gone or not controlled by the ObjectSet, deletes only under IsControlledBy, and reports not-done after a successful Delete. (R5) Both controllers wire the same engine type " +
			"from the same constructor, and the phase controller hands it the phase object's own phase, probes and previous revisions. (R6) Adoption looks through the remote phases of all previous " +
			"revisions. It does not decide equivalence of two executions.",
		NotDecided: []string{"equivalence of a local and a delegated execution (relation between two runs)", "interleavings of the ObjectSet and ObjectSetPhase controllers",
			"out-of-tree phase classes", "that the API server bumps metadata.generation on spec changes (trusted)"},
		Technique: "SSA value identity + guard-fact dataflow + return classification + field-path comparison of adapter pairs + constructor wiring through struct fields",
		Rules: []Rule{
			{ID: "C15.R1", Min: 5, Run: c15r1, Statement: "the delegated phase object carries phase objects, probes, revision, previous revisions (unconditionally) and paused (iff the ObjectSet is paused), has a deterministic name, the ObjectSet's namespace/labels and a controller reference; adapters on both sides use the same fields"},
			{ID: "C15.R2", Min: 2, Run: c15r2, Statement: "the phase object is created only under IsNotFound of the Get by its key, and nowhere else"},
			{ID: "C15.R3", Min: 3, Run: c15r3, Statement: "a delegated phase is reported available only from an Available=True condition observed for the phase object's current generation; controllerOf and the remote phase reference come from that same object"},
			{ID: "C15.R4", Min: 7, Run: c15r4, Statement: "remote teardown is done only when the phase object is gone or not controlled by the ObjectSet; delete only under IsControlledBy; not done right after a successful Delete"},
			{ID: "C15.R5", Min: 5, Run: c15r5, Statement: "both controllers wire the same phase engine from the same constructor; the phase controller passes the phase object's own phase, parsed probes and previous revisions"},
			{ID: "C15.R6", Min: 3, Run: c15r6, Statement: "adoption from previous revisions also accepts objects controlled by a remote phase (name, UID from status.remotePhases, namespace of the previous revision) and examines every previous revision and remote phase"},
		},
	})
}

// ---------------------------------------------------------------------------------------------
// anchors

type c15Anchors struct {
	create     *WriterSite   // the Create of the phase object
	reconcile  *ssa.Function // function containing it (remote Reconcile)
	desired    ssa.Value     // X with X.ClientObject() == created object
	builder    *ssa.Function // produces X
	builderCal *ssa.Call
	nameFn     *ssa.Function // naming function used by the builder
	creates    []WriterSite  // all Create sites of phase objects in product code
}

// c15IsPhaseObject: v is X.ClientObject() with X offering SetPhase, or a pointer to an API
// (Cluster)ObjectSetPhase.
func c15IsPhaseObject(v ssa.Value) (ssa.Value, bool) {
	if co, _ := asCall(v); co != nil && calleeName(co.Common()) == "ClientObject" {
		if r := callRecv(co.Common()); r != nil && mwHasMethod(r.Type(), "SetPhase") {
			return r, true
		}
	}
	ts := namedTypeString(stripConv(v).Type())
	if ts == pkgCoreV1+".ObjectSetPhase" || ts == pkgCoreV1+".ClusterObjectSetPhase" {
		return nil, true
	}
	return nil, false
}

func c15FindAnchors(c *Ctx) *c15Anchors {
	p := c.P
	a := &c15Anchors{}
	for _, ws := range allWriterSites(p.productFuncs()) {
		if ws.Verb != "Create" || mwIsDryRun(ws) {
			continue
		}
		x, ok := c15IsPhaseObject(ws.Obj)
		if !ok {
			continue
		}
		w := ws
		a.creates = append(a.creates, w)
		if funcPkgPath(ws.Call.Fn) == pkgObjectSets && x != nil && a.create == nil {
			a.create = &w
			a.reconcile = ws.Call.Fn
			a.desired = x
		}
	}
	if a.create == nil {
		c.AnchorLost("Create of the delegated phase object in " + pkgObjectSets)
		return nil
	}
	call, idx := asCall(a.desired)
	if call != nil && (idx == 0 || idx == -1) {
		if g := staticCallee(call.Common()); g != nil && g.Blocks != nil {
			a.builder = g
			a.builderCal = call
		}
	}
	if a.builder == nil {
		c.AnchorLost("workspace function producing the phase object that is created (found: " + p.describe(a.desired) + ")")
		return nil
	}
	c.Visit(a.builder)
	c.Visit(a.reconcile)
	for _, cc := range callsIn(a.builder) {
		if calleeName(cc.Common) == "SetName" && len(callArgs(cc.Common)) == 1 {
			if nc, _ := asCall(callArgs(cc.Common)[0]); nc != nil {
				if g := staticCallee(nc.Common()); g != nil && g.Blocks != nil {
					a.nameFn = g
				}
			}
		}
	}
	return a
}

func c15IsParam(v ssa.Value) bool {
	_, ok := stripConv(v).(*ssa.Parameter)
	return ok
}

// c15GetterOnParam: v is <param>.<getter>() or <param>.ClientObject().<getter>().
func c15GetterOnParam(v ssa.Value, getter string, viaClientObject bool) bool {
	call, _ := asCall(v)
	if call == nil || calleeName(call.Common()) != getter || len(callArgs(call.Common())) != 0 {
		return false
	}
	r := callRecv(call.Common())
	if r == nil {
		return false
	}
	if viaClientObject {
		co, _ := asCall(r)
		if co == nil || calleeName(co.Common()) != "ClientObject" {
			return false
		}
		r = callRecv(co.Common())
	}
	return r != nil && c15IsParam(r)
}

// ---------------------------------------------------------------------------------------------
// R1

func c15r1(c *Ctx) {
	p := c.P
	a := c15FindAnchors(c)
	if a == nil {
		return
	}
	b := a.builder
	o := c.Ob(b, "phase-object-carries", nil, "on every successful return the phase object had SetPhase(phase), SetAvailabilityProbes/SetRevision/SetPrevious(<ObjectSet's>), SetPaused(true) iff paused, SetName(pure name), SetNamespace/SetLabels(<ObjectSet's>) and a controller reference")
	var problems []string
	nOK := 0
	for _, rc := range p.returnCases(b) {
		if len(rc.Results) != 2 || !isNilConst(stripConv(rc.Results[1])) {
			continue
		}
		nOK++
		P := rc.Results[0]
		D := func(v ssa.Value) bool { // v == P.ClientObject()
			co, _ := asCall(v)
			return co != nil && calleeName(co.Common()) == "ClientObject" && p.sameValue(callRecv(co.Common()), P)
		}
		type req struct {
			method string
			onMeta bool
			argOK  func(ssa.Value) bool
			what   string
		}
		reqs := []req{
			{"SetPhase", false, func(v ssa.Value) bool {
				return c15IsParam(v) && namedTypeString(v.Type()) == pkgCoreV1+".ObjectSetTemplatePhase"
			}, "the phase parameter"},
			{"SetAvailabilityProbes", false, func(v ssa.Value) bool { return c15GetterOnParam(v, "GetAvailabilityProbes", false) }, "objectSet.GetAvailabilityProbes()"},
			{"SetRevision", false, func(v ssa.Value) bool { return c15GetterOnParam(v, "GetRevision", false) }, "objectSet.GetRevision()"},
			{"SetPrevious", false, func(v ssa.Value) bool { return c15GetterOnParam(v, "GetPrevious", false) }, "objectSet.GetPrevious()"},
			{"SetNamespace", true, func(v ssa.Value) bool { return c15GetterOnParam(v, "GetNamespace", true) }, "objectSet.ClientObject().GetNamespace()"},
			{"SetLabels", true, func(v ssa.Value) bool { return c15GetterOnParam(v, "GetLabels", true) }, "objectSet.ClientObject().GetLabels()"},
			{"SetName", true, func(v ssa.Value) bool {
				nc, _ := asCall(v)
				if nc == nil || a.nameFn == nil || staticCallee(nc.Common()) != a.nameFn {
					return false
				}
				for _, x := range nc.Common().Args {
					if !c15IsParam(x) {
						return false
					}
				}
				return true
			}, "<naming function>(objectSet, phase)"},
		}
		for _, r := range reqs {
			var calls []Call
			for _, cc := range callsIn(b) {
				if calleeName(cc.Common) != r.method || len(callArgs(cc.Common)) != 1 {
					continue
				}
				recv := callRecv(cc.Common)
				if recv == nil {
					continue
				}
				if (!r.onMeta && p.sameValue(recv, P)) || (r.onMeta && D(recv)) {
					calls = append(calls, cc)
				}
			}
			if len(calls) != 1 {
				problems = append(problems, fmt.Sprintf("%s is called %d times on the returned phase object (want exactly once)", r.method, len(calls)))
				continue
			}
			cc := calls[0]
			if !r.argOK(callArgs(cc.Common)[0]) {
				problems = append(problems, fmt.Sprintf("%s argument is %s, want %s", r.method, p.describe(callArgs(cc.Common)[0]), r.what))
			}
			if !p.mustPrecede(rc.Ret, func(in ssa.Instruction) bool { return in == cc.Instr }) {
				problems = append(problems, r.method+" does not execute on every path to the successful return")
			}
		}
		// controller reference
		okRef := false
		for _, cc := range callsIn(b) {
			call, isCall := cc.Instr.(*ssa.Call)
			if !isCall || !isCallTo(cc.Common, pkgCtrlUtil+".SetControllerReference") || len(cc.Common.Args) < 2 {
				continue
			}
			ownerOK := false
			if co, _ := asCall(cc.Common.Args[0]); co != nil && calleeName(co.Common()) == "ClientObject" && c15IsParam(callRecv(co.Common())) {
				ownerOK = true
			}
			if ownerOK && D(cc.Common.Args[1]) && p.errOfCallIsNil(rc.Facts, call) {
				okRef = true
			}
		}
		if !okRef {
			problems = append(problems, "no error-checked controllerutil.SetControllerReference(objectSet.ClientObject(), <phase object>) before the successful return")
		}
	}
	if nOK == 0 {
		problems = append(problems, "builder has no successful return")
	}
	if why := c09SetPausedIffSpecPaused(p, b); why != "" {
		problems = append(problems, why)
	}
	if a.nameFn == nil {
		problems = append(problems, "the name is not computed by a workspace function")
	} else {
		c.Visit(a.nameFn)
		for _, cc := range callsIn(a.nameFn) {
			if cc.Common.IsInvoke() && isAccessorName(calleeName(cc.Common)) && len(callArgs(cc.Common)) == 0 {
				continue
			}
			problems = append(problems, "naming function "+shortFuncID(a.nameFn)+" calls "+calleeID(cc.Common)+" (must be a pure function of ObjectSet name and phase name)")
		}
	}
	if len(problems) > 0 {
		o.Fail("%s", strings.Join(problems, "; "))
	} else {
		o.OK("builder " + shortFuncID(b) + ", name by " + shortFuncID(a.nameFn))
	}
	c15AdapterSiblings(c)
}

// c15FieldPath renders the chain of field selections of an address ("ObjectSetPhase.Spec.Paused").
func c15FieldPath(v ssa.Value) string {
	var parts []string
	for {
		fa, ok := v.(*ssa.FieldAddr)
		if !ok {
			break
		}
		parts = append([]string{fieldName(fa.X.Type(), fa.Field)}, parts...)
		v = fa.X
	}
	return strings.Join(parts, ".")
}

// c15LoadPath: v is a load of a field chain -> path.
func c15LoadPath(v ssa.Value) string {
	if u, ok := v.(*ssa.UnOp); ok && u.Op == token.MUL {
		return c15FieldPath(u.X)
	}
	return ""
}

// c15ParamSource: v is a non-receiver parameter ("") or a field of one (".Objects"); ok=false otherwise.
func c15ParamSource(fn *ssa.Function, v ssa.Value) (string, bool) {
	isArg := func(x ssa.Value) bool {
		prm, ok := x.(*ssa.Parameter)
		return ok && len(fn.Params) > 0 && prm != fn.Params[0]
	}
	if isArg(v) {
		return "", true
	}
	u, ok := v.(*ssa.UnOp)
	if !ok || u.Op != token.MUL {
		return "", false
	}
	fa, ok := u.X.(*ssa.FieldAddr)
	if !ok {
		return "", false
	}
	al, ok := fa.X.(*ssa.Alloc)
	if !ok {
		return "", false
	}
	for _, r := range referrersOf(al) {
		if st, ok := r.(*ssa.Store); ok && st.Addr == ssa.Value(al) && isArg(st.Val) {
			return "." + fieldName(fa.X.Type(), fa.Field), true
		}
	}
	return "", false
}

// c15MapIsLabelsField: the map updated by mu is the one the Labels field holds when the method
// returns. Either the map was loaded from the field (updated in place), or the updated map value —
// whatever it is: the old map, a fresh one, a merge of both — is unconditionally stored into the
// field (`m := a.Labels; if m == nil { m = map…{} }; m[k] = v; a.Labels = m`; maps are references,
// so the order of the store and the update does not matter). In both cases no store of a different
// value into the field may follow.
func c15MapIsLabelsField(p *Program, fn *ssa.Function, mu *ssa.MapUpdate) bool {
	var stores []*ssa.Store
	for _, b := range fn.Blocks {
		for _, in := range b.Instrs {
			if st, ok := in.(*ssa.Store); ok && strings.HasSuffix(c15FieldPath(st.Addr), "Labels") {
				stores = append(stores, st)
			}
		}
	}
	overwrittenAfter := func(site ssa.Instruction) bool {
		for _, in := range reachableAfter(site, nil) {
			if st, ok := in.(*ssa.Store); ok && st.Val != mu.Map {
				for _, s := range stores {
					if s == st {
						return true
					}
				}
			}
		}
		return false
	}
	if strings.HasSuffix(c15LoadPath(mu.Map), "Labels") {
		return !overwrittenAfter(mu)
	}
	for _, st := range stores {
		if st.Val == mu.Map && p.c09Unconditional(st) && !overwrittenAfter(st) && !overwrittenAfter(mu) {
			return true
		}
	}
	return false
}

func c15AdapterSiblings(c *Ctx) {
	p := c.P
	classLabel := ""
	if pk := p.ByPath[pkgCoreV1]; pk != nil && pk.Types != nil {
		if k, ok := pk.Types.Scope().Lookup("ObjectSetPhaseClassLabel").(*types.Const); ok {
			classLabel = k.Val().ExactString()
		}
	}
	if classLabel == "" {
		c.AnchorLost(pkgCoreV1 + ".ObjectSetPhaseClassLabel")
		return
	}
	setters := map[string][2]string{ // method -> (param source, spec path suffix)
		"SetPhase":              {".Objects", "Spec.Objects"},
		"SetAvailabilityProbes": {"", "Spec.AvailabilityProbes"},
		"SetRevision":           {"", "Spec.Revision"},
		"SetPrevious":           {"", "Spec.Previous"},
		"SetPaused":             {"", "Spec.Paused"},
	}
	getters := map[string]string{
		"GetAvailabilityProbes": "Spec.AvailabilityProbes",
		"GetRevision":           "Spec.Revision",
		"GetPrevious":           "Spec.Previous",
		"IsSpecPaused":          "Spec.Paused",
	}
	type side struct {
		pkg  string
		must string // method that identifies the adapter interface
	}
	byRecv := func(pkg string) map[string]map[string]*ssa.Function {
		out := map[string]map[string]*ssa.Function{}
		for _, fn := range p.FuncsIn(pkg) {
			if fn.Signature.Recv() == nil || fn.Parent() != nil {
				continue
			}
			rt := namedTypeString(fn.Signature.Recv().Type())
			if out[rt] == nil {
				out[rt] = map[string]*ssa.Function{}
			}
			out[rt][fn.Name()] = fn
		}
		return out
	}
	// writer side (ObjectSet controller)
	var names []string
	w := byRecv(pkgObjectSets)
	for rt := range w {
		names = append(names, rt)
	}
	sort.Strings(names)
	nW := 0
	for _, rt := range names {
		ms := w[rt]
		if ms["SetPhase"] == nil {
			continue
		}
		nW++
		o := c.Ob(ms["SetPhase"], "adapter-writes", nil, "the ObjectSet-side adapter stores phase objects, probes, revision, previous and paused into the ObjectSetPhase spec and the class into the class label")
		var problems []string
		var mnames []string
		for m := range setters {
			mnames = append(mnames, m)
		}
		sort.Strings(mnames)
		for _, m := range mnames {
			want := setters[m]
			fn := ms[m]
			if fn == nil {
				problems = append(problems, "no method "+m)
				continue
			}
			c.Visit(fn)
			found := false
			for _, b := range fn.Blocks {
				for _, in := range b.Instrs {
					st, ok := in.(*ssa.Store)
					if !ok {
						continue
					}
					src, ok := c15ParamSource(fn, st.Val)
					if !ok || src != want[0] {
						continue
					}
					if strings.HasSuffix(c15FieldPath(st.Addr), want[1]) && p.c09Unconditional(in) {
						found = true
					}
				}
			}
			if !found {
				problems = append(problems, m+" does not unconditionally store its argument"+want[0]+" into "+want[1])
			}
		}
		if fn := ms["SetPhase"]; fn != nil {
			found := false
			for _, b := range fn.Blocks {
				for _, in := range b.Instrs {
					mu, ok := in.(*ssa.MapUpdate)
					if !ok {
						continue
					}
					k, isConst := mu.Key.(*ssa.Const)
					src, okSrc := c15ParamSource(fn, mu.Value)
					if isConst && k.Value != nil && k.Value.ExactString() == classLabel && okSrc && src == ".Class" &&
						c15MapIsLabelsField(p, fn, mu) && p.c09Unconditional(in) {
						found = true
					}
				}
			}
			if !found {
				problems = append(problems, "SetPhase does not unconditionally set the class label to phase.Class")
			}
		}
		if len(problems) > 0 {
			o.Fail("%s", strings.Join(problems, "; "))
		} else {
			o.OK()
		}
	}
	// reader side (ObjectSetPhase controller)
	names = names[:0]
	r := byRecv(pkgObjSetPhases)
	for rt := range r {
		names = append(names, rt)
	}
	sort.Strings(names)
	nR := 0
	for _, rt := range names {
		ms := r[rt]
		if ms["GetPhase"] == nil {
			continue
		}
		nR++
		o := c.Ob(ms["GetPhase"], "adapter-reads", nil, "the phase-controller-side adapter reads phase objects, probes, revision, previous, paused and class from the fields the ObjectSet side writes")
		var problems []string
		var mnames []string
		for m := range getters {
			mnames = append(mnames, m)
		}
		sort.Strings(mnames)
		single := func(fn *ssa.Function) ssa.Value {
			rcs := p.returnCases(fn)
			if len(rcs) != 1 || len(rcs[0].Results) != 1 {
				return nil
			}
			return rcs[0].Results[0]
		}
		for _, m := range mnames {
			fn := ms[m]
			if fn == nil {
				problems = append(problems, "no method "+m)
				continue
			}
			c.Visit(fn)
			v := single(fn)
			if v == nil || !strings.HasSuffix(c15LoadPath(v), getters[m]) {
				problems = append(problems, m+" does not return "+getters[m])
			}
		}
		if v := single(ms["GetPhase"]); v == nil {
			problems = append(problems, "GetPhase has several returns")
		} else if f, _, ok := compositeFields(v); !ok || !strings.HasSuffix(c15LoadPath(f["Objects"]), "Spec.Objects") {
			problems = append(problems, "GetPhase does not return a phase whose Objects are Spec.Objects")
		}
		if fn := ms["GetClass"]; fn == nil {
			problems = append(problems, "no method GetClass")
		} else {
			okc := false
			if v := single(fn); v != nil {
				if lk, ok := v.(*ssa.Lookup); ok {
					if k, isConst := lk.Index.(*ssa.Const); isConst && k.Value != nil && k.Value.ExactString() == classLabel && strings.HasSuffix(c15LoadPath(lk.X), "Labels") {
						okc = true
					}
				}
			}
			if !okc {
				problems = append(problems, "GetClass does not return Labels[class label]")
			}
		}
		if len(problems) > 0 {
			o.Fail("%s", strings.Join(problems, "; "))
		} else {
			o.OK()
		}
	}
	if nW < 2 || nR < 2 {
		c.Ob(nil, "adapter-pairs", nil, "positive control: namespaced and cluster-scoped adapters exist on both sides").Fail("found %d writer-side and %d reader-side adapters, expected 2 each", nW, nR)
	}
}

// ---------------------------------------------------------------------------------------------
// R2

func c15r2(c *Ctx) {
	p := c.P
	a := c15FindAnchors(c)
	if a == nil {
		return
	}
	ws := a.create
	fn := a.reconcile
	o := c.Ob(fn, "create-on-notfound", ws.Call.Instr, "the phase object is created only when the Get by its own key returned NotFound")
	fs := p.FactsAt(ws.Call.Block())
	okGuard := false
	why := "no IsNotFound(err) == true fact at the Create"
	for _, f := range fs {
		if !f.Pol {
			continue
		}
		call, _ := asCall(f.Cond)
		if call == nil || !isCallTo(call.Common(), pkgAPIErr+".IsNotFound") {
			continue
		}
		vals := p.possibleValues(call.Common().Args[0])
		if len(vals) != 1 {
			why = "IsNotFound is tested on a value with several sources"
			continue
		}
		get, _ := asCall(vals[0])
		if get == nil || !isReaderGet(get.Common()) {
			why = "IsNotFound is not tested on the error of a Reader.Get"
			continue
		}
		key, _ := asCall(callArgs(get.Common())[1])
		if key == nil || !isCallTo(key.Common(), pkgClient+".ObjectKeyFromObject") || !p.sameValue(key.Common().Args[0], ws.Obj) {
			why = "the Get whose NotFound is tested does not use ObjectKeyFromObject(<object being created>)"
			continue
		}
		okGuard = true
		o.Note("T:IsNotFound(" + p.describe(get) + ")")
	}
	if okGuard {
		o.OK()
	} else {
		o.Fail("%s", why)
	}
	oc := c.Ob(nil, "single-create-site", nil, "closure: exactly one Create of (Cluster)ObjectSetPhase objects exists in the product code")
	if len(a.creates) == 1 {
		oc.OK("only " + p.IPos(a.creates[0].Call.Instr))
	} else {
		var at []string
		for _, w := range a.creates {
			at = append(at, p.IPos(w.Call.Instr))
		}
		oc.Fail("%d Create sites of phase objects: %s", len(a.creates), strings.Join(at, ", "))
	}
}

// ---------------------------------------------------------------------------------------------
// R3

// c15AvailableFacts: facts say cond := FindStatusCondition(P.GetConditions(), "Available") is
// non-nil, cond.ObservedGeneration == P.ClientObject().GetGeneration() and cond.Status == "True".
// Returns P.
func c15AvailableFacts(p *Program, fs []Fact) (ssa.Value, []string) {
	var missing []string
	var cond ssa.Value
	var P ssa.Value
	// the lookup of the Available condition (FindStatusCondition or an equivalent spelling): returns
	// the value identifying the lookup and the object whose conditions are searched
	isCond := func(v ssa.Value) (ssa.Value, ssa.Value) {
		id, conds, typ, ok := p.pfFoundCondition(v)
		if !ok || typ != "Available" {
			return nil, nil
		}
		return id, c09ConditionsOwner(p, conds)
	}
	fieldOfCond := func(v ssa.Value, field string) (ssa.Value, ssa.Value) {
		u, ok := v.(*ssa.UnOp)
		if !ok || u.Op != token.MUL {
			return nil, nil
		}
		fa, ok := u.X.(*ssa.FieldAddr)
		if !ok || fieldName(fa.X.Type(), fa.Field) != field {
			return nil, nil
		}
		return isCond(fa.X)
	}
	nonNil, gen, status := false, false, false
	for _, f := range fs {
		if x, trueMeansNonNil, ok := errNilTest(f.Cond); ok {
			if cc, px := isCond(x); cc != nil && px != nil && f.Pol == trueMeansNonNil {
				nonNil, cond, P = true, cc, px
			}
		}
	}
	if !nonNil {
		return nil, []string{"Available condition not known to exist (FindStatusCondition(P.GetConditions(), \"Available\") != nil)"}
	}
	for _, f := range fs {
		bin, ok := f.Cond.(*ssa.BinOp)
		if !ok || !((bin.Op == token.EQL && f.Pol) || (bin.Op == token.NEQ && !f.Pol)) {
			continue
		}
		for _, pair := range [][2]ssa.Value{{bin.X, bin.Y}, {bin.Y, bin.X}} {
			if cc, _ := fieldOfCond(pair[0], "ObservedGeneration"); cc != nil && p.sameValue(cc, cond) {
				g, _ := asCall(pair[1])
				if g != nil && calleeName(g.Common()) == "GetGeneration" {
					r := callRecv(g.Common())
					if co, _ := asCall(r); co != nil && calleeName(co.Common()) == "ClientObject" {
						r = callRecv(co.Common())
					}
					if r != nil && p.sameValue(r, P) {
						gen = true
					}
				}
			}
			if cc, _ := fieldOfCond(pair[0], "Status"); cc != nil && p.sameValue(cc, cond) {
				if k, ok := pair[1].(*ssa.Const); ok && k.Value != nil && k.Value.ExactString() == "\"True\"" {
					status = true
				}
			}
		}
	}
	if !gen {
		missing = append(missing, "condition.ObservedGeneration == <same phase object>.GetGeneration() not established")
	}
	if !status {
		missing = append(missing, "condition.Status == True not established")
	}
	return P, missing
}

func c15r3(c *Ctx) {
	p := c.P
	a := c15FindAnchors(c)
	if a == nil {
		return
	}
	fn := a.reconcile
	// the phase parameter (for the no-class no-op)
	classEmpty := func(fs []Fact) bool {
		for _, f := range fs {
			x, nonEmptyWhenTrue, ok := pfEmptyCmp(f.Cond)
			if !ok || f.Pol == nonEmptyWhenTrue {
				continue
			}
			if strings.HasSuffix(c15LoadPath(x), "Class") {
				return true
			}
		}
		return false
	}
	current := func(P ssa.Value, fs []Fact) (bool, string) {
		// under the facts of the judged return: the phase object of a merged get-or-create helper
		// is phi(nil, nil, X) next to its error phi(E1, E2, nil); past `err != nil → return` it is X
		for _, v := range p.pfPossibleValuesUnder(P, fs) {
			if p.sameValue(v, a.desired) {
				continue // the object just created
			}
			read := false
			for _, cc := range callsIn(fn) {
				if isReaderGet(cc.Common) {
					if co, _ := asCall(callArgs(cc.Common)[2]); co != nil && calleeName(co.Common()) == "ClientObject" && p.sameValue(callRecv(co.Common()), v) {
						read = true
					}
				}
			}
			if !read {
				return false, p.describe(v) + " is neither read by a Get in this pass nor the object just created"
			}
		}
		return true, ""
	}
	var curP ssa.Value
	nZero := 0
	// the status decision tree may live in an extracted helper: its returns are judged in place
	// … and a result collected in one local and returned once is judged per reaching definition
	for _, cc := range p.pfSplitCollected(p.mwExpandResult(p.returnCases(fn), 1), 1) {
		rc := cc.ReturnCase
		if len(rc.Results) != 3 || !isNilConst(stripConv(rc.Results[2])) {
			continue
		}
		if cc.Written == pfMaybeWritten {
			// some paths through this edge leave the collected result untouched: judged as a zero result
		} else if !mwIsZeroStructConst(rc.Results[1]) {
			if rc.Results[1] == nil {
				c.Ob(fn, "return-unresolved-result", rc.Ret, "probing result of a successful return must be resolvable").Unknown("several values may flow into the probing result at %s", p.IPos(rc.Ret))
			}
			continue
		}
		nZero++
		if classEmpty(rc.Facts) {
			o := c.Ob(fn, "zero-result-no-class", rc.Ret, "a phase without class is a no-op for the remote reconciler")
			if isNilConst(stripConv(rc.Results[0])) {
				o.OK("len(phase.Class)==0")
			} else {
				o.Fail("no-class return relays objects")
			}
			continue
		}
		o := c.Ob(fn, "zero-result-available", rc.Ret, "zero ProbingResult with nil error only from Available=True observed for the phase object's current generation")
		P, missing := c15AvailableFacts(p, p.mwExpandFacts(rc.Facts))
		if len(missing) > 0 {
			o.Fail("%s", strings.Join(missing, "; "))
			continue
		}
		P = p.mwThroughParam(P) // inside an extracted helper the phase object is the argument passed to it
		if ok, why := current(P, rc.Facts); !ok {
			o.Fail("status is not taken from the current phase object: %s", why)
			continue
		}
		curP = P
		o.OK("phase object " + p.describe(P))
	}
	if nZero == 0 {
		c.Ob(fn, "zero-result", nil, "positive control: the remote reconciler can report a phase as available").Fail("no return with a zero ProbingResult and nil error")
		return
	}
	// relay: controllerOf and remote reference from the same object
	o := c.Ob(fn, "relay-from-current", nil, "controllerOf is relayed from GetStatusControllerOf() of, and RemotePhaseReference{Name,UID} recorded from, the phase object whose status is trusted")
	if curP == nil {
		o.Fail("no trusted phase object established")
		return
	}
	var problems []string
	for _, rc := range p.returnCases(fn) {
		if len(rc.Results) != 3 || !isNilConst(stripConv(rc.Results[2])) || classEmpty(rc.Facts) {
			continue
		}
		r0 := rc.Results[0]
		sc, _ := asCall(r0)
		if sc == nil || calleeName(sc.Common()) != "GetStatusControllerOf" || !p.sameValue(callRecv(sc.Common()), curP) {
			problems = append(problems, "return at "+p.IPos(rc.Ret)+" relays "+p.describe(r0)+", not <current phase>.GetStatusControllerOf()")
		}
		// reference recorded before
		recorded := false
		for _, cc := range callsIn(fn) {
			if calleeName(cc.Common) != "SetRemotePhases" || len(callArgs(cc.Common)) != 1 || !c15IsParam(callRecv(cc.Common)) {
				continue
			}
			if !p.mustPrecede(rc.Ret, func(in ssa.Instruction) bool { return in == cc.Instr }) {
				continue
			}
			if c15RefFrom(p, callArgs(cc.Common)[0], curP, 0) {
				recorded = true
			}
		}
		if !recorded {
			problems = append(problems, "return at "+p.IPos(rc.Ret)+" is not preceded by SetRemotePhases(... RemotePhaseReference{Name: current.GetName(), UID: current.GetUID()} ...)")
		}
	}
	if len(problems) > 0 {
		o.Fail("%s", strings.Join(problems, "; "))
	} else {
		o.OK()
	}
}

// c15RefFrom: v is (or is computed by a call one of whose arguments is) a RemotePhaseReference
// literal with Name/UID taken from P.ClientObject().
func c15RefFrom(p *Program, v ssa.Value, P ssa.Value, d int) bool {
	if f, t, ok := compositeFields(v); ok && namedTypeString(t) == pkgCoreV1+".RemotePhaseReference" {
		get := func(x ssa.Value, getter string) bool {
			g, _ := asCall(x)
			if g == nil || calleeName(g.Common()) != getter {
				return false
			}
			co, _ := asCall(callRecv(g.Common()))
			return co != nil && calleeName(co.Common()) == "ClientObject" && p.sameValue(callRecv(co.Common()), P)
		}
		return get(f["Name"], "GetName") && get(f["UID"], "GetUID")
	}
	if d > 2 {
		return false
	}
	if call, _ := asCall(v); call != nil {
		for _, a := range call.Common().Args {
			if c15RefFrom(p, a, P, d+1) {
				return true
			}
		}
	}
	return false
}

// ---------------------------------------------------------------------------------------------
// R4

func c15r4(c *Ctx) {
	p := c.P
	a := c15FindAnchors(c)
	var del *WriterSite
	for _, ws := range allWriterSites(p.FuncsIn(pkgObjectSets)) {
		if ws.Verb != "Delete" {
			continue
		}
		if x, ok := c15IsPhaseObject(ws.Obj); ok && x != nil {
			w := ws
			del = &w
		}
	}
	if del == nil {
		c.AnchorLost("Delete of the delegated phase object in " + pkgObjectSets)
		return
	}
	fn := del.Call.Fn
	c.Visit(fn)
	X, _ := c15IsPhaseObject(del.Obj)
	// every Delete of the phase object in the function: one statement of the source may exist in
	// several copies (the code after a merged multi-return helper is copied per helper return)
	var dels []WriterSite
	var delCalls []*ssa.Call
	for _, ws := range allWriterSites([]*ssa.Function{fn}) {
		if ws.Verb == "Delete" && p.sameValue(ws.Obj, del.Obj) {
			dels = append(dels, ws)
			if dc, ok := ws.Call.Instr.(*ssa.Call); ok {
				delCalls = append(delCalls, dc)
			}
		}
	}
	// the read of the phase object
	var get *ssa.Call
	for _, cc := range callsIn(fn) {
		call, ok := cc.Instr.(*ssa.Call)
		if ok && isReaderGet(cc.Common) && p.sameValue(callArgs(cc.Common)[2], del.Obj) {
			get = call
		}
	}
	// metav1.IsControlledBy(<phase object>, objectSet.ClientObject()) — the library call or the same
	// predicate written out (pfControlledBy)
	controlledTri := func(fs []Fact) tri {
		return p.pfControlledBy(fs,
			func(o ssa.Value) bool { return p.sameValue(o, del.Obj) },
			func(w ssa.Value) bool {
				co, _ := asCall(w)
				return co != nil && calleeName(co.Common()) == "ClientObject" && c15IsParam(callRecv(co.Common()))
			})
	}
	controlled := func(fs []Fact, pol bool) bool {
		want := noTri
		if pol {
			want = yesTri
		}
		return controlledTri(fs) == want
	}
	// a disjunctive guard (`a || b`) reaches the guarded block through several edges: judged per edge
	holdsAtReturn := func(rc ReturnCase, pred func([]Fact) bool) bool {
		if pred(rc.Facts) {
			return true
		}
		if rc.Pred != nil {
			return p.mwHoldsOnAllPaths(rc.Pred, pred)
		}
		return p.mwHoldsOnAllPaths(rc.Ret.Block(), pred)
	}
	notFoundOf := func(fs []Fact, src *ssa.Call) bool {
		if src == nil {
			return false
		}
		_, ok := p.findFactCall(fs, true, []string{pkgAPIErr + ".IsNotFound"}, func(cc *ssa.CallCommon) bool {
			vals := p.possibleValues(cc.Args[0])
			if len(vals) != 1 {
				return false
			}
			call, _ := asCall(vals[0])
			return call == src
		})
		return ok
	}
	// delete guard
	isDel := map[ssa.Instruction]bool{}
	for _, del := range dels {
		isDel[del.Call.Instr] = true
		o := c.Ob(fn, "delete-guard", del.Call.Instr, "the phase object is deleted only when it was read without error by its deterministic name and is controlled by the ObjectSet")
		fs := p.FactsAt(del.Call.Block())
		var problems []string
		if !controlled(fs, true) {
			problems = append(problems, "not guarded by metav1.IsControlledBy(<phase object>, objectSet.ClientObject())")
		}
		if get == nil {
			problems = append(problems, "the deleted object is not read by a Reader.Get in this function")
		} else {
			if !p.errOfCallIsNil(fs, get) {
				problems = append(problems, "error of the Get is not known nil at the Delete")
			}
			if f, _, ok := compositeFields(callArgs(get.Common())[1]); !ok {
				problems = append(problems, "Get key is not an ObjectKey literal")
			} else {
				nc, _ := asCall(f["Name"])
				if nc == nil || a == nil || a.nameFn == nil || staticCallee(nc.Common()) != a.nameFn {
					problems = append(problems, "Get key name is not computed by the naming function used when the phase object is created")
				}
				if !c15GetterOnParam(f["Namespace"], "GetNamespace", true) {
					problems = append(problems, "Get key namespace is not the ObjectSet's namespace")
				}
			}
		}
		if len(problems) > 0 {
			o.Fail("%s", strings.Join(problems, "; "))
		} else {
			o.OK("read by " + p.describe(callRecv(get.Common())) + ".Get, T:IsControlledBy")
		}
	}
	// other writes
	for _, ws := range allWriterSites([]*ssa.Function{fn}) {
		if isDel[ws.Call.Instr] {
			continue
		}
		o := c.Ob(fn, "other-write-"+ws.Verb, ws.Call.Instr, "any other write during remote teardown touches only the phase object it controls")
		if p.sameValue(ws.Obj, del.Obj) && controlled(p.FactsAt(ws.Call.Block()), true) {
			o.OK()
		} else {
			o.Fail("%s of %s is not under IsControlledBy(<phase object>, ObjectSet)", ws.Verb, p.describe(ws.Obj))
		}
	}
	// returns
	for _, rc := range p.returnCases(fn) {
		if len(rc.Results) != 2 || rc.Ret.Block() == fn.Recover {
			continue // the recover block only re-reads the named results
		}
		r0, r1 := rc.Results[0], rc.Results[1]
		if r0 == nil {
			c.Ob(fn, "return-unresolved", rc.Ret, "done result must be resolvable").Unknown("several values may flow into the done result at %s", p.IPos(rc.Ret))
			continue
		}
		if pfDeadByFacts(rc.Facts) {
			continue // copy of a continuation that the helper return it was made for never takes
		}
		afterDelete, deleteNotFound := false, false
		for _, delCall := range delCalls {
			if p.errOfCall(rc.Facts, delCall) == yesTri {
				afterDelete = true
			}
			if notFoundOf(rc.Facts, delCall) {
				deleteNotFound = true
			}
		}
		if b, isConst := constBool(r0); isConst {
			if !b {
				if afterDelete {
					c.Ob(fn, "after-delete-not-done", rc.Ret, "after a successful Delete the phase is reported not done (wait for the 404)").OK()
				}
				continue
			}
			stmt := "done=true only when the phase object is gone (NotFound on Get or Delete) or not controlled by the ObjectSet"
			switch {
			case !isNilConst(stripConv(r1)):
				c.Ob(fn, "done-unjustified", rc.Ret, stmt).Fail("returns done=true together with a possibly non-nil error")
			case afterDelete:
				c.Ob(fn, "done-unjustified", rc.Ret, stmt).Fail("returns done=true right after a successful Delete (the phase object and its children may still exist)")
			case notFoundOf(rc.Facts, get):
				c.Ob(fn, "done-get-notfound", rc.Ret, stmt).OK("T:IsNotFound(Get)")
			case deleteNotFound:
				c.Ob(fn, "done-delete-notfound", rc.Ret, stmt).OK("T:IsNotFound(Delete)")
			case holdsAtReturn(rc, func(fs []Fact) bool { return controlled(fs, false) }) && get != nil && p.errOfCallIsNil(rc.Facts, get):
				c.Ob(fn, "done-orphaned", rc.Ret, stmt).OK("F:IsControlledBy (orphaned phase)")
			default:
				c.Ob(fn, "done-unjustified", rc.Ret, stmt).Fail("done=true without IsNotFound(Get), IsNotFound(Delete) or !IsControlledBy")
			}
			continue
		}
		// computed done: accept `err != nil` of the returned error (done only together with an error)
		o := c.Ob(fn, "done-computed", rc.Ret, "a computed done value may be true only together with a non-nil error")
		if x, trueMeansNonNil, ok := errNilTest(r0); ok && trueMeansNonNil && r1 != nil && p.sameValue(x, r1) {
			o.OK("done == (err != nil) of the returned error")
		} else {
			o.Fail("done is %s; cannot show it is false whenever the error is nil", p.describe(r0))
		}
	}
	_ = X
}

// ---------------------------------------------------------------------------------------------
// R5

// c15FieldStores returns the values stored into field (struct type, name) anywhere in the product code.
func c15FieldStores(p *Program, structType, field string) []*ssa.Store {
	var out []*ssa.Store
	for _, fn := range p.productFuncs() {
		for _, b := range fn.Blocks {
			for _, in := range b.Instrs {
				st, ok := in.(*ssa.Store)
				if !ok {
					continue
				}
				fa, ok := st.Addr.(*ssa.FieldAddr)
				if ok && namedTypeString(fa.X.Type()) == structType && fieldName(fa.X.Type(), fa.Field) == field {
					out = append(out, st)
				}
			}
		}
	}
	return out
}

func c15r5(c *Ctx) {
	p := c.P
	engineTypes := map[string]bool{}
	ctors := map[string]bool{}
	nSites := 0
	for _, pk := range []string{pkgObjectSets, pkgObjSetPhases} {
		fields := map[string]bool{}
		for _, fn := range p.FuncsIn(pk) {
			for _, cc := range callsIn(fn) {
				if !cc.Common.IsInvoke() || (cc.Common.Method.Name() != "ReconcilePhase" && cc.Common.Method.Name() != "TeardownPhase") {
					continue
				}
				u, ok := cc.Common.Value.(*ssa.UnOp)
				if !ok {
					c.Ob(fn, "engine-receiver", cc.Instr, "the phase engine is invoked through a reconciler field").Unknown("receiver is %s", p.describe(cc.Common.Value))
					continue
				}
				fa, ok := u.X.(*ssa.FieldAddr)
				if !ok {
					c.Ob(fn, "engine-receiver", cc.Instr, "the phase engine is invoked through a reconciler field").Unknown("receiver is %s", p.describe(cc.Common.Value))
					continue
				}
				fields[namedTypeString(fa.X.Type())+"|"+fieldName(fa.X.Type(), fa.Field)] = true
			}
		}
		var fl []string
		for f := range fields {
			fl = append(fl, f)
		}
		sort.Strings(fl)
		for _, f := range fl {
			parts := strings.SplitN(f, "|", 2)
			for _, st := range c15FieldStores(p, parts[0], parts[1]) {
				prm, ok := stripConv(st.Val).(*ssa.Parameter)
				if !ok {
					c.Ob(st.Parent(), "engine-field-store", st, "the engine field is assigned from a constructor parameter").Unknown("stored value is %s", p.describe(st.Val))
					continue
				}
				ctor := st.Parent()
				idx := -1
				for i, q := range ctor.Params {
					if q == prm {
						idx = i
					}
				}
				for _, call := range p.callersOf(ctor) {
					if isNonProductPkg(funcPkgPath(call.Fn)) || idx < 0 || idx >= len(call.Common.Args) {
						continue
					}
					nSites++
					o := c.Ob(call.Fn, "engine-wiring", call.Instr, "the phase engine handed to the reconciler is the result of the shared constructor in internal/controllers")
					arg := stripConv(call.Common.Args[idx])
					ec, _ := asCall(arg)
					var g *ssa.Function
					if ec != nil {
						g = staticCallee(ec.Common())
					}
					if g == nil || funcPkgPath(g) != pkgControllers {
						o.Fail("engine argument is %s (type %s), not the result of a constructor of %s", p.describe(arg), arg.Type(), pkgControllers)
						continue
					}
					engineTypes[arg.Type().String()] = true
					ctors[g.String()] = true
					o.OK(shortFuncID(g) + " -> " + arg.Type().String())
				}
			}
		}
	}
	o := c.Ob(nil, "same-engine", nil, "ObjectSet controller and ObjectSetPhase controller use the same engine type built by the same constructor")
	if len(engineTypes) == 1 && len(ctors) == 1 && nSites >= 2 {
		for t := range engineTypes {
			o.OK(t)
		}
	} else {
		o.Fail("%d wiring sites, engine types %v, constructors %v", nSites, keysOf(engineTypes), keysOf(ctors))
	}
	// phase controller passes the phase object's own data
	for _, fn := range p.FuncsIn(pkgObjSetPhases) {
		for _, cc := range callsIn(fn) {
			if !cc.Common.IsInvoke() {
				continue
			}
			switch cc.Common.Method.Name() {
			case "ReconcilePhase":
				o := c.Ob(fn, "engine-args-ReconcilePhase", cc.Instr, "ReconcilePhase(ctx, phaseObj, phaseObj.GetPhase(), Parse(phaseObj.GetAvailabilityProbes()), lookupPrevious(phaseObj))")
				args := cc.Common.Args
				if len(args) != 5 {
					o.Unknown("unexpected arity %d", len(args))
					continue
				}
				owner := args[1]
				var problems []string
				if !c15IsParam(owner) {
					problems = append(problems, "owner is not the reconciled phase object parameter")
				}
				if g, _ := asCall(args[2]); g == nil || calleeName(g.Common()) != "GetPhase" || !p.sameValue(callRecv(g.Common()), owner) {
					problems = append(problems, "phase is not owner.GetPhase()")
				}
				pc, idx := asCall(args[3])
				if pc == nil || idx != 0 || !isCallTo(pc.Common(), pkgIntProbing+".Parse") {
					problems = append(problems, "prober is not the result of internal/probing.Parse")
				} else {
					if g, _ := asCall(pc.Common().Args[1]); g == nil || calleeName(g.Common()) != "GetAvailabilityProbes" || !p.sameValue(callRecv(g.Common()), owner) {
						problems = append(problems, "probes parsed are not owner.GetAvailabilityProbes()")
					}
					if !p.errOfCallIsNil(p.FactsAt(cc.Block()), pc) {
						problems = append(problems, "Parse error not checked")
					}
				}
				lc, lidx := asCall(args[4])
				if lc == nil || lidx != 0 {
					problems = append(problems, "previous revisions are not the result of a lookup call")
				} else {
					passes := false
					for _, x := range lc.Common().Args {
						if p.sameValue(x, owner) {
							passes = true
						}
					}
					var names []string
					for _, t := range p.mwCallees(Call{Instr: lc, Common: lc.Common(), Fn: fn}) {
						names = append(names, t.Name())
						usesPrev := false
						for _, ic := range callsIn(t) {
							if calleeName(ic.Common) == "GetPrevious" {
								usesPrev = true
							}
						}
						if !usesPrev {
							problems = append(problems, "lookup target "+shortFuncID(t)+" does not read owner.GetPrevious()")
						}
					}
					if !passes {
						problems = append(problems, "lookup is not applied to the phase object")
					}
					if len(names) == 0 {
						problems = append(problems, "lookup target cannot be resolved")
					}
					if !p.errOfCallIsNil(p.FactsAt(cc.Block()), lc) {
						problems = append(problems, "lookup error not checked")
					}
				}
				if len(problems) > 0 {
					o.Fail("%s", strings.Join(problems, "; "))
				} else {
					o.OK()
				}
			case "TeardownPhase":
				o := c.Ob(fn, "engine-args-TeardownPhase", cc.Instr, "TeardownPhase(ctx, phaseObj, phaseObj.GetPhase())")
				args := cc.Common.Args
				if len(args) != 3 {
					o.Unknown("unexpected arity %d", len(args))
					continue
				}
				g, _ := asCall(args[2])
				if c15IsParam(args[1]) && g != nil && calleeName(g.Common()) == "GetPhase" && p.sameValue(callRecv(g.Common()), args[1]) {
					o.OK()
				} else {
					o.Fail("arguments are (%s, %s)", p.describe(args[1]), p.describe(args[2]))
				}
			}
		}
	}
}

func keysOf(m map[string]bool) []string {
	var out []string
	for k := range m {
		out = append(out, k)
	}
	sort.Strings(out)
	return out
}

// ---------------------------------------------------------------------------------------------
// R6

// c15Search is the view of an adoption search function: the function itself plus the predicate
// closures of the slices.ContainsFunc / slices.IndexFunc calls it is written with. A search loop
//
//	for _, e := range S { if cond(e) { return true } }; return false
//
// and `return slices.ContainsFunc(S, func(e) bool { return cond(e) })` examine the same elements in
// the same order; the closure body is the loop body, its parameter is the element, `return false`
// in it is `continue`, and variables of the enclosing function are read through captures.
type c15Search struct {
	p      *Program
	root   *ssa.Function
	obj    *ssa.Parameter
	prevs  *ssa.Parameter
	elemOf map[*ssa.Function]ssa.Value // predicate closure -> slice it is applied to (value of the function that makes the call)
	calls  []*ssa.Call                 // the search calls
}

func (s *c15Search) collect(fn *ssa.Function, d int) {
	if d > 4 {
		return
	}
	for _, cc := range callsIn(fn) {
		call, ok := cc.Instr.(*ssa.Call)
		if !ok {
			continue
		}
		if sl, pred, _, isSearch := pfSearchCall(call); isSearch && pred.Parent() == fn {
			if _, dup := s.elemOf[pred]; !dup {
				s.elemOf[pred] = sl
				s.calls = append(s.calls, call)
				s.collect(pred, d+1)
			}
		}
	}
}

// values: what may flow into v, looking through variables captured by the closures.
func (s *c15Search) values(v ssa.Value) []ssa.Value {
	var out []ssa.Value
	for _, pv := range s.p.possibleValues(stripConv(v)) {
		if u, ok := pv.(*ssa.UnOp); ok && u.Op == token.MUL {
			if vals, ok := s.p.pfCapturedValues(u.X); ok {
				for _, x := range vals {
					out = append(out, s.p.possibleValues(stripConv(x))...)
				}
				continue
			}
		}
		out = append(out, pv)
	}
	return out
}

func (s *c15Search) single(v ssa.Value) ssa.Value {
	if vals := s.values(v); len(vals) == 1 {
		return stripConv(vals[0])
	}
	return stripConv(v)
}

func (s *c15Search) isObj(v ssa.Value) bool { return s.single(v) == ssa.Value(s.obj) }

// isPrevElem: v is an element of the previous-revisions parameter: previous[i] in a loop, or the
// parameter of a predicate closure applied to previous.
func (s *c15Search) isPrevElem(v ssa.Value) bool {
	v = s.single(v)
	switch x := v.(type) {
	case *ssa.UnOp:
		if x.Op == token.MUL {
			ia, ok := x.X.(*ssa.IndexAddr)
			return ok && s.single(ia.X) == ssa.Value(s.prevs)
		}
	case *ssa.Parameter:
		if sl, ok := s.elemOf[x.Parent()]; ok && len(x.Parent().Params) == 1 {
			return s.single(sl) == ssa.Value(s.prevs)
		}
	}
	return false
}

// isRemotesOfPrev: v is <element of previous>.GetRemotePhases().
func (s *c15Search) isRemotesOfPrev(v ssa.Value) bool {
	rp, _ := asCall(s.single(v))
	return rp != nil && calleeName(rp.Common()) == "GetRemotePhases" && s.isPrevElem(callRecv(rp.Common()))
}

// isRemoteElem: v is an element of the remote phases of a previous revision.
func (s *c15Search) isRemoteElem(v ssa.Value) bool {
	v = s.single(v)
	switch x := v.(type) {
	case *ssa.UnOp:
		if x.Op == token.MUL {
			ia, ok := x.X.(*ssa.IndexAddr)
			return ok && s.isRemotesOfPrev(ia.X)
		}
	case *ssa.Parameter:
		if sl, ok := s.elemOf[x.Parent()]; ok && len(x.Parent().Params) == 1 {
			return s.isRemotesOfPrev(sl)
		}
	}
	return false
}

// c15Leaf is a return of the search function or of one of its predicate closures.
type c15Leaf struct {
	fn    *ssa.Function
	rc    ReturnCase
	konst *bool // constant result; nil: computed (Facts then include "result is true")
	facts []Fact
}

func (s *c15Search) leaves(fn *ssa.Function, d int) []c15Leaf {
	var out []c15Leaf
	for _, rc := range s.p.returnCases(fn) {
		if len(rc.Results) != 1 {
			continue
		}
		r := rc.Results[0]
		if b, isConst := constBool(r); isConst {
			bb := b
			out = append(out, c15Leaf{fn: fn, rc: rc, konst: &bb, facts: rc.Facts})
			continue
		}
		if call, _ := asCall(r); call != nil && d < 4 {
			if _, pred, index, isSearch := pfSearchCall(call); isSearch && !index {
				if _, known := s.elemOf[pred]; known {
					out = append(out, s.leaves(pred, d+1)...) // the result is true iff the predicate is, for some element
					continue
				}
			}
		}
		out = append(out, c15Leaf{fn: fn, rc: rc, facts: append(append([]Fact{}, rc.Facts...), s.p.mkFact(r, true))})
	}
	return out
}

func c15r6(c *Ctx) {
	p := c.P
	var fns []*ssa.Function
	var reads func(fn *ssa.Function, d int) bool
	reads = func(fn *ssa.Function, d int) bool {
		for _, cc := range callsIn(fn) {
			if calleeName(cc.Common) == "GetRemotePhases" {
				return true
			}
		}
		if d < 4 {
			for _, af := range fn.AnonFuncs {
				if reads(af, d+1) {
					return true
				}
			}
		}
		return false
	}
	for _, fn := range p.FuncsIn(pkgControllers) {
		if fn.Parent() != nil || fn.Signature.Results().Len() != 1 || fn.Signature.Results().At(0).Type().String() != "bool" {
			continue
		}
		if reads(fn, 0) {
			fns = append(fns, fn)
		}
	}
	if len(fns) == 0 {
		c.AnchorLost("boolean function in " + pkgControllers + " that inspects GetRemotePhases() of previous revisions")
		return
	}
	for _, fn := range fns {
		c.Visit(fn)
		s := &c15Search{p: p, root: fn, elemOf: map[*ssa.Function]ssa.Value{}}
		// obj parameter: the client.Object parameter
		for _, prm := range fn.Params {
			if isClientObjectType(prm.Type()) {
				s.obj = prm
			}
			if sl, ok := prm.Type().Underlying().(*types.Slice); ok && mwHasMethod(sl.Elem(), "GetRemotePhases") {
				s.prevs = prm
			}
		}
		if s.obj == nil || s.prevs == nil {
			c.Ob(fn, "params", nil, "function takes the object and the previous revisions").Unknown("parameters not recognised")
			continue
		}
		s.collect(fn, 0)
		for pred := range s.elemOf {
			c.Visit(pred)
		}
		loops := loopsOf(fn)
		nTrue := 0
		direct, remote := false, false

		// judge: do the facts justify a true result?
		var judge func(lf c15Leaf, o *Obligation, d int) (bool, string)
		judge = func(lf c15Leaf, o *Obligation, d int) (bool, string) {
			why := "no IsController(_, obj) == true fact"
			for _, f := range lf.facts {
				if !f.Pol {
					continue
				}
				call, _ := asCall(f.Cond)
				if call == nil {
					continue
				}
				// `if slices.ContainsFunc(S, pred) { return true }`: justified when every way the
				// predicate can answer true is
				if _, pred, index, isSearch := pfSearchCall(call); isSearch && !index && d < 3 {
					if _, known := s.elemOf[pred]; known {
						all, n := true, 0
						for _, sub := range s.leaves(pred, 0) {
							if sub.konst != nil && !*sub.konst {
								continue
							}
							n++
							if ok, w := judge(sub, o, d+1); !ok {
								all, why = false, w
							}
						}
						if all && n > 0 {
							return true, ""
						}
						continue
					}
				}
				owner, o2, ok := ownerStrategyCall(call.Common(), "IsController")
				if !ok || !s.isObj(o2) {
					continue
				}
				if co, _ := asCall(owner); co != nil && calleeName(co.Common()) == "ClientObject" && s.isPrevElem(callRecv(co.Common())) {
					direct = true
					o.Note("controlled by a previous revision")
					return true, ""
				}
				u, isAlloc := stripConv(owner).(*ssa.Alloc)
				if !isAlloc || namedTypeString(u.Type()) != pkgUnstr+".Unstructured" {
					why = "IsController owner is " + p.describe(owner)
					continue
				}
				// u.SetName(remote.Name), u.SetUID(remote.UID), u.SetNamespace(prev.ClientObject().GetNamespace()), u.SetGroupVersionKind(kind by scope)
				fieldOfRemote := func(v ssa.Value, field string) bool {
					path := c15LoadPath(v)
					if path != field {
						return false
					}
					fa := v.(*ssa.UnOp).X.(*ssa.FieldAddr)
					if ia, ok := fa.X.(*ssa.IndexAddr); ok {
						return s.isRemotesOfPrev(ia.X)
					}
					al, ok := fa.X.(*ssa.Alloc)
					if !ok {
						return false
					}
					for _, r := range referrersOf(al) {
						st, ok := r.(*ssa.Store)
						if !ok || st.Addr != ssa.Value(al) {
							continue
						}
						if !s.isRemoteElem(st.Val) {
							return false
						}
						return true
					}
					return false
				}
				var missing []string
				seen := map[string]bool{}
				for _, cc := range callsIn(u.Parent()) {
					if !p.sameValue(callRecv(cc.Common), u) || len(callArgs(cc.Common)) != 1 {
						continue
					}
					arg := callArgs(cc.Common)[0]
					switch calleeName(cc.Common) {
					case "SetName":
						seen["name"] = fieldOfRemote(arg, "Name")
					case "SetUID":
						seen["uid"] = fieldOfRemote(arg, "UID")
					case "SetNamespace":
						g, _ := asCall(arg)
						if g != nil && calleeName(g.Common()) == "GetNamespace" {
							if co, _ := asCall(callRecv(g.Common())); co != nil && calleeName(co.Common()) == "ClientObject" && s.isPrevElem(callRecv(co.Common())) {
								seen["namespace"] = true
							}
						}
					case "SetGroupVersionKind":
						kinds := map[string]bool{}
						for _, v := range s.values(arg) {
							if wk, _ := asCall(v); wk != nil && calleeName(wk.Common()) == "WithKind" {
								// the kind is a constant per scope, or one variable that holds either
								// (`kind := "A"; if cluster { kind = "B" }; gv.WithKind(kind)`)
								for _, kv := range s.values(callArgs(wk.Common())[0]) {
									if k, ok := constString(kv); ok {
										kinds[k] = true
									} else {
										kinds["?"+p.describe(kv)] = true
									}
								}
							}
						}
						seen["gvk"] = kinds["ObjectSetPhase"] && kinds["ClusterObjectSetPhase"] && len(kinds) == 2
					}
				}
				for _, k := range []string{"name", "uid", "namespace", "gvk"} {
					if !seen[k] {
						missing = append(missing, k)
					}
				}
				if len(missing) > 0 {
					why = "remote phase owner stand-in lacks / mis-sets: " + strings.Join(missing, ", ")
					continue
				}
				remote = true
				o.Note("controlled by a remote phase of a previous revision (name, uid from status.remotePhases; namespace of the revision; kind by scope)")
				return true, ""
			}
			return false, why
		}

		nFalse := 0
		for _, lf := range s.leaves(fn, 0) {
			rc := lf.rc
			if lf.konst != nil && !*lf.konst {
				if lf.fn != fn {
					continue // `return false` of a predicate closure: the search goes on with the next element
				}
				nFalse++
				o := c.Ob(fn, "false-only-after-all", rc.Ret, "false is returned only after every previous revision and every remote phase was examined (no early exit from the loops)")
				var problems []string
				for _, l := range loops {
					if l.Body[rc.Ret.Block()] {
						problems = append(problems, "return false inside a loop")
					}
					for blk := range l.Body {
						for _, sc := range blk.Succs {
							if l.Body[sc] || blk == l.Head {
								continue
							}
							// leaving the loop from the body: allowed only into a return-true / panic block or an enclosing loop's head (continue)
							if isPanicBlock(sc) {
								continue
							}
							if ret, ok := sc.Instrs[len(sc.Instrs)-1].(*ssa.Return); ok && len(ret.Results) == 1 {
								if bb, isC := constBool(ret.Results[0]); isC && bb {
									continue
								}
							}
							outer := false
							for _, l2 := range loops {
								if l2 != l && l2.Head == sc && l2.Body[l.Head] {
									outer = true
								}
							}
							if outer {
								continue
							}
							problems = append(problems, "loop at "+p.IPos(mwFirstInstr(l.Head))+" is left early at "+p.IPos(blk.Instrs[len(blk.Instrs)-1]))
						}
					}
				}
				if len(loops)+len(s.calls) < 2 {
					problems = append(problems, fmt.Sprintf("expected a loop over previous revisions and one over their remote phases, found %d loop(s)", len(loops)+len(s.calls)))
				}
				if len(problems) > 0 {
					o.Fail("%s", strings.Join(problems, "; "))
				} else {
					o.OK()
				}
				continue
			}
			nTrue++
			o := c.Ob(fn, "true-under-IsController", rc.Ret, "true only when IsController(previous revision, obj) or IsController(<remote phase of a previous revision>, obj)")
			if ok, why := judge(lf, o, 0); ok {
				o.OK()
			} else {
				o.Fail("%s", why)
			}
		}
		// searches written with slices.ContainsFunc: false is the answer only when the predicate was
		// false for every element, so what has to hold is that the whole slices are searched and that
		// the search results are what the function answers (loops inside predicate closures: as above)
		if len(s.calls) > 0 {
			o := c.Ob(fn, "false-only-after-all", nil, "false is returned only after every previous revision and every remote phase was examined (the searches cover all previous revisions and all their remote phases)")
			var problems []string
			overPrev, overRemotes := false, len(loops) > 0
			for _, call := range s.calls {
				sl := call.Common().Args[0]
				switch {
				case s.single(sl) == ssa.Value(s.prevs):
					overPrev = true
				case s.isRemotesOfPrev(sl):
					overRemotes = true
				default:
					problems = append(problems, "the search at "+p.IPos(call)+" covers "+p.describe(sl)+", not all previous revisions / all remote phases of a previous revision")
				}
				// the search result must be what the enclosing function answers, or guard a `return true`
				used := false
				for _, r := range referrersOf(call) {
					switch x := r.(type) {
					case *ssa.Return:
						used = true
					case *ssa.If:
						used = true
						_ = x
					case *ssa.DebugRef:
					default:
						problems = append(problems, "the result of the search at "+p.IPos(call)+" is used in a way that is not recognised ("+p.IPos(r)+")")
					}
				}
				if !used {
					problems = append(problems, "the result of the search at "+p.IPos(call)+" is dropped")
				}
				// loops inside the predicate must not give up early either
				pred := pfFuncValue(call.Common().Args[1])
				for _, l := range loopsOf(pred) {
					for blk := range l.Body {
						for _, sc := range blk.Succs {
							if l.Body[sc] || blk == l.Head || isPanicBlock(sc) {
								continue
							}
							if ret, ok := sc.Instrs[len(sc.Instrs)-1].(*ssa.Return); ok && len(ret.Results) == 1 {
								if bb, isC := constBool(ret.Results[0]); isC && bb {
									continue
								}
							}
							problems = append(problems, "loop at "+p.IPos(mwFirstInstr(l.Head))+" is left early at "+p.IPos(blk.Instrs[len(blk.Instrs)-1]))
						}
					}
					overRemotes = true
				}
			}
			if !overPrev && len(loops) == 0 {
				problems = append(problems, "no search over all previous revisions")
			}
			if !overRemotes {
				problems = append(problems, "no search over the remote phases of a previous revision")
			}
			if len(problems) > 0 {
				o.Fail("%s", strings.Join(problems, "; "))
			} else {
				o.OK(fmt.Sprintf("%d search call(s)", len(s.calls)))
			}
		}
		if !direct || !remote {
			c.Ob(fn, "both-ways", nil, "positive control: both the direct and the remote-phase adoption route exist").Fail("direct route: %v, remote-phase route: %v (true returns: %d)", direct, remote, nTrue)
		}
	}
}
