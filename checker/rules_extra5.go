package main

import (
	"fmt"
	"go/token"
	"go/types"
	"sort"
	"strings"

	"golang.org/x/tools/go/ssa"
)

// Rules added after the fourth round of seeded changes (DESIGN.md section 8).

// ---------------------------------------------------------------------------------------------
// C19.R8 — optional API pointers are dereferenced only under a nil test.
//
// The manifest/API types mark optional sub-structures as pointer fields (`OpenShift
// *PackageEnvironmentOpenShift`, `Proxy *…`, `Conditions *…`). Reading a field *through* such a
// pointer panics for every input in which the optional part is absent. The rule: every field access
// through a value loaded from a pointer-to-struct field of an API type (a type declared in a
// package-operator.run/…/apis/… or internal/apis/… package) is dominated by the fact that this
// pointer is non-nil (same value class), or the pointer was assigned a fresh allocation in the same
// function. Method calls on the pointer are not judged (methods may handle nil receivers).

func isAPITypesPkg(path string) bool {
	return strings.HasPrefix(path, modPKO+"/apis/") || strings.HasPrefix(path, modPKO+"/internal/apis/")
}

func optionalPointerDerefRule(c *Ctx) {
	p := c.P
	n := 0
	for _, fn := range p.productFuncs() {
		if strings.Contains(fn.Name(), "DeepCopy") || isAPITypesPkg(funcPkgPath(fn)) {
			continue // generated code and the API packages' own defaulting/conversion helpers
		}
		for _, b := range fn.Blocks {
			for _, in := range b.Instrs {
				var base ssa.Value
				switch x := in.(type) {
				case *ssa.FieldAddr:
					base = x.X
				default:
					continue
				}
				// base must be the load of a pointer-typed field of an API struct
				ld, ok := stripConv(base).(*ssa.UnOp)
				if !ok || ld.Op != token.MUL {
					continue
				}
				fa, ok := ld.X.(*ssa.FieldAddr)
				if !ok {
					continue
				}
				st := derefStruct(fa.X.Type())
				if st == nil {
					continue
				}
				owner := namedOf(fa.X.Type())
				if owner == nil || owner.Obj().Pkg() == nil || !(isAPITypesPkg(owner.Obj().Pkg().Path()) || isSchemaTypesPkg(owner.Obj().Pkg().Path())) {
					continue
				}
				ft := st.Field(fa.Field).Type()
				pt, isPtr := ft.Underlying().(*types.Pointer)
				if !isPtr {
					continue
				}
				if _, isStruct := pt.Elem().Underlying().(*types.Struct); !isStruct {
					continue
				}
				n++
				fieldID := owner.Obj().Name() + "." + st.Field(fa.Field).Name()
				o := c.Ob(fn, "deref-"+fieldID, in, "an optional API pointer is dereferenced only where it is known to be non-nil")
				if p.knownNonNil(ld, b) {
					o.OK()
					continue
				}
				o.Fail("%s is an optional pointer of an API type and is dereferenced here without a nil test on every path: an input that omits it makes the process panic (nil pointer dereference) instead of returning an error", fieldID)
			}
		}
	}
	o := c.Ob(nil, "optional-pointer-derefs-scanned", nil, c.rule.Statement)
	if n < 20 {
		o.Fail("reason=anchor-lost: only %d dereferences of optional API pointers seen (85 on the pinned tree)", n)
	} else {
		o.OK(fmt.Sprintf("%d dereferences of optional API pointer fields, all under a nil test", n))
	}
}

// isSchemaTypesPkg: the OpenAPI schema types a package manifest embeds (spec.config.openAPIV3Schema);
// their pointer fields (Items, Not, AdditionalProperties, …) are optional in the same way.
func isSchemaTypesPkg(path string) bool {
	return strings.HasPrefix(path, "k8s.io/apiextensions-apiserver/pkg/apis/apiextensions")
}

func derefStruct(t types.Type) *types.Struct {
	if pt, ok := t.Underlying().(*types.Pointer); ok {
		t = pt.Elem()
	}
	st, _ := t.Underlying().(*types.Struct)
	return st
}

func namedOf(t types.Type) *types.Named {
	if pt, ok := t.Underlying().(*types.Pointer); ok {
		t = pt.Elem()
	}
	n, _ := t.(*types.Named)
	return n
}

// knownNonNil: the facts at b (incl. imported ones of an extracted helper) establish v != nil for
// the value class of v, or v's reaching stores are all fresh allocations.
func (p *Program) knownNonNil(v ssa.Value, b *ssa.BasicBlock) bool {
	k := p.key(v)
	for _, f := range p.FactsAtX(b) {
		x, trueMeansNonNil, ok := errNilTest(f.Cond)
		if !ok {
			continue
		}
		if f.Pol == trueMeansNonNil && p.key(x) == k {
			return true
		}
	}
	// the field was assigned a fresh allocation earlier in this function (same field address class)
	if ld, ok := stripConv(v).(*ssa.UnOp); ok && ld.Op == token.MUL {
		if fa, ok := ld.X.(*ssa.FieldAddr); ok {
			fk := p.key(fa)
			fn := b.Parent()
			for _, bb := range fn.Blocks {
				for _, in := range bb.Instrs {
					st, ok := in.(*ssa.Store)
					if !ok {
						continue
					}
					if p.key(st.Addr) != fk {
						continue
					}
					if _, fresh := stripConv(st.Val).(*ssa.Alloc); fresh && p.mustPrecede(ld, func(i ssa.Instruction) bool { return i == ssa.Instruction(st) }) {
						return true
					}
				}
			}
		}
	}
	return false
}

func init() {
	addRule("C19", Rule{ID: "C19.R8", Min: 1, Statement: "optional pointer fields of API/manifest types are dereferenced only under a nil test (an absent optional part must not crash the process)", Run: optionalPointerDerefRule})
}

var _ = sort.Strings

// ---------------------------------------------------------------------------------------------
// C19.R9 — no admitted template function can build a self-referential value.
//
// text/template prints `{{ $x }}` with fmt, which follows maps and slices without cycle detection:
// printing a dict that (transitively) contains itself recurses until the goroutine stack limit is
// hit — `fatal error: stack overflow`, which is not a panic and cannot be recovered. A cyclic value
// can only be built by a function that stores one of its arguments *by reference* into a map that
// the template still holds. The table lists the sprig functions that do (each confirmed against the
// real code: triage/repro/D12_transform_cyclic_dict_test.go.txt); the rule fails for every one of
// them that is on the allow-list.
var sprigAliasingMutators = map[string]string{
	"set":                `set $m "k" $m makes $m contain itself`,
	"merge":              `merge $a (dict "k" $a) stores $a into itself (mergo copies map references)`,
	"mergeOverwrite":     `mergeOverwrite $a (dict "k" $a) stores $a into itself`,
	"mustMerge":          `mustMerge $a (dict "k" $a) stores $a into itself`,
	"mustMergeOverwrite": `mustMergeOverwrite $a (dict "k" $a) stores $a into itself`,
}

func cyclicTemplateValueRule(c *Ctx) {
	allow, anchor := c13AllowList(c)
	if allow == nil {
		return
	}
	names := make([]string, 0, len(sprigAliasingMutators))
	for n := range sprigAliasingMutators {
		names = append(names, n)
	}
	sort.Strings(names)
	for _, n := range names {
		if allow[n] {
			c.Ob(anchor, "allowedFuncNames~"+n, nil, "no admitted template function can make a value contain itself").
				Fail("template function %q is admitted: %s; printing such a value ({{ $a }}) recurses without bound in fmt and ends the process with 'fatal error: stack overflow' (not recoverable) — in the manager for any ObjectTemplate or package template a user supplies", n, sprigAliasingMutators[n])
		}
	}
	c.Ob(anchor, "allowedFuncNames-aliasing-table", nil, "allow-list literal resolved and compared with the table of argument-aliasing sprig functions").OK(fmt.Sprintf("%d admitted names", len(allow)))
}

func init() {
	addRule("C19", Rule{ID: "C19.R9", Min: 1, Statement: "no admitted template function can build a self-referential value (printing one overflows the stack: an unrecoverable crash)", Run: cyclicTemplateValueRule})
}

// ---------------------------------------------------------------------------------------------
// appliedObjectRule (C03.R8 / C02.R6 / C06.R13)
//
// The client decodes the API server's answer into the object that is handed to Patch/Update. The
// phase reconciler probes, and reports in status, the object its reconcile function returns. Two
// structural consequences:
//
//	(a) the object the patcher applies with is the object the reconcile function goes on with —
//	    otherwise the freshly written generation/resourceVersion is thrown away and a stale copy is
//	    probed (a phase passes on the pre-patch state of its object);
//	(b) between the adoption bookkeeping the caller did on that object (owner references, revision)
//	    and the apply, the patcher does not overwrite it (DeepCopyInto, a reader Get, Set*): the
//	    apply would carry the pre-handover owner list.
func appliedObjectRule(c *Ctx) {
	p := c.P
	n := 0
	for _, fn := range p.FuncsIn(pkgControllers) {
		for _, call := range callsIn(fn) {
			cc := call.Common
			if !cc.IsInvoke() || cc.Method.Name() != "Patch" || namedTypeString(cc.Value.Type()) != pkgControllers+".patcher" {
				continue
			}
			// implementations of the interface method in the workspace
			var impls []*ssa.Function
			for _, f := range p.productFuncs() {
				if f.Parent() == nil && f.Name() == "Patch" && f.Signature.Recv() != nil && len(f.Params) == len(cc.Args)+1 &&
					types.Identical(stripRecv(f.Signature), cc.Method.Type()) {
					impls = append(impls, f)
				}
			}
			if len(impls) == 0 {
				c.Ob(fn, "patcher-implementations", call.Instr, c.rule.Statement).Unknown("no implementation of the patcher interface found")
				continue
			}
			for _, impl := range impls {
				var apply *WriterSite
				for _, ws := range allWriterSites([]*ssa.Function{impl}) {
					if ws.Verb == "Patch" {
						w := ws
						apply = &w
					}
				}
				n++
				o := c.Ob(impl, "applies-with-returned-object", nil, c.rule.Statement)
				if apply == nil {
					o.Unknown("no writer Patch in this patcher implementation")
					continue
				}
				prm, isParam := stripConv(apply.Obj).(*ssa.Parameter)
				if !isParam {
					o.Fail("the apply is issued with %s, which is not one of the objects handed in by the reconcile function: the API server's answer is decoded into an object the caller never sees", p.describe(apply.Obj))
					continue
				}
				idx := -1
				for i, q := range impl.Params {
					if q == prm {
						idx = i
					}
				}
				if idx < 1 || idx-1 >= len(cc.Args) {
					o.Unknown("applied parameter not resolved")
					continue
				}
				arg := cc.Args[idx-1]
				// (a) the caller returns that object on the success paths after the call
				bad := ""
				for _, rc := range p.returnCases(fn) {
					if len(rc.Results) < 2 || !isNilConst(stripConv(rc.Results[len(rc.Results)-1])) {
						continue
					}
					if !canPrecede(call.Instr, rc.Ret) {
						continue
					}
					if !p.sameValue(rc.Results[0], arg) {
						bad = fmt.Sprintf("the reconcile function returns %s (at %s) but the patcher applies with its argument %s: the server's answer (new generation, resourceVersion) is decoded into an object that is dropped, and the returned, stale copy is what gets probed", p.describe(rc.Results[0]), p.IPos(rc.Ret), p.describe(arg))
					}
				}
				if bad != "" {
					o.Fail("%s", bad)
				} else {
					o.OK()
				}
				// (b) not overwritten before the apply
				o2 := c.Ob(impl, "prepared-object-not-overwritten", apply.Call.Instr, c.rule.Statement)
				var over []string
				for _, b := range impl.Blocks {
					for _, in := range b.Instrs {
						if in == apply.Call.Instr || !canPrecede(in, apply.Call.Instr) {
							continue
						}
						hit := p.mutatesObject(in, prm)
						if ci, ok := in.(ssa.CallInstruction); ok && calleeName(ci.Common()) == "DeepCopyInto" {
							args := callArgs(ci.Common())
							if len(args) > 0 && p.sameValue(args[len(args)-1], prm) {
								hit = true
							}
							if r := callRecv(ci.Common()); r != nil && p.sameValue(r, prm) {
								hit = false // the prepared object is only the source of the copy
							}
						}
						if hit {
							over = append(over, describeInstr(p, in)+" at "+p.IPos(in))
						}
					}
				}
				if len(over) == 0 {
					o2.OK()
				} else {
					o2.Fail("the object prepared by the reconcile function (owner references, revision) is overwritten before the apply reads it: %s — the apply then carries the pre-handover owner list", strings.Join(dedupe(over), "; "))
				}
			}
		}
	}
	if n == 0 {
		c.AnchorLost("call of patcher.Patch in " + pkgControllers)
	}
}

func stripRecv(sig *types.Signature) *types.Signature {
	return types.NewSignatureType(nil, nil, nil, sig.Params(), sig.Results(), sig.Variadic())
}

const appliedObjectStatement = "the patcher applies with the very object the reconcile function prepared and goes on to return (and probe), and does not overwrite it before the apply"

func init() {
	addRule("C03", Rule{ID: "C03.R8", Min: 2, Statement: appliedObjectStatement, Run: appliedObjectRule})
	addRule("C02", Rule{ID: "C02.R6", Min: 2, Statement: appliedObjectStatement, Run: appliedObjectRule})
	addRule("C06", Rule{ID: "C06.R13", Min: 2, Statement: appliedObjectStatement, Run: appliedObjectRule})
}

func describeInstr(p *Program, in ssa.Instruction) string {
	if v, ok := in.(ssa.Value); ok {
		return p.describe(v)
	}
	if ci, ok := in.(ssa.CallInstruction); ok {
		return "call of " + calleeName(ci.Common())
	}
	return in.String()
}

// ---------------------------------------------------------------------------------------------
// reconcilerOrderRule (C06.R14 / C14.R7)
//
// Controllers run a list of sub-reconcilers on one in-memory owner object. A step that *writes the
// owner object through the client* (Update/Patch/Status().Update of owner.ClientObject()) gets the
// API server's answer decoded into that very object — everything an earlier step changed only in
// memory is gone. Therefore no step that refreshes the owner may run after a step that enriches the
// owner's spec in memory (the slice loader inlines ObjectSlice objects with SetPhases): the steps
// after it would see the phases without the sliced objects and report status from that.
func reconcilerOrderRule(c *Ctx) {
	p := c.P
	n := 0
	for _, fn := range p.productFuncs() {
		if fn.Parent() != nil || !strings.HasPrefix(funcPkgPath(fn), modPKO+"/internal/controllers") {
			continue
		}
		for _, b := range fn.Blocks {
			for _, in := range b.Instrs {
				st, ok := in.(*ssa.Store)
				if !ok {
					continue
				}
				fa, ok := st.Addr.(*ssa.FieldAddr)
				if !ok || fieldName(fa.X.Type(), fa.Field) != "reconciler" {
					continue
				}
				elems, ok := sliceElems(st.Val)
				if !ok || len(elems) == 0 {
					continue
				}
				n++
				o := c.Ob(fn, "reconciler-order", in, c.rule.Statement)
				type step struct {
					name              string
					refreshes, enrich bool
				}
				var steps []step
				unresolved := ""
				for _, e := range elems {
					m := p.reconcileMethodOf(e)
					if m == nil {
						unresolved = p.describe(e)
						break
					}
					s := step{name: shortFuncID(m)}
					s.refreshes, s.enrich = p.ownerEffects(m)
					steps = append(steps, s)
				}
				if unresolved != "" {
					o.Unknown("the Reconcile method of list element %s could not be resolved", unresolved)
					continue
				}
				bad := ""
				enriched := ""
				for _, s := range steps {
					if s.refreshes && enriched != "" {
						bad = fmt.Sprintf("%s writes the owner object through the client after %s changed its spec in memory only (SetPhases): the server's answer overwrites the inlined slice objects, and the following steps reconcile and report status without them", s.name, enriched)
					}
					if s.enrich && enriched == "" {
						enriched = s.name
					}
				}
				if bad != "" {
					o.Fail("%s", bad)
				} else {
					o.OK()
				}
			}
		}
	}
	if n < 4 {
		c.AnchorLost(fmt.Sprintf("controller.reconciler lists (found %d)", n))
	}
}

// reconcileMethodOf resolves the Reconcile method of a value stored into a sub-reconciler list.
func (p *Program) reconcileMethodOf(v ssa.Value) *ssa.Function {
	v = stripConv(v)
	if mi, ok := v.(*ssa.MakeInterface); ok {
		v = mi.X
	}
	for _, pv := range p.possibleValues(v) {
		t := pv.Type()
		if mi, ok := pv.(*ssa.MakeInterface); ok {
			t = mi.X.Type()
		}
		if _, isIface := t.Underlying().(*types.Interface); isIface {
			continue
		}
		ms := p.SSA.MethodSets.MethodSet(t)
		for i := 0; i < ms.Len(); i++ {
			if ms.At(i).Obj().Name() == "Reconcile" {
				if f := p.SSA.MethodValue(ms.At(i)); f != nil {
					return f
				}
			}
		}
	}
	return nil
}

// ownerEffects: does the sub-reconciler (incl. the unexported helpers it calls statically) write its
// owner parameter through the client / change the owner's spec in memory?
func (p *Program) ownerEffects(m *ssa.Function) (refreshes, enriches bool) {
	seen := map[*ssa.Function]bool{}
	var walk func(f *ssa.Function, d int)
	walk = func(f *ssa.Function, d int) {
		if f == nil || seen[f] || d > 4 || len(f.Blocks) == 0 {
			return
		}
		seen[f] = true
		for _, call := range callsIn(f) {
			cc := call.Common
			if ws, ok := classifyWriter(call); ok {
				if oc, _ := asCall(ws.Obj); oc != nil && calleeName(oc.Common()) == "ClientObject" {
					if r := callRecv(oc.Common()); r != nil && isOwnerAccessor(r.Type()) {
						refreshes = true
					}
				}
			}
			if cc.IsInvoke() && cc.Method.Name() == "SetPhases" && isOwnerAccessor(cc.Value.Type()) {
				enriches = true
			}
			if callee := staticCallee(cc); callee != nil && callee.Object() != nil && !callee.Object().Exported() && funcPkgPath(callee) == funcPkgPath(m) {
				walk(callee, d+1)
			}
		}
		for _, af := range f.AnonFuncs {
			walk(af, d+1)
		}
	}
	walk(m, 0)
	return
}

func isOwnerAccessor(t types.Type) bool {
	s := namedTypeString(t)
	return strings.HasPrefix(s, pkgAdapters+".") && strings.HasSuffix(s, "Accessor") || strings.Contains(s, "genericObjectSet")
}

const reconcilerOrderStatement = "no sub-reconciler that writes the owner object through the client runs after one that changed the owner's spec in memory only"

func init() {
	addRule("C06", Rule{ID: "C06.R14", Min: 4, Statement: reconcilerOrderStatement, Run: reconcilerOrderRule})
	addRule("C14", Rule{ID: "C14.R7", Min: 4, Statement: reconcilerOrderStatement, Run: reconcilerOrderRule})
}

// ---------------------------------------------------------------------------------------------
// C08.R8 — "controls nothing" is claimed for archived revisions only.
//
// The archive reconciler decides whether an intermediate revision may be archived from the overlap
// of what it actively reconciles with the next revision. The getter may short-cut that list to
// "empty" only for an archived ObjectSet (and to "unknown" = nil only while status.controllerOf is
// not reported). Any other shortcut (paused, unavailable, …) makes a revision that still controls
// shared objects look disposable.
func activeObjectsShortcutRule(c *Ctx) {
	p := c.P
	n := 0
	for _, fn := range p.FuncsIn(pkgObjDeploy) {
		if fn.Parent() != nil || fn.Signature.Recv() == nil || stableName(fn) != "getActivelyReconciledObjects" {
			continue
		}
		for _, rc := range p.returnCases(fn) {
			if len(rc.Results) != 1 {
				continue
			}
			// a constant-empty answer?
			empty := false
			for _, pv := range p.possibleValues(rc.Results[0]) {
				if isNilConst(stripConv(pv)) {
					empty = true
				} else if ln, ok := sliceLiteralLen(pv); ok && ln == 0 {
					empty = true
				}
			}
			if !empty {
				continue
			}
			n++
			o := c.Ob(fn, "empty-answer", rc.Ret, c.rule.Statement)
			justified := func(fs []Fact) bool {
				for _, f := range fs {
					if call, _ := asCall(f.Cond); call != nil && f.Pol && calleeName(call.Common()) == "IsArchived" {
						return true
					}
					if x, trueMeansNonNil, ok := errNilTest(f.Cond); ok && f.Pol != trueMeansNonNil {
						if gc, _ := asCall(x); gc != nil && calleeName(gc.Common()) == "GetStatusControllerOf" {
							return true
						}
					}
				}
				return false
			}
			b := rc.Ret.Block()
			ok := justified(rc.Facts)
			if !ok && rc.Pred == nil && len(b.Preds) > 1 {
				ok = true
				for _, pr := range b.Preds {
					if !justified(p.FactsOnEdge(pr, b)) {
						ok = false
					}
				}
			}
			if ok {
				o.OK()
			} else {
				o.Fail("the list of actively reconciled objects is cut short to empty/unknown on a path where the ObjectSet is neither archived nor without reported controllerOf: a revision that still controls objects shared with the next revision looks disposable and is archived (its teardown deletes the shared objects)")
			}
		}
	}
	if n < 2 {
		c.AnchorLost(fmt.Sprintf("constant-empty returns of getActivelyReconciledObjects (found %d)", n))
	}
}

func init() {
	addRule("C08", Rule{ID: "C08.R8", Min: 2, Statement: "the getter reports 'reconciles nothing' only for archived ObjectSets (and 'unknown' only while controllerOf is unreported)", Run: activeObjectsShortcutRule})
}

// ---------------------------------------------------------------------------------------------
// C13.R12 — the shared template namespace is not read while it is still being filled in map order.
//
// A *template.Template value is a namespace shared by all templates parsed into it. A loop over a Go
// map that both adds templates to the namespace (New/Parse/AddParseTree/Funcs) and executes or looks
// up templates (Execute/ExecuteTemplate/Lookup/Templates) makes what an execution sees depend on the
// iteration order: a `define` or a file that another file includes is visible only if the map
// happened to yield it earlier. Rendering then succeeds or fails at random for an unchanged package.
func templateNamespaceOrderRule(c *Ctx) {
	p := c.P
	n := 0
	isTemplate := func(v ssa.Value) bool {
		return v != nil && namedTypeString(v.Type()) == "text/template.Template"
	}
	for _, fn := range p.productFuncs() {
		pk := funcPkgPath(fn)
		if !strings.HasPrefix(pk, modPKO+"/internal/packages") && pk != pkgTransform && pk != pkgObjTemplate {
			continue
		}
		for _, l := range loopsOf(fn) {
			// a range over a map?
			var rng *ssa.Range
			for _, in := range l.Head.Instrs {
				if nx, ok := in.(*ssa.Next); ok {
					if r, ok := nx.Iter.(*ssa.Range); ok {
						if _, isMap := r.X.Type().Underlying().(*types.Map); isMap {
							rng = r
						}
					}
				}
			}
			if rng == nil {
				continue
			}
			var writes, reads []ssa.Instruction
			for b := range l.Body {
				for _, in := range b.Instrs {
					ci, ok := in.(ssa.CallInstruction)
					if !ok {
						continue
					}
					cc := ci.Common()
					recv := callRecv(cc)
					if !isTemplate(recv) {
						continue
					}
					switch calleeName(cc) {
					case "New", "Parse", "AddParseTree", "Funcs", "ParseFiles", "ParseGlob", "ParseFS":
						writes = append(writes, in)
					case "Execute", "ExecuteTemplate", "Lookup", "Templates", "DefinedTemplates":
						reads = append(reads, in)
					}
				}
			}
			if len(writes) == 0 && len(reads) == 0 {
				continue
			}
			n++
			o := c.Ob(fn, "template-namespace-in-map-range", rng, c.rule.Statement)
			if len(writes) > 0 && len(reads) > 0 {
				o.Fail("this loop over a map both adds templates to the shared namespace (%s) and executes/looks up templates (%s): what an execution sees depends on the map's iteration order, so cross-file definitions and includes render or fail at random", p.IPos(writes[0]), p.IPos(reads[0]))
			} else {
				o.OK()
			}
		}
	}
	if n < 2 {
		c.AnchorLost(fmt.Sprintf("map-range loops that touch a template namespace (found %d)", n))
	}
}

func init() {
	addRule("C13", Rule{ID: "C13.R12", Min: 2, Statement: "a loop over a map does not both fill the shared template namespace and execute templates from it", Run: templateNamespaceOrderRule})
}

// ---------------------------------------------------------------------------------------------
// controllerLoopRule (C15.R9 / C09.R8 / C18.R8 / C06.R15)
//
// Every controller runs its sub-reconciler list and then persists status. Two structural
// obligations on the controller's Reconcile:
//
//	(1) a return that can follow a sub-reconciler call and may carry a nil error either returns the
//	    error of the status update or is preceded by it — what the sub-reconcilers decided (Invalid,
//	    Available, controllerOf, requeue reasons) exists only in memory until then;
//	(2) a return with a possibly-nil error *before* the list runs is justified by deletion/archival
//	    handling, a foreign class, or NotFound — not by the pause flag or anything else: the
//	    sub-reconcilers handle pause themselves and are what refreshes Available/controllerOf for the
//	    object's current generation.
func controllerLoopRule(c *Ctx) {
	p := c.P
	n := 0
	for _, fn := range p.productFuncs() {
		if fn.Parent() != nil || fn.Name() != "Reconcile" || fn.Signature.Recv() == nil || !strings.HasPrefix(funcPkgPath(fn), modPKO+"/internal/controllers") {
			continue
		}
		if fn.Signature.Params().Len() != 2 || namedTypeString(fn.Signature.Params().At(1).Type()) != "sigs.k8s.io/controller-runtime/pkg/reconcile.Request" {
			continue
		}
		if funcPkgPath(fn) == modPKO+"/internal/controllers/packages" {
			continue // the Package controller deliberately runs a dedicated status step while paused (not part of these properties)
		}
		// the sub-reconciler invocations
		var sites []ssa.Instruction
		for _, call := range callsIn(fn) {
			cc := call.Common
			if cc.IsInvoke() && cc.Method.Name() == "Reconcile" {
				sites = append(sites, call.Instr)
			}
		}
		if len(sites) == 0 {
			continue
		}
		n++
		isStatusCall := func(v ssa.Value) bool {
			for _, pv := range p.possibleValues(v) {
				call, _ := asCall(pv)
				if call == nil {
					return false
				}
				nm := calleeName(call.Common())
				if ws, isW := classifyWriter(Call{Instr: call, Common: call.Common(), Fn: call.Parent()}); isW && strings.HasPrefix(ws.Verb, "Status.") {
					continue
				}
				if !strings.Contains(nm, "pdateStatus") && !strings.Contains(nm, "StatusFromError") {
					return false
				}
			}
			return true
		}
		for _, rc := range p.returnCases(fn) {
			if fn.Recover != nil && rc.Ret.Block() == fn.Recover {
				continue
			}
			if len(rc.Results) != 2 {
				continue
			}
			errv := rc.Results[1]
			mayNil := false
			for _, pv := range p.possibleValues(errv) {
				if isNilConst(stripConv(pv)) {
					mayNil = true
				} else {
					if call, _ := asCall(pv); call != nil && !definitelyNonNil(pv) {
						mayNil = true
					}
					if _, isPhi := stripConv(pv).(*ssa.Phi); isPhi {
						mayNil = true
					}
				}
			}
			if !mayNil {
				continue
			}
			after := false
			for _, s := range sites {
				if canPrecede(s, rc.Ret) {
					after = true
				}
			}
			if after {
				o := c.Ob(fn, "status-persisted-before-return", rc.Ret, "a return that can follow the sub-reconcilers and may be error-free persists status first")
				if isStatusCall(errv) || p.mustPrecede(rc.Ret, func(in ssa.Instruction) bool {
					ci, ok := in.(ssa.CallInstruction)
					if !ok {
						return false
					}
					if strings.Contains(calleeName(ci.Common()), "pdateStatus") {
						return true
					}
					ws, isW := classifyWriter(Call{Instr: ci, Common: ci.Common(), Fn: ci.Parent()})
					return isW && strings.HasPrefix(ws.Verb, "Status.")
				}) {
					o.OK()
				} else if knownErrNonNil(p, errv, rc.Facts) {
					o.OK("error return")
				} else {
					o.Fail("this return can follow a sub-reconciler call with a nil error (e.g. a requeue request) without the status update: conditions the sub-reconcilers set only in memory (Invalid, Available, controllerOf, Paused) are never persisted for that outcome")
				}
				continue
			}
			// before the list
			o := c.Ob(fn, "chain-skipped-only-for-deletion", rc.Ret, "the sub-reconciler list is skipped only for deletion/archival, a foreign class or NotFound")
			if earlyExitJustified(p, errv, rc.Facts) || p.mustPrecede(rc.Ret, func(in ssa.Instruction) bool {
				ci, ok := in.(ssa.CallInstruction)
				if !ok {
					return false
				}
				nm := calleeName(ci.Common())
				return strings.Contains(nm, "handleDeletion") || nm == "FreeCacheAndRemoveFinalizer"
			}) {
				o.OK()
			} else {
				o.Fail("this return skips the sub-reconciler list on a path that is neither deletion/archival handling, a foreign class nor a failed read: the sub-reconcilers are what refreshes Available/controllerOf for the object's current generation (a paused object must still be probed and reported)")
			}
		}
	}
	if n < 4 {
		c.AnchorLost(fmt.Sprintf("controller Reconcile functions running a sub-reconciler list (found %d)", n))
	}
}

func knownErrNonNil(p *Program, errv ssa.Value, fs []Fact) bool {
	k := p.key(errv)
	for _, f := range fs {
		x, trueMeansNonNil, ok := errNilTest(f.Cond)
		if !ok || f.Pol != trueMeansNonNil {
			continue
		}
		if p.key(x) == k {
			return true
		}
		// returnCases narrows a returned error Phi to its only non-nil edge: the test was on the Phi
		others := false
		hit := false
		for _, pv := range p.possibleValues(x) {
			switch {
			case isNilConst(stripConv(pv)):
			case stripConv(pv) == stripConv(errv) || p.key(pv) == k:
				hit = true
			default:
				others = true
			}
		}
		if hit && !others {
			return true
		}
	}
	return false
}

func earlyExitJustified(p *Program, errv ssa.Value, fs []Fact) bool {
	// the error of an earlier step that is returned as is (may be nil only because the callee says so)
	for _, pv := range p.possibleValues(errv) {
		if call, _ := asCall(pv); call != nil {
			switch calleeName(call.Common()) {
			case "IgnoreNotFound":
				return true
			}
		}
	}
	if knownErrNonNil(p, errv, fs) {
		return true
	}
	for _, f := range fs {
		if call, _ := asCall(f.Cond); call != nil {
			switch calleeName(call.Common()) {
			case "IsZero":
				if r := callRecv(call.Common()); r != nil {
					if gc, _ := asCall(r); gc != nil && calleeName(gc.Common()) == "GetDeletionTimestamp" && !f.Pol {
						return true
					}
				}
			case "IsArchived", "IsNotFound":
				if f.Pol {
					return true
				}
			case "IsStatusConditionTrue":
				if f.Pol {
					for _, a := range call.Common().Args {
						if s, ok := constString(a); ok && s == "Archived" {
							return true
						}
					}
				}
			}
		}
		if b, ok := f.Cond.(*ssa.BinOp); ok && (b.Op == token.NEQ || b.Op == token.EQL) {
			for _, side := range []ssa.Value{b.X, b.Y} {
				if gc, _ := asCall(side); gc != nil && calleeName(gc.Common()) == "GetClass" && f.Pol == (b.Op == token.NEQ) {
					return true
				}
			}
		}
	}
	return false
}

const controllerLoopStatement = "a controller skips its sub-reconciler list only for deletion/archival, a foreign class or NotFound, and persists status before every possibly error-free return that follows it"

func init() {
	addRule("C15", Rule{ID: "C15.R9", Min: 4, Statement: controllerLoopStatement, Run: controllerLoopRule})
	addRule("C09", Rule{ID: "C09.R8", Min: 4, Statement: controllerLoopStatement, Run: controllerLoopRule})
	addRule("C18", Rule{ID: "C18.R8", Min: 4, Statement: controllerLoopStatement, Run: controllerLoopRule})
	addRule("C06", Rule{ID: "C06.R15", Min: 4, Statement: controllerLoopStatement, Run: controllerLoopRule})
}

// ---------------------------------------------------------------------------------------------
// C16.R9 / C10.R7 — the ObjectDeployment is written on every deploy pass.
//
// PackageDeployer pre-creates an empty ObjectDeployment, chunks the phases into ObjectSlices and then
// updates the ObjectDeployment with the rendered template. If that update is skipped on the outcome
// of comparing the existing object with the desired one (annotations unchanged, hash equal, …), a
// pass that failed after the pre-create is "repaired" by a pass that writes nothing: the empty
// template stays forever while the unpacked hash says the package is installed. The update (and the
// success return before it, inside the retry closure) may depend on error checks only.
func deployUpdateEveryPassRule(c *Ctx) {
	p := c.P
	n := 0
	var fns []*ssa.Function
	for _, fn := range p.FuncsIn(pkgPkgDeployX) {
		root := fn
		for root.Parent() != nil {
			root = root.Parent()
		}
		if stableName(root) == "Reconcile" && root.Signature.Recv() != nil {
			fns = append(fns, fn)
		}
	}
	for _, fn := range fns {
		for _, ws := range allWriterSites([]*ssa.Function{fn}) {
			if ws.Verb != "Update" {
				continue
			}
			n++
			o := c.Ob(fn, "deployment-update", ws.Call.Instr, c.rule.Statement)
			var bad []string
			for _, f := range p.FactsAt(ws.Call.Instr.Block()) {
				if !allowedWriteGuard(p, f) {
					bad = append(bad, p.describeFact(f))
				}
			}
			for _, rc := range p.returnCases(fn) {
				if len(rc.Results) == 0 || rc.Ret.Block() == ws.Call.Instr.Block() {
					continue
				}
				last := rc.Results[len(rc.Results)-1]
				if !isNilConst(stripConv(last)) {
					continue
				}
				if canPrecede(ws.Call.Instr, rc.Ret) {
					continue // success after the write
				}
				for _, f := range rc.Facts {
					if !allowedWriteGuard(p, f) {
						bad = append(bad, "success return at "+p.IPos(rc.Ret)+" under "+p.describeFact(f))
					}
				}
			}
			// the write sits in a closure (retry.RetryOnConflict): an early success return of the enclosing
			// function in front of the retry call skips it just the same
			if par := fn.Parent(); par != nil {
				// all closures of the enclosing function that hold such an update (tail duplication of a
				// multi-return helper in front of the retry leaves one copy per helper return): a success
				// return is early only if none of their calls can precede it
				updating := map[ssa.Value]bool{ssa.Value(fn): true}
				for _, sib := range fns {
					if sib.Parent() == par {
						for _, sws := range allWriterSites([]*ssa.Function{sib}) {
							if sws.Verb == "Update" {
								updating[ssa.Value(sib)] = true
							}
						}
					}
				}
				var users []ssa.Instruction
				for _, b := range par.Blocks {
					for _, in := range b.Instrs {
						if mc, ok := in.(*ssa.MakeClosure); ok && updating[mc.Fn] {
							for _, r := range referrersOf(mc) {
								if ci, isCall := r.(ssa.CallInstruction); isCall {
									users = append(users, ci)
								}
							}
						}
					}
				}
				if len(users) > 0 {
					for _, rc := range p.returnCases(par) {
						if len(rc.Results) == 0 || !isNilConst(stripConv(rc.Results[len(rc.Results)-1])) {
							continue
						}
						preceded := false
						for _, user := range users {
							if canPrecede(user, rc.Ret) {
								preceded = true
							}
						}
						if preceded {
							continue
						}
						for _, f := range rc.Facts {
							if !allowedWriteGuard(p, f) {
								bad = append(bad, "success return at "+p.IPos(rc.Ret)+" under "+p.describeFact(f))
							}
						}
					}
				}
			}
			if len(bad) == 0 {
				o.OK()
			} else {
				o.Fail("the update of the ObjectDeployment is conditional on %s: a pass after a failed first attempt (empty pre-created template) can report success without ever writing the rendered template", strings.Join(dedupe(bad), "; "))
			}
		}
	}
	if n == 0 {
		c.AnchorLost("client.Update of the ObjectDeployment in the deployment reconciler")
	}
}

const pkgPkgDeployX = modPKO + "/internal/packages/internal/packagedeploy"

func init() {
	st := "the deployment reconciler's update of the ObjectDeployment depends on error checks only (never on a comparison of existing and desired object)"
	addRule("C16", Rule{ID: "C16.R9", Min: 1, Statement: st, Run: deployUpdateEveryPassRule})
	addRule("C10", Rule{ID: "C10.R7", Min: 1, Statement: st, Run: deployUpdateEveryPassRule})
}
