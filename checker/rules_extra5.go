package main

import (
	"fmt"
	"go/token"
	"go/types"
	"sort"
	"strings"

	"golang.org/x/tools/go/ssa"
)

// Rules added after the fourth round of seeded changes (DESIGN.md section 8).

// ---------------------------------------------------------------------------------------------
// C19.R8 — optional API pointers are dereferenced only under a nil test.
//
// The manifest/API types mark optional sub-structures as pointer fields (`OpenShift
// *PackageEnvironmentOpenShift`, `Proxy *…`, `Conditions *…`). Reading a field *through* such a
// pointer panics for every input in which the optional part is absent. The rule: every field access
// through a value loaded from a pointer-to-struct field of an API type (a type declared in a
// package-operator.run/…/apis/… or internal/apis/… package) is dominated by the fact that this
// pointer is non-nil (same value class), or the pointer was assigned a fresh allocation in the same
// function. Method calls on the pointer are not judged (methods may handle nil receivers).

func isAPITypesPkg(path string) bool {
	return strings.HasPrefix(path, modPKO+"/apis/") || strings.HasPrefix(path, modPKO+"/internal/apis/")
}

func optionalPointerDerefRule(c *Ctx) {
	p := c.P
	n := 0
	for _, fn := range p.productFuncs() {
		if strings.Contains(fn.Name(), "DeepCopy") || isAPITypesPkg(funcPkgPath(fn)) {
			continue // generated code and the API packages' own defaulting/conversion helpers
		}
		for _, b := range fn.Blocks {
			for _, in := range b.Instrs {
				var base ssa.Value
				switch x := in.(type) {
				case *ssa.FieldAddr:
					base = x.X
				default:
					continue
				}
				// base must be the load of a pointer-typed field of an API struct
				ld, ok := stripConv(base).(*ssa.UnOp)
				if !ok || ld.Op != token.MUL {
					continue
				}
				fa, ok := ld.X.(*ssa.FieldAddr)
				if !ok {
					continue
				}
				st := derefStruct(fa.X.Type())
				if st == nil {
					continue
				}
				owner := namedOf(fa.X.Type())
				if owner == nil || owner.Obj().Pkg() == nil || !isAPITypesPkg(owner.Obj().Pkg().Path()) {
					continue
				}
				ft := st.Field(fa.Field).Type()
				pt, isPtr := ft.Underlying().(*types.Pointer)
				if !isPtr {
					continue
				}
				if _, isStruct := pt.Elem().Underlying().(*types.Struct); !isStruct {
					continue
				}
				n++
				fieldID := owner.Obj().Name() + "." + st.Field(fa.Field).Name()
				o := c.Ob(fn, "deref-"+fieldID, in, "an optional API pointer is dereferenced only where it is known to be non-nil")
				if p.knownNonNil(ld, b) {
					o.OK()
					continue
				}
				o.Fail("%s is an optional pointer of an API type and is dereferenced here without a nil test on every path: an input that omits it makes the process panic (nil pointer dereference) instead of returning an error", fieldID)
			}
		}
	}
	o := c.Ob(nil, "optional-pointer-derefs-scanned", nil, c.rule.Statement)
	if n < 20 {
		o.Fail("reason=anchor-lost: only %d dereferences of optional API pointers seen (41 on the pinned tree)", n)
	} else {
		o.OK(fmt.Sprintf("%d dereferences of optional API pointer fields, all under a nil test", n))
	}
}

func derefStruct(t types.Type) *types.Struct {
	if pt, ok := t.Underlying().(*types.Pointer); ok {
		t = pt.Elem()
	}
	st, _ := t.Underlying().(*types.Struct)
	return st
}

func namedOf(t types.Type) *types.Named {
	if pt, ok := t.Underlying().(*types.Pointer); ok {
		t = pt.Elem()
	}
	n, _ := t.(*types.Named)
	return n
}

// knownNonNil: the facts at b (incl. imported ones of an extracted helper) establish v != nil for
// the value class of v, or v's reaching stores are all fresh allocations.
func (p *Program) knownNonNil(v ssa.Value, b *ssa.BasicBlock) bool {
	k := p.key(v)
	for _, f := range p.FactsAtX(b) {
		x, trueMeansNonNil, ok := errNilTest(f.Cond)
		if !ok {
			continue
		}
		if f.Pol == trueMeansNonNil && p.key(x) == k {
			return true
		}
	}
	// the field was assigned a fresh allocation earlier in this function (same field address class)
	if ld, ok := stripConv(v).(*ssa.UnOp); ok && ld.Op == token.MUL {
		if fa, ok := ld.X.(*ssa.FieldAddr); ok {
			fk := p.key(fa)
			fn := b.Parent()
			for _, bb := range fn.Blocks {
				for _, in := range bb.Instrs {
					st, ok := in.(*ssa.Store)
					if !ok {
						continue
					}
					if p.key(st.Addr) != fk {
						continue
					}
					if _, fresh := stripConv(st.Val).(*ssa.Alloc); fresh && p.mustPrecede(ld, func(i ssa.Instruction) bool { return i == ssa.Instruction(st) }) {
						return true
					}
				}
			}
		}
	}
	return false
}

func init() {
	addRule("C19", Rule{ID: "C19.R8", Min: 1, Statement: "optional pointer fields of API/manifest types are dereferenced only under a nil test (an absent optional part must not crash the process)", Run: optionalPointerDerefRule})
}

var _ = sort.Strings

// ---------------------------------------------------------------------------------------------
// C19.R9 — no admitted template function can build a self-referential value.
//
// text/template prints `{{ $x }}` with fmt, which follows maps and slices without cycle detection:
// printing a dict that (transitively) contains itself recurses until the goroutine stack limit is
// hit — `fatal error: stack overflow`, which is not a panic and cannot be recovered. A cyclic value
// can only be built by a function that stores one of its arguments *by reference* into a map that
// the template still holds. The table lists the sprig functions that do (each confirmed against the
// real code: triage/repro/D12_transform_cyclic_dict_test.go.txt); the rule fails for every one of
// them that is on the allow-list.
var sprigAliasingMutators = map[string]string{
	"set":                `set $m "k" $m makes $m contain itself`,
	"merge":              `merge $a (dict "k" $a) stores $a into itself (mergo copies map references)`,
	"mergeOverwrite":     `mergeOverwrite $a (dict "k" $a) stores $a into itself`,
	"mustMerge":          `mustMerge $a (dict "k" $a) stores $a into itself`,
	"mustMergeOverwrite": `mustMergeOverwrite $a (dict "k" $a) stores $a into itself`,
}

func cyclicTemplateValueRule(c *Ctx) {
	allow, anchor := c13AllowList(c)
	if allow == nil {
		return
	}
	names := make([]string, 0, len(sprigAliasingMutators))
	for n := range sprigAliasingMutators {
		names = append(names, n)
	}
	sort.Strings(names)
	for _, n := range names {
		if allow[n] {
			c.Ob(anchor, "allowedFuncNames~"+n, nil, "no admitted template function can make a value contain itself").
				Fail("template function %q is admitted: %s; printing such a value ({{ $a }}) recurses without bound in fmt and ends the process with 'fatal error: stack overflow' (not recoverable) — in the manager for any ObjectTemplate or package template a user supplies", n, sprigAliasingMutators[n])
		}
	}
	c.Ob(anchor, "allowedFuncNames-aliasing-table", nil, "allow-list literal resolved and compared with the table of argument-aliasing sprig functions").OK(fmt.Sprintf("%d admitted names", len(allow)))
}

func init() {
	addRule("C19", Rule{ID: "C19.R9", Min: 1, Statement: "no admitted template function can build a self-referential value (printing one overflows the stack: an unrecoverable crash)", Run: cyclicTemplateValueRule})
}
