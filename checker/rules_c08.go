package main

import (
	"fmt"
	"go/token"
	"go/types"
	"strings"

	"golang.org/x/tools/go/ssa"
)

// C08 — Rollouts never archive or delete what is still serving.

func init() {
	register(&Property{
		ID: "C08",
		Explanation: "Decides, on every path of the current source, the structural core of C08: (R1) SetArchived() is called only under IsStatusPaused() of the same " +
			"ObjectSet and lifecycleState=Archived is stored nowhere else; (R2) every element that can enter the list of archival candidates is confirmed paused and " +
			"either older than a revision that IsAvailable() or itself not available with an empty intersection between the objects of the adjacent newer revision " +
			"and its own reported (non-nil) controllerOf; index arithmetic shows the element at len-1 of the ascending-sorted list (the newest revision) is never a " +
			"candidate; (R3) the pause-ensuring helper reports true only under IsStatusPaused(); (R4) history pruning deletes list[0], list[1], … of the previous " +
			"list only while a counter initialised to len(previous)-revisionHistoryLimit and decremented per element is > 0, and the previous list handed down never " +
			"contains the current ObjectSet; (R6) the object list of a revision used for the 'nothing in common' test must include objects stored in ObjectSlices " +
			"(violated today: known finding D7). R5 (shared objects are adopted, never deleted on handover) is the conjunction of C05.R1 and C01.R3 and is not " +
			"duplicated here.",
		NotDecided: []string{
			"timing between 'old revision reports controllerOf' and 'new revision adopts' (history property)",
			"that status conditions Paused/Available reported by a revision are truthful (C06/C09)",
			"whether pruning should additionally spare unarchived or Available previous revisions (not part of the statement)",
			"semantics of the intersection helper beyond being applied to the two object lists (trusted by name)",
		},
		Technique: "SSA guard-dominance dataflow + bounded inter-procedural guard expansion through boolean helpers + index-shape arithmetic + range-loop recognition + field-use dataflow",
		Rules: []Rule{
			{ID: "C08.R1", Min: 3, Run: c08r1, Statement: "a revision is archived only after it confirmed being paused: SetArchived() only under IsStatusPaused() of the same ObjectSet; lifecycleState Archived is written only by SetArchived()"},
			{ID: "C08.R2", Min: 5, Run: c08r2, Statement: "a revision becomes an archival candidate only if it is confirmed paused and (a newer revision is Available, or it is itself unavailable and controls nothing the next newer revision contains); the newest revision is never a candidate"},
			{ID: "C08.R3", Min: 1, Run: c08r3, Statement: "the pause-ensuring helper returns true only under IsStatusPaused() of the ObjectSet"},
			{ID: "C08.R4", Min: 2, Run: c08r4, Statement: "history pruning deletes only the oldest previous revisions beyond revisionHistoryLimit and never the current ObjectSet"},
			{ID: "C08.R6", Min: 1, Run: c08r6, Statement: "the object list of a revision used by the ObjectDeployment controller covers the whole revision, including objects stored in ObjectSlices"},
		},
	})
}

// ---------------------------------------------------------------------------------------------
// R1

func c08SetArchivedSites(p *Program) []Call {
	var out []Call
	for _, fn := range p.productFuncs() {
		if funcPkgPath(fn) == pkgAdapters {
			continue
		}
		for _, cc := range callsIn(fn) {
			if calleeName(cc.Common) == "SetArchived" {
				if r := callRecv(cc.Common); r != nil && rvIsObjectSetAccessor(stripConv(r).Type()) {
					out = append(out, cc)
				}
			}
		}
	}
	return out
}

func c08r1(c *Ctx) {
	p := c.P
	sites := c08SetArchivedSites(p)
	if len(sites) == 0 {
		c.AnchorLost("call of ObjectSetAccessor.SetArchived")
	}
	for _, cc := range sites {
		x := callRecv(cc.Common)
		o := c.Ob(cc.Fn, "SetArchived", cc.Instr, "SetArchived() only under IsStatusPaused() of the same ObjectSet")
		o.Require("T:IsStatusPaused(x)")
		pausedFact := func(fs []Fact, v ssa.Value) bool {
			_, found := p.findFactCall(fs, true, []string{"method:IsStatusPaused"}, func(k *ssa.CallCommon) bool { return p.sameValue(callRecv(k), v) })
			return found
		}
		ok, why := pausedFact(p.FactsAt(cc.Instr.Block()), x), "not guarded at "+p.IPos(cc.Instr)
		if ok {
			why = "guarded at " + p.IPos(cc.Instr)
		} else if prm, isParam := stripConv(x).(*ssa.Parameter); isParam && !p.addressTaken(cc.Fn) && len(p.callersOf(cc.Fn)) > 0 {
			// archive helper: the guard may sit at every call site
			idx := -1
			for k, q := range cc.Fn.Params {
				if q == prm {
					idx = k
				}
			}
			ok = idx >= 0
			for _, caller := range p.callersOf(cc.Fn) {
				if idx < 0 || !pausedFact(p.FactsAt(caller.Instr.Block()), caller.Common.Args[idx]) {
					ok = false
					why = "not guarded in " + shortFuncID(cc.Fn) + " nor at its call site " + p.IPos(caller.Instr)
				}
			}
			if ok {
				why = "guarded at every call site of " + shortFuncID(cc.Fn)
			}
		}
		if ok {
			o.OK(why)
		} else {
			o.Fail("a revision can be archived before it confirmed being paused: %s", why)
		}
	}
	// closure: lifecycleState = Archived is stored only by the accessors' SetArchived
	for _, fn := range p.productFuncs() {
		for _, b := range fn.Blocks {
			for _, in := range b.Instrs {
				st, ok := in.(*ssa.Store)
				if !ok {
					continue
				}
				fa, ok := st.Addr.(*ssa.FieldAddr)
				if !ok || fieldName(fa.X.Type(), fa.Field) != "LifecycleState" || !isStringConst(st.Val, "Archived") {
					continue
				}
				o := c.Ob(fn, "store-lifecycle-archived", st, "lifecycleState=Archived is stored only inside the accessors' SetArchived()")
				if funcPkgPath(fn) == pkgAdapters && fn.Name() == "SetArchived" {
					o.OK()
				} else {
					o.Fail("lifecycleState is set to Archived outside SetArchived(), bypassing the paused check")
				}
			}
		}
	}
}

// ---------------------------------------------------------------------------------------------
// Frames: bounded inter-procedural contexts

type c08Frame struct {
	fn     *ssa.Function
	call   *ssa.Call // the call in parent.fn that entered fn (nil for the root)
	parent *c08Frame
}

type c08Val struct {
	v  ssa.Value
	fr *c08Frame
}

type c08Fact struct {
	f  Fact
	fr *c08Frame
}

func c08Resolve(v ssa.Value, fr *c08Frame) c08Val {
	for i := 0; i < 8; i++ {
		v = stripConv(v)
		prm, ok := v.(*ssa.Parameter)
		if !ok || fr == nil || fr.call == nil {
			break
		}
		idx := -1
		for k, q := range fr.fn.Params {
			if q == prm {
				idx = k
			}
		}
		if idx < 0 || idx >= len(fr.call.Call.Args) {
			break
		}
		v = fr.call.Call.Args[idx]
		fr = fr.parent
	}
	return c08Val{stripConv(v), fr}
}

func (p *Program) c08Same(a, b c08Val) bool {
	return a.fr == b.fr && a.v != nil && b.v != nil && p.sameValue(a.v, b.v)
}

func c08FrameFacts(p *Program, at ssa.Instruction, fr *c08Frame) []c08Fact {
	var out []c08Fact
	for _, f := range p.FactsAt(at.Block()) {
		out = append(out, c08Fact{f, fr})
	}
	for fr.call != nil {
		for _, f := range p.FactsAt(fr.call.Block()) {
			out = append(out, c08Fact{f, fr.parent})
		}
		fr = fr.parent
	}
	return out
}

// siteInFrame returns the instruction of frame `target` through which control reaches `at`
// (at itself, or the call that leads to at's frame).
func c08SiteInFrame(at ssa.Instruction, fr, target *c08Frame) ssa.Instruction {
	for fr != nil {
		if fr == target {
			return at
		}
		if fr.call == nil {
			return nil
		}
		at = fr.call
		fr = fr.parent
	}
	return nil
}

func (p *Program) c08InWorkspace(f *ssa.Function) bool {
	if f == nil || f.Blocks == nil {
		return false
	}
	_, ok := p.ByPath[funcPkgPath(f)]
	return ok
}

// c08Expand replaces facts "helper(...) returned true" (helper = workspace function whose first
// result is bool) by the guard facts of the helper's returns that can yield true. The result is a
// disjunction of fact lists. ok=false when a helper result cannot be resolved.
func (p *Program) c08Expand(ctx []c08Fact, depth int) (alts [][]c08Fact, ok bool) {
	for i, cf := range ctx {
		if !cf.f.Pol {
			continue
		}
		call, idx := asCall(cf.f.Cond)
		if call == nil || idx > 0 {
			continue
		}
		h := staticCallee(call.Common())
		if !p.c08InWorkspace(h) || h.Signature.Results().Len() == 0 {
			continue
		}
		if bt, isB := h.Signature.Results().At(0).Type().Underlying().(*types.Basic); !isB || bt.Kind() != types.Bool {
			continue
		}
		if depth <= 0 {
			return nil, false
		}
		rest := append(append([]c08Fact{}, ctx[:i]...), ctx[i+1:]...)
		nf := &c08Frame{fn: h, call: call, parent: cf.fr}
		for _, rc := range p.returnCases(h) {
			if len(rc.Results) == 0 || rc.Results[0] == nil {
				return nil, false
			}
			r0 := rc.Results[0]
			if b, isC := constBool(stripConv(r0)); isC && !b {
				continue
			}
			alt := append([]c08Fact{}, rest...)
			for _, f := range rc.Facts {
				alt = append(alt, c08Fact{f, nf})
			}
			if _, isC := constBool(stripConv(r0)); !isC {
				alt = append(alt, c08Fact{p.mkFact(r0, true), nf})
			}
			sub, ok := p.c08Expand(alt, depth-1)
			if !ok {
				return nil, false
			}
			alts = append(alts, sub...)
		}
		return alts, true
	}
	return [][]c08Fact{ctx}, true
}

// ---------------------------------------------------------------------------------------------
// Candidate sources

type c08Source struct {
	fr   *c08Frame
	elem ssa.Value
	at   ssa.Instruction
}

// c08ElemSources enumerates where the elements of slice value v come from.
func (p *Program) c08ElemSources(fr *c08Frame, v ssa.Value, seen map[ssa.Value]bool, depth int) ([]c08Source, string) {
	v = stripConv(v)
	if seen[v] {
		return nil, ""
	}
	seen[v] = true
	switch x := v.(type) {
	case *ssa.Const:
		if x.Value == nil {
			return nil, ""
		}
	case *ssa.Phi:
		var out []c08Source
		for _, e := range x.Edges {
			s, why := p.c08ElemSources(fr, e, seen, depth)
			if why != "" {
				return nil, why
			}
			out = append(out, s...)
		}
		return out, ""
	case *ssa.Slice:
		if a, ok := x.X.(*ssa.Alloc); ok {
			for _, r := range referrersOf(x) {
				if _, isIA := r.(*ssa.IndexAddr); isIA {
					return nil, "slice " + x.Name() + " is filled by index assignment"
				}
			}
			elems, ok := sliceElems(x)
			if !ok {
				return nil, "slice literal not resolvable"
			}
			_ = a
			var out []c08Source
			for _, e := range elems {
				out = append(out, c08Source{fr, e, x})
			}
			return out, ""
		}
		return p.c08ElemSources(fr, x.X, seen, depth)
	case *ssa.MakeSlice:
		for _, r := range referrersOf(x) {
			if _, isIA := r.(*ssa.IndexAddr); isIA {
				return nil, "made slice is filled by index assignment"
			}
		}
		return nil, ""
	case *ssa.Call:
		if bi, ok := x.Call.Value.(*ssa.Builtin); ok && bi.Name() == "append" && len(x.Call.Args) == 2 {
			out, why := p.c08ElemSources(fr, x.Call.Args[0], seen, depth)
			if why != "" {
				return nil, why
			}
			tail := stripConv(x.Call.Args[1])
			if sl, isSl := tail.(*ssa.Slice); isSl {
				if _, isAlloc := sl.X.(*ssa.Alloc); isAlloc {
					elems, ok := sliceElems(sl)
					if !ok {
						return nil, "appended literal not resolvable"
					}
					for _, e := range elems {
						out = append(out, c08Source{fr, e, x})
					}
					return out, ""
				}
			}
			more, why := p.c08ElemSources(fr, tail, seen, depth)
			if why != "" {
				return nil, why
			}
			return append(out, more...), ""
		}
	case *ssa.Extract:
		if call, ok := x.Tuple.(*ssa.Call); ok && x.Index == 0 {
			return p.c08CallSources(fr, call, depth)
		}
	}
	if call, ok := v.(*ssa.Call); ok {
		return p.c08CallSources(fr, call, depth)
	}
	return nil, "elements of " + p.describe(v) + " cannot be traced"
}

func (p *Program) c08CallSources(fr *c08Frame, call *ssa.Call, depth int) ([]c08Source, string) {
	h := staticCallee(call.Common())
	if !p.c08InWorkspace(h) || depth <= 0 {
		return nil, "elements returned by " + p.describe(call) + " cannot be traced"
	}
	nf := &c08Frame{fn: h, call: call, parent: fr}
	var out []c08Source
	for _, rc := range p.returnCases(h) {
		if len(rc.Results) == 0 || rc.Results[0] == nil {
			return nil, "result of " + shortFuncID(h) + " cannot be resolved"
		}
		s, why := p.c08ElemSources(nf, rc.Results[0], map[ssa.Value]bool{}, depth-1)
		if why != "" {
			return nil, why
		}
		out = append(out, s...)
	}
	return out, ""
}

// ---------------------------------------------------------------------------------------------
// Positions inside the sorted list

type c08Pos struct {
	base  c08Val
	below ssa.Value // index < below
	at    ssa.Value // index == at
	fr    *c08Frame // frame of below/at
}

func c08PosOf(v c08Val) (c08Pos, bool) {
	ia := rvElemAddr(v.v)
	if ia == nil {
		return c08Pos{}, false
	}
	base := c08Resolve(ia.X, v.fr)
	if sl, ok := base.v.(*ssa.Slice); ok {
		if sl.High == nil {
			return c08Pos{}, false
		}
		return c08Pos{base: c08Resolve(sl.X, base.fr), below: sl.High, fr: base.fr}, true
	}
	if base.fr != v.fr {
		return c08Pos{}, false // index value lives in a helper frame, list in the caller: not comparable
	}
	return c08Pos{base: base, at: ia.Index, fr: v.fr}, true
}

func rvSubConst(v ssa.Value) (x ssa.Value, c int64, ok bool) {
	b, isBin := v.(*ssa.BinOp)
	if !isBin {
		return nil, 0, false
	}
	n, isC := constInt(b.Y)
	if !isC {
		return nil, 0, false
	}
	switch b.Op {
	case token.SUB:
		return b.X, n, true
	case token.ADD:
		return b.X, -n, true
	}
	return nil, 0, false
}

// c08AtMostLast: j <= len(s)-1 on every path, from the shape of j (len(s)-c, j-c, phis thereof).
func (p *Program) c08AtMostLast(j, s ssa.Value, seen map[ssa.Value]bool) bool {
	if seen[j] {
		return true
	}
	seen[j] = true
	if x, c, ok := rvSubConst(j); ok {
		if a := rvLenArg(x); a != nil && p.sameValue(a, s) {
			return c >= 1
		}
		return c >= 0 && p.c08AtMostLast(x, s, seen)
	}
	if ph, ok := j.(*ssa.Phi); ok {
		for _, e := range ph.Edges {
			if !p.c08AtMostLast(e, s, seen) {
				return false
			}
		}
		return true
	}
	return false
}

// c08Before: index(e) < index(a) by shape; adjacent reports index(e) == index(a)-1.
func (p *Program) c08Before(e, a c08Pos) (before, adjacent bool) {
	if !p.c08Same(e.base, a.base) || e.fr != a.fr || a.at == nil {
		return false, false
	}
	if e.below != nil && e.below == a.at {
		return true, false
	}
	if e.at != nil {
		if x, c, ok := rvSubConst(e.at); ok && x == a.at && c >= 1 {
			return true, c == 1
		}
	}
	return false, false
}

// ---------------------------------------------------------------------------------------------
// R2

// c08TraceProducers follows v (an archived ObjectSet, or the list it is an element of) through
// element loads and parameters (static callers, closures included) to the workspace calls whose
// result the list is.
func (p *Program) c08TraceProducers(v ssa.Value, fn *ssa.Function, depth int) ([]*ssa.Function, string) {
	v = stripConv(v)
	if ia := rvElemAddr(v); ia != nil {
		return p.c08TraceProducers(ia.X, fn, depth)
	}
	if prm, ok := v.(*ssa.Parameter); ok {
		idx := -1
		for k, q := range fn.Params {
			if q == prm {
				idx = k
			}
		}
		callers := p.callersOf(fn)
		if idx < 0 || len(callers) == 0 || p.addressTaken(fn) || depth <= 0 {
			return nil, shortFuncID(fn) + " has no resolvable callers"
		}
		var out []*ssa.Function
		for _, k := range callers {
			args := k.Common.Args
			if idx >= len(args) {
				return nil, "argument mismatch at " + p.IPos(k.Instr)
			}
			more, why := p.c08TraceProducers(args[idx], k.Fn, depth-1)
			if why != "" {
				return nil, why
			}
			out = append(out, more...)
		}
		return out, ""
	}
	call, idx := asCall(v)
	if call == nil || idx > 0 || !p.c08InWorkspace(staticCallee(call.Common())) {
		return nil, "candidate list " + p.describe(v) + " is not the result of a workspace function"
	}
	if !rvIsAccessorSlice(call.Common().Signature().Results().At(0).Type()) {
		return nil, p.describe(v) + " is not a list of ObjectSets"
	}
	return []*ssa.Function{staticCallee(call.Common())}, ""
}

// c08Producers traces the ObjectSets that get archived back to the function computing the list.
func (p *Program) c08Producers() (out []*ssa.Function, why string) {
	for _, cc := range c08SetArchivedSites(p) {
		more, w := p.c08TraceProducers(callRecv(cc.Common), cc.Fn, 4)
		if w != "" {
			return nil, "the archived ObjectSet at " + p.IPos(cc.Instr) + " cannot be traced to a candidate list: " + w
		}
		out = append(out, more...)
	}
	if len(out) == 0 {
		return nil, "no SetArchived site"
	}
	return out, ""
}

func (p *Program) c08RevRel(alt []c08Fact, lo, hi c08Val) bool {
	for _, cf := range alt {
		rel, ok := rvRelOf(cf.f)
		if !ok || !rel.Strict {
			continue
		}
		ra, _, oka := rvMethodOn(rel.A, "GetRevision")
		rb, _, okb := rvMethodOn(rel.B, "GetRevision")
		if oka && okb && p.c08Same(c08Resolve(ra, cf.fr), lo) && p.c08Same(c08Resolve(rb, cf.fr), hi) {
			return true
		}
	}
	return false
}

// c08GetterArg: v is <getter-factory>(x).<method>() (first result); returns x resolved.
func c08GetterArg(v ssa.Value, fr *c08Frame, method string) (c08Val, bool) {
	call, idx := asCall(v)
	if call == nil || idx > 0 || calleeName(call.Common()) != method {
		return c08Val{}, false
	}
	recv := callRecv(call.Common())
	if recv == nil {
		return c08Val{}, false
	}
	g, _ := asCall(recv)
	if g == nil || staticCallee(g.Common()) == nil || len(g.Common().Args) != 1 {
		return c08Val{}, false
	}
	return c08Resolve(g.Common().Args[0], fr), true
}

func c08r2(c *Ctx) {
	p := c.P
	producers, why := p.c08Producers()
	if producers == nil {
		c.AnchorLost("producer of the list of ObjectSets to archive (" + why + ")")
		return
	}
	done := map[*ssa.Function]bool{}
	for _, g := range producers {
		if done[g] {
			continue
		}
		done[g] = true
		c.Visit(g)
		root := &c08Frame{fn: g}
		var sources []c08Source
		traceWhy := ""
		for _, rc := range p.returnCases(g) {
			if len(rc.Results) == 0 || rc.Results[0] == nil {
				traceWhy = "result cannot be resolved"
				break
			}
			s, w := p.c08ElemSources(root, rc.Results[0], map[ssa.Value]bool{}, 2)
			if w != "" {
				traceWhy = w
				break
			}
			sources = append(sources, s...)
		}
		if traceWhy != "" {
			c.Ob(g, "candidate-sources", nil, c.rule.Statement).Unknown("cannot enumerate where archival candidates come from: %s", traceWhy)
			continue
		}
		// de-duplicate (a source may be reached through several returns)
		var uniqSrc []c08Source
		seenSrc := map[ssa.Instruction]bool{}
		for _, s := range sources {
			if !seenSrc[s.at] {
				seenSrc[s.at] = true
				uniqSrc = append(uniqSrc, s)
			}
		}
		if len(uniqSrc) == 0 {
			c.Ob(g, "candidate-sources", nil, c.rule.Statement).Unknown("the candidate list is never appended to")
			continue
		}
		var lists []c08Val
		for _, s := range uniqSrc {
			c.Visit(s.fr.fn)
			e := c08Resolve(s.elem, s.fr)
			oc := c.Ob(s.fr.fn, "archive-candidate", s.at, "candidate is confirmed paused and (older than an Available revision, or unavailable with nothing in common with the next newer revision)")
			on := c.Ob(s.fr.fn, "never-newest", s.at, "the candidate's index in the ascending-sorted list is below len-1 (the newest revision is never archived)")
			pos, posOK := c08PosOf(e)
			if !posOK {
				oc.Unknown("candidate %s is not an element of the list of revisions", rvShort(p, e.v))
				on.Unknown("candidate %s is not an element of the list of revisions", rvShort(p, e.v))
				continue
			}
			lists = append(lists, pos.base)
			sorted, sortNote := p.c08SortedBefore(s, pos.base)

			// never newest: by index shape on the sorted list …
			structural, structNote := false, ""
			switch {
			case !sorted:
			case pos.below != nil && p.c08AtMostLast(pos.below, pos.base.v, map[ssa.Value]bool{}):
				structural, structNote = true, "index < "+rvShort(p, pos.below)+" <= len-1; "+sortNote
			case pos.at != nil:
				if x, k, ok := rvSubConst(pos.at); ok && k >= 1 && p.c08AtMostLast(x, pos.base.v, map[ssa.Value]bool{}) {
					structural, structNote = true, "index = "+rvShort(p, pos.at)+" <= len-2; "+sortNote
				}
			}
			// justification
			alts, ok := p.c08Expand(c08FrameFacts(p, s.at, s.fr), 4)
			if !ok {
				oc.Unknown("guards of the append could not be expanded through the boolean helpers")
				if structural {
					on.OK(structNote)
				} else {
					on.Unknown("guards of the append could not be expanded through the boolean helpers")
				}
				continue
			}
			if len(alts) == 0 {
				oc.OK("guard helpers never return true")
				on.OK("guard helpers never return true")
				continue
			}
			// … or, in every alternative, by a strict revision comparison with another element of the list
			explicit := len(alts) > 0
			for _, alt := range alts {
				if !p.c08HasNewerInList(alt, e, pos.base) {
					explicit = false
				}
			}
			switch {
			case structural:
				on.OK(structNote)
			case explicit:
				on.OK("guarded by GetRevision() < GetRevision() of another element of " + rvShort(p, pos.base.v))
			case !sorted:
				on.Fail("the list %s is not sorted ascending by revision before candidates are taken and no revision comparison shows a newer element exists: the newest revision could be archived", rvShort(p, pos.base.v))
			default:
				on.Fail("candidate index is not provably below len(%s)-1 and no strict revision comparison with another element guards the append: the newest revision could be archived", rvShort(p, pos.base.v))
			}
			var problems, notes []string
			for _, alt := range alts {
				just, prob := p.c08Justified(alt, e, pos, sorted)
				if prob != "" {
					problems = append(problems, prob)
				} else {
					notes = append(notes, just)
				}
			}
			if len(problems) > 0 {
				oc.Fail("%s", strings.Join(rvDedup(problems), "; "))
			} else {
				oc.OK(rvDedup(notes)...)
			}
		}
		// sorted obligation (one per producer)
		os := c.Ob(g, "candidates-sorted", nil, "the list of revisions is sorted ascending by GetRevision() before candidates are selected")
		allSorted := len(lists) > 0
		note := ""
		for i, s := range uniqSrc {
			if i >= len(lists) {
				allSorted = false
				break
			}
			ok, n := p.c08SortedBefore(s, lists[i])
			if !ok {
				allSorted = false
			}
			note = n
		}
		if allSorted {
			os.OK(note)
		} else {
			os.Fail("candidates are selected from a list that is not sorted ascending by revision on every path")
		}
	}
}

// c08HasNewerInList: the facts contain e.GetRevision() < x.GetRevision() for an element x of the same list.
func (p *Program) c08HasNewerInList(alt []c08Fact, e c08Val, base c08Val) bool {
	for _, cf := range alt {
		rel, ok := rvRelOf(cf.f)
		if !ok || !rel.Strict {
			continue
		}
		ra, _, oka := rvMethodOn(rel.A, "GetRevision")
		rb, _, okb := rvMethodOn(rel.B, "GetRevision")
		if !oka || !okb || !p.c08Same(c08Resolve(ra, cf.fr), e) {
			continue
		}
		if xp, ok := c08PosOf(c08Resolve(rb, cf.fr)); ok && p.c08Same(xp.base, base) {
			return true
		}
	}
	return false
}

func (p *Program) c08SortedBefore(s c08Source, base c08Val) (bool, string) {
	site := c08SiteInFrame(s.at, s.fr, base.fr)
	if site == nil {
		return false, ""
	}
	note := ""
	ok := p.mustPrecede(site, func(in ssa.Instruction) bool {
		ok, n := p.rvSortAscending(in, base.v)
		if ok {
			note = n
		}
		return ok
	})
	return ok, note
}

// c08Justified checks one alternative (a conjunction of guard facts) for candidate e.
func (p *Program) c08Justified(alt []c08Fact, e c08Val, pos c08Pos, sorted bool) (just string, problem string) {
	callOn := func(cf c08Fact, method string) (c08Val, bool) {
		call, idx := asCall(cf.f.Cond)
		if call == nil || idx > 0 || calleeName(call.Common()) != method || callRecv(call.Common()) == nil {
			return c08Val{}, false
		}
		return c08Resolve(callRecv(call.Common()), cf.fr), true
	}
	paused := false
	var avail []c08Val
	selfUnavailable := false
	for _, cf := range alt {
		if r, ok := callOn(cf, "IsStatusPaused"); ok && cf.f.Pol && p.c08Same(r, e) {
			paused = true
		}
		if r, ok := callOn(cf, "IsAvailable"); ok {
			if cf.f.Pol && !p.c08Same(r, e) {
				avail = append(avail, r)
			}
			if !cf.f.Pol && p.c08Same(r, e) {
				selfUnavailable = true
			}
		}
	}
	if !paused {
		return "", "a revision can become a candidate without IsStatusPaused() of it being established"
	}
	// J1: a newer revision is Available
	for _, a := range avail {
		if p.c08RevRel(alt, e, a) {
			return "paused; older (by revision comparison) than Available " + rvShort(p, a.v), ""
		}
		if ap, ok := c08PosOf(a); ok && sorted {
			if before, _ := p.c08Before(pos, ap); before {
				return "paused; at a lower index of the sorted list than Available " + rvShort(p, a.v), ""
			}
		}
	}
	// J2: itself unavailable, nothing in common with the next newer revision
	why := "neither a newer Available revision nor (unavailable and nothing in common with the next newer revision) is established"
	if len(avail) > 0 {
		why = "the Available revision is not known to be newer than the candidate"
	}
	if selfUnavailable {
		why = "the candidate is unavailable but an empty intersection of the next newer revision's objects with its controllerOf is not established"
		for _, cf := range alt {
			x, nonEmptyWhenTrue, ok := lenCmp(cf.f.Cond)
			if !ok || cf.f.Pol == nonEmptyWhenTrue {
				continue
			}
			ic, _ := asCall(x)
			if ic == nil || staticCallee(ic.Common()) == nil || len(ic.Common().Args) != 2 {
				continue
			}
			for k := 0; k < 2; k++ {
				objsArg, ctrlArg := ic.Common().Args[k], ic.Common().Args[1-k]
				n, ok1 := c08GetterArg(objsArg, cf.fr, "getObjects")
				ce, ok2 := c08GetterArg(ctrlArg, cf.fr, "getActivelyReconciledObjects")
				if !ok1 || !ok2 || !p.c08Same(ce, e) {
					continue
				}
				// controllerOf reported
				reported := false
				for _, g := range alt {
					if g.fr == cf.fr && p.nilnessFromFacts([]Fact{g.f}, ctrlArg) == noTri {
						reported = true
					}
				}
				if !reported {
					why = "the candidate's controllerOf may be unreported (nil) when the intersection is taken"
					continue
				}
				np, okp := c08PosOf(n)
				if !okp {
					why = "the revision compared with is not an element of the list of revisions"
					continue
				}
				before, adjacent := p.c08Before(pos, np)
				if !before || !adjacent {
					why = "the revision whose objects are compared is not the next newer one (index+1) of the candidate"
					continue
				}
				if !sorted && !p.c08RevRel(alt, e, n) {
					why = "the revision compared with is not known to be newer"
					continue
				}
				return "paused; unavailable; controllerOf reported and disjoint from objects of next newer " + rvShort(p, n.v), ""
			}
		}
	}
	return "", why
}

// ---------------------------------------------------------------------------------------------
// R3

func c08r3(c *Ctx) {
	p := c.P
	n := 0
	for _, fn := range p.FuncsIn(pkgObjDeploy) {
		res := fn.Signature.Results()
		if res.Len() == 0 {
			continue
		}
		if bt, isB := res.At(0).Type().Underlying().(*types.Basic); !isB || bt.Kind() != types.Bool {
			continue
		}
		acc := rvParamOfType(fn, rvIsObjectSetAccessor)
		if acc == nil {
			continue
		}
		pauses := false
		for _, cc := range callsIn(fn) {
			if calleeName(cc.Common) == "SetPaused" && p.sameValue(callRecv(cc.Common), acc) {
				pauses = true
			}
		}
		if !pauses {
			continue
		}
		n++
		o := c.Ob(fn, "returns-true", nil, c.rule.Statement)
		o.Require("every return whose first result can be true has T:IsStatusPaused(objectset)")
		var problems []string
		unknown := ""
		for _, rc := range p.returnCases(fn) {
			if len(rc.Results) == 0 || rc.Results[0] == nil {
				unknown = "a result cannot be resolved at " + p.IPos(rc.Ret)
				continue
			}
			if b, isC := constBool(stripConv(rc.Results[0])); isC && !b {
				continue
			}
			_, found := p.findFactCall(rc.Facts, true, []string{"method:IsStatusPaused"}, func(k *ssa.CallCommon) bool { return p.sameValue(callRecv(k), acc) })
			if found {
				continue
			}
			// `return objectset.IsStatusPaused(), nil`
			if recv, _, ok := rvMethodOn(rc.Results[0], "IsStatusPaused"); ok && p.sameValue(recv, acc) {
				continue
			}
			problems = append(problems, fmt.Sprintf("returns %s at %s without IsStatusPaused() being established (paused is reported before the revision confirmed it)", p.describe(rc.Results[0]), p.IPos(rc.Ret)))
		}
		switch {
		case len(problems) > 0:
			o.Fail("%s", strings.Join(problems, "; "))
		case unknown != "":
			o.Unknown("%s", unknown)
		default:
			o.OK()
		}
	}
	if n == 0 {
		c.AnchorLost("pause-ensuring helper (bool-returning function calling SetPaused on its ObjectSet parameter)")
	}
}

// ---------------------------------------------------------------------------------------------
// R4

func c08r4(c *Ctx) {
	p := c.P
	var deletes []WriterSite
	for _, ws := range allWriterSites(p.FuncsIn(pkgObjDeploy)) {
		if ws.Verb == "Delete" || ws.Verb == "DeleteAllOf" {
			if _, ok := rvObjectSetWriterAcc(ws); ok || ws.Verb == "DeleteAllOf" {
				deletes = append(deletes, ws)
			}
		}
	}
	if len(deletes) == 0 {
		c.AnchorLost("client.Delete of an ObjectSet accessor's ClientObject() in objectdeployments")
	}
	chainOK := false
	for _, ws := range deletes {
		fn := ws.Call.Fn
		site := ws.Call.Instr
		o := c.Ob(fn, "Delete-oldest-beyond-limit", site, "deletes previous[0], previous[1], … only while len(previous)-revisionHistoryLimit, decremented per element, is > 0")
		o.Require("deleted object is the current element of an ascending loop over the previous-revisions parameter", "counter > 0 at the delete",
			"counter starts at len(previous) - limit, limit from GetRevisionHistoryLimit() or the default", "counter decremented in every iteration")
		if ws.Verb == "DeleteAllOf" {
			o.Fail("DeleteAllOf of ObjectSets")
			continue
		}
		x, _ := rvObjectSetWriterAcc(ws)
		var loop *rvLoop
		for _, l := range rvRangeLoops(p, fn) {
			if l.isElem(p, x) && l.L.Body[site.Block()] {
				loop = l
			}
		}
		if loop == nil {
			o.Fail("the deleted ObjectSet %s is not the current element of an ascending (oldest first) loop", rvShort(p, x))
			continue
		}
		// the loop runs over the previous-revisions parameter itself, or over a prefix previous[:k] of it
		// (oldest first either way; element i of the prefix is element i of the list)
		list := stripConv(loop.Slice)
		var prefixLen ssa.Value
		if sl, isSl := list.(*ssa.Slice); isSl && sl.High != nil && sl.Max == nil {
			if lo, isC := constInt(sl.Low); sl.Low == nil || (isC && lo == 0) {
				list, prefixLen = stripConv(sl.X), sl.High
			}
		}
		prm, isParam := list.(*ssa.Parameter)
		if !isParam {
			o.Unknown("the pruned list %s is not a parameter (or a prefix of one)", p.describe(loop.Slice))
			continue
		}
		var problems []string
		// limitOK judges the excess expression len(previous) - limit
		limitOK := func(e ssa.Value) bool {
			sub, ok := e.(*ssa.BinOp)
			if !ok || sub.Op != token.SUB || rvLenArg(sub.X) == nil || !(p.sameValue(rvLenArg(sub.X), loop.Slice) || p.sameValue(rvLenArg(sub.X), prm)) {
				return false
			}
			lim := sub.Y
			if cv, isConv := lim.(*ssa.Convert); isConv {
				lim = cv.X
			}
			fromSpec := false
			for _, pv := range p.possibleValues(lim) {
				if _, isC := constInt(pv); isC {
					continue
				}
				if ld, isLd := pv.(*ssa.UnOp); isLd && ld.Op == token.MUL {
					if recv, _, ok := rvMethodOn(ld.X, "GetRevisionHistoryLimit"); ok && rvIsDeploymentAccessor(stripConv(recv).Type()) {
						fromSpec = true
						continue
					}
				}
				problems = append(problems, "the history limit is "+p.describe(pv)+", neither a constant default nor *GetRevisionHistoryLimit()")
			}
			if !fromSpec {
				problems = append(problems, "the history limit never comes from GetRevisionHistoryLimit()")
			}
			return true
		}
		note := ""
		if prefixLen != nil && p.c08AtMostExcess(prefixLen, limitOK, map[ssa.Value]bool{}) {
			// every element of previous[:k] with k <= max(len(previous)-limit, 0) is beyond the limit
			note = "loop over " + prm.Name() + "[:" + rvShort(p, prefixLen) + "], a prefix of at most len(" + prm.Name() + ") - limit elements"
		} else {
			// counter
			var counter *ssa.Phi
			for _, f := range p.FactsAt(site.Block()) {
				rel, ok := rvRelOf(f)
				if !ok {
					continue
				}
				k, isC := constInt(rel.A)
				ph, isPhi := rel.B.(*ssa.Phi)
				if isC && isPhi && ph.Block() == loop.L.Head && ((k == 0 && rel.Strict) || (k == 1 && !rel.Strict)) {
					counter = ph
				}
			}
			if counter == nil {
				if prefixLen != nil {
					o.Fail("the deleted revisions are %s[:%s], whose length is not bounded by len(%s) - revisionHistoryLimit, and the delete is not guarded by a loop-carried counter being > 0 (revisions within the history limit could be deleted)", prm.Name(), rvShort(p, prefixLen), prm.Name())
				} else {
					o.Fail("the delete is not guarded by a loop-carried counter being > 0 (revisions within the history limit could be deleted)")
				}
				continue
			}
			for k, e := range counter.Edges {
				pred := loop.L.Head.Preds[k]
				if loop.L.Body[pred] {
					if xx, cnt, ok := rvSubConst(e); !ok || xx != ssa.Value(counter) || cnt < 1 {
						problems = append(problems, "the counter is not decremented on every completed iteration ("+rvShort(p, e)+"), so more than the excess could be deleted")
					}
					continue
				}
				if !limitOK(e) {
					problems = append(problems, "the counter does not start at len(previous) - limit: "+rvShort(p, e))
				}
			}
			note = "loop over " + prm.Name() + ", counter " + counter.Comment
		}
		// the list handed down is the sub-reconciler's previous list
		if why := p.c08ParamIsPrevList(fn, prm, 4); why != "" {
			problems = append(problems, why)
		} else {
			chainOK = true
		}
		if len(problems) > 0 {
			o.Fail("%s", strings.Join(rvDedup(problems), "; "))
		} else {
			o.OK(note)
		}
	}
	// previous never contains current, at every invocation
	calls := rvSubReconcilerCalls(p, p.FuncsIn(pkgObjDeploy))
	if len(calls) == 0 {
		c.AnchorLost("invocation of a sub-reconciler (ctx, ObjectSetAccessor, []ObjectSetAccessor, ObjectDeploymentAccessor)")
	}
	for _, call := range calls {
		o := c.Ob(call.Fn, "previous-excludes-current", call.Instr, "the previous list handed to the sub-reconcilers (and on to pruning) never contains the current ObjectSet")
		if !chainOK {
			o.Note("pruned list could not be linked to the sub-reconciler's previous list")
		}
		args := callArgs(call.Common)
		cases := p.rvJointCases(call.Instr, []ssa.Value{args[1], args[2]})
		if len(cases) == 0 {
			o.Unknown("no feasible (current, previous) combination found")
			continue
		}
		var problems []string
		for _, cs := range cases {
			cur, prev := stripConv(cs.Vals[0]), stripConv(cs.Vals[1])
			if isNilConst(cur) || isNilConst(prev) || p.rvCaseKnownNil(cs, args[1]) {
				continue
			}
			ia := rvElemAddr(cur)
			sl, isSl := prev.(*ssa.Slice)
			if ia == nil {
				problems = append(problems, "current ObjectSet "+p.describe(cur)+" is not a list element; cannot show it is excluded from "+p.describe(prev))
				continue
			}
			if !isSl || !p.sameValue(sl.X, ia.X) || sl.High == nil || !p.sameValue(sl.High, ia.Index) {
				problems = append(problems, fmt.Sprintf("previous list %s may contain the current ObjectSet %s (pruning could delete the current revision)", p.describe(prev), p.describe(cur)))
			}
		}
		if len(problems) > 0 {
			o.Fail("%s", strings.Join(rvDedup(problems), "; "))
		} else {
			o.OK(fmt.Sprintf("%d feasible (current, previous) cases", len(cases)))
		}
	}
}

// c08AtMostExcess: v <= max(E, 0) on every path, where E is an expression accepted by isExcess
// (len(previous) - limit): E itself, a constant <= 0, max(…) of such values, min(…) with at least
// one such operand, a phi of such values.
func (p *Program) c08AtMostExcess(v ssa.Value, isExcess func(ssa.Value) bool, seen map[ssa.Value]bool) bool {
	v = stripConv(v)
	if seen[v] {
		return true
	}
	seen[v] = true
	if n, isC := constInt(v); isC {
		return n <= 0
	}
	switch x := v.(type) {
	case *ssa.Phi:
		for _, e := range x.Edges {
			if !p.c08AtMostExcess(e, isExcess, seen) {
				return false
			}
		}
		return true
	case *ssa.Call:
		if bi, ok := x.Call.Value.(*ssa.Builtin); ok {
			switch bi.Name() {
			case "max":
				for _, a := range x.Call.Args {
					if !p.c08AtMostExcess(a, isExcess, seen) {
						return false
					}
				}
				return len(x.Call.Args) > 0
			case "min":
				for _, a := range x.Call.Args {
					// a failed operand must not poison a later visit of the same value
					sub := map[ssa.Value]bool{}
					for k := range seen {
						sub[k] = true
					}
					if p.c08AtMostExcess(a, isExcess, sub) {
						return true
					}
				}
				return false
			}
		}
	}
	return isExcess(v)
}

// c08ParamIsPrevList: parameter prm of fn is, through every static caller chain, the
// previous-revisions parameter of a sub-reconciler method. Returns "" when so.
func (p *Program) c08ParamIsPrevList(fn *ssa.Function, prm *ssa.Parameter, depth int) string {
	if fn.Signature.Recv() != nil && rvIsSubReconcilerSig(fn.Signature) && !p.inlinable(fn) {
		if rvIsAccessorSlice(prm.Type()) {
			return ""
		}
		return "pruned list is not the previous-revisions parameter of " + shortFuncID(fn)
	}
	if depth <= 0 {
		return "caller chain of the pruned list is too deep"
	}
	idx := -1
	for k, q := range fn.Params {
		if q == prm {
			idx = k
		}
	}
	callers := p.callersOf(fn)
	if idx < 0 || len(callers) == 0 || p.addressTaken(fn) {
		return shortFuncID(fn) + " has no resolvable callers"
	}
	for _, cc := range callers {
		arg := stripConv(cc.Common.Args[idx])
		ap, ok := arg.(*ssa.Parameter)
		if !ok {
			return fmt.Sprintf("%s is handed %s, not the sub-reconciler's previous list (it may contain the current ObjectSet)", shortFuncID(fn), p.describe(arg))
		}
		if why := p.c08ParamIsPrevList(cc.Fn, ap, depth-1); why != "" {
			return why
		}
	}
	return ""
}

// ---------------------------------------------------------------------------------------------
// R6

// c08PhaseFieldUses follows a []ObjectSetTemplatePhase value through element loads, local copies,
// sub-slices, phis and static workspace callees and records which ObjectSetTemplatePhase fields
// are read.
func (p *Program) c08PhaseFieldUses(v ssa.Value, fields map[string][]ssa.Instruction, seen map[ssa.Value]bool, depth int) {
	if v == nil || seen[v] {
		return
	}
	seen[v] = true
	isPhase := func(t types.Type) bool { return namedTypeString(t) == pkgCoreV1+".ObjectSetTemplatePhase" }
	for _, r := range referrersOf(v) {
		switch x := r.(type) {
		case *ssa.IndexAddr:
			if x.X == v {
				p.c08PhaseFieldUses(x, fields, seen, depth)
			}
		case *ssa.Index:
			if x.X == v {
				p.c08PhaseFieldUses(x, fields, seen, depth)
			}
		case *ssa.UnOp:
			if x.Op == token.MUL && x.X == v {
				p.c08PhaseFieldUses(x, fields, seen, depth)
			}
		case *ssa.Store:
			if x.Val == v {
				if a, ok := x.Addr.(*ssa.Alloc); ok {
					p.c08PhaseFieldUses(a, fields, seen, depth)
				}
			}
		case *ssa.FieldAddr:
			if x.X == v && isPhase(x.X.Type()) {
				name := fieldName(x.X.Type(), x.Field)
				fields[name] = append(fields[name], x)
			}
		case *ssa.Field:
			if x.X == v && isPhase(x.X.Type()) {
				name := fieldName(x.X.Type(), x.Field)
				fields[name] = append(fields[name], x)
			}
		case *ssa.Slice:
			if x.X == v {
				p.c08PhaseFieldUses(x, fields, seen, depth)
			}
		case *ssa.Phi:
			p.c08PhaseFieldUses(x, fields, seen, depth)
		case *ssa.Range:
			p.c08PhaseFieldUses(x, fields, seen, depth)
		case *ssa.Next:
			p.c08PhaseFieldUses(x, fields, seen, depth)
		case *ssa.Extract:
			p.c08PhaseFieldUses(x, fields, seen, depth)
		case *ssa.ChangeType:
			p.c08PhaseFieldUses(x, fields, seen, depth)
		case *ssa.MakeInterface:
			fields["<escapes>"] = append(fields["<escapes>"], x)
		case ssa.CallInstruction:
			cc := x.Common()
			h := staticCallee(cc)
			if bi, isB := cc.Value.(*ssa.Builtin); isB {
				if bi.Name() == "append" || bi.Name() == "copy" {
					if val := x.Value(); val != nil {
						p.c08PhaseFieldUses(val, fields, seen, depth)
					}
				}
				continue
			}
			if !p.c08InWorkspace(h) || depth <= 0 {
				fields["<escapes>"] = append(fields["<escapes>"], x)
				continue
			}
			for k, a := range cc.Args {
				if a == v && k < len(h.Params) {
					p.c08PhaseFieldUses(h.Params[k], fields, seen, depth-1)
				}
			}
		}
	}
}

func c08r6(c *Ctx) {
	p := c.P
	n := 0
	for _, fn := range p.FuncsIn(pkgObjDeploy) {
		for _, cc := range callsIn(fn) {
			if calleeName(cc.Common) != "GetPhases" {
				continue
			}
			recv := callRecv(cc.Common)
			if recv == nil || !rvIsObjectSetAccessor(stripConv(recv).Type()) {
				continue
			}
			val := cc.Instr.Value()
			if val == nil {
				continue
			}
			n++
			o := c.Ob(fn, "GetPhases", cc.Instr, c.rule.Statement)
			o.Require("a reader of ObjectSetTemplatePhase.Objects obtained from GetPhases() also resolves .Slices, or runs after the phases were replaced by slice-inlined ones (SetPhases) in this activation")
			fields := map[string][]ssa.Instruction{}
			p.c08PhaseFieldUses(val, fields, map[ssa.Value]bool{}, 3)
			var reads []string
			for _, in := range fields["Objects"] {
				reads = append(reads, p.IPos(in))
			}
			switch {
			case len(fields["Objects"]) == 0 && len(fields["<escapes>"]) > 0:
				o.Unknown("phases escape to code that is not followed (%s)", p.IPos(fields["<escapes>"][0]))
			case len(fields["Objects"]) == 0:
				o.OK("objects of the phases are not read")
			case len(fields["Slices"]) > 0:
				o.OK("reads .Objects (" + strings.Join(reads, ", ") + ") and consults .Slices at " + p.IPos(fields["Slices"][0]))
			default:
				inlined := p.mustPrecede(cc.Instr, func(in ssa.Instruction) bool {
					ci, ok := in.(ssa.CallInstruction)
					return ok && calleeName(ci.Common()) == "SetPhases" && p.sameValue(callRecv(ci.Common()), recv)
				})
				if inlined {
					o.OK("phases were replaced by SetPhases earlier in this activation")
				} else {
					o.Fail("objects of a revision are taken from GetPhases()[*].Objects (read at %s) while .Slices is ignored and no slice loading precedes: a revision stored in ObjectSlices looks empty, so 'nothing in common' holds vacuously", strings.Join(reads, ", "))
				}
			}
		}
	}
	if n == 0 {
		c.AnchorLost("call of ObjectSetAccessor.GetPhases in objectdeployments")
	}
}
