package main

import (
	"fmt"
	"go/token"
	"go/types"
	"sort"
	"strings"

	"golang.org/x/tools/go/ssa"
)

// C17.R4 – R7

func c17ConstPathCall(f *ssa.Function, want string) *ssa.Call {
	for _, cl := range callsIn(f) {
		call, ok := cl.Instr.(*ssa.Call)
		if !ok || !strings.HasPrefix(calleeID(cl.Common), pkgUnstr+".Nested") || len(call.Call.Args) != 2 {
			continue
		}
		if path, ok := c17VariadicConsts(call.Call.Args[1]); ok && strings.Join(path, ".") == want {
			return call
		}
	}
	return nil
}

// c17RecvFieldName: v is (a conversion of) a load of a field of f's receiver (or of the local the
// receiver was spilled to) → field name.
func c17RecvFieldName(f *ssa.Function, v ssa.Value) (string, bool) {
	root, path := c17FieldPath(v)
	if len(path) != 1 || len(f.Params) == 0 || f.Signature.Recv() == nil {
		return "", false
	}
	// a spilled receiver is loaded first: *t0 where *t0 = recv
	if u, ok := root.(*ssa.UnOp); ok && u.Op == token.MUL {
		root = u.X
	}
	if !c17IsParamOrSpill(root, f.Params[0]) {
		return "", false
	}
	return path[0], true
}

// ---------------------------------------------------------------------------------------------
// Elements found by a search predicate
//
// `i := slices.IndexFunc(s, pred); …; e := s[i]` is the modern spelling of a search loop
// `for _, e := range s { if pred(e) { … } }`: reading s[i] succeeds only for i >= 0, i.e. only when
// the search stopped at that element because pred returned true for it. What the predicate's
// true-returns establish about its parameter therefore holds for s[i] — the closure is judged as if
// it were the loop body.

// c17Found describes a value read from the element a predicate search stopped at.
type c17Found struct {
	Search *ssa.Call     // slices.IndexFunc(s, pred)
	Pred   *ssa.Function // the predicate (one parameter, one boolean result)
	Elem   ssa.Value     // s[<result of Search>] as read by the searching function
	sub    *c17Subst     // values of Pred expressed as values of the searching function
}

// c17Subst relates values of a callee (a predicate closure) to values of the function that passed
// it on: the parameter stands for Elem, captured variables for the variables they were bound to.
type c17Subst struct {
	p      *Program
	params map[*ssa.Parameter]ssa.Value
	free   map[*ssa.FreeVar]ssa.Value // address of the captured variable in the outer function
}

func c17SingleStore(a *ssa.Alloc) ssa.Value {
	var val ssa.Value
	n := 0
	for _, r := range referrersOf(a) {
		if st, ok := r.(*ssa.Store); ok && st.Addr == ssa.Value(a) {
			n++
			val = st.Val
		}
	}
	if n != 1 {
		return nil
	}
	return val
}

// equiv: value a of the callee and value b of the outer function are the same computation on the
// same inputs (structural comparison under the substitution; pure operations only).
func (s *c17Subst) equiv(a, b ssa.Value, d int) bool {
	if a == nil || b == nil || d > 14 {
		return false
	}
	a, b = stripConv(a), stripConv(b)
	// a load of a captured variable: the variable's (only) value in the outer function
	if u, ok := a.(*ssa.UnOp); ok && u.Op == token.MUL {
		if fv, isFV := u.X.(*ssa.FreeVar); isFV {
			addr := s.free[fv]
			if addr == nil {
				return false
			}
			if l, isLoad := b.(*ssa.UnOp); isLoad && l.Op == token.MUL && l.X == addr {
				return true
			}
			if al, isAlloc := addr.(*ssa.Alloc); isAlloc {
				if v := c17SingleStore(al); v != nil {
					return s.p.sameValue(v, b)
				}
			}
			return false
		}
	}
	if u, ok := b.(*ssa.UnOp); ok && u.Op == token.MUL {
		if src, ok := s.p.loadSource(u); ok {
			return s.equiv(a, src, d+1)
		}
	}
	switch x := a.(type) {
	case *ssa.Parameter:
		v, ok := s.params[x]
		return ok && s.p.sameValue(v, b)
	case *ssa.Const:
		y, ok := b.(*ssa.Const)
		if !ok || !types.Identical(x.Type(), y.Type()) {
			return false
		}
		if x.Value == nil || y.Value == nil {
			return x.Value == nil && y.Value == nil
		}
		return x.Value.ExactString() == y.Value.ExactString()
	case *ssa.TypeAssert:
		y, ok := b.(*ssa.TypeAssert)
		return ok && x.CommaOk == y.CommaOk && types.Identical(x.AssertedType, y.AssertedType) && s.equiv(x.X, y.X, d+1)
	case *ssa.Extract:
		y, ok := b.(*ssa.Extract)
		return ok && x.Index == y.Index && s.equiv(x.Tuple, y.Tuple, d+1)
	case *ssa.Lookup:
		y, ok := b.(*ssa.Lookup)
		return ok && x.CommaOk == y.CommaOk && s.equiv(x.X, y.X, d+1) && s.equiv(x.Index, y.Index, d+1)
	case *ssa.UnOp:
		y, ok := b.(*ssa.UnOp)
		return ok && x.Op == y.Op && x.Op != token.ARROW && s.equiv(x.X, y.X, d+1)
	case *ssa.FieldAddr:
		y, ok := b.(*ssa.FieldAddr)
		return ok && x.Field == y.Field && s.equiv(x.X, y.X, d+1)
	case *ssa.Field:
		y, ok := b.(*ssa.Field)
		return ok && x.Field == y.Field && s.equiv(x.X, y.X, d+1)
	case *ssa.IndexAddr:
		y, ok := b.(*ssa.IndexAddr)
		return ok && s.equiv(x.X, y.X, d+1) && s.equiv(x.Index, y.Index, d+1)
	case *ssa.Index:
		y, ok := b.(*ssa.Index)
		return ok && s.equiv(x.X, y.X, d+1) && s.equiv(x.Index, y.Index, d+1)
	case *ssa.BinOp:
		y, ok := b.(*ssa.BinOp)
		if !ok || x.Op != y.Op {
			return false
		}
		if s.equiv(x.X, y.X, d+1) && s.equiv(x.Y, y.Y, d+1) {
			return true
		}
		switch x.Op {
		case token.EQL, token.NEQ, token.ADD, token.MUL, token.AND, token.OR:
			return s.equiv(x.X, y.Y, d+1) && s.equiv(x.Y, y.X, d+1)
		}
	}
	return false
}

// c17FoundBy: v (a value of f) is read from s[i] with i the result of slices.IndexFunc(s, pred),
// through value-preserving steps (type assertion, tuple extraction); no element of s is stored to in f.
func (p *Program) c17FoundBy(f *ssa.Function, v ssa.Value) *c17Found {
	var elem ssa.Value
	for i := 0; i < 6 && elem == nil; i++ {
		v = stripConv(p.c12Resolve(v))
		switch x := v.(type) {
		case *ssa.Extract:
			if x.Index != 0 {
				return nil
			}
			v = x.Tuple
		case *ssa.TypeAssert:
			v = x.X
		case *ssa.UnOp:
			if _, isIA := x.X.(*ssa.IndexAddr); !isIA || x.Op != token.MUL {
				return nil
			}
			elem = x
		default:
			return nil
		}
	}
	if elem == nil {
		return nil
	}
	ia := elem.(*ssa.UnOp).X.(*ssa.IndexAddr)
	search, ok := stripConv(p.c12Resolve(ia.Index)).(*ssa.Call)
	if !ok || calleeID(search.Common()) != "slices.IndexFunc" || len(search.Call.Args) != 2 || !p.sameValue(search.Call.Args[0], ia.X) {
		return nil
	}
	fd := &c17Found{Search: search, Elem: elem, sub: &c17Subst{p: p, params: map[*ssa.Parameter]ssa.Value{}, free: map[*ssa.FreeVar]ssa.Value{}}}
	switch pv := search.Call.Args[1].(type) {
	case *ssa.MakeClosure:
		fd.Pred, _ = pv.Fn.(*ssa.Function)
		if fd.Pred != nil && len(fd.Pred.FreeVars) == len(pv.Bindings) {
			for i, fv := range fd.Pred.FreeVars {
				fd.sub.free[fv] = pv.Bindings[i]
			}
		}
	case *ssa.Function:
		fd.Pred = pv
	}
	if fd.Pred == nil || len(fd.Pred.Blocks) == 0 || len(fd.Pred.Params) != 1 || fd.Pred.Signature.Results().Len() != 1 {
		return nil
	}
	fd.sub.params[fd.Pred.Params[0]] = elem
	for _, b := range f.Blocks {
		for _, in := range b.Instrs {
			if st, isSt := in.(*ssa.Store); isSt {
				if sia, isIA := st.Addr.(*ssa.IndexAddr); isIA && p.sameValue(sia.X, ia.X) {
					return nil // an element is replaced: the found element may not be the one read
				}
			}
		}
	}
	return fd
}

// holdsFor: the alternative sets of facts (one per way the predicate can have returned true) that
// are compatible with what the searching function knows (facts `known` at the point of interest).
func (fd *c17Found) holdsFor(known []Fact) [][]Fact {
	var out [][]Fact
	for _, bc := range fd.sub.p.c17BoolCases(fd.Pred) {
		if !bc.Val {
			continue
		}
		feasible := true
		for _, cf := range bc.Facts {
			for _, kf := range known {
				if cf.Pol != kf.Pol && fd.sub.equiv(cf.Cond, kf.Cond, 0) {
					feasible = false
				}
			}
		}
		if feasible {
			out = append(out, bc.Facts)
		}
	}
	return out
}

// c17RecvFieldNameVia: like c17RecvFieldName, for a value of a closure of f that reads the field
// through the captured receiver.
func c17RecvFieldNameVia(f *ssa.Function, v ssa.Value, free map[*ssa.FreeVar]ssa.Value) (string, bool) {
	root, path := c17FieldPath(v)
	if len(path) != 1 || len(f.Params) == 0 || f.Signature.Recv() == nil {
		return "", false
	}
	if fv, ok := root.(*ssa.FreeVar); ok {
		if root = free[fv]; root == nil {
			return "", false
		}
	}
	if !c17IsParamOrSpill(root, f.Params[0]) {
		return "", false
	}
	return path[0], true
}

func c17r4(c *Ctx) {
	p := c.P
	n := 0
	for _, f := range p.FuncsIn(pkgProbing) {
		c0 := c17ConstPathCall(f, "status.conditions")
		if c0 == nil || f.Parent() != nil {
			continue
		}
		n++
		c.Visit(f)
		obj := c17ObjParam(f)
		// the condition map: X of the lookup with the constant key "status"
		var statusLk *ssa.Lookup
		for _, b := range f.Blocks {
			for _, in := range b.Instrs {
				if lk, ok := in.(*ssa.Lookup); ok {
					if k, _ := constString(lk.Index); k == "status" {
						statusLk = lk
					}
				}
			}
		}
		o1 := c.Ob(f, "true-only-for-matching-condition", c0, "true is returned only for a well-formed condition (list found without error, entries are maps) whose type and status equal the configured ones, after the observedGeneration test of that same condition")
		if statusLk == nil || obj == nil {
			o1.Unknown("the lookup of the condition's \"status\" was not found")
			continue
		}
		m := statusLk.X
		// the condition may have been selected by a search predicate (slices.IndexFunc) instead of a loop
		found := p.c17FoundBy(f, m)
		var stale *c17Stale
		for _, st := range p.c17StaleCalls(f) {
			if p.sameValue(st.Map, m) {
				s := st
				stale = &s
			}
		}
		// eqFieldIn: the facts compare <the condition map>[key] for equality with a configured field of
		// the receiver; same: "this value denotes the condition map"; field: receiver field read by a value
		eqFieldIn := func(fs []Fact, key string, same func(ssa.Value) bool, field func(ssa.Value) (string, bool)) (string, bool) {
			for _, fc := range fs {
				a, b, equal, ok := c17EqFact(fc)
				if !ok || !equal {
					continue
				}
				for _, pr := range [][2]ssa.Value{{a, b}, {b, a}} {
					x, isLk := stripConv(pr[0]).(*ssa.Lookup)
					if !isLk || x.CommaOk {
						continue
					}
					if k, isConst := constString(x.Index); !isConst || k != key || !same(x.X) {
						continue
					}
					if name, ok := field(pr[1]); ok {
						return name, true
					}
				}
			}
			return "", false
		}
		// eqField: cond[key] == <configured field> holds under fs — tested by the function itself, or
		// established by every way the search predicate can have accepted the condition
		eqField := func(fs []Fact, key string) (string, bool) {
			if name, ok := eqFieldIn(fs, key, func(v ssa.Value) bool { return p.sameValue(v, m) },
				func(v ssa.Value) (string, bool) { return c17RecvFieldName(f, v) }); ok {
				return name, true
			}
			if found == nil {
				return "", false
			}
			names := map[string]bool{}
			ways := found.holdsFor(fs)
			for _, way := range ways {
				name, ok := eqFieldIn(way, key, func(v ssa.Value) bool { return found.sub.equiv(v, m, 0) },
					func(v ssa.Value) (string, bool) { return c17RecvFieldNameVia(f, v, found.sub.free) })
				if !ok {
					return "", false
				}
				names[name] = true
			}
			if len(ways) == 0 || len(names) != 1 {
				return "", false
			}
			for name := range names {
				return name, true
			}
			return "", false
		}
		// comma-ok assertions on the path to the map
		var asserts []*ssa.TypeAssert
		for _, b := range f.Blocks {
			for _, in := range b.Instrs {
				if ta, ok := in.(*ssa.TypeAssert); ok && ta.CommaOk {
					asserts = append(asserts, ta)
				}
			}
		}
		var pr, other []string
		nTrue := 0
		for _, rc := range p.c17ReturnCases(f) {
			v, isConst := c17ConstBoolResult(rc.Results[0])
			if !isConst {
				other = append(other, fmt.Sprintf("return at %s yields non-constant %s", p.IPos(rc.Ret), p.describe(rc.Results[0])))
				continue
			}
			if !v {
				continue
			}
			nTrue++
			at := p.IPos(rc.Ret)
			tf, ok1 := eqField(rc.Facts, "type")
			sf, ok2 := eqField(rc.Facts, "status")
			switch {
			case !ok1:
				pr = append(pr, "true at "+at+" without cond[\"type\"] == <configured type>")
			case !ok2:
				pr = append(pr, "true at "+at+" without cond[\"status\"] == <configured status>")
			case tf == sf:
				pr = append(pr, "type and status are compared with the same configured field "+tf)
			}
			if ex, er := c16Extract(c0, 1), c16Extract(c0, 2); ex == nil || er == nil || p.boolFromFacts(rc.Facts, ex) != yesTri || p.nilnessFromFacts(rc.Facts, er) != yesTri {
				pr = append(pr, "true at "+at+" without .status.conditions being found without error")
			}
			for _, ta := range asserts {
				if okv := tupleExtract(ta, 1); okv == nil || p.boolFromFacts(rc.Facts, okv) != yesTri {
					pr = append(pr, "true at "+at+" although the shape assertion at "+p.IPos(ta)+" may have failed (malformed status)")
				}
			}
			if stale == nil {
				pr = append(pr, "no observedGeneration test of the probed condition")
			} else if !p.mustPrecede(rc.Ret, func(in ssa.Instruction) bool { return in == ssa.Instruction(stale.Site) }) ||
				!p.c17PrecededSinceLoopEntry(rc.Ret, stale.Site) {
				pr = append(pr, "true at "+at+" can be reached without the observedGeneration test of this condition having run")
			}
		}
		if nTrue == 0 {
			pr = append(pr, "the probe never succeeds")
		}
		if len(pr) == 0 {
			o1.OK(fmt.Sprintf("%d success return(s)", nTrue))
		} else {
			o1.Fail("%s", strings.Join(pr, "; "))
		}
		o2 := c.Ob(f, "stale-condition-fails", c0, "a condition that declares an observedGeneration different from the object's generation only reaches false")
		if stale == nil {
			o2.Fail("no unstructured.NestedInt64(<condition>, \"observedGeneration\") on the probed condition")
		} else {
			switch v, why := p.c17StaleOnlyFails(f, *stale, obj); v {
			case yesTri:
				o2.OK(why)
			case noTri:
				o2.Fail("%s", why)
			default:
				o2.Unknown("%s", why)
			}
		}
		o3 := c.Ob(f, "other-returns-false", c0, "every other return (missing, malformed, not reported, wrong status, outdated) is the constant false")
		if len(other) == 0 {
			o3.OK()
		} else {
			o3.Unknown("%s", strings.Join(other, "; "))
		}
	}
	if n == 0 {
		c.AnchorLost("function of " + pkgProbing + " reading .status.conditions")
	}
}

// c17PrecededSinceLoopEntry: if `pre` sits in a loop, every path from the loop header to `site`
// (within the current iteration) executes pre.
func (p *Program) c17PrecededSinceLoopEntry(site ssa.Instruction, pre ssa.Instruction) bool {
	l := innermostLoop(pre.Parent(), pre.Block())
	if l == nil {
		return true
	}
	// search header → site avoiding pre's block and not re-entering the header
	seen := map[*ssa.BasicBlock]bool{}
	var work []*ssa.BasicBlock
	for _, s := range l.Head.Succs {
		work = append(work, s)
	}
	for len(work) > 0 {
		b := work[len(work)-1]
		work = work[:len(work)-1]
		if b == pre.Block() || b == l.Head || seen[b] {
			continue
		}
		seen[b] = true
		if b == site.Block() {
			return false
		}
		work = append(work, b.Succs...)
	}
	return true
}

// ---------------------------------------------------------------------------------------------
// R5

func c17r5(c *Ctx) {
	p := c.P
	n := 0
	for _, f := range p.FuncsIn(pkgProbing) {
		var d *ssa.Call
		for _, cl := range callsIn(f) {
			if call, ok := cl.Instr.(*ssa.Call); ok && calleeName(cl.Common) == "DeepEqual" && len(callArgs(cl.Common)) == 2 {
				d = call
			}
		}
		if d == nil || f.Parent() != nil {
			continue
		}
		n++
		c.Visit(f)
		obj := c17ObjParam(f)
		o1 := c.Ob(f, "both-fields-found-before-compare", d, "both compared values come from unstructured.NestedField*(obj…, <configured path>) calls whose error is nil and whose found flag is true; the two calls use different configured paths")
		var pr []string
		fs := p.FactsAt(d.Block())
		var fieldSets [][]string
		for i, a := range callArgs(d.Common()) {
			nc, idx := asCall(a)
			// the facts under which the value was obtained: those at the comparison, or — for a value
			// kept in an element of a local array that a loop fills — those at the store of its iteration
			vfs := fs
			var el *c17FilledElem
			if nc == nil {
				if el = p.c17ElemFilledByLoop(f, a, d); el != nil {
					nc, idx = asCall(el.Val)
					vfs = p.FactsAt(el.Store.Block())
				}
			}
			if nc == nil || idx != 0 || !isCallTo(nc.Common(), pkgUnstr+".NestedFieldCopy", pkgUnstr+".NestedFieldNoCopy") {
				pr = append(pr, fmt.Sprintf("operand %d of DeepEqual is %s, not the value returned by unstructured.NestedField*", i+1, p.describe(a)))
				continue
			}
			if el != nil && !el.L.Body[nc.Block()] {
				pr = append(pr, fmt.Sprintf("operand %d: every element of the array holds the result of the one lookup at %s", i+1, p.IPos(nc)))
			}
			if obj == nil || !c17DerivesFrom(nc.Call.Args[0], obj, 0) {
				pr = append(pr, fmt.Sprintf("operand %d is not read from the probed object", i+1))
			}
			ok, er := c16Extract(nc, 1), c16Extract(nc, 2)
			if ok == nil || p.boolFromFacts(vfs, ok) != yesTri {
				pr = append(pr, fmt.Sprintf("the comparison is reachable although field %d may be missing (found flag of %s not tested)", i+1, p.IPos(nc)))
			}
			if er == nil || p.nilnessFromFacts(vfs, er) != yesTri {
				pr = append(pr, fmt.Sprintf("the comparison is reachable although the lookup of field %d may have failed (error of %s not tested)", i+1, p.IPos(nc)))
			}
			if el != nil {
				fieldSets = append(fieldSets, c17RecvFieldsInIteration(f, nc.Call.Args[1], el))
			} else {
				fieldSets = append(fieldSets, c17RecvFieldsIn(f, nc.Call.Args[1]))
			}
		}
		if len(fieldSets) == 2 {
			a, b := strings.Join(fieldSets[0], ","), strings.Join(fieldSets[1], ",")
			if a == "" || b == "" {
				pr = append(pr, "a field path is not derived from the probe's configuration")
			} else if a == b {
				pr = append(pr, "both lookups use the same configured path ("+a+")")
			} else {
				o1.Note("paths from " + a + " and " + b)
			}
		}
		if len(pr) == 0 {
			o1.OK()
		} else {
			o1.Fail("%s", strings.Join(pr, "; "))
		}
		o2 := c.Ob(f, "true-only-if-equal", d, "true is returned only under DeepEqual(a, b) == true; every other return is the constant false")
		pr = nil
		nTrue := 0
		for _, rc := range p.c17ReturnCases(f) {
			v, isConst := c17ConstBoolResult(rc.Results[0])
			if !isConst {
				if p.sameValue(rc.Results[0], d) {
					nTrue++
					continue
				}
				pr = append(pr, fmt.Sprintf("return at %s yields non-constant %s", p.IPos(rc.Ret), p.describe(rc.Results[0])))
				continue
			}
			if v {
				nTrue++
				if p.boolFromFacts(rc.Facts, d) != yesTri {
					pr = append(pr, fmt.Sprintf("true at %s without DeepEqual having returned true", p.IPos(rc.Ret)))
				}
			}
		}
		if nTrue == 0 {
			pr = append(pr, "the probe never succeeds")
		}
		if len(pr) == 0 {
			o2.OK()
		} else {
			o2.Fail("%s", strings.Join(pr, "; "))
		}
	}
	if n == 0 {
		c.AnchorLost("function of " + pkgProbing + " calling DeepEqual(a, b)")
	}
}

// c17FilledElem: element K of a local array, read behind a counting loop that fills the array — iteration
// i stores Val (a value computed in that iteration) into element i, on every way through the iteration,
// and the read happens only after the loop ran over all indexes.
type c17FilledElem struct {
	K     int64
	L     *Loop
	Idx   ssa.Value  // the index of the running iteration
	Store *ssa.Store // arr[Idx] = Val
	Val   ssa.Value
}

// c17ElemFilledByLoop recognises v, an operand of the instruction `use`, as arr[K] (K constant) of a
// local array arr whose only assignment is `arr[i] = val` in a counting loop over i = 0 … n-1 (n > K):
// the store lies on every way through an iteration (it dominates every back edge), belongs to no
// inner loop, and `use` is reachable only over the loop-exhausted exit. The array must not be written
// or leaked in any other way. Then arr[K] at `use` is the val of iteration K, obtained under the
// facts that hold at the store.
func (p *Program) c17ElemFilledByLoop(f *ssa.Function, v ssa.Value, use ssa.Instruction) *c17FilledElem {
	ld, ok := stripConv(v).(*ssa.UnOp)
	if !ok || ld.Op != token.MUL {
		return nil
	}
	ia, ok := ld.X.(*ssa.IndexAddr)
	if !ok {
		return nil
	}
	arr, ok := ia.X.(*ssa.Alloc)
	if !ok {
		return nil
	}
	at, ok := arr.Type().Underlying().(*types.Pointer)
	if !ok {
		return nil
	}
	arrT, ok := at.Elem().Underlying().(*types.Array)
	if !ok {
		return nil
	}
	k, ok := constInt(ia.Index)
	if !ok || k < 0 || k >= arrT.Len() {
		return nil
	}
	var store *ssa.Store
	for _, r := range referrersOf(arr) {
		switch x := r.(type) {
		case *ssa.DebugRef:
		case *ssa.UnOp:
			if x.Op != token.MUL {
				return nil
			}
		case *ssa.IndexAddr:
			if x.X != ssa.Value(arr) {
				return nil
			}
			for _, rr := range referrersOf(x) {
				switch y := rr.(type) {
				case *ssa.DebugRef:
				case *ssa.UnOp:
					if y.Op != token.MUL {
						return nil
					}
				case *ssa.Store:
					if y.Addr != ssa.Value(x) || store != nil {
						return nil
					}
					store = y
				default:
					return nil
				}
			}
		default:
			return nil
		}
	}
	if store == nil {
		return nil
	}
	L := innermostLoop(f, store.Block())
	if L == nil || L.Body[arr.Block()] {
		return nil
	}
	cl, _ := p.pfCountingLoop(L)
	if cl == nil {
		return nil
	}
	sia := store.Addr.(*ssa.IndexAddr)
	if stripConv(sia.Index) != stripConv(cl.Idx) {
		return nil
	}
	if n, ok := constInt(cl.Bound); !ok || n <= k {
		return nil
	}
	if len(L.Tails) == 0 {
		return nil
	}
	for _, t := range L.Tails {
		if !store.Block().Dominates(t) && store.Block() != t {
			return nil
		}
	}
	// the value is computed anew in the iteration that stores it, or is loop-invariant
	if in, ok := store.Val.(ssa.Instruction); ok && L.Body[in.Block()] {
		if _, isPhi := store.Val.(*ssa.Phi); isPhi {
			return nil
		}
	}
	// the use is reached only when the loop condition has become false
	if L.Body[use.Block()] {
		return nil
	}
	if _, early := pfReachable(f, cl.exitEdge, nil)[use.Block()]; early {
		return nil
	}
	if ld.Block() != use.Block() && L.Body[ld.Block()] {
		return nil
	}
	if _, early := pfReachable(f, cl.exitEdge, nil)[ld.Block()]; early {
		return nil
	}
	return &c17FilledElem{K: k, L: L, Idx: cl.Idx, Store: store, Val: store.Val}
}

// c17ConstFilledElem: element k of a local array that is filled once, element by element at constant
// indexes, by stores outside every loop that all precede `read`, and is otherwise only read.
func c17ConstFilledElem(f *ssa.Function, arr *ssa.Alloc, k int64, read ssa.Instruction) ssa.Value {
	var val ssa.Value
	seen := map[int64]bool{}
	for _, r := range referrersOf(arr) {
		switch x := r.(type) {
		case *ssa.DebugRef:
		case *ssa.UnOp:
			if x.Op != token.MUL {
				return nil
			}
		case *ssa.IndexAddr:
			for _, rr := range referrersOf(x) {
				switch y := rr.(type) {
				case *ssa.DebugRef:
				case *ssa.UnOp:
					if y.Op != token.MUL {
						return nil
					}
				case *ssa.Store:
					i, isConst := constInt(x.Index)
					if y.Addr != ssa.Value(x) || !isConst || seen[i] {
						return nil
					}
					seen[i] = true
					if innermostLoop(f, y.Block()) != nil {
						return nil
					}
					if y.Block() == read.Block() {
						if instrIndex(y) > instrIndex(read) {
							return nil
						}
					} else if !y.Block().Dominates(read.Block()) {
						return nil
					}
					if i == k {
						val = y.Val
					}
				default:
					return nil
				}
			}
		default:
			return nil
		}
	}
	return val
}

// c17RecvFieldsInIteration: like c17RecvFieldsIn for a value computed in iteration el.K of the loop: a
// read of configured[<loop index>] from a constant-filled local array stands for its element el.K. Any
// other dependence on the iteration (another index, a loop-carried value) gives no answer.
func c17RecvFieldsInIteration(f *ssa.Function, v ssa.Value, el *c17FilledElem) []string {
	set := map[string]bool{}
	seen := map[ssa.Value]bool{}
	bad := false
	isIdx := func(i ssa.Value) bool { return stripConv(i) == stripConv(el.Idx) }
	var walk func(v ssa.Value, d int)
	walk = func(v ssa.Value, d int) {
		if v == nil || seen[v] || bad {
			return
		}
		if d > 14 {
			bad = true
			return
		}
		seen[v] = true
		if name, ok := c17RecvFieldName(f, v); ok {
			set[name] = true
			return
		}
		var arr *ssa.Alloc
		var index ssa.Value
		var read ssa.Instruction
		switch x := v.(type) {
		case *ssa.Phi:
			if el.L.Body[x.Block()] {
				bad = true
			}
			return
		case *ssa.Index:
			// element of a copy of the array (range over an array value)
			if u, ok := x.X.(*ssa.UnOp); ok && u.Op == token.MUL {
				arr, _ = u.X.(*ssa.Alloc)
				read = u
			}
			index = x.Index
		case *ssa.UnOp:
			if ia, ok := x.X.(*ssa.IndexAddr); ok && x.Op == token.MUL {
				arr, _ = ia.X.(*ssa.Alloc)
				index, read = ia.Index, x
			}
		}
		if index != nil {
			if arr == nil || !isIdx(index) || el.L.Body[arr.Block()] {
				bad = true
				return
			}
			ev := c17ConstFilledElem(f, arr, el.K, read)
			if ev == nil {
				bad = true
				return
			}
			walk(ev, d+1)
			return
		}
		if isIdx(v) {
			bad = true
			return
		}
		if in, ok := v.(ssa.Instruction); ok {
			var ops []*ssa.Value
			for _, op := range in.Operands(ops) {
				if *op != nil {
					walk(*op, d+1)
				}
			}
		}
	}
	walk(v, 0)
	if bad {
		return nil
	}
	var out []string
	for k := range set {
		out = append(out, k)
	}
	sort.Strings(out)
	return out
}

// c17RecvFieldsIn: names of receiver fields the value is computed from.
func c17RecvFieldsIn(f *ssa.Function, v ssa.Value) []string {
	set := map[string]bool{}
	seen := map[ssa.Value]bool{}
	var walk func(v ssa.Value, d int)
	walk = func(v ssa.Value, d int) {
		if v == nil || seen[v] || d > 12 {
			return
		}
		seen[v] = true
		if name, ok := c17RecvFieldName(f, v); ok {
			set[name] = true
			return
		}
		if in, ok := v.(ssa.Instruction); ok {
			var ops []*ssa.Value
			for _, op := range in.Operands(ops) {
				if *op != nil {
					walk(*op, d+1)
				}
			}
		}
	}
	walk(v, 0)
	var out []string
	for k := range set {
		out = append(out, k)
	}
	sort.Strings(out)
	return out
}

// ---------------------------------------------------------------------------------------------
// R6

func c17r6(c *Ctx) {
	p := c.P
	celTypes := map[string]bool{}
	for _, f := range c17ProbeMethods(p) {
		st := c17RecvStruct(f)
		if st == nil {
			continue
		}
		for i := 0; i < st.NumFields(); i++ {
			if namedTypeString(st.Field(i).Type()) == c17PkgCEL+".Program" {
				celTypes[namedTypeString(f.Signature.Recv().Type())] = true
			}
		}
	}
	if len(celTypes) == 0 {
		c.AnchorLost("Prober struct with a cel.Program field")
		return
	}
	nLit, nBad := 0, 0
	for _, fn := range p.productFuncs() {
		for _, b := range fn.Blocks {
			for _, in := range b.Instrs {
				a, ok := in.(*ssa.Alloc)
				if !ok || !celTypes[namedTypeString(a.Type())] {
					continue
				}
				if _, isStruct := a.Type().Underlying().(*types.Pointer).Elem().Underlying().(*types.Struct); !isStruct {
					continue
				}
				nLit++
				o := c.Ob(fn, "cel-probe-constructed", a, "a CEL probe value is built only where ast.OutputType() == cel.BoolType holds, from the program of that ast")
				fs := p.FactsAt(a.Block())
				var ast ssa.Value
				for _, fc := range fs {
					x, y, equal, ok := c17EqFact(fc)
					if !ok || !equal {
						continue
					}
					for _, pr := range [][2]ssa.Value{{x, y}, {y, x}} {
						call, _ := asCall(pr[0])
						g, isG := c16GlobalLoad(pr[1])
						if call != nil && calleeName(call.Common()) == "OutputType" && isG && g.Name() == "BoolType" && g.Pkg != nil && g.Pkg.Pkg.Path() == c17PkgCEL {
							ast = callRecv(call.Common())
						}
					}
				}
				fields, _, _ := compositeFields(a)
				var pr []string
				if ast == nil {
					pr = append(pr, "construction is not guarded by <ast>.OutputType() == cel.BoolType: a non-boolean rule would be accepted")
				}
				pc, idx := asCall(fields["Program"])
				switch {
				case pc == nil || idx != 0 || calleeName(pc.Common()) != "Program":
					pr = append(pr, "the Program field is "+p.describe(fields["Program"])+", not the result of <env>.Program(<ast>)")
				case !p.errOfCallIsNil(fs, pc):
					pr = append(pr, "the Program call's error is not known nil")
				case ast != nil:
					found := false
					for _, arg := range callArgs(pc.Common()) {
						if p.sameValue(arg, ast) {
							found = true
						}
					}
					if !found {
						pr = append(pr, "the program is not compiled from the ast whose output type was checked")
					}
				}
				if len(pr) == 0 {
					o.OK()
				} else {
					nBad++
					o.Fail("%s", strings.Join(pr, "; "))
				}
			}
		}
	}
	o := c.Ob(nil, "cel-constructions-closed", nil, "every construction of a CEL probe value in the workspace is one of the guarded ones (positive control: at least one is found)")
	switch {
	case nLit == 0:
		o.Fail("no construction of a CEL probe found: the matcher lost its anchor")
	case nBad > 0:
		o.Fail("%d of %d construction(s) are unguarded", nBad, nLit)
	default:
		o.OK(fmt.Sprintf("%d construction(s), all guarded", nLit))
	}
}

// ---------------------------------------------------------------------------------------------
// R7: writes through values aliasing the probed object

func c17RefLike(t types.Type, depth int) bool {
	if t == nil || depth > 6 {
		return false
	}
	switch u := t.Underlying().(type) {
	case *types.Pointer, *types.Map, *types.Slice, *types.Chan, *types.Interface, *types.Signature:
		return true
	case *types.Struct:
		for i := 0; i < u.NumFields(); i++ {
			if c17RefLike(u.Field(i).Type(), depth+1) {
				return true
			}
		}
	case *types.Array:
		return c17RefLike(u.Elem(), depth+1)
	case *types.Tuple:
		for i := 0; i < u.Len(); i++ {
			if c17RefLike(u.At(i).Type(), depth+1) {
				return true
			}
		}
	}
	return false
}

type c17Taint struct {
	A map[ssa.Value]bool // aliases storage owned by the probed object
	C map[ssa.Value]bool // fresh container that holds references into it
	// per in-scope function and result index: class of the returned value
	retA, retC map[*ssa.Function]map[int]bool
	inScope    map[*ssa.Function]bool
	probers    []*ssa.Function // implementations of the Prober method (targets of interface calls)
}

// callees: in-scope functions a call may run; nil when the callee is outside the analysed packages.
func (t *c17Taint) callees(cc *ssa.CallCommon) []*ssa.Function {
	if cc.IsInvoke() {
		if namedTypeString(cc.Value.Type()) == c17TypeProber {
			return t.probers
		}
		return nil
	}
	if cal := staticCallee(cc); cal != nil && t.inScope[cal] {
		return []*ssa.Function{cal}
	}
	return nil
}

func (t *c17Taint) retClass(cals []*ssa.Function, idx int) (a, c bool) {
	for _, f := range cals {
		if t.retA[f][idx] {
			a = true
		}
		if t.retC[f][idx] {
			c = true
		}
	}
	return
}

func (t *c17Taint) any(v ssa.Value) bool { return t.A[v] || t.C[v] }

// loadClass: what a value read out of a container is.
func (t *c17Taint) fromContainer(v ssa.Value) (a, c bool) {
	switch v.Type().Underlying().(type) {
	case *types.Struct, *types.Array, *types.Tuple:
		return false, c17RefLike(v.Type(), 0)
	}
	return c17RefLike(v.Type(), 0), false
}

func c17AddrRoot(v ssa.Value) ssa.Value {
	for i := 0; i < 12; i++ {
		switch x := v.(type) {
		case *ssa.FieldAddr:
			v = x.X
		case *ssa.IndexAddr:
			v = x.X
		case *ssa.Slice:
			v = x.X
		default:
			return v
		}
	}
	return v
}

func c17IsCopyCallee(cc *ssa.CallCommon) bool {
	n := calleeName(cc)
	if strings.Contains(n, "NoCopy") {
		return false
	}
	return strings.Contains(n, "Copy") || strings.HasPrefix(n, "NestedString") || n == "String" || n == "Error" || n == "Sprintf" || n == "Errorf"
}

func c17ComputeTaint(funcs []*ssa.Function, probers []*ssa.Function) *c17Taint {
	t := &c17Taint{A: map[ssa.Value]bool{}, C: map[ssa.Value]bool{}, retA: map[*ssa.Function]map[int]bool{}, retC: map[*ssa.Function]map[int]bool{},
		inScope: map[*ssa.Function]bool{}}
	inScope := t.inScope
	for _, f := range funcs {
		t.retA[f] = map[int]bool{}
		t.retC[f] = map[int]bool{}
	}
	for _, f := range probers {
		if t.retA[f] != nil {
			t.probers = append(t.probers, f)
		}
	}
	for _, f := range funcs {
		inScope[f] = true
		for _, prm := range f.Params {
			switch namedTypeString(prm.Type()) {
			case pkgClient + ".Object", pkgUnstr + ".Unstructured":
				t.A[prm] = true
			}
		}
	}
	setA := func(v ssa.Value, changed *bool) {
		if v != nil && !t.A[v] {
			t.A[v] = true
			*changed = true
		}
	}
	setC := func(v ssa.Value, changed *bool) {
		if v != nil && !t.C[v] && !t.A[v] {
			t.C[v] = true
			*changed = true
		}
	}
	derive := func(v ssa.Value, src ssa.Value, keepClass bool, changed *bool) {
		// v is computed from src
		if t.A[src] && c17RefLike(v.Type(), 0) {
			setA(v, changed)
		}
		if t.C[src] {
			if keepClass {
				setC(v, changed)
			} else if a, cc := t.fromContainer(v); a {
				setA(v, changed)
			} else if cc {
				setC(v, changed)
			}
		}
	}
	for iter, changed := 0, true; changed && iter < 50; iter++ {
		changed = false
		for _, f := range funcs {
			for _, b := range f.Blocks {
				for _, in := range b.Instrs {
					switch x := in.(type) {
					case *ssa.Phi:
						for _, e := range x.Edges {
							derive(x, e, true, &changed)
						}
					case *ssa.MakeInterface:
						derive(x, x.X, true, &changed)
					case *ssa.ChangeInterface:
						derive(x, x.X, true, &changed)
					case *ssa.ChangeType:
						derive(x, x.X, true, &changed)
					case *ssa.Convert:
						derive(x, x.X, true, &changed)
					case *ssa.Slice:
						derive(x, x.X, true, &changed)
					case *ssa.FieldAddr:
						if t.A[x.X] {
							setA(x, &changed)
						}
						if t.C[x.X] {
							setC(x, &changed)
						}
					case *ssa.IndexAddr:
						if t.A[x.X] {
							setA(x, &changed)
						}
						if t.C[x.X] {
							setC(x, &changed)
						}
					case *ssa.Field:
						derive(x, x.X, false, &changed)
					case *ssa.Index:
						derive(x, x.X, false, &changed)
					case *ssa.Lookup:
						derive(x, x.X, false, &changed)
					case *ssa.Extract:
						if call, ok := x.Tuple.(*ssa.Call); ok {
							if cals := t.callees(call.Common()); cals != nil {
								a, cc := t.retClass(cals, x.Index)
								if a {
									setA(x, &changed)
								} else if cc {
									setC(x, &changed)
								}
								continue
							}
						}
						derive(x, x.Tuple, false, &changed)
					case *ssa.Return:
						for i, r := range x.Results {
							if t.A[r] && !t.retA[f][i] {
								t.retA[f][i] = true
								changed = true
							}
							if t.C[r] && !t.retC[f][i] {
								t.retC[f][i] = true
								changed = true
							}
						}
					case *ssa.TypeAssert:
						derive(x, x.X, true, &changed)
					case *ssa.Range:
						derive(x, x.X, true, &changed)
						if t.any(x.X) {
							setA(x, &changed)
						}
					case *ssa.Next:
						if t.any(x.Iter) {
							setA(x, &changed)
						}
					case *ssa.UnOp:
						if x.Op == token.MUL {
							derive(x, x.X, false, &changed)
						}
					case *ssa.Store:
						if t.any(x.Val) && c17RefLike(x.Val.Type(), 0) {
							if root := c17AddrRoot(x.Addr); !t.A[root] {
								setC(root, &changed)
							}
						}
					case *ssa.MapUpdate:
						if t.any(x.Value) && c17RefLike(x.Value.Type(), 0) && !t.A[x.Map] {
							setC(x.Map, &changed)
						}
					case *ssa.MakeClosure:
						if fn, ok := x.Fn.(*ssa.Function); ok {
							for i, bnd := range x.Bindings {
								if i < len(fn.FreeVars) {
									if t.A[bnd] {
										setA(fn.FreeVars[i], &changed)
									}
									if t.C[bnd] {
										setC(fn.FreeVars[i], &changed)
									}
								}
							}
						}
					case *ssa.Call:
						cc := x.Common()
						tainted := false
						for _, a := range cc.Args {
							if t.any(a) {
								tainted = true
							}
						}
						if cc.IsInvoke() && t.any(cc.Value) {
							tainted = true
						}
						if cals := t.callees(cc); cals != nil {
							if _, isTuple := x.Type().(*types.Tuple); !isTuple {
								a, c2 := t.retClass(cals, 0)
								if a {
									setA(x, &changed)
								} else if c2 {
									setC(x, &changed)
								}
							}
						} else if tainted && !c17IsCopyCallee(cc) && c17RefLike(x.Type(), 0) {
							setA(x, &changed)
						}
						if cc.IsInvoke() && namedTypeString(cc.Value.Type()) == c17TypeProber {
							for _, cal := range t.probers {
								if len(cal.Params) == len(cc.Args)+1 {
									for i, a := range cc.Args {
										if t.A[a] {
											setA(cal.Params[i+1], &changed)
										}
									}
								}
							}
						}
						if cal := staticCallee(cc); cal != nil && inScope[cal] && len(cal.Params) == len(cc.Args) {
							for i, a := range cc.Args {
								if t.A[a] {
									setA(cal.Params[i], &changed)
								}
								if t.C[a] {
									setC(cal.Params[i], &changed)
								}
							}
						}
					}
				}
			}
		}
	}
	return t
}

// c17WriteThrough: does the instruction write through an aliasing value? Returns a description.
func (p *Program) c17WriteThrough(t *c17Taint, in ssa.Instruction) (string, bool, bool) {
	// returns (description, isWriteSite, violates)
	switch x := in.(type) {
	case *ssa.MapUpdate:
		return "map update " + p.describe(x.Map) + "[" + p.describe(x.Key) + "] = …", true, t.A[x.Map]
	case *ssa.Store:
		return "store to " + p.describe(x.Addr), true, t.A[x.Addr]
	case ssa.CallInstruction:
		cc := x.Common()
		id := calleeID(cc)
		n := calleeName(cc)
		argA := func(i int) bool { return i < len(cc.Args) && t.A[cc.Args[i]] }
		switch {
		case id == "builtin:delete" || id == "builtin:clear" || id == "builtin:copy" || id == "builtin:append":
			return n + "(" + p.describe(cc.Args[0]) + ", …)", true, argA(0)
		case strings.HasPrefix(id, pkgUnstr+".SetNested") || id == pkgUnstr+".RemoveNestedField":
			return n + "(" + p.describe(cc.Args[0]) + ", …)", true, argA(0)
		case strings.HasPrefix(id, "sort.") || strings.HasPrefix(id, "slices.Sort") || id == "slices.Reverse":
			return n + "(…)", true, argA(0)
		case id == pkgMeta+".SetStatusCondition" || id == pkgMeta+".RemoveStatusCondition" || strings.HasPrefix(id, pkgCtrlUtil+".Set") ||
			strings.HasPrefix(id, pkgCtrlUtil+".Add") || strings.HasPrefix(id, pkgCtrlUtil+".Remove"):
			v := false
			for i := range cc.Args {
				if argA(i) {
					v = true
				}
			}
			return n + "(…)", true, v
		}
		if r := callRecv(cc); r != nil {
			for _, pre := range []string{"Set", "Remove", "Unmarshal", "Delete", "DeepCopyInto", "Add"} {
				if strings.HasPrefix(n, pre) {
					return p.describe(r) + "." + n + "(…)", true, t.A[r]
				}
			}
		}
	}
	return "", false, false
}

func c17r7(c *Ctx) {
	p := c.P
	var funcs []*ssa.Function
	funcs = append(funcs, p.FuncsIn(pkgProbing)...)
	funcs = append(funcs, p.FuncsIn(pkgIntProbing)...)
	if len(funcs) == 0 {
		c.AnchorLost("functions of " + pkgProbing)
		return
	}
	t := c17ComputeTaint(funcs, c17ProbeMethods(p))
	// positive control counters. benignStores: stores that the matcher sees and classifies as not
	// aliasing the object although the storing code handles the object or writes for a function that
	// does — a closure (captured named results), or a function that itself holds an alias of the
	// object (its named results / locals, also when a deferred method writes them through pointers).
	sites, benignStores, freshHolders := 0, 0, 0
	for _, f := range funcs {
		hasA := false
		for _, prm := range f.Params {
			if t.A[prm] {
				hasA = true
			}
		}
		for _, fv := range f.FreeVars {
			if t.A[fv] {
				hasA = true
			}
		}
		var bad []string
		for _, b := range f.Blocks {
			for _, in := range b.Instrs {
				desc, isSite, viol := p.c17WriteThrough(t, in)
				if !isSite {
					continue
				}
				sites++
				if _, isStore := in.(*ssa.Store); isStore && !viol && (f.Parent() != nil || hasA) {
					benignStores++
				}
				if mu, ok := in.(*ssa.MapUpdate); ok && t.C[mu.Map] {
					freshHolders++
				}
				if viol {
					bad = append(bad, c17Short(desc)+" at "+p.IPos(in))
				}
			}
		}
		if !hasA && len(bad) == 0 {
			continue
		}
		c.Visit(f)
		o := c.Ob(f, "no-write-through-object", nil, c.rule.Statement)
		if len(bad) == 0 {
			o.OK()
		} else {
			o.Fail("the probed object (or a map/slice inside it — toUnstructured returns the object's own content for unstructured input) is modified: %s", strings.Join(bad, "; "))
		}
	}
	o := c.Ob(nil, "write-sites-examined", nil, "positive control: the matcher sees the stores to results and locals in the code that handles the probed object (and in its closures) and the map that is built around obj.Object for CEL, and classifies them as not aliasing the object")
	if benignStores == 0 || freshHolders == 0 {
		o.Fail("matcher saw %d write sites, %d stores to non-object memory in object-handling functions and closures, %d updates of fresh maps holding object data: the known benign writes were not found", sites, benignStores, freshHolders)
	} else {
		o.OK(fmt.Sprintf("%d write sites examined, %d stores to non-object memory in object-handling functions and closures, %d update(s) of fresh maps holding object data", sites, benignStores, freshHolders))
	}
}
