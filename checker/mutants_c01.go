package main

func init() {
	const pr = "internal/controllers/phase_reconciler.go"
	const er = "internal/controllers/errors.go"
	const osc = "internal/controllers/objectsets/objectset_controller.go"
	const ospc = "internal/controllers/objectsetphases/objectsetphase_controller.go"

	const newerReturn = "\tif currentRevision > owner.GetRevision() {\n\t\t// owned by newer revision.\n\t\treturn false, nil\n\t}\n"
	const forceBlock = "\tif len(os.Getenv(constants.ForceAdoptionEnvironmentVariable)) > 0 ||\n\t\tlabels[manifestsv1alpha1.PackageLabel] == \"package-operator\" {\n\t\tcollisionProtection = corev1alpha1.CollisionProtectionNone\n\t}\n"
	const switchBlock = "\tswitch collisionProtection {\n\tcase corev1alpha1.CollisionProtectionNone:\n\t\t// I hope the user knows what he is doing ;)\n\t\treturn true, nil\n\tcase corev1alpha1.CollisionProtectionIfNoController:\n\t\tif _, hasController := c.ownerStrategy.GetController(obj); !hasController {\n\t\t\treturn true, nil\n\t\t}\n\t}\n"
	const collisionErr = "return false, &RevisionCollisionError{\n\t\t\tCommonObjectPhaseError: CommonObjectPhaseError{\n\t\t\t\tOwnerKey:  client.ObjectKeyFromObject(owner.ClientObject()),\n\t\t\t\tOwnerGVK:  owner.ClientObject().GetObjectKind().GroupVersionKind(),\n\t\t\t\tObjectKey: client.ObjectKeyFromObject(obj),\n\t\t\t\tObjectGVK: obj.GetObjectKind().GroupVersionKind(),\n\t\t\t},\n\t\t}"
	const patchGuard = "\tif r.ownerStrategy.IsController(owner.ClientObject(), updatedObj) {\n\t\tif err := r.patcher.Patch(ctx, desiredObj, currentObj, updatedObj); err != nil {\n\t\t\treturn nil, err\n\t\t}\n\t}\n\n\treturn updatedObj, nil"
	const predicateBody = "\tvar prevRevisionError *ObjectNotOwnedByPreviousRevisionError\n\tif errors.As(err, &prevRevisionError) {\n\t\treturn true\n\t}\n\n\tvar revCollisionError *RevisionCollisionError\n\treturn errors.As(err, &revCollisionError)"

	addMutants(
		// ---- R1 ladder
		Mutant{Prop: "C01", Name: "r1-drop-newer-revision-return", File: pr, Old: newerReturn, New: "",
			Expect: []string{"C01.R1@"}, Why: "objects of newer revisions are adopted"},
		Mutant{Prop: "C01", Name: "r1-newer-test-ge", File: pr,
			Old: "if currentRevision > owner.GetRevision() {", New: "if currentRevision >= owner.GetRevision() {",
			Expect: []string{"C01.R1@"}, Why: "equal revision is silently declined: permitted adoption (None/IfNoController) skipped and collisions unreported"},
		Mutant{Prop: "C01", Name: "r1-prev-test-only-for-prevent", File: pr,
			Old:    "if !c.isControlledByPreviousRevision(obj, previous) {",
			New:    "if !c.isControlledByPreviousRevision(obj, previous) && collisionProtection == corev1alpha1.CollisionProtectionPrevent {",
			Expect: []string{"C01.R1@"}, Why: "IfNoController with a foreign controller falls through to `return true`"},
		Mutant{Prop: "C01", Name: "r1-silent-refusal-without-previous", File: pr,
			Old:    "\tif !c.isControlledByPreviousRevision(obj, previous) {\n",
			New:    "\tif len(previous) == 0 && !c.isControlledByPreviousRevision(obj, previous) {\n\t\treturn false, nil\n\t}\n\tif !c.isControlledByPreviousRevision(obj, previous) {\n",
			Expect: []string{"C01.R1@"}, Why: "a refusal that is never reported as CollisionDetected"},
		Mutant{Prop: "C01", Name: "r1-none-decided-before-revision-check", File: pr,
			Old:    "\tcurrentRevision, err := getObjectRevision(obj)\n",
			New:    "\tif collisionProtection == corev1alpha1.CollisionProtectionNone {\n\t\treturn true, nil\n\t}\n\tcurrentRevision, err := getObjectRevision(obj)\n",
			Expect: []string{"C01.R1@"}, Why: "None adopts objects of newer revisions"},
		Mutant{Prop: "C01", Name: "r1-ifnocontroller-inverted", File: pr,
			Old: "GetController(obj); !hasController {", New: "GetController(obj); hasController {",
			Expect: []string{"C01.R1@"}},
		Mutant{Prop: "C01", Name: "r1-none-not-honoured", File: pr,
			Old: "\tcase corev1alpha1.CollisionProtectionNone:\n\t\t// I hope the user knows what he is doing ;)\n\t\treturn true, nil\n", New: "",
			Expect: []string{"C01.R1@"}, Why: "a permitted adoption (None / forced) is refused"},
		Mutant{Prop: "C01", Name: "r1-force-on-wrong-label", File: pr,
			Old: "labels[manifestsv1alpha1.PackageLabel] == \"package-operator\" {", New: "labels[manifestsv1alpha1.PackageInstanceLabel] == \"package-operator\" {",
			Expect: []string{"C01.R1@"}},
		Mutant{Prop: "C01", Name: "r1-force-for-any-package", File: pr,
			Old: "labels[manifestsv1alpha1.PackageLabel] == \"package-operator\" {", New: "labels[manifestsv1alpha1.PackageLabel] != \"\" {",
			Expect: []string{"C01.R1@"}},
		Mutant{Prop: "C01", Name: "r1-equal-revision-adopted", File: pr,
			Old: "if currentRevision == owner.GetRevision() {", New: "if currentRevision == owner.GetRevision() && len(previous) == 0 {",
			Expect: []string{"C01.R1@"}},
		Mutant{Prop: "C01", Name: "r1-refusal-with-unreported-error-type", File: pr,
			Old: collisionErr, New: "return false, fmt.Errorf(\"revision collision on %s\", client.ObjectKeyFromObject(obj))",
			Expect: []string{"C01.R1@"}, Why: "refusal would surface as a plain reconcile error, not CollisionDetected"},
		Mutant{Prop: "C01", Name: "r1-override-protection-to-ifnocontroller", File: pr,
			Old: "\t\tcollisionProtection = corev1alpha1.CollisionProtectionNone\n\t}\n", New: "\t\tcollisionProtection = corev1alpha1.CollisionProtectionNone\n\t}\n\tif len(previous) == 0 {\n\t\tcollisionProtection = corev1alpha1.CollisionProtectionIfNoController\n\t}\n",
			Expect: []string{"C01.R1@"}, Why: "Prevent is weakened to IfNoController when no previous revisions are declared"},
		Mutant{Prop: "C01", Name: "r6-predicate-forgets-revision-collision", File: er,
			Old: "\tvar revCollisionError *RevisionCollisionError\n\treturn errors.As(err, &revCollisionError)", New: "\treturn false",
			Expect: []string{"C01.R1@"}, Why: "RevisionCollisionError refusals are no longer reported as CollisionDetected"},
		// ---- R2
		Mutant{Prop: "C01", Name: "r2-prev-test-isowner", File: pr,
			Old: "if c.ownerStrategy.IsController(prev.ClientObject(), obj) {", New: "if c.ownerStrategy.IsOwner(prev.ClientObject(), obj) {",
			Expect: []string{"C01.R2@"}},
		Mutant{Prop: "C01", Name: "r2-remote-uid-from-name", File: pr,
			Old: "potentialRemoteOwner.SetUID(remote.UID)", New: "potentialRemoteOwner.SetUID(types.UID(remote.Name))",
			Expect: []string{"C01.R2@"}},
		Mutant{Prop: "C01", Name: "r2-prev-test-default-true", File: pr,
			Old: "\t\t}\n\t}\n\treturn false\n}\n\n// Retrieves the revision number", New: "\t\t}\n\t}\n\treturn true\n}\n\n// Retrieves the revision number",
			Expect: []string{"C01.R2@"}},
		Mutant{Prop: "C01", Name: "r2-remote-owner-in-object-namespace", File: pr,
			Old: "potentialRemoteOwner.SetNamespace(\n\t\t\t\tprev.ClientObject().GetNamespace())", New: "potentialRemoteOwner.SetNamespace(\n\t\t\t\tobj.GetNamespace())",
			Expect: []string{"C01.R2@"}},
		// ---- R3
		Mutant{Prop: "C01", Name: "r3-set-controller-above-guard", File: pr,
			Old:    "\t// Take over object ownership by patching metadata.\n\tif needsAdoption {",
			New:    "\tr.ownerStrategy.ReleaseController(updatedObj)\n\t_ = r.ownerStrategy.SetControllerReference(owner.ClientObject(), updatedObj)\n\t// Take over object ownership by patching metadata.\n\tif needsAdoption {",
			Expect: []string{"C01.R3@"}},
		Mutant{Prop: "C01", Name: "r3-check-desired-instead-of-current", File: pr,
			Old: "r.adoptionChecker.Check(owner, currentObj, previous, collisionProtection)", New: "r.adoptionChecker.Check(owner, desiredObj, previous, collisionProtection)",
			Expect: []string{"C01.R3@"}},
		Mutant{Prop: "C01", Name: "r3-check-error-ignored", File: pr,
			Old:    "needsAdoption, err := r.adoptionChecker.Check(owner, currentObj, previous, collisionProtection)\n\tif err != nil {\n\t\treturn nil, err\n\t}",
			New:    "needsAdoption, _ := r.adoptionChecker.Check(owner, currentObj, previous, collisionProtection)",
			Expect: []string{"C01.R3@"}},
		Mutant{Prop: "C01", Name: "r3-adopt-when-not-needed", File: pr,
			Old: "\tif needsAdoption {\n\t\tlog := logr.FromContextOrDiscard(ctx)", New: "\tif !needsAdoption {\n\t\tlog := logr.FromContextOrDiscard(ctx)",
			Expect: []string{"C01.R3@"}},
		// ---- R4
		Mutant{Prop: "C01", Name: "r4-drop-iscontroller-guard", File: pr,
			Old: "\tif r.ownerStrategy.IsController(owner.ClientObject(), updatedObj) {\n\t\tif err := r.patcher.Patch(", New: "\t{\n\t\tif err := r.patcher.Patch(",
			Expect: []string{"C01.R4@"}},
		Mutant{Prop: "C01", Name: "r4-guard-is-isowner", File: pr,
			Old: "\tif r.ownerStrategy.IsController(owner.ClientObject(), updatedObj) {\n\t\tif err := r.patcher.Patch(", New: "\tif r.ownerStrategy.IsOwner(owner.ClientObject(), updatedObj) {\n\t\tif err := r.patcher.Patch(",
			Expect: []string{"C01.R4@"}},
		Mutant{Prop: "C01", Name: "r4-guard-on-desired-object", File: pr,
			Old: "\tif r.ownerStrategy.IsController(owner.ClientObject(), updatedObj) {\n\t\tif err := r.patcher.Patch(", New: "\tif r.ownerStrategy.IsController(owner.ClientObject(), desiredObj) {\n\t\tif err := r.patcher.Patch(",
			Expect: []string{"C01.R4@"}, Why: "desiredObj always carries the owner as controller (set in reconcilePhaseObject): guard is vacuous"},
		Mutant{Prop: "C01", Name: "r4-create-after-lookup-of-other-key", File: pr,
			Old:    "\t\terr = r.uncachedClient.Get(ctx, objKey, currentObj)\n\t\tif err != nil && !apimachineryerrors.IsNotFound(err) {",
			New:    "\t\terr = r.uncachedClient.Get(ctx, client.ObjectKey{Name: desiredObj.GetName()}, currentObj)\n\t\tif err != nil && !apimachineryerrors.IsNotFound(err) {",
			Expect: []string{"C01.R4@"}},
		Mutant{Prop: "C01", Name: "r4-direct-write-before-check", File: pr,
			Old:    "\t// Check if we can even work on this object or need to adopt it.\n",
			New:    "\tif err := r.writer.Patch(ctx, updatedObj, client.MergeFrom(currentObj)); err != nil {\n\t\treturn nil, err\n\t}\n",
			Expect: []string{"C01.R4@"}},
		// ---- R5
		Mutant{Prop: "C01", Name: "r5-new-unguarded-dynamic-writer", File: pr,
			Old:    "\tif err = mapConditions(ctx, owner, phaseObject.ConditionMappings, actualObj); err != nil {",
			New:    "\tif err = r.writer.Update(ctx, actualObj); err != nil {\n\t\treturn nil, err\n\t}\n\tif err = mapConditions(ctx, owner, phaseObject.ConditionMappings, actualObj); err != nil {",
			Expect: []string{"C01.R5@"}},
		Mutant{Prop: "C01", Name: "r5-patcher-helper-called-unguarded", File: pr,
			Old:    "\tif owner.IsSpecPaused() {\n\t\tactualObj = desiredObj.DeepCopy()",
			New:    "\tif dp, ok := r.patcher.(*defaultPatcher); ok {\n\t\t_ = dp.fixFieldManagers(ctx, desiredObj)\n\t}\n\tif owner.IsSpecPaused() {\n\t\tactualObj = desiredObj.DeepCopy()",
			Expect: []string{"C01.R5@"}},
		// ---- R6
		Mutant{Prop: "C01", Name: "r6-predicate-inverted", File: er,
			Old: "\tif errors.As(err, &prevRevisionError) {\n\t\treturn true\n\t}", New: "\tif errors.As(err, &prevRevisionError) {\n\t\treturn false\n\t}",
			Expect: []string{"C01.R6@"}},
		Mutant{Prop: "C01", Name: "r6-collision-status-not-written", File: pr,
			Old:    "\t\t// Retry every once and a while to automatically unblock, if the conflicting resource has been deleted.\n\t\tres.RequeueAfter = DefaultGlobalMissConfigurationRetry\n\t\treturn res, updateStatus(ctx)",
			New:    "\t\t// Retry every once and a while to automatically unblock, if the conflicting resource has been deleted.\n\t\tres.RequeueAfter = DefaultGlobalMissConfigurationRetry\n\t\treturn res, nil",
			Expect: []string{"C01.R6@"}},
		Mutant{Prop: "C01", Name: "r6-collision-condition-true", File: pr,
			Old:    "\t\t\tStatus:             metav1.ConditionFalse,\n\t\t\tObservedGeneration: objectSetOrPhase.ClientObject().GetGeneration(),\n\t\t\tReason:             \"CollisionDetected\",",
			New:    "\t\t\tStatus:             metav1.ConditionTrue,\n\t\t\tObservedGeneration: objectSetOrPhase.ClientObject().GetGeneration(),\n\t\t\tReason:             \"CollisionDetected\",",
			Expect: []string{"C01.R6@"}},
		Mutant{Prop: "C01", Name: "r6-collision-under-wrong-guard", File: pr,
			Old: "\tif IsAdoptionRefusedError(reconcileErr) {", New: "\tif IsExternalResourceNotFound(reconcileErr) {",
			Expect: []string{"C01.R6@"}},
		Mutant{Prop: "C01", Name: "r6-objectset-controller-bypasses-reporter", File: osc,
			Old:    "\tif err != nil {\n\t\treturn controllers.UpdateObjectSetOrPhaseStatusFromError(ctx, objectSet, err,",
			New:    "\tif err != nil && !res.IsZero() {\n\t\treturn res, err\n\t}\n\tif err != nil {\n\t\treturn controllers.UpdateObjectSetOrPhaseStatusFromError(ctx, objectSet, err,",
			Expect: []string{"C01.R6@"}},
		Mutant{Prop: "C01", Name: "r6-phase-controller-returns-error-directly", File: ospc,
			Old:    "\tif err != nil {\n\t\treturn controllers.UpdateObjectSetOrPhaseStatusFromError(ctx, objectSetPhase, err,",
			New:    "\tif err != nil && objectSetPhase.IsSpecPaused() {\n\t\treturn res, err\n\t}\n\tif err != nil {\n\t\treturn controllers.UpdateObjectSetOrPhaseStatusFromError(ctx, objectSetPhase, err,",
			Expect: []string{"C01.R6@"}},

		// ---- benign variants
		Mutant{Prop: "C01", Name: "benign-operand-swap-newer-test", File: pr, Benign: true,
			Old: "if currentRevision > owner.GetRevision() {", New: "if owner.GetRevision() < currentRevision {"},
		Mutant{Prop: "C01", Name: "benign-newer-test-else-form", File: pr, Benign: true,
			Old: newerReturn, New: "\tif currentRevision <= owner.GetRevision() {\n\t\t_ = currentRevision\n\t} else {\n\t\treturn false, nil\n\t}\n"},
		Mutant{Prop: "C01", Name: "benign-forced-adoption-early-return", File: pr, Benign: true,
			Old: forceBlock, New: "\tif os.Getenv(constants.ForceAdoptionEnvironmentVariable) != \"\" ||\n\t\tlabels[manifestsv1alpha1.PackageLabel] == \"package-operator\" {\n\t\treturn true, nil\n\t}\n"},
		Mutant{Prop: "C01", Name: "benign-forced-adoption-bool-var", File: pr, Benign: true,
			Old: forceBlock, New: "\tforced := 0 < len(os.Getenv(constants.ForceAdoptionEnvironmentVariable))\n\tif !forced {\n\t\tforced = \"package-operator\" == labels[manifestsv1alpha1.PackageLabel]\n\t}\n\tif forced {\n\t\tcollisionProtection = corev1alpha1.CollisionProtectionNone\n\t}\n",
			Why: "recognised only if the checker follows a bool phi; documents the accepted idioms"},
		Mutant{Prop: "C01", Name: "benign-switch-as-if-chain", File: pr, Benign: true,
			Old: switchBlock, New: "\tif corev1alpha1.CollisionProtectionNone == collisionProtection {\n\t\treturn true, nil\n\t} else if collisionProtection == corev1alpha1.CollisionProtectionIfNoController {\n\t\t_, hasController := c.ownerStrategy.GetController(obj)\n\t\tif !hasController {\n\t\t\treturn true, nil\n\t\t}\n\t}\n"},
		Mutant{Prop: "C01", Name: "benign-merged-refusal-order", File: pr, Benign: true,
			Old: "if currentRevision == owner.GetRevision() {", New: "if owner.GetRevision() <= currentRevision {",
			Why: "rev > ownerRev is excluded earlier, so <= is the same predicate here"},
		Mutant{Prop: "C01", Name: "benign-adoption-block-else-form", File: pr, Benign: true,
			Old: "\tif needsAdoption {\n\t\tlog := logr.FromContextOrDiscard(ctx)", New: "\tif !needsAdoption {\n\t\t_ = needsAdoption\n\t} else {\n\t\tlog := logr.FromContextOrDiscard(ctx)"},
		Mutant{Prop: "C01", Name: "benign-patch-guard-early-return", File: pr, Benign: true,
			Old: patchGuard, New: "\tif !r.ownerStrategy.IsController(owner.ClientObject(), updatedObj) {\n\t\treturn updatedObj, nil\n\t}\n\tif err := r.patcher.Patch(ctx, desiredObj, currentObj, updatedObj); err != nil {\n\t\treturn nil, err\n\t}\n\n\treturn updatedObj, nil"},
		Mutant{Prop: "C01", Name: "benign-predicate-as-disjunction", File: er, Benign: true,
			Old: predicateBody, New: "\tvar prevRevisionError *ObjectNotOwnedByPreviousRevisionError\n\tvar revCollisionError *RevisionCollisionError\n\treturn errors.As(err, &revCollisionError) || errors.As(err, &prevRevisionError)"},
		Mutant{Prop: "C01", Name: "benign-controller-error-check-swapped", File: ospc, Benign: true,
			Old: "\tif err != nil {\n\t\treturn controllers.UpdateObjectSetOrPhaseStatusFromError(ctx, objectSetPhase, err,", New: "\tif nil != err {\n\t\tlog.Info(\"reconcile error\")\n\t\treturn controllers.UpdateObjectSetOrPhaseStatusFromError(ctx, objectSetPhase, err,"},
		Mutant{Prop: "C01", Name: "benign-remote-owner-setter-order", File: pr, Benign: true,
			Old: "\t\t\tpotentialRemoteOwner.SetName(remote.Name)\n\t\t\tpotentialRemoteOwner.SetUID(remote.UID)\n", New: "\t\t\tpotentialRemoteOwner.SetUID(remote.UID)\n\t\t\tpotentialRemoteOwner.SetName(remote.Name)\n"},
	)
}

// Round two: the merge of a RemotePhaseReference written with slices.IndexFunc (the reference is
// captured by the predicate closure, so go/ssa keeps it in memory).
func init() {
	const remote = "internal/controllers/objectsets/remotephase_reconciler.go"
	const imports = "\t\"encoding/json\"\n\t\"fmt\"\n\n\t\"github.com/go-logr/logr\"\n"
	const importsSlices = "\t\"encoding/json\"\n\t\"fmt\"\n\t\"slices\"\n\n\t\"github.com/go-logr/logr\"\n"
	const merge = "\tfor i := range refs {\n\t\tif refs[i].Name == ref.Name {\n\t\t\trefs[i] = ref\n\t\t\treturn refs\n\t\t}\n\t}\n\trefs = append(refs, ref)\n\treturn refs\n"
	const indexFunc = "\tidx := slices.IndexFunc(refs, func(existing corev1alpha1.RemotePhaseReference) bool {\n\t\treturn existing.Name == ref.Name\n\t})\n"
	addMutants(
		Mutant{Prop: "C01", Name: "r7-benign-merge-through-indexfunc", File: remote, Benign: true,
			Old: merge, New: indexFunc + "\tif idx < 0 {\n\t\treturn append(refs, ref)\n\t}\n\trefs[idx] = ref\n\treturn refs\n",
			More: []Edit{{File: remote, Old: imports, New: importsSlices}}},
		Mutant{Prop: "C01", Name: "r7-indexfunc-match-keeps-stale-entry", File: remote,
			Why: "a same-name entry (stale UID of a re-created phase object) is kept instead of being overwritten",
			Old: merge, New: indexFunc + "\tif idx >= 0 {\n\t\treturn refs\n\t}\n\treturn append(refs, ref)\n",
			More:   []Edit{{File: remote, Old: imports, New: importsSlices}},
			Expect: []string{"C01.R7@internal/controllers/objectsets.addRemoteObjectSetPhase#return"}},
	)
}

// Round two: the previous-revision test answers "no" only after the whole list was examined.
func init() {
	const pr = "internal/controllers/phase_reconciler.go"
	const loopEnd = "\t\t\tif c.ownerStrategy.IsController(potentialRemoteOwner, obj) {\n\t\t\t\treturn true\n\t\t\t}\n\t\t}\n\t}\n\treturn false\n}\n"
	addMutants(
		Mutant{Prop: "C01", Name: "r2-no-after-first-revision-with-remote-phases", File: pr,
			Why:    "the search stops at the first previous revision that has delegated phases: adoption from a later declared previous revision is refused",
			Old:    loopEnd,
			New:    "\t\t\tif c.ownerStrategy.IsController(potentialRemoteOwner, obj) {\n\t\t\t\treturn true\n\t\t\t}\n\t\t}\n\t\treturn false\n\t}\n\treturn false\n}\n",
			Expect: []string{"C01.R2@(*internal/controllers.defaultAdoptionChecker).isControlledByPreviousRevision#return-false"}},
		Mutant{Prop: "C01", Name: "r2-benign-no-through-a-local", File: pr, Benign: true,
			Why: "the final answer travels through a local; it is still given only after the loop ran to its end",
			Old: loopEnd,
			New: "\t\t\tif c.ownerStrategy.IsController(potentialRemoteOwner, obj) {\n\t\t\t\treturn true\n\t\t\t}\n\t\t}\n\t}\n\tcontrolled := false\n\treturn controlled\n}\n"},
	)
}

// Round three: the previous-revision search written with slices.ContainsFunc (the predicate closures
// are the loop bodies; prev, obj and c are captured).
func init() {
	const pr = "internal/controllers/phase_reconciler.go"
	const imports = "\t\"strconv\"\n\t\"strings\"\n\n\t\"github.com/go-logr/logr\"\n"
	const importsSlices = "\t\"slices\"\n\t\"strconv\"\n\t\"strings\"\n\n\t\"github.com/go-logr/logr\"\n"
	const loops = "\tfor _, prev := range previous {\n\t\tif c.ownerStrategy.IsController(prev.ClientObject(), obj) {\n\t\t\treturn true\n\t\t}\n\n\t\tremotePhases := prev.GetRemotePhases()\n\t\tif len(remotePhases) == 0 {\n\t\t\tcontinue\n\t\t}\n\n\t\tprevGVK, err := apiutil.GVKForObject(prev.ClientObject(), c.scheme)\n\t\tif err != nil {\n\t\t\tpanic(err)\n\t\t}\n\n\t\tvar remoteGVK schema.GroupVersionKind\n\t\tif strings.HasPrefix(prevGVK.Kind, \"Cluster\") {\n\t\t\t// ClusterObjectSet\n\t\t\tremoteGVK = corev1alpha1.GroupVersion.WithKind(\"ClusterObjectSetPhase\")\n\t\t} else {\n\t\t\t// ObjectSet\n\t\t\tremoteGVK = corev1alpha1.GroupVersion.WithKind(\"ObjectSetPhase\")\n\t\t}\n\t\tfor _, remote := range remotePhases {\n\t\t\tpotentialRemoteOwner := &unstructured.Unstructured{}\n\t\t\tpotentialRemoteOwner.SetGroupVersionKind(remoteGVK)\n\t\t\tpotentialRemoteOwner.SetName(remote.Name)\n\t\t\tpotentialRemoteOwner.SetUID(remote.UID)\n\t\t\tpotentialRemoteOwner.SetNamespace(\n\t\t\t\tprev.ClientObject().GetNamespace())\n\n\t\t\tif c.ownerStrategy.IsController(potentialRemoteOwner, obj) {\n\t\t\t\treturn true\n\t\t\t}\n\t\t}\n\t}\n\treturn false\n"
	const search = "\treturn slices.ContainsFunc(previous, func(prev PreviousObjectSet) bool {\n\t\tif c.ownerStrategy.IsController(prev.ClientObject(), obj) {\n\t\t\treturn true\n\t\t}\n\n\t\tremotePhases := prev.GetRemotePhases()\n\t\tif len(remotePhases) == 0 {\n\t\t\treturn false\n\t\t}\n\n\t\tprevGVK, err := apiutil.GVKForObject(prev.ClientObject(), c.scheme)\n\t\tif err != nil {\n\t\t\tpanic(err)\n\t\t}\n\n\t\tvar remoteGVK schema.GroupVersionKind\n\t\tif strings.HasPrefix(prevGVK.Kind, \"Cluster\") {\n\t\t\t// ClusterObjectSet\n\t\t\tremoteGVK = corev1alpha1.GroupVersion.WithKind(\"ClusterObjectSetPhase\")\n\t\t} else {\n\t\t\t// ObjectSet\n\t\t\tremoteGVK = corev1alpha1.GroupVersion.WithKind(\"ObjectSetPhase\")\n\t\t}\n\t\treturn slices.ContainsFunc(remotePhases, func(remote corev1alpha1.RemotePhaseReference) bool {\n\t\t\tpotentialRemoteOwner := &unstructured.Unstructured{}\n\t\t\tpotentialRemoteOwner.SetGroupVersionKind(remoteGVK)\n\t\t\tpotentialRemoteOwner.SetName(remote.Name)\n\t\t\tpotentialRemoteOwner.SetUID(remote.UID)\n\t\t\tpotentialRemoteOwner.SetNamespace(\n\t\t\t\tprev.ClientObject().GetNamespace())\n\n\t\t\treturn c.ownerStrategy.IsController(potentialRemoteOwner, obj)\n\t\t})\n\t})\n"
	addMutants(
		Mutant{Prop: "C01", Name: "r2-benign-search-through-containsfunc", File: pr, Benign: true,
			Old: loops, New: search, More: []Edit{{File: pr, Old: imports, New: importsSlices}}},
		Mutant{Prop: "C01", Name: "r2-containsfunc-remote-owner-tested-against-revision", File: pr,
			Why: "the remote phase is asked whether it controls the previous revision, not the object",
			Old: loops, New: "\treturn slices.ContainsFunc(previous, func(prev PreviousObjectSet) bool {\n\t\tif c.ownerStrategy.IsController(prev.ClientObject(), obj) {\n\t\t\treturn true\n\t\t}\n\n\t\tremotePhases := prev.GetRemotePhases()\n\t\tif len(remotePhases) == 0 {\n\t\t\treturn false\n\t\t}\n\n\t\tprevGVK, err := apiutil.GVKForObject(prev.ClientObject(), c.scheme)\n\t\tif err != nil {\n\t\t\tpanic(err)\n\t\t}\n\n\t\tvar remoteGVK schema.GroupVersionKind\n\t\tif strings.HasPrefix(prevGVK.Kind, \"Cluster\") {\n\t\t\t// ClusterObjectSet\n\t\t\tremoteGVK = corev1alpha1.GroupVersion.WithKind(\"ClusterObjectSetPhase\")\n\t\t} else {\n\t\t\t// ObjectSet\n\t\t\tremoteGVK = corev1alpha1.GroupVersion.WithKind(\"ObjectSetPhase\")\n\t\t}\n\t\treturn slices.ContainsFunc(remotePhases, func(remote corev1alpha1.RemotePhaseReference) bool {\n\t\t\tpotentialRemoteOwner := &unstructured.Unstructured{}\n\t\t\tpotentialRemoteOwner.SetGroupVersionKind(remoteGVK)\n\t\t\tpotentialRemoteOwner.SetName(remote.Name)\n\t\t\tpotentialRemoteOwner.SetUID(remote.UID)\n\t\t\tpotentialRemoteOwner.SetNamespace(\n\t\t\t\tprev.ClientObject().GetNamespace())\n\n\t\t\treturn c.ownerStrategy.IsController(potentialRemoteOwner, prev.ClientObject())\n\t\t})\n\t})\n", More: []Edit{{File: pr, Old: imports, New: importsSlices}},
			Expect: []string{"C01.R2@(*internal/controllers.defaultAdoptionChecker).isControlledByPreviousRevision$1$1#return-computed"}},
		Mutant{Prop: "C01", Name: "r2-containsfunc-only-first-revision", File: pr,
			Why: "only the first declared previous revision is examined",
			Old: loops, New: "\treturn slices.ContainsFunc(previous[:min(1, len(previous))], func(prev PreviousObjectSet) bool {\n\t\tif c.ownerStrategy.IsController(prev.ClientObject(), obj) {\n\t\t\treturn true\n\t\t}\n\n\t\tremotePhases := prev.GetRemotePhases()\n\t\tif len(remotePhases) == 0 {\n\t\t\treturn false\n\t\t}\n\n\t\tprevGVK, err := apiutil.GVKForObject(prev.ClientObject(), c.scheme)\n\t\tif err != nil {\n\t\t\tpanic(err)\n\t\t}\n\n\t\tvar remoteGVK schema.GroupVersionKind\n\t\tif strings.HasPrefix(prevGVK.Kind, \"Cluster\") {\n\t\t\t// ClusterObjectSet\n\t\t\tremoteGVK = corev1alpha1.GroupVersion.WithKind(\"ClusterObjectSetPhase\")\n\t\t} else {\n\t\t\t// ObjectSet\n\t\t\tremoteGVK = corev1alpha1.GroupVersion.WithKind(\"ObjectSetPhase\")\n\t\t}\n\t\treturn slices.ContainsFunc(remotePhases, func(remote corev1alpha1.RemotePhaseReference) bool {\n\t\t\tpotentialRemoteOwner := &unstructured.Unstructured{}\n\t\t\tpotentialRemoteOwner.SetGroupVersionKind(remoteGVK)\n\t\t\tpotentialRemoteOwner.SetName(remote.Name)\n\t\t\tpotentialRemoteOwner.SetUID(remote.UID)\n\t\t\tpotentialRemoteOwner.SetNamespace(\n\t\t\t\tprev.ClientObject().GetNamespace())\n\n\t\t\treturn c.ownerStrategy.IsController(potentialRemoteOwner, obj)\n\t\t})\n\t})\n", More: []Edit{{File: pr, Old: imports, New: importsSlices}},
			Expect: []string{"C01.R2@(*internal/controllers.defaultAdoptionChecker).isControlledByPreviousRevision#return-false"}},
		Mutant{Prop: "C01", Name: "r2-containsfunc-unowned-object-counts", File: pr,
			Why: "an object without owner references counts as controlled by a previous revision",
			Old: loops, New: "\treturn slices.ContainsFunc(previous, func(prev PreviousObjectSet) bool {\n\t\tif c.ownerStrategy.IsController(prev.ClientObject(), obj) {\n\t\t\treturn true\n\t\t}\n\n\t\tremotePhases := prev.GetRemotePhases()\n\t\tif len(remotePhases) == 0 {\n\t\t\treturn false\n\t\t}\n\n\t\tprevGVK, err := apiutil.GVKForObject(prev.ClientObject(), c.scheme)\n\t\tif err != nil {\n\t\t\tpanic(err)\n\t\t}\n\n\t\tvar remoteGVK schema.GroupVersionKind\n\t\tif strings.HasPrefix(prevGVK.Kind, \"Cluster\") {\n\t\t\t// ClusterObjectSet\n\t\t\tremoteGVK = corev1alpha1.GroupVersion.WithKind(\"ClusterObjectSetPhase\")\n\t\t} else {\n\t\t\t// ObjectSet\n\t\t\tremoteGVK = corev1alpha1.GroupVersion.WithKind(\"ObjectSetPhase\")\n\t\t}\n\t\treturn slices.ContainsFunc(remotePhases, func(remote corev1alpha1.RemotePhaseReference) bool {\n\t\t\tpotentialRemoteOwner := &unstructured.Unstructured{}\n\t\t\tpotentialRemoteOwner.SetGroupVersionKind(remoteGVK)\n\t\t\tpotentialRemoteOwner.SetName(remote.Name)\n\t\t\tpotentialRemoteOwner.SetUID(remote.UID)\n\t\t\tpotentialRemoteOwner.SetNamespace(\n\t\t\t\tprev.ClientObject().GetNamespace())\n\n\t\t\treturn c.ownerStrategy.IsController(potentialRemoteOwner, obj) || len(obj.GetOwnerReferences()) == 0\n\t\t})\n\t})\n", More: []Edit{{File: pr, Old: imports, New: importsSlices}},
			Expect: []string{"C01.R2@(*internal/controllers.defaultAdoptionChecker).isControlledByPreviousRevision$1$1#return-computed"}},
	)
}

// Round three: the sub-reconciler error is reported inside the loop that runs the sub-reconcilers.
func init() {
	const osc = "internal/controllers/objectsets/objectset_controller.go"
	const loop = "\tfor _, r := range c.reconciler {\n\t\tres, err = r.Reconcile(ctx, objectSet)\n\t\tif err != nil || !res.IsZero() {\n\t\t\tbreak\n\t\t}\n\t}\n\tif err != nil {\n\t\treturn controllers.UpdateObjectSetOrPhaseStatusFromError(ctx, objectSet, err,\n\t\t\tfunc(ctx context.Context) error {\n\t\t\t\treturn c.updateStatus(ctx, objectSet)\n\t\t\t})\n\t}\n"
	const inLoop = "\tfor _, r := range c.reconciler {\n\t\tres, err = r.Reconcile(ctx, objectSet)\n\t\tif err != nil {\n\t\t\treturn controllers.UpdateObjectSetOrPhaseStatusFromError(ctx, objectSet, err,\n\t\t\t\tfunc(ctx context.Context) error {\n\t\t\t\t\treturn c.updateStatus(ctx, objectSet)\n\t\t\t\t})\n\t\t}\n\t\tif !res.IsZero() {\n\t\t\tbreak\n\t\t}\n\t}\n"
	const inLoopRaw = "\tfor _, r := range c.reconciler {\n\t\tres, err = r.Reconcile(ctx, objectSet)\n\t\tif err != nil {\n\t\t\treturn res, err\n\t\t}\n\t\tif !res.IsZero() {\n\t\t\tbreak\n\t\t}\n\t}\n"
	const inLoopSome = "\tfor _, r := range c.reconciler {\n\t\tres, err = r.Reconcile(ctx, objectSet)\n\t\tif err != nil && res.IsZero() {\n\t\t\treturn controllers.UpdateObjectSetOrPhaseStatusFromError(ctx, objectSet, err,\n\t\t\t\tfunc(ctx context.Context) error {\n\t\t\t\t\treturn c.updateStatus(ctx, objectSet)\n\t\t\t\t})\n\t\t}\n\t\tif !res.IsZero() {\n\t\t\tbreak\n\t\t}\n\t}\n"
	for _, prop := range []string{"C01", "C11"} {
		rule := map[string]string{"C01": "C01.R6@", "C11": "C11.R6@"}[prop]
		addMutants(
			Mutant{Prop: prop, Name: "r6-benign-error-reported-inside-loop", File: osc, Benign: true, Old: loop, New: inLoop},
			Mutant{Prop: prop, Name: "r6-error-returned-raw-inside-loop", File: osc, Old: loop, New: inLoopRaw,
				Why:    "sub-reconciler errors leave the controller without the CollisionDetected / PreflightError mapping",
				Expect: []string{rule + "(*internal/controllers/objectsets.GenericObjectSetController).Reconcile"}},
			Mutant{Prop: prop, Name: "r6-error-with-requeue-result-not-reported", File: osc, Old: loop, New: inLoopSome,
				Why:    "an error that comes with a non-zero result breaks out of the loop and is never reported",
				Expect: []string{rule + "(*internal/controllers/objectsets.GenericObjectSetController).Reconcile"}},
		)
	}
}

// Round seven (M1-2): the cache lookup and the uncached lookup share one error variable and the
// tests are nested / spread over a switch: the cache's answer reaches the NotFound test of the create
// path only as nil. C01.R8 / C02.R5 judge the feasible sources of the tested error per incoming edge.
func init() {
	const pr = "internal/controllers/phase_reconciler.go"
	const wrap = "return nil, fmt.Errorf(\"getting %s: %w\", desiredObj.GroupVersionKind(), err)\n"
	const lookup = "\terr = r.dynamicCache.Get(ctx, objKey, currentObj)\n\tif err != nil && !apimachineryerrors.IsNotFound(err) {\n\t\t" + wrap +
		"\t}\n\tif apimachineryerrors.IsNotFound(err) {\n\t\terr = r.uncachedClient.Get(ctx, objKey, currentObj)\n\t\tif err != nil && !apimachineryerrors.IsNotFound(err) {\n\t\t\t" + wrap +
		"\t\t}\n\t}\n\tif apimachineryerrors.IsNotFound(err) {\n\t\t// The object is not yet present on the cluster,\n"
	const tail = "\tif err != nil && !apimachineryerrors.IsNotFound(err) {\n\t\t" + wrap + "\t}\n\tif err != nil && apimachineryerrors.IsNotFound(err) {\n\t\t// The object is not yet present on the cluster,\n"
	nested := func(second string) string {
		return "\terr = r.dynamicCache.Get(ctx, objKey, currentObj)\n\tif err != nil {\n\t\tif !apimachineryerrors.IsNotFound(err) {\n\t\t\t" + wrap + "\t\t}\n" + second + "\t}\n" + tail
	}
	const switched = "\terr = r.dynamicCache.Get(ctx, objKey, currentObj)\n\tswitch {\n\tcase err == nil:\n\tcase apimachineryerrors.IsNotFound(err):\n\t\terr = r.uncachedClient.Get(ctx, objKey, currentObj)\n\tdefault:\n\t\t" + wrap + "\t}\n" + tail
	for _, prop := range []string{"C01", "C02"} {
		rule := map[string]string{"C01": "C01.R8@", "C02": "C02.R5@"}[prop]
		addMutants(
			Mutant{Prop: prop, Name: "r8-benign-nested-lookup-shared-error", File: pr, Benign: true, Old: lookup,
				New: nested("\t\terr = r.uncachedClient.Get(ctx, objKey, currentObj)\n")},
			Mutant{Prop: prop, Name: "r8-benign-lookup-as-switch", File: pr, Benign: true, Old: lookup, New: switched},
			Mutant{Prop: prop, Name: "r8-nested-lookup-uncached-error-shadowed", File: pr, Old: lookup,
				New:    nested("\t\tif err := r.uncachedClient.Get(ctx, objKey, currentObj); err != nil && !apimachineryerrors.IsNotFound(err) {\n\t\t\t" + wrap + "\t\t}\n"),
				Why:    "the uncached answer lands in a shadowing variable: the create path is entered on the cache's NotFound",
				Expect: []string{rule + "(*internal/controllers.PhaseReconciler).reconcileObject"}},
			Mutant{Prop: prop, Name: "r8-nested-lookup-asks-cache-twice", File: pr, Old: lookup,
				New:    nested("\t\terr = r.dynamicCache.Get(ctx, objKey, currentObj)\n"),
				Expect: []string{rule + "(*internal/controllers.PhaseReconciler).reconcileObject"}},
			Mutant{Prop: prop, Name: "r8-nested-lookup-uncached-only-sometimes", File: pr, Old: lookup,
				New:    nested("\t\tif collisionProtection != corev1alpha1.CollisionProtectionNone {\n\t\t\terr = r.uncachedClient.Get(ctx, objKey, currentObj)\n\t\t}\n"),
				Why:    "with CollisionProtection None the cache's NotFound alone leads to the create",
				Expect: []string{rule + "(*internal/controllers.PhaseReconciler).reconcileObject"}},
			Mutant{Prop: prop, Name: "r8-switch-lookup-uncached-in-wrong-case", File: pr, Old: lookup,
				New:    "\terr = r.dynamicCache.Get(ctx, objKey, currentObj)\n\tswitch {\n\tcase err == nil:\n\t\terr = r.uncachedClient.Get(ctx, objKey, currentObj)\n\tcase apimachineryerrors.IsNotFound(err):\n\tdefault:\n\t\t" + wrap + "\t}\n" + tail,
				Why:    "the API server is asked only for objects the cache already has; a cache miss goes straight to the create",
				Expect: []string{rule + "(*internal/controllers.PhaseReconciler).reconcileObject"}},
		)
	}
}

// Round seven (N1-1): the lookup (cache Get, then uncached Get) is extracted into a helper with three
// results (object, found, error). Merged into reconcileObject by the normaliser, the checked object is
// a merge `phi(nil, nil, X, X)` next to `found = phi(false, false, false, true)` and `err = phi(E1,
// E2, nil, nil)`; the check runs behind `err == nil` and `found`. C01.R3 judges the values the merge
// can hold under those guards.
// NOTE: with the rest of reconcileObject left as it is, the normaliser does not merge but copies the
// continuation to every return of the helper (tail duplication, two copies of the Check); the two
// breaking variants below are reported in that form too. The benign counterpart of that form is NOT
// registered: it raises a false alarm that exists without the N1-1 repair as well (the mutation / write
// sites of one copy are judged against the Check of the other copy, see TOLERANCE.md) — open.
func init() {
	const pr = "internal/controllers/phase_reconciler.go"
	const wrap = "return nil, fmt.Errorf(\"getting %s: %w\", desiredObj.GroupVersionKind(), err)\n"
	const old = "\tobjKey := client.ObjectKeyFromObject(desiredObj)\n\tcurrentObj := desiredObj.DeepCopy()\n\terr = r.dynamicCache.Get(ctx, objKey, currentObj)\n\tif err != nil && !apimachineryerrors.IsNotFound(err) {\n\t\t" + wrap +
		"\t}\n\tif apimachineryerrors.IsNotFound(err) {\n\t\terr = r.uncachedClient.Get(ctx, objKey, currentObj)\n\t\tif err != nil && !apimachineryerrors.IsNotFound(err) {\n\t\t\t" + wrap +
		"\t\t}\n\t}\n\tif apimachineryerrors.IsNotFound(err) {\n\t\t// The object is not yet present on the cluster,\n"
	const caller = "\tobjKey := client.ObjectKeyFromObject(desiredObj)\n\tcurrentObj, found, err := r.lookupCurrentObject(ctx, objKey, desiredObj)\n\tif err != nil {\n\t\treturn nil, err\n\t}\n\tif !found {\n\t\t// The object is not yet present on the cluster,\n"
	const anchor = "type CommonObjectPhaseError struct {"
	const hwrap = "return nil, false, fmt.Errorf(\"getting %s: %w\", desiredObj.GroupVersionKind(), err)\n"
	helper := func(pre, foundObj string) string {
		return "func (r *PhaseReconciler) lookupCurrentObject(\n\tctx context.Context, objKey client.ObjectKey, desiredObj *unstructured.Unstructured,\n" +
			") (currentObj *unstructured.Unstructured, found bool, err error) {\n\tcurrentObj = desiredObj.DeepCopy()\n" + pre +
			"\terr = r.dynamicCache.Get(ctx, objKey, currentObj)\n\tif err != nil && !apimachineryerrors.IsNotFound(err) {\n\t\t" + hwrap +
			"\t}\n\tif apimachineryerrors.IsNotFound(err) {\n\t\terr = r.uncachedClient.Get(ctx, objKey, currentObj)\n\t\tif err != nil && !apimachineryerrors.IsNotFound(err) {\n\t\t\t" + hwrap +
			"\t\t}\n\t}\n\tif apimachineryerrors.IsNotFound(err) {\n\t\treturn currentObj, false, nil\n\t}\n\treturn " + foundObj + ", true, nil\n}\n\n" + anchor
	}
	const rule = "C01.R3@(*internal/controllers.PhaseReconciler).reconcileObject#checker-inspects-read-object"
	addMutants(
		Mutant{Prop: "C01", Name: "r3-lookup-helper-hands-out-desired-object", File: pr, Old: old, New: caller,
			More:   []Edit{{File: pr, Old: anchor, New: helper("", "desiredObj")}},
			Why:    "on the found path the helper hands out the desired object: the checker judges the manifest, not the object on the cluster",
			Expect: []string{rule}},
		Mutant{Prop: "C01", Name: "r3-lookup-helper-found-without-asking", File: pr, Old: old, New: caller,
			More:   []Edit{{File: pr, Old: anchor, New: helper("\tif len(desiredObj.GetOwnerReferences()) > 0 {\n\t\treturn currentObj, true, nil\n\t}\n", "currentObj")}},
			Why:    "found is answered for a copy of the desired object that no Get has filled",
			Expect: []string{rule}},
	)
}
