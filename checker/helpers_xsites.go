package main

import (
	"golang.org/x/tools/go/ssa"
)

// Site selection through extracted helpers (refactoring tolerance). Built on helpers_inline.go:
// rules that used to ask "which function contains call X" ask "from which function is X reached
// through inlinable helpers" instead, and evaluate guards / identities at the real site.

// inlinedInto: the body of fn executes only as part of (an activation of) a function of set, when
// unexported, statically called helpers (p.inlinable) are seen as part of their callers: fn is in
// set, or fn is such a helper and this holds for every one of its callers (bounded depth).
func (p *Program) inlinedInto(fn *ssa.Function, set map[*ssa.Function]bool) bool {
	var walk func(f *ssa.Function, d int, onPath map[*ssa.Function]bool) bool
	walk = func(f *ssa.Function, d int, onPath map[*ssa.Function]bool) bool {
		if set[f] {
			return true
		}
		if d >= 4 || onPath[f] || !p.inlinable(f) {
			return false
		}
		onPath[f] = true
		defer delete(onPath, f)
		n := 0
		for _, c := range p.callersOf(f) {
			if c.Fn == f || isNonProductPkg(funcPkgPath(c.Fn)) {
				continue
			}
			n++
			if !walk(c.Fn, d+1, onPath) {
				return false
			}
		}
		return n > 0
	}
	return walk(fn, 0, map[*ssa.Function]bool{})
}

// XWriter is a writer site seen through inlinable helpers.
type XWriter struct {
	WriterSite
	Chain []Call
}

// writerSitesX: the controller-runtime writer sites of fn and of the inlinable helpers it calls.
func (p *Program) writerSitesX(fn *ssa.Function) []XWriter {
	var out []XWriter
	for _, xc := range p.callsInX(fn) {
		if ws, ok := classifyWriter(xc.Call); ok {
			out = append(out, XWriter{WriterSite: ws, Chain: xc.Chain})
		}
	}
	return out
}

// rootSite: the instruction of the root function that stands for a site reached through chain
// (the outermost helper call), the site itself for an empty chain.
func rootSite(site ssa.Instruction, chain []Call) ssa.Instruction {
	if len(chain) > 0 {
		return chain[0].Instr
	}
	return site
}

// upChain maps a value of a helper to the value it denotes in the root function: a parameter of the
// innermost helper becomes the argument passed at the helper call, and so on outwards. Values that
// are not parameters are returned unchanged (they are local to the helper).
func upChain(v ssa.Value, chain []Call) ssa.Value {
	for i := len(chain) - 1; i >= 0; i-- {
		prm, ok := stripConv(v).(*ssa.Parameter)
		if !ok {
			return v
		}
		callee := staticCallee(chain[i].Common)
		if callee == nil || prm.Parent() != callee {
			return v
		}
		idx := -1
		for k, q := range callee.Params {
			if q == prm {
				idx = k
			}
		}
		if idx < 0 || idx >= len(chain[i].Common.Args) {
			return v
		}
		v = chain[i].Common.Args[idx]
	}
	return v
}

// errNilX: the facts establish that the error of `call` is nil, where call may sit inside inlinable
// helpers (chain = helper calls leading to it, outermost first): either directly (facts that mention
// the call's error, e.g. the helper-local facts of an expanded return case), or because the error of
// the outermost helper call is known nil and every return of each helper on the chain that may
// return a nil error knows the error of the next inner call to be nil.
func (p *Program) errNilX(fs []Fact, call *ssa.Call, chain []Call) bool {
	if call == nil {
		return false
	}
	if p.errOfCall(fs, call) == yesTri {
		return true
	}
	if len(chain) == 0 {
		return false
	}
	hc, ok := chain[0].Instr.(*ssa.Call)
	if !ok || p.errOfCall(fs, hc) != yesTri {
		return false
	}
	helper := staticCallee(hc.Common())
	if helper == nil {
		return false
	}
	errIdx := c10ErrResultIndex(helper.Signature)
	if errIdx < 0 {
		return false
	}
	n := 0
	for _, rc := range p.returnCases(helper) {
		if helper.Recover != nil && rc.Ret.Block() == helper.Recover {
			continue
		}
		if errIdx >= len(rc.Results) {
			return false
		}
		if !p.pfErrMayBeNil(rc.Facts, rc.Results[errIdx]) {
			continue
		}
		n++
		if !p.errNilX(rc.Facts, call, chain[1:]) {
			return false
		}
	}
	return n > 0
}

// XValue is a possible value seen through the results of inlinable helpers; Via lists the helper
// calls that were looked through (outermost first), so that parameters of the innermost helper can be
// mapped back with upCalls.
type XValue struct {
	V   ssa.Value
	Via []*ssa.Call
}

// possibleValuesXC is possibleValuesX that also reports the helper calls looked through.
func (p *Program) possibleValuesXC(v ssa.Value) []XValue {
	var out []XValue
	seen := map[ssa.Value]bool{}
	var walk func(v ssa.Value, via []*ssa.Call, d int)
	walk = func(v ssa.Value, via []*ssa.Call, d int) {
		for _, pv := range p.possibleValues(v) {
			if seen[pv] {
				continue
			}
			seen[pv] = true
			c, idx := asCall(pv)
			if c != nil && d < 3 {
				if callee := staticCallee(c.Common()); callee != nil && p.inlinable(callee) {
					i := idx
					if i < 0 {
						i = 0
					}
					any := false
					for _, b := range callee.Blocks {
						if len(b.Instrs) == 0 {
							continue
						}
						if ret, ok := b.Instrs[len(b.Instrs)-1].(*ssa.Return); ok && i < len(ret.Results) {
							if callee.Recover != nil && b == callee.Recover {
								continue
							}
							any = true
							walk(p.resolveResult(ret.Results[i], ret), append(append([]*ssa.Call{}, via...), c), d+1)
						}
					}
					if any {
						continue
					}
				}
			}
			out = append(out, XValue{V: pv, Via: via})
		}
	}
	walk(v, nil, 0)
	return out
}

// upCalls maps a value found inside the helpers of via back to the function of via[0]: parameters
// become the arguments of the helper calls.
func upCalls(v ssa.Value, via []*ssa.Call) ssa.Value {
	chain := make([]Call, len(via))
	for i, c := range via {
		chain[i] = Call{Instr: c, Common: c.Common(), Fn: c.Parent()}
	}
	return upChain(v, chain)
}
