package main

import (
	"fmt"
	"go/constant"
	"go/token"
	"go/types"
	"sort"
	"strings"

	"golang.org/x/tools/go/ssa"
)

// ---------------------------------------------------------------------------------------------
// Calls

// Call is a resolved call site.
type Call struct {
	Instr  ssa.CallInstruction
	Common *ssa.CallCommon
	Fn     *ssa.Function // enclosing function
}

func (c Call) Value() ssa.Value { return c.Instr.Value() } // nil for go/defer
func (c Call) Block() *ssa.BasicBlock {
	return c.Instr.Block()
}

// callsIn lists every call instruction (call, go, defer) of fn, in block/instruction order.
func callsIn(fn *ssa.Function) []Call {
	var out []Call
	for _, b := range fn.Blocks {
		for _, in := range b.Instrs {
			if ci, ok := in.(ssa.CallInstruction); ok {
				out = append(out, Call{Instr: ci, Common: ci.Common(), Fn: fn})
			}
		}
	}
	return out
}

// calleeID returns a textual identity of the callee:
//
//	static function/method:  "<pkgpath>.F", "(*<pkgpath>.T).M", "(<pkgpath>.T).M"   (generic instances map to their origin)
//	interface invoke:        "invoke:<pkgpath>.Iface.M"  (or "invoke:interface.M" for unnamed interfaces)
//	builtin:                 "builtin:len"
//	closure / func value:    "dynamic"
func calleeID(c *ssa.CallCommon) string {
	if c.IsInvoke() {
		n := namedTypeString(c.Value.Type())
		if n == "" {
			n = "interface"
		}
		return "invoke:" + n + "." + c.Method.Name()
	}
	switch v := c.Value.(type) {
	case *ssa.Function:
		f := v
		if o := f.Origin(); o != nil {
			f = o
		}
		return f.String()
	case *ssa.Builtin:
		return "builtin:" + v.Name()
	case *ssa.MakeClosure:
		if f, ok := v.Fn.(*ssa.Function); ok {
			return "closure:" + f.String()
		}
	}
	return "dynamic"
}

// staticCallee returns the *ssa.Function called (closures included), nil for invoke/dynamic.
func staticCallee(c *ssa.CallCommon) *ssa.Function {
	if c.IsInvoke() {
		return nil
	}
	switch v := c.Value.(type) {
	case *ssa.Function:
		return v
	case *ssa.MakeClosure:
		if f, ok := v.Fn.(*ssa.Function); ok {
			return f
		}
	}
	return nil
}

// methodName returns the method or function name of the callee ("" for dynamic).
func calleeName(c *ssa.CallCommon) string {
	if c.IsInvoke() {
		return c.Method.Name()
	}
	if f := staticCallee(c); f != nil {
		return f.Name()
	}
	if b, ok := c.Value.(*ssa.Builtin); ok {
		return b.Name()
	}
	return ""
}

// isCallTo reports whether the call's callee id equals one of ids. For invokes the id
// "invoke:*.M" matches method M on any interface.
func isCallTo(c *ssa.CallCommon, ids ...string) bool {
	id := calleeID(c)
	for _, want := range ids {
		if id == want {
			return true
		}
		if strings.HasPrefix(want, "invoke:*.") && c.IsInvoke() && c.Method.Name() == want[len("invoke:*."):] {
			return true
		}
		// "method:M" matches an invoke of M or a static method named M (any receiver)
		if strings.HasPrefix(want, "method:") {
			m := want[len("method:"):]
			if c.IsInvoke() && c.Method.Name() == m {
				return true
			}
			if f := staticCallee(c); f != nil && f.Signature.Recv() != nil && f.Name() == m {
				return true
			}
		}
	}
	return false
}

// callArgs returns the arguments without the receiver (for static method calls the receiver is
// Args[0]; for invokes it is c.Value).
func callArgs(c *ssa.CallCommon) []ssa.Value {
	if c.IsInvoke() {
		return c.Args
	}
	if f := staticCallee(c); f != nil && f.Signature.Recv() != nil && len(c.Args) > 0 {
		return c.Args[1:]
	}
	return c.Args
}

// callRecv returns the receiver value of a method call / invoke, or nil.
func callRecv(c *ssa.CallCommon) ssa.Value {
	if c.IsInvoke() {
		return c.Value
	}
	if f := staticCallee(c); f != nil && f.Signature.Recv() != nil && len(c.Args) > 0 {
		return c.Args[0]
	}
	return nil
}

// asCall returns the call instruction behind v, looking through Extract (returns the tuple
// index, -1 if v is the call value itself) and interface conversions.
func asCall(v ssa.Value) (*ssa.Call, int) {
	v = stripConv(v)
	switch x := v.(type) {
	case *ssa.Call:
		return x, -1
	case *ssa.Extract:
		if c, ok := x.Tuple.(*ssa.Call); ok {
			return c, x.Index
		}
	}
	return nil, -1
}

// stripConv removes value-preserving conversions.
func stripConv(v ssa.Value) ssa.Value {
	for {
		switch x := v.(type) {
		case *ssa.MakeInterface:
			v = x.X
		case *ssa.ChangeInterface:
			v = x.X
		case *ssa.ChangeType:
			v = x.X
		default:
			return v
		}
	}
}

// ---------------------------------------------------------------------------------------------
// Reaching stores for non-lifted local variables (named results in functions with defer,
// variables whose address is taken for a pointer-receiver call, closure-captured variables).

// zeroStore is a sentinel member of reaching-store sets: "no store yet" — the variable may still hold
// its zero value on some path to this point.
var zeroStore = &ssa.Store{}

type allocFacts struct {
	// out[b] = set of Store instructions that may be the last store to the alloc at exit of b.
	in, out map[*ssa.BasicBlock]map[*ssa.Store]bool
	stores  []*ssa.Store
	unknown bool // address escapes in a way we do not model (stored somewhere, passed to go closure, ...)
}

func (p *Program) allocInfo(a *ssa.Alloc) *allocFacts {
	ff := p.facts(a.Parent())
	if af, ok := ff.allocs[a]; ok {
		return af
	}
	af := &allocFacts{in: map[*ssa.BasicBlock]map[*ssa.Store]bool{}, out: map[*ssa.BasicBlock]map[*ssa.Store]bool{}}
	ff.allocs[a] = af
	fn := a.Parent()
	for _, ref := range *a.Referrers() {
		switch r := ref.(type) {
		case *ssa.Store:
			if r.Addr == a {
				af.stores = append(af.stores, r)
			} else {
				af.unknown = true // address stored elsewhere
			}
		case *ssa.UnOp, *ssa.DebugRef:
		case *ssa.MakeClosure:
			// captured: the closure may write when it runs. Closures that are only deferred run at
			// function exit; anything else makes the variable unknown.
			if !closureOnlyDeferred(r) {
				if closureWrites(r, a) {
					af.unknown = true
				}
			}
		case ssa.CallInstruction:
			// &x passed as an argument (typically pointer receiver of a method on a value, or
			// json.Unmarshal(&x)). Treat as a read unless the callee is known to write through it.
			if callMayWriteThroughArg(r.Common(), a) {
				af.unknown = true
			}
		case *ssa.FieldAddr, *ssa.IndexAddr:
			// partial access; stores through these are partial writes - treat struct as unknown only
			// if something is stored through the derived address.
			if derivedAddrWritten(r.(ssa.Value)) {
				// partial writes do not change "which whole value was stored" for our purposes
			}
		case *ssa.MakeInterface:
			af.unknown = true
		default:
			_ = r
		}
	}
	// dataflow
	changed := true
	for changed {
		changed = false
		for _, b := range fn.Blocks {
			in := map[*ssa.Store]bool{}
			if b == fn.Blocks[0] {
				in[zeroStore] = true
			}
			for _, pr := range b.Preds {
				for s := range af.out[pr] {
					in[s] = true
				}
			}
			af.in[b] = in
			out := in
			for _, ins := range b.Instrs {
				if s, ok := ins.(*ssa.Store); ok && s.Addr == a {
					out = map[*ssa.Store]bool{s: true}
				}
			}
			if !sameStoreSet(out, af.out[b]) {
				af.out[b] = out
				changed = true
			}
		}
	}
	return af
}

func sameStoreSet(a, b map[*ssa.Store]bool) bool {
	if len(a) != len(b) {
		return false
	}
	for k := range a {
		if !b[k] {
			return false
		}
	}
	return true
}

func closureOnlyDeferred(mc *ssa.MakeClosure) bool {
	refs := mc.Referrers()
	if refs == nil {
		return false
	}
	for _, r := range *refs {
		if _, ok := r.(*ssa.Defer); !ok {
			if _, ok := r.(*ssa.DebugRef); ok {
				continue
			}
			return false
		}
	}
	return true
}

// closureWrites reports whether the closure body stores to the captured variable bound to a.
func closureWrites(mc *ssa.MakeClosure, a *ssa.Alloc) bool {
	f, ok := mc.Fn.(*ssa.Function)
	if !ok {
		return true
	}
	for i, b := range mc.Bindings {
		if b != a {
			continue
		}
		fv := f.FreeVars[i]
		for _, r := range *fv.Referrers() {
			switch x := r.(type) {
			case *ssa.Store:
				if x.Addr == fv {
					return true
				}
			case *ssa.UnOp, *ssa.DebugRef:
			case *ssa.FieldAddr, *ssa.IndexAddr:
				// `captured.Field` / `captured[i]` that is only loaded from is a read
				if !derivedAddrOnlyRead(x.(ssa.Value), 0) {
					return true
				}
			default:
				return true
			}
		}
	}
	return false
}

// derivedAddrOnlyRead: an address derived from a variable (field/element address) whose only uses are
// loads (or further derived addresses that are only loaded).
func derivedAddrOnlyRead(v ssa.Value, depth int) bool {
	refs := v.Referrers()
	if refs == nil || depth > 4 {
		return false
	}
	for _, r := range *refs {
		switch x := r.(type) {
		case *ssa.UnOp:
			if x.Op != token.MUL {
				return false
			}
		case *ssa.DebugRef:
		case *ssa.FieldAddr:
			if !derivedAddrOnlyRead(x, depth+1) {
				return false
			}
		case *ssa.IndexAddr:
			if x.X != v || !derivedAddrOnlyRead(x, depth+1) {
				return false
			}
		default:
			return false
		}
	}
	return true
}

func derivedAddrWritten(v ssa.Value) bool {
	refs := v.Referrers()
	if refs == nil {
		return false
	}
	for _, r := range *refs {
		if s, ok := r.(*ssa.Store); ok && s.Addr == v {
			return true
		}
	}
	return false
}

// callMayWriteThroughArg: conservative table — decoding functions write through their pointer
// argument; methods with pointer receivers named like accessors do not.
func callMayWriteThroughArg(c *ssa.CallCommon, a *ssa.Alloc) bool {
	id := calleeID(c)
	switch {
	case strings.HasSuffix(id, ".Unmarshal"), strings.HasSuffix(id, ".Decode"), strings.HasSuffix(id, ".As"),
		strings.HasSuffix(id, ".Get"), strings.HasSuffix(id, ".List"), strings.Contains(id, "Convert"),
		strings.HasSuffix(id, ".FromUnstructured"), strings.HasSuffix(id, ".DeepCopyInto"):
		return true
	}
	if recv := callRecv(c); recv == ssa.Value(a) {
		n := calleeName(c)
		if isAccessorName(n) {
			return false
		}
		return true // mutating method on the variable itself
	}
	return false
}

// loadSource resolves a load `*alloc` to the stored value when exactly one store reaches it.
func (p *Program) loadSource(u *ssa.UnOp) (ssa.Value, bool) {
	if u.Op != token.MUL {
		return nil, false
	}
	a, ok := u.X.(*ssa.Alloc)
	if !ok {
		return nil, false
	}
	af := p.allocInfo(a)
	if af.unknown {
		return nil, false
	}
	b := u.Block()
	// last store before u in its own block
	var last *ssa.Store
	for _, ins := range b.Instrs {
		if ins == ssa.Instruction(u) {
			break
		}
		if s, ok := ins.(*ssa.Store); ok && s.Addr == ssa.Value(a) {
			last = s
		}
	}
	if last != nil {
		return last.Val, true
	}
	in := af.in[b]
	if len(in) == 1 {
		for s := range in {
			if s == zeroStore {
				return nil, false
			}
			return s.Val, true
		}
	}
	return nil, false
}

// storesReaching returns the set of stores that may reach a given instruction for alloc a.
func (p *Program) storesReaching(a *ssa.Alloc, at ssa.Instruction) ([]*ssa.Store, bool) {
	af := p.allocInfo(a)
	b := at.Block()
	var last *ssa.Store
	for _, ins := range b.Instrs {
		if ins == at {
			break
		}
		if s, ok := ins.(*ssa.Store); ok && s.Addr == ssa.Value(a) {
			last = s
		}
	}
	if last != nil {
		return []*ssa.Store{last}, !af.unknown
	}
	var out []*ssa.Store
	mayBeZero := false
	for s := range af.in[b] {
		if s == zeroStore {
			mayBeZero = true
			continue
		}
		out = append(out, s)
	}
	sort.Slice(out, func(i, j int) bool { return out[i].Pos() < out[j].Pos() })
	// when the zero value may still be there the list of stores is not the full set of values
	return out, !af.unknown && !mayBeZero
}

// mayHoldZero reports whether alloc a may still hold its zero value at instruction `at`.
func (p *Program) mayHoldZero(a *ssa.Alloc, at ssa.Instruction) bool {
	af := p.allocInfo(a)
	b := at.Block()
	for _, ins := range b.Instrs {
		if ins == at {
			break
		}
		if s, ok := ins.(*ssa.Store); ok && s.Addr == ssa.Value(a) {
			return false
		}
	}
	return af.in[b][zeroStore]
}

// ---------------------------------------------------------------------------------------------
// Value keys (A3): a canonical string per SSA value such that two values with the same key denote
// the same run-time value within one activation, modulo the accessor-purity table.

var accessorPrefixes = []string{"Get", "Is", "Has", "ClientObject", "Len", "String", "GroupVersionKind", "Name", "Kind", "Type", "Error", "UnixNano", "DeepCopy"}

func isAccessorName(n string) bool {
	if n == "DeepCopy" || n == "DeepCopyObject" {
		return false // produces a fresh object each time
	}
	for _, p := range accessorPrefixes {
		if strings.HasPrefix(n, p) {
			return true
		}
	}
	return false
}

// pureFuncs are non-method functions whose result is a function of their arguments.
var pureFuncs = map[string]bool{
	"sigs.k8s.io/controller-runtime/pkg/client.ObjectKeyFromObject": true,
	"builtin:len": true,
	"builtin:cap": true,
	"k8s.io/apimachinery/pkg/api/errors.IsNotFound":                                  true,
	"k8s.io/apimachinery/pkg/api/errors.IsAlreadyExists":                             true,
	"k8s.io/apimachinery/pkg/api/errors.IsConflict":                                  true,
	"k8s.io/apimachinery/pkg/api/meta.IsNoMatchError":                                true,
	"k8s.io/apimachinery/pkg/api/meta.IsStatusConditionTrue":                         true,
	"k8s.io/apimachinery/pkg/api/meta.FindStatusCondition":                           true,
	"sigs.k8s.io/controller-runtime/pkg/controller/controllerutil.ContainsFinalizer": true,
	"k8s.io/utils/ptr.To": true,
}

func (p *Program) key(v ssa.Value) string {
	return p.keyDepth(v, 0)
}

func (p *Program) keyDepth(v ssa.Value, d int) string {
	if v == nil {
		return "<nil>"
	}
	if d > 12 {
		return uniq(v)
	}
	v = stripConv(v)
	switch x := v.(type) {
	case *ssa.Const:
		if x.Value == nil {
			return "nil"
		}
		return "const(" + x.Value.ExactString() + ")"
	case *ssa.Parameter:
		// a parameter of an extracted helper (unexported, called statically from exactly one place)
		// denotes the argument of that call: helper extraction must not change value identity
		if arg := p.soleArgument(x); arg != nil && d < 10 {
			return p.keyDepth(arg, d+2)
		}
		return "param:" + x.Name()
	case *ssa.FreeVar:
		return "freevar:" + x.Name()
	case *ssa.Global:
		return "global:" + x.String()
	case *ssa.Function:
		return "func:" + x.String()
	case *ssa.Extract:
		return p.keyDepth(x.Tuple, d+1) + "#" + fmt.Sprint(x.Index)
	case *ssa.Call:
		c := x.Common()
		id := calleeID(c)
		pure := pureFuncs[id]
		if !pure && (c.IsInvoke() || (staticCallee(c) != nil && staticCallee(c).Signature.Recv() != nil)) {
			if isAccessorName(calleeName(c)) {
				pure = true
				for _, a := range callArgs(c) {
					if _, ok := a.(*ssa.Const); !ok {
						pure = false
					}
				}
			}
		}
		if pure {
			var parts []string
			if r := callRecv(c); r != nil {
				parts = append(parts, p.keyDepth(r, d+1))
			}
			for _, a := range callArgs(c) {
				parts = append(parts, p.keyDepth(a, d+1))
			}
			n := calleeName(c)
			return n + "(" + strings.Join(parts, ",") + ")"
		}
		return uniq(v)
	case *ssa.UnOp:
		switch x.Op {
		case token.MUL:
			if src, ok := p.loadSource(x); ok {
				return p.keyDepth(src, d+1)
			}
			switch a := x.X.(type) {
			case *ssa.FieldAddr:
				// field loads of the receiver / parameters are treated as stable
				return "*" + p.keyDepth(a, d+1)
			case *ssa.IndexAddr:
				// element loads: same slice, same index (elements are not reassigned between two
				// reads in the code this is applied to; part of the purity assumption)
				return "*" + p.keyDepth(a, d+1)
			case *ssa.Global:
				return "*global:" + a.String()
			case *ssa.FreeVar:
				return "*freevar:" + a.Name()
			}
			return uniq(v)
		case token.NOT:
			return "!" + p.keyDepth(x.X, d+1)
		}
		return uniq(v)
	case *ssa.FieldAddr:
		return p.keyDepth(x.X, d+1) + "." + fieldName(x.X.Type(), x.Field)
	case *ssa.Field:
		return p.keyDepth(x.X, d+1) + "." + fieldName(x.X.Type(), x.Field)
	case *ssa.IndexAddr:
		return p.keyDepth(x.X, d+1) + "[" + p.keyDepth(x.Index, d+1) + "]"
	case *ssa.BinOp:
		a, b := p.keyDepth(x.X, d+1), p.keyDepth(x.Y, d+1)
		op := x.Op
		// normalise > to <, >= to <=
		switch op {
		case token.GTR:
			op = token.LSS
			a, b = b, a
		case token.GEQ:
			op = token.LEQ
			a, b = b, a
		case token.EQL, token.NEQ, token.ADD, token.MUL, token.AND, token.OR:
			if a > b {
				a, b = b, a
			}
		}
		return "(" + a + " " + op.String() + " " + b + ")"
	case *ssa.Phi:
		set := map[string]bool{}
		for _, e := range x.Edges {
			if e == ssa.Value(x) {
				continue
			}
			set[p.keyDepth(e, d+1)] = true
		}
		if len(set) == 1 {
			for k := range set {
				return k
			}
		}
		return uniq(v)
	case *ssa.Alloc:
		return uniq(v)
	}
	return uniq(v)
}

func uniq(v ssa.Value) string {
	fn := ""
	if in, ok := v.(ssa.Instruction); ok && in.Parent() != nil {
		fn = in.Parent().Name()
	}
	return fn + ":" + v.Name()
}

func fieldName(t types.Type, idx int) string {
	if pt, ok := t.Underlying().(*types.Pointer); ok {
		t = pt.Elem()
	}
	if st, ok := t.Underlying().(*types.Struct); ok && idx < st.NumFields() {
		return st.Field(idx).Name()
	}
	return fmt.Sprintf("f%d", idx)
}

// sameValue: identical SSA value, or identical stable key.
func (p *Program) sameValue(a, b ssa.Value) bool {
	if a == nil || b == nil {
		return false
	}
	if stripConv(a) == stripConv(b) {
		return true
	}
	return p.key(a) == p.key(b)
}

// ---------------------------------------------------------------------------------------------
// Small value predicates

func isNilConst(v ssa.Value) bool {
	c, ok := v.(*ssa.Const)
	return ok && c.Value == nil
}

func constString(v ssa.Value) (string, bool) {
	v = stripConv(v)
	if c, ok := v.(*ssa.Const); ok && c.Value != nil && c.Value.Kind() == constant.String {
		return constant.StringVal(c.Value), true
	}
	return "", false
}

func constInt(v ssa.Value) (int64, bool) {
	if c, ok := v.(*ssa.Const); ok && c.Value != nil && c.Value.Kind() == constant.Int {
		i, ok := constant.Int64Val(c.Value)
		return i, ok
	}
	return 0, false
}

func constBool(v ssa.Value) (bool, bool) {
	if c, ok := v.(*ssa.Const); ok && c.Value != nil && c.Value.Kind() == constant.Bool {
		return constant.BoolVal(c.Value), true
	}
	return false, false
}

// errNilTest decomposes a condition of the form `x != nil` / `x == nil` where x is an error (or any
// nil-comparable) value: returns x and whether the condition being TRUE means x is non-nil.
func errNilTest(cond ssa.Value) (x ssa.Value, trueMeansNonNil bool, ok bool) {
	b, isBin := cond.(*ssa.BinOp)
	if !isBin || (b.Op != token.NEQ && b.Op != token.EQL) {
		return nil, false, false
	}
	switch {
	case isNilConst(b.Y):
		x = b.X
	case isNilConst(b.X):
		x = b.Y
	default:
		return nil, false, false
	}
	return x, b.Op == token.NEQ, true
}

// referrersOf returns the instructions that use v (empty for values without referrer lists).
func referrersOf(v ssa.Value) []ssa.Instruction {
	r := v.Referrers()
	if r == nil {
		return nil
	}
	return *r
}

// inlinable: an unexported workspace function or method without dynamic uses, i.e. the shape a
// block takes when it is extracted into a helper. Rules treat such helpers as part of their callers.
func (p *Program) inlinable(fn *ssa.Function) bool {
	if fn == nil || fn.Parent() != nil || len(fn.Blocks) == 0 || fn.Synthetic != "" {
		return false
	}
	obj := fn.Object()
	if obj == nil || obj.Exported() {
		return false
	}
	if p.addressTaken(fn) {
		return false
	}
	// methods that implement an interface used for dispatch are reached dynamically too
	if fn.Signature.Recv() != nil && p.implementsSomeInvokedMethod(fn) {
		return false
	}
	return len(p.callersOf(fn)) > 0
}

// implementsSomeInvokedMethod: some invoke in the workspace uses a method of this name with an
// identical signature (conservative stand-in for "may be called through an interface").
func (p *Program) implementsSomeInvokedMethod(fn *ssa.Function) bool {
	if p.invokedMethods == nil {
		p.invokedMethods = map[string]bool{}
		for _, f := range p.Funcs {
			for _, c := range callsIn(f) {
				if c.Common.IsInvoke() {
					p.invokedMethods[c.Common.Method.Name()] = true
				}
			}
		}
	}
	return p.invokedMethods[fn.Name()]
}

// soleArgument: for a parameter of an inlinable helper with exactly one static call site, the
// argument passed there.
func (p *Program) soleArgument(prm *ssa.Parameter) ssa.Value {
	fn := prm.Parent()
	if fn == nil || !p.inlinable(fn) {
		return nil
	}
	callers := p.callersOf(fn)
	if len(callers) != 1 {
		return nil
	}
	for i, pp := range fn.Params {
		if pp == prm && i < len(callers[0].Common.Args) {
			return callers[0].Common.Args[i]
		}
	}
	return nil
}
