package main

import (
	"go/token"
	"strings"

	"golang.org/x/tools/go/ssa"
)

// sortKeyRule (C13): a sort that is meant to remove map-iteration order must use a comparator that
// is a strict total order on distinct elements. go's sort.Slice is not stable, so elements that the
// comparator treats as equal keep the (random) order they were collected in. Structural core: in
// every comparator closure handed to sort.Slice / sort.SliceStable / slices.SortFunc in the render
// packages, the compared keys derive from the two elements only through injective steps (the
// element itself, a field, an index, strings.ReplaceAll with constant arguments, constant
// concatenation). A lossy string transform (ToLower, TrimSpace, Base, …) is a violation; any other
// call is undecided.

var lossyStringFuncs = map[string]bool{
	"strings.ToLower": true, "strings.ToUpper": true, "strings.TrimSpace": true, "strings.Trim": true,
	"strings.TrimLeft": true, "strings.TrimRight": true, "strings.TrimPrefix": true, "strings.TrimSuffix": true,
	"strings.Title": true, "strings.ToTitle": true, "strings.Fields": true, "strings.EqualFold": true,
	"path/filepath.Base": true, "path/filepath.Dir": true, "path/filepath.Ext": true, "path/filepath.Clean": true,
	"path.Base": true, "path.Dir": true, "path.Ext": true, "path.Clean": true, "builtin:len": true,
	"strings.ToValidUTF8": true, "strings.Map": true, "strings.Compare": false,
}

func sortKeyRule(c *Ctx) {
	p := c.P
	n := 0
	for _, fn := range p.productFuncs() {
		pk := funcPkgPath(fn)
		if !strings.HasPrefix(pk, pkgPkgRender) && pk != pkgPkgDeploy && pk != pkgTransform && pk != pkgUtils && pk != pkgPkgValid {
			continue
		}
		for _, cc := range callsIn(fn) {
			id := calleeID(cc.Common)
			if id != "sort.Slice" && id != "sort.SliceStable" && id != "slices.SortFunc" && id != "slices.SortStableFunc" {
				continue
			}
			if len(cc.Common.Args) != 2 {
				continue
			}
			// a closure, or a literal that captures nothing (go/ssa passes the function itself)
			cmp, _ := sortComparatorFn(cc.Common.Args[1])
			if cmp == nil || cmp.Blocks == nil {
				c.Ob(fn, "sort-comparator", cc.Instr, c.rule.Statement).Unknown("comparator is not a function whose body is known")
				n++
				continue
			}
			n++
			o := c.Ob(fn, "sort-comparator", cc.Instr, c.rule.Statement)
			if id == "slices.SortFunc" || id == "slices.SortStableFunc" {
				// a three-way comparator can answer "equal" for any pair: it is a total order on distinct
				// elements only if it is negative/zero/positive exactly for key(a) </==/> key(b)
				// (cmp.Compare / strings.Compare of the keys, or the equivalent if-chain) and the key is
				// injective (judged below like the operands of a less function).
				if m, why := p.sortComparatorModel(cc.Common); m == nil {
					o.Unknown("cannot read the three-way comparator as a strict order by one key: %s", why)
					continue
				}
			}
			var bad, unknown []string
			seen := map[ssa.Value]bool{}
			var walk func(v ssa.Value, d int)
			walk = func(v ssa.Value, d int) {
				if v == nil || seen[v] || d > 12 {
					return
				}
				seen[v] = true
				switch x := v.(type) {
				case *ssa.Call:
					cid := calleeID(x.Common())
					switch {
					case lossyStringFuncs[cid]:
						bad = append(bad, strings.TrimPrefix(cid, "builtin:")+" at "+p.IPos(x))
					case cid == "strings.ReplaceAll" || cid == "strings.Replace":
						args := x.Common().Args
						if _, ok1 := constString(args[1]); ok1 {
							if _, ok2 := constString(args[2]); ok2 {
								walk(args[0], d+1)
								return
							}
						}
						unknown = append(unknown, cid+" with non-constant arguments at "+p.IPos(x))
					case cid == "strings.Compare" || cid == "cmp.Compare":
						for _, a := range x.Common().Args {
							walk(a, d+1)
						}
					default:
						if isAccessorName(calleeName(x.Common())) && len(callArgs(x.Common())) == 0 {
							walk(callRecv(x.Common()), d+1)
							return
						}
						unknown = append(unknown, "call "+cid+" at "+p.IPos(x))
					}
				case *ssa.BinOp:
					walk(x.X, d+1)
					walk(x.Y, d+1)
				case *ssa.UnOp:
					walk(x.X, d+1)
				case *ssa.FieldAddr:
					walk(x.X, d+1)
				case *ssa.Field:
					walk(x.X, d+1)
				case *ssa.IndexAddr:
					walk(x.X, d+1)
				case *ssa.Index:
					walk(x.X, d+1)
				case *ssa.Phi:
					for _, e := range x.Edges {
						walk(e, d+1)
					}
				case *ssa.Extract:
					walk(x.Tuple, d+1)
				case *ssa.MakeInterface:
					walk(x.X, d+1)
				case *ssa.ChangeType:
					walk(x.X, d+1)
				case *ssa.Convert:
					walk(x.X, d+1)
				case *ssa.Slice:
					bad = append(bad, "sub-slicing of the key at "+p.IPos(x))
				}
			}
			// the values that decide the comparator's result: operands of comparisons feeding returns
			for _, b := range cmp.Blocks {
				for _, in := range b.Instrs {
					switch x := in.(type) {
					case *ssa.BinOp:
						switch x.Op {
						case token.LSS, token.GTR, token.LEQ, token.GEQ, token.EQL, token.NEQ:
							walk(x.X, 0)
							walk(x.Y, 0)
						}
					case *ssa.Return:
						for _, r := range x.Results {
							walk(r, 0)
						}
					case *ssa.If:
						walk(x.Cond, 0)
					}
				}
			}
			if asym := p.comparatorAsymmetry(cmp); asym != "" {
				o.Fail("%s: for some pairs less(a,b) and less(b,a) are both true (or both false for distinct elements), the comparator is no strict order and the result of the sort depends on the order the elements were collected in — the map-iteration order", asym)
				continue
			}
			switch {
			case len(bad) > 0:
				o.Fail("the comparator compares keys that passed through a lossy transform (%s): distinct elements can compare equal and, the sort not being stable, keep the map-iteration order they were collected in — the rendered object order (and the template hash) can differ between renders", strings.Join(dedupe(bad), ", "))
			case len(unknown) > 0:
				o.Unknown("cannot decide whether the sort keys are an injective function of the elements: %s", strings.Join(dedupe(unknown), ", "))
			default:
				o.OK("keys derive from the elements through injective steps only")
			}
		}
	}
	if n < 2 {
		c.AnchorLost("sort.Slice comparators in the render packages (paths, collected phases)")
	}
}

func init() {
	addRule("C13", Rule{ID: "C13.R7", Min: 2, Run: sortKeyRule,
		Statement: "comparators of the sorts that establish the rendered order are strict total orders on distinct elements: the compared keys derive from the elements through injective steps only (no lossy string transform)"})
}

// comparatorAsymmetry: in a two-parameter comparator, every ordering comparison `ka OP kb` must
// apply the same key function to both elements: the expression tree of one operand with the first
// parameter abstracted must equal that of the other operand with the second parameter abstracted.
// Returns a description of the first comparison for which this is not the case ("" = symmetric or
// not of that shape).
func (p *Program) comparatorAsymmetry(cmp *ssa.Function) string {
	if len(cmp.Params) != 2 {
		return ""
	}
	a, b := cmp.Params[0], cmp.Params[1]
	var shape func(v ssa.Value, hole *ssa.Parameter, d int) string
	shape = func(v ssa.Value, hole *ssa.Parameter, d int) string {
		if d > 14 {
			return "…"
		}
		switch x := v.(type) {
		case *ssa.Parameter:
			if x == hole {
				return "$"
			}
			return "param:" + x.Name()
		case *ssa.Const:
			if x.Value == nil {
				return "nil"
			}
			return x.Value.ExactString()
		case *ssa.FreeVar:
			return "free:" + x.Name()
		case *ssa.Global:
			return "global:" + x.Name()
		case *ssa.Call:
			parts := []string{calleeID(x.Common())}
			if x.Common().IsInvoke() {
				parts = append(parts, shape(x.Common().Value, hole, d+1))
			}
			for _, arg := range x.Common().Args {
				parts = append(parts, shape(arg, hole, d+1))
			}
			return "call(" + strings.Join(parts, ",") + ")"
		case *ssa.BinOp:
			return "(" + shape(x.X, hole, d+1) + x.Op.String() + shape(x.Y, hole, d+1) + ")"
		case *ssa.UnOp:
			return x.Op.String() + shape(x.X, hole, d+1)
		case *ssa.IndexAddr:
			return shape(x.X, hole, d+1) + "[" + shape(x.Index, hole, d+1) + "]"
		case *ssa.Index:
			return shape(x.X, hole, d+1) + "[" + shape(x.Index, hole, d+1) + "]"
		case *ssa.FieldAddr:
			return shape(x.X, hole, d+1) + "." + fieldName(x.X.Type(), x.Field)
		case *ssa.Field:
			return shape(x.X, hole, d+1) + "." + fieldName(x.X.Type(), x.Field)
		case *ssa.Extract:
			return shape(x.Tuple, hole, d+1) + "#" + string(rune('0'+x.Index))
		case *ssa.MakeInterface:
			return shape(x.X, hole, d+1)
		case *ssa.ChangeType:
			return shape(x.X, hole, d+1)
		case *ssa.Convert:
			return "conv(" + shape(x.X, hole, d+1) + ")"
		case *ssa.Lookup:
			return shape(x.X, hole, d+1) + "[" + shape(x.Index, hole, d+1) + "]"
		case *ssa.Slice:
			return "slice(" + shape(x.X, hole, d+1) + ")"
		}
		return "?" + v.Name()
	}
	uses := func(v ssa.Value, prm *ssa.Parameter) bool { return dependsOnValue(v, prm, 14) }
	for _, blk := range cmp.Blocks {
		for _, in := range blk.Instrs {
			bo, ok := in.(*ssa.BinOp)
			if !ok {
				continue
			}
			switch bo.Op {
			case token.LSS, token.GTR, token.LEQ, token.GEQ:
			default:
				continue
			}
			var sx, sy string
			switch {
			case uses(bo.X, a) && !uses(bo.X, b) && uses(bo.Y, b) && !uses(bo.Y, a):
				sx, sy = shape(bo.X, a, 0), shape(bo.Y, b, 0)
			case uses(bo.X, b) && !uses(bo.X, a) && uses(bo.Y, a) && !uses(bo.Y, b):
				sx, sy = shape(bo.X, b, 0), shape(bo.Y, a, 0)
			default:
				continue
			}
			if strings.Contains(sx, "?") || strings.Contains(sy, "?") || strings.Contains(sx, "…") {
				continue
			}
			if sx != sy {
				return "the two operands compared at " + p.IPos(bo) + " are not the same function of their elements (" + shortPkg(sx) + " vs " + shortPkg(sy) + ")"
			}
		}
	}
	return ""
}
