package main

import (
	"fmt"
	"go/constant"
	"go/token"
	"go/types"
	"strings"

	"golang.org/x/tools/go/ssa"
)

// C07 — One ObjectSet per template, with unique, increasing revision numbers.

func init() {
	register(&Property{
		ID: "C07",
		Explanation: "Decides, on every path of the current source, the structural core of C07: (R1) every client.Create of an ObjectSet is reachable only through " +
			"sub-reconciler invocations that lie behind a loop testing GetRevision()!=0 of every listed ObjectSet; (R2) the 'current' ObjectSet handed to the " +
			"sub-reconcilers is nil or the last element of the revision-sorted list under hash-annotation == status.templateHash, and whenever it is nil the " +
			"'previous' list is the whole list; the list is sorted ascending by GetRevision(); (R3) the Create is guarded by current==nil and a non-empty template, " +
			"and the created object carries the deployment's template spec, the previous list it was given, a name and hash annotation derived from " +
			"status.templateHash and a controller reference to the deployment; (R4) after a failed Create every nil-error return either bumped the collision " +
			"counter by one or is guarded by not-archived, revision>=latest, own controller UID and DeepEqual specs of the conflicting ObjectSet read by name; " +
			"(R5) status.templateHash is ComputeFNV32Hash(template, collisionCount) of the same deployment, the collision count is written into the hasher after " +
			"the (resetting) object hash, the spew printer sorts map keys, and no clock/randomness/environment call is reachable; (R6) ObjectSet revisions are " +
			"set only when 0, to 1 without previous revisions, else to (running maximum over a complete loop over GetPrevious(), each fetched by name)+1, and not " +
			"while a previous revision reports 0.",
		NotDecided: []string{
			"'exactly one' across concurrent controller instances and across API errors between Create and the status update (history property)",
			"FNV32 hash collisions between different templates (value level; the collision path is what R4 checks)",
			"that the label selector of the deployment actually selects the ObjectSets it created (user input)",
			"cache staleness beyond the create-not-yet-visible window handled by the R4 reuse branch",
		},
		Technique: "SSA guard-dominance dataflow + value-identity classes + joint per-edge phi expansion + range-loop exhaustion + return classification + bounded helper descent",
		Rules: []Rule{
			{ID: "C07.R1", Min: 2, Run: c07r1, Statement: "no ObjectSet is created while a listed ObjectSet reports revision 0: every Create of an ObjectSet is reachable only via sub-reconciler invocations that follow a complete loop over the listed ObjectSets which leaves on GetRevision()==0"},
			{ID: "C07.R2", Min: 2, Run: c07r2, Statement: "the current ObjectSet handed to the sub-reconcilers is nil or the newest (last of the revision-sorted list) under hash annotation == status.templateHash; when it is nil the previous list is the whole list; the list is sorted ascending by revision"},
			{ID: "C07.R3", Min: 6, Run: c07r3, Statement: "an ObjectSet is created only without a current one and with a non-empty template; its spec is the deployment's template spec, its previous list the list handed in, name and hash annotation derive from status.templateHash, controller is the deployment"},
			{ID: "C07.R4", Min: 2, Run: c07r4, Statement: "after a name clash the existing ObjectSet is reused only if not archived, revision >= latest previous, controlled by this deployment and spec-equal; every other nil-error path bumps status.collisionCount by one"},
			{ID: "C07.R5", Min: 4, Run: c07r5, Statement: "status.templateHash is a deterministic function of exactly the template and the collision count"},
			{ID: "C07.R6", Min: 2, Run: c07r6, Statement: "an ObjectSet's revision is set only when it is 0: to 1 without previous revisions, else to max(previous)+1 over all previous revisions, and not while a previous revision is still 0"},
		},
	})
}

// ---------------------------------------------------------------------------------------------
// shared selectors

func c07ObjectSetCreates(p *Program) []WriterSite {
	var out []WriterSite
	for _, ws := range allWriterSites(p.productFuncs()) {
		if ws.Verb != "Create" {
			continue
		}
		if _, ok := rvObjectSetWriterAcc(ws); ok {
			out = append(out, ws)
		}
	}
	return out
}

// c07InvocationList: the list the (current, previous) arguments of a sub-reconciler invocation are
// cut from: every non-nil alternative of `previous` is S or a sub-slice of S.
func (p *Program) c07InvocationList(call Call) (ssa.Value, string) {
	args := callArgs(call.Common)
	var s ssa.Value
	for _, v := range p.rvValuesX(args[2]) {
		v = stripConv(v)
		if isNilConst(v) {
			continue
		}
		if sl, ok := v.(*ssa.Slice); ok {
			// the list that is cut, resolved to where it is produced (the selection of current /
			// previous may live in an extracted helper that receives the list as a parameter)
			v = stripConv(sl.X)
			if xs := p.rvValuesX(v); len(xs) == 1 {
				v = stripConv(xs[0])
			}
		}
		if s == nil {
			s = v
		} else if !p.sameValue(s, v) {
			return nil, "the previous-revisions argument is cut from more than one list"
		}
	}
	if s == nil {
		return nil, "the previous-revisions argument is never a list"
	}
	return s, ""
}

// c07DelayLoopBefore: every path to site (within its function) passes a complete revision-0 delay
// loop over `list` (any ObjectSet list when list is nil).
func (p *Program) c07DelayLoopBefore(site ssa.Instruction, list ssa.Value) (bool, string) {
	fn := site.Parent()
	var whys []string
	why := "no loop over the listed ObjectSets precedes it"
	setWhy := func(w string) {
		whys = append(whys, w)
		why = strings.Join(rvDedup(whys), " / ")
	}
	for _, l := range rvRangeLoops(p, fn) {
		if !rvIsAccessorSlice(l.Slice.Type()) {
			continue
		}
		at := " (loop at " + p.IPos(l.L.Head.Instrs[len(l.L.Head.Instrs)-1]) + ")"
		if list != nil && !p.sameValue(l.Slice, list) {
			setWhy("a loop over a different list precedes it" + at)
			continue
		}
		if ok, w := l.onlyByExhaustion(site); !ok {
			setWhy(w + at)
			continue
		}
		l := l
		tb, w := l.everyIterationGuard(site, func(cond ssa.Value, _ *ssa.BasicBlock) (bool, bool) {
			x, trueMeansZero, ok := rvZeroTest(cond)
			if !ok {
				return false, false
			}
			recv, _, ok := rvMethodOn(x, "GetRevision")
			if !ok || !l.isElem(p, recv) {
				return false, false
			}
			return trueMeansZero, true
		})
		if tb != nil {
			return true, "delay loop over " + p.describe(l.Slice) + " tests GetRevision()==0 of every element at " + p.IPos(tb.Instrs[len(tb.Instrs)-1])
		}
		setWhy(w + at)
	}
	return false, why
}

// c07Delayed: every path to site passes a complete revision-0 delay loop over `list` (any
// ObjectSet list when list is nil), in the site's function or, bounded, in every caller.
func (p *Program) c07Delayed(site ssa.Instruction, list ssa.Value, depth int) (bool, string) {
	fn := site.Parent()
	ok, why := p.c07DelayLoopBefore(site, list)
	if ok {
		return true, why
	}
	// the delay loop may have been extracted into a boolean helper (`if anyUnset(list) { return }`):
	// the site is guarded by the helper's result, and every return of the helper that produces this
	// result lies behind a complete delay loop over the helper's list parameter
	for _, f := range p.FactsAtX(site.Block()) {
		call, isCall := stripConv(f.Cond).(*ssa.Call)
		if !isCall {
			continue
		}
		h := staticCallee(call.Common())
		if h == nil || !p.inlinable(h) || h == fn || h.Signature.Results().Len() != 1 {
			continue
		}
		var prm *ssa.Parameter
		for i, a := range call.Common().Args {
			if i < len(h.Params) && rvIsAccessorSlice(a.Type()) && (list == nil || p.sameValue(a, list)) {
				prm = h.Params[i]
			}
		}
		if prm == nil {
			continue
		}
		n, good := 0, true
		note := ""
		for _, rc := range p.returnCases(h) {
			if h.Recover != nil && rc.Ret.Block() == h.Recover {
				continue
			}
			if len(rc.Results) != 1 || rc.Results[0] == nil {
				good = false
				break
			}
			cb, isC := constBool(rc.Results[0])
			if !isC {
				good = false
				break
			}
			if cb != f.Pol {
				continue
			}
			n++
			okl, w := p.c07DelayLoopBefore(rc.Ret, prm)
			if !okl {
				good = false
				break
			}
			note = w
		}
		if good && n > 0 {
			return true, "guarded by " + p.describeFact(f) + ": " + note
		}
	}
	// the delay loop may be spelled with the standard library's search functions
	// (`if slices.ContainsFunc(list, func(os) bool { return os.GetRevision() == 0 }) { return }`,
	// `if slices.IndexFunc(list, …) >= 0 { return }`): the site is reached only when the search
	// examined every element and accepted none, and the predicate rejects an element only when its
	// revision is not 0.
	for _, f := range p.FactsAtX(site.Block()) {
		sl, pred, isSearch := rvSearchNotFound(f)
		if !isSearch || !rvIsAccessorSlice(sl.Type()) {
			continue
		}
		if list != nil && !p.sameValue(sl, list) {
			why += " / a search over a different list precedes it"
			continue
		}
		okp, w := p.rvPredRejectsOnly(pred, func(pf Fact, elem ssa.Value) bool {
			x, trueMeansZero, okz := rvZeroTest(pf.Cond)
			if !okz || trueMeansZero == pf.Pol {
				return false
			}
			recv, _, okm := rvMethodOn(x, "GetRevision")
			return okm && stripConv(recv) == elem
		})
		if okp {
			return true, "guarded by " + p.describeFact(f) + ": the search over " + p.describe(sl) + " rejects an element only when its GetRevision() != 0"
		}
		why += " / search predicate " + shortFuncID(pred) + ": " + w
	}
	if depth <= 0 {
		return false, why + " in " + shortFuncID(fn)
	}
	if fn.Parent() != nil {
		for _, b := range fn.Parent().Blocks {
			for _, in := range b.Instrs {
				if mc, ok := in.(*ssa.MakeClosure); ok && mc.Fn == ssa.Value(fn) {
					return p.c07Delayed(mc, nil, depth-1)
				}
			}
		}
		return false, "closure creation site not found"
	}
	var callers []Call
	extracted := p.inlinable(fn)
	if fn.Signature.Recv() != nil && rvIsSubReconcilerSig(fn.Signature) && !extracted {
		// reachable through interface dispatch from every invocation with this signature
		for _, c := range rvSubReconcilerCalls(p, p.productFuncs()) {
			if c.Common.IsInvoke() || staticCallee(c.Common) == fn {
				callers = append(callers, c)
			}
		}
	} else {
		if p.addressTaken(fn) {
			return false, why + " in " + shortFuncID(fn) + " whose address is taken"
		}
		callers = p.callersOf(fn)
	}
	if len(callers) == 0 {
		return false, why + " in " + shortFuncID(fn) + " and it has no resolvable callers"
	}
	var notes []string
	for _, c := range callers {
		var lst ssa.Value
		if rvIsSubReconcilerSig(rvCallSig(c.Common)) && !extracted {
			lst, _ = p.c07InvocationList(c)
		} else if extracted {
			// an extracted helper is part of its caller: the same list must have been tested there
			// (value identity crosses the boundary, see Program.key)
			lst = list
		}
		ok, w := p.c07Delayed(c.Instr, lst, depth-1)
		if !ok {
			return false, "caller " + shortFuncID(c.Fn) + ": " + w
		}
		notes = append(notes, "via "+shortFuncID(c.Fn)+": "+w)
	}
	return true, strings.Join(notes, "; ")
}

func c07r1(c *Ctx) {
	p := c.P
	creates := c07ObjectSetCreates(p)
	if len(creates) == 0 {
		c.AnchorLost("client.Create of an ObjectSet accessor's ClientObject()")
	}
	for _, ws := range creates {
		o := c.Ob(ws.Call.Fn, "Create-ObjectSet", ws.Call.Instr, c.rule.Statement)
		o.Require("every path to the Create passes a loop over all listed ObjectSets that leaves when GetRevision()==0")
		ok, why := p.c07Delayed(ws.Call.Instr, nil, 6)
		if ok {
			o.OK(why)
		} else {
			o.Fail("ObjectSet can be created while a listed ObjectSet has not reported its revision: %s", why)
		}
	}
	for _, call := range rvSubReconcilerCalls(p, p.FuncsIn(pkgObjDeploy)) {
		o := c.Ob(call.Fn, "subreconciler-invocation", call.Instr, c.rule.Statement)
		lst, why := p.c07InvocationList(call)
		if lst == nil {
			o.Unknown("%s", why)
			continue
		}
		ok, why := p.c07Delayed(call.Instr, lst, 4)
		if ok {
			o.OK(why)
		} else {
			o.Fail("sub-reconcilers (which create ObjectSets) run while a listed ObjectSet has not reported its revision: %s", why)
		}
	}
}

// ---------------------------------------------------------------------------------------------
// R2

// c07HashAnnotationKey resolves the hash annotation constant of the objectdeployments package.
func c07HashAnnotationKey(c *Ctx) (string, bool) {
	pk := c.P.ByPath[pkgObjDeploy]
	if pk == nil || pk.Types == nil {
		c.AnchorLost(pkgObjDeploy)
		return "", false
	}
	obj, _ := pk.Types.Scope().Lookup("ObjectSetHashAnnotation").(*types.Const)
	if obj == nil || obj.Val().Kind() != constant.String {
		c.AnchorLost(pkgObjDeploy + ".ObjectSetHashAnnotation")
		return "", false
	}
	return constant.StringVal(obj.Val()), true
}

// c07HashMatchFact: the facts establish annotations(cur)[hashKey] == <deployment>.GetStatusTemplateHash().
func (p *Program) c07HashMatchFact(fs []Fact, cur ssa.Value, hashKey string) bool {
	isAnnoLookup := func(v ssa.Value) bool {
		v = stripConv(v)
		if ex, ok := v.(*ssa.Extract); ok && ex.Index == 0 {
			v = ex.Tuple
		}
		lk, ok := v.(*ssa.Lookup)
		if !ok || !isStringConst(lk.Index, hashKey) {
			return false
		}
		obj, _, ok := rvMethodOn(lk.X, "GetAnnotations")
		if !ok {
			return false
		}
		acc, _, ok := rvMethodOn(obj, "ClientObject")
		return ok && p.sameValue(acc, cur)
	}
	isStatusHash := func(v ssa.Value) bool {
		recv, _, ok := rvMethodOn(v, "GetStatusTemplateHash")
		return ok && rvIsDeploymentAccessor(stripConv(recv).Type())
	}
	for _, f := range fs {
		b, ok := f.Cond.(*ssa.BinOp)
		if !ok {
			continue
		}
		if !(b.Op == token.EQL && f.Pol) && !(b.Op == token.NEQ && !f.Pol) {
			continue
		}
		if (isAnnoLookup(b.X) && isStatusHash(b.Y)) || (isAnnoLookup(b.Y) && isStatusHash(b.X)) {
			return true
		}
	}
	return false
}

func c07r2(c *Ctx) {
	p := c.P
	hashKey, ok := c07HashAnnotationKey(c)
	if !ok {
		return
	}
	calls := rvSubReconcilerCalls(p, p.FuncsIn(pkgObjDeploy))
	if len(calls) == 0 {
		c.AnchorLost("invocation of a sub-reconciler (ctx, ObjectSetAccessor, []ObjectSetAccessor, ObjectDeploymentAccessor)")
	}
	lists := map[string]ssa.Value{}
	var listFns []*ssa.Function
	for _, call := range calls {
		fn := call.Fn
		o := c.Ob(fn, "current-selection", call.Instr, c.rule.Statement)
		o.Require("current is nil, or list[len(list)-1] under annotations[hash]==GetStatusTemplateHash()", "current nil ⇒ previous ≡ whole list")
		s, why := p.c07InvocationList(call)
		if s == nil {
			o.Unknown("%s", why)
			continue
		}
		args := callArgs(call.Common)
		cases := p.rvJointCases(call.Instr, []ssa.Value{args[1], args[2]})
		if len(cases) == 0 {
			o.Unknown("no feasible (current, previous) combination found")
			continue
		}
		var problems []string
		unknown := ""
		nNil, nLast := 0, 0
		for _, cs := range cases {
			cur, prev := stripConv(cs.Vals[0]), stripConv(cs.Vals[1])
			if isNilConst(cur) {
				nNil++
				if !p.sameValue(prev, s) {
					problems = append(problems, fmt.Sprintf("with no current ObjectSet the previous list is %s, not the whole list %s (an existing ObjectSet would be missing from the new revision's previous list)", p.describe(prev), p.describe(s)))
				}
				continue
			}
			if _, isPhi := cur.(*ssa.Phi); isPhi {
				unknown = "current ObjectSet value could not be resolved: " + rvShort(p, cur)
				continue
			}
			ia := rvElemAddr(cur)
			if ia == nil {
				unknown = "current ObjectSet value " + p.describe(cur) + " is neither nil nor a list element"
				continue
			}
			if !p.sameValue(ia.X, s) || !p.rvIsLastIndexOf(ia.Index, ia.X) {
				problems = append(problems, fmt.Sprintf("current ObjectSet is %s, not the last (newest) element of %s", p.describe(cur), p.describe(s)))
				continue
			}
			if !p.c07HashMatchFact(cs.Facts, cur, hashKey) {
				problems = append(problems, "the newest ObjectSet is taken as current without annotations["+hashKey+"] == GetStatusTemplateHash() being established")
				continue
			}
			nLast++
		}
		if len(problems) == 0 && unknown == "" && (nNil == 0 || nLast == 0) {
			unknown = fmt.Sprintf("expected both a 'no current' and a 'newest is current' case, found %d/%d", nNil, nLast)
		}
		if len(problems) > 0 {
			o.Fail("%s", strings.Join(rvDedup(problems), "; "))
		} else if unknown != "" {
			o.Unknown("%s", unknown)
		} else {
			o.OK(fmt.Sprintf("%d feasible (current, previous) cases over list %s", len(cases), p.describe(s)))
		}
		k := p.key(s)
		if _, seen := lists[k]; !seen {
			lists[k] = s
			lfn := fn
			if in, isInstr := stripConv(s).(ssa.Instruction); isInstr && in.Parent() != nil {
				lfn = in.Parent() // the function that obtains the list (the invocation may sit in an extracted helper)
			}
			listFns = append(listFns, lfn)
		}
	}
	// the list is sorted ascending by revision
	i := 0
	for _, s := range lists {
		fn := listFns[i]
		i++
		o := c.Ob(fn, "list-sorted-by-revision", nil, "the list of ObjectSets is sorted ascending by GetRevision() before 'newest' is taken")
		producers, why := p.c07ListProducers(fn, s)
		if len(producers) == 0 {
			o.Unknown("cannot resolve where the list comes from: %s", why)
			continue
		}
		var problems, notes []string
		for _, g := range producers {
			c.Visit(g)
			for _, rc := range p.returnCases(g) {
				if len(rc.Results) == 0 {
					continue
				}
				v := rc.Results[0]
				if v == nil || isNilConst(stripConv(v)) {
					continue
				}
				found := ""
				sorted := p.mustPrecede(rc.Ret, func(in ssa.Instruction) bool {
					ok, note := p.rvSortAscending(in, v)
					if ok {
						found = note
					}
					return ok
				})
				if !sorted {
					problems = append(problems, fmt.Sprintf("%s returns %s at %s without sorting it ascending by revision", shortFuncID(g), p.describe(v), p.IPos(rc.Ret)))
				} else {
					notes = append(notes, shortFuncID(g)+": "+found)
				}
			}
		}
		if len(problems) > 0 {
			o.Fail("%s", strings.Join(problems, "; "))
		} else if len(notes) == 0 {
			o.Unknown("list producers return no list")
		} else {
			o.OK(notes...)
		}
	}
}

func rvDedup(in []string) []string {
	seen := map[string]bool{}
	var out []string
	for _, s := range in {
		if !seen[s] {
			seen[s] = true
			out = append(out, s)
		}
	}
	return out
}

// c07ListProducers resolves the function(s) whose first result is the list s in fn: a static
// callee, or a func-typed struct field whose every assignment in the package is a resolvable function.
func (p *Program) c07ListProducers(fn *ssa.Function, s ssa.Value) ([]*ssa.Function, string) {
	call, idx := asCall(s)
	if call == nil || idx > 0 {
		return nil, "list is not a call result"
	}
	if f := staticCallee(call.Common()); f != nil {
		if f.Blocks == nil {
			return nil, "callee has no body"
		}
		return []*ssa.Function{f}, ""
	}
	ld, ok := call.Common().Value.(*ssa.UnOp)
	if !ok || ld.Op != token.MUL {
		return nil, "callee is neither static nor a struct field"
	}
	fa, ok := ld.X.(*ssa.FieldAddr)
	if !ok {
		return nil, "callee is neither static nor a struct field"
	}
	owner := namedTypeString(fa.X.Type())
	field := fieldName(fa.X.Type(), fa.Field)
	var out []*ssa.Function
	for _, g := range p.FuncsIn(funcPkgPath(fn)) {
		for _, b := range g.Blocks {
			for _, in := range b.Instrs {
				st, ok := in.(*ssa.Store)
				if !ok {
					continue
				}
				sfa, ok := st.Addr.(*ssa.FieldAddr)
				if !ok || namedTypeString(sfa.X.Type()) != owner || fieldName(sfa.X.Type(), sfa.Field) != field {
					continue
				}
				target := p.rvFuncOfValue(st.Val)
				if target == nil || target.Blocks == nil {
					return nil, "field " + field + " is assigned a function value that cannot be resolved at " + p.IPos(st)
				}
				out = append(out, target)
			}
		}
	}
	if len(out) == 0 {
		return nil, "no assignment of field " + field + " found"
	}
	return out, ""
}

// ---------------------------------------------------------------------------------------------
// R3

// rvFieldPath strips field selections (and loads through whole-value local copies) from v.
func rvFieldPath(v ssa.Value) (root ssa.Value, path []string) {
	for i := 0; i < 10; i++ {
		v = stripConv(v)
		switch x := v.(type) {
		case *ssa.Field:
			path = append([]string{fieldName(x.X.Type(), x.Field)}, path...)
			v = x.X
			continue
		case *ssa.FieldAddr:
			path = append([]string{fieldName(x.X.Type(), x.Field)}, path...)
			v = x.X
			continue
		case *ssa.UnOp:
			if x.Op == token.MUL {
				switch a := x.X.(type) {
				case *ssa.FieldAddr:
					path = append([]string{fieldName(a.X.Type(), a.Field)}, path...)
					v = a.X
					continue
				case *ssa.Alloc:
					var whole []*ssa.Store
					for _, r := range referrersOf(a) {
						if st, ok := r.(*ssa.Store); ok && st.Addr == ssa.Value(a) {
							whole = append(whole, st)
						}
					}
					if len(whole) == 1 {
						v = whole[0].Val
						continue
					}
				}
			}
		case *ssa.Alloc:
			var whole []*ssa.Store
			for _, r := range referrersOf(x) {
				if st, ok := r.(*ssa.Store); ok && st.Addr == ssa.Value(x) {
					whole = append(whole, st)
				}
			}
			if len(whole) == 1 {
				v = whole[0].Val
				continue
			}
		}
		break
	}
	return v, path
}

// c07IsTemplateSpecOf: v ≡ d.GetObjectSetTemplate().Spec<suffix> or d.GetTemplateSpec()<suffix>.
func (p *Program) c07IsTemplateSpecOf(v, d ssa.Value, suffix ...string) bool {
	root, path := rvFieldPath(v)
	want := strings.Join(suffix, ".")
	if recv, _, ok := rvMethodOn(root, "GetObjectSetTemplate"); ok && p.sameValue(recv, d) {
		full := "Spec"
		if want != "" {
			full += "." + want
		}
		return strings.Join(path, ".") == full
	}
	if recv, _, ok := rvMethodOn(root, "GetTemplateSpec"); ok && p.sameValue(recv, d) {
		return strings.Join(path, ".") == want
	}
	return false
}

func rvConcatLeaves(v ssa.Value) []ssa.Value {
	v = stripConv(v)
	if b, ok := v.(*ssa.BinOp); ok && b.Op == token.ADD {
		return append(rvConcatLeaves(b.X), rvConcatLeaves(b.Y)...)
	}
	return []ssa.Value{v}
}

// c07Builder describes where the created ObjectSet accessor is populated.
type c07Builder struct {
	PrevMismatch string // the helper is not handed the sub-reconciler's previous list
	Fn           *ssa.Function
	Obj          ssa.Value       // the accessor inside Fn
	Before       ssa.Instruction // setters must have executed before this instruction
	Dep          ssa.Value       // the deployment accessor inside Fn
	Prev         ssa.Value       // the previous list inside Fn
}

func (p *Program) c07Builders(fn *ssa.Function, site ssa.Instruction, acc ssa.Value) ([]c07Builder, string) {
	dep := rvParamOfType(fn, rvIsDeploymentAccessor)
	prev := rvParamOfType(fn, rvIsAccessorSlice)
	if dep == nil || prev == nil {
		return nil, "the creating function has no unique deployment / previous-list parameter"
	}
	call, idx := asCall(acc)
	if call != nil && idx <= 0 {
		if h := staticCallee(call.Common()); h != nil && h.Blocks != nil && funcPkgPath(h) == funcPkgPath(fn) {
			hd := rvParamOfType(h, rvIsDeploymentAccessor)
			hp := rvParamOfType(h, rvIsAccessorSlice)
			if hd == nil || hp == nil {
				return nil, "helper " + shortFuncID(h) + " has no unique deployment / previous-list parameter"
			}
			prevMismatch := ""
			for i, prm := range h.Params {
				arg := stripConv(call.Common().Args[i])
				if prm == hd && arg != ssa.Value(dep) {
					return nil, "helper " + shortFuncID(h) + " is not given the reconciled deployment"
				}
				if prm == hp && arg != ssa.Value(prev) {
					prevMismatch = fmt.Sprintf("helper %s is given %s as previous revisions, not the list handed to the sub-reconciler", shortFuncID(h), p.describe(arg))
				}
			}
			var out []c07Builder
			for _, rc := range p.returnCases(h) {
				if len(rc.Results) < 1 || rc.Results[0] == nil {
					return nil, "helper result cannot be resolved"
				}
				v := stripConv(rc.Results[0])
				if isNilConst(v) {
					continue
				}
				out = append(out, c07Builder{Fn: h, Obj: v, Before: rc.Ret, Dep: hd, Prev: hp, PrevMismatch: prevMismatch})
			}
			if len(out) == 0 {
				return nil, "helper never returns an object"
			}
			return out, ""
		}
	}
	return []c07Builder{{Fn: fn, Obj: acc, Before: site, Dep: dep, Prev: prev}}, ""
}

func c07r3(c *Ctx) {
	p := c.P
	hashKey, ok := c07HashAnnotationKey(c)
	if !ok {
		return
	}
	creates := c07ObjectSetCreates(p)
	if len(creates) == 0 {
		c.AnchorLost("client.Create of an ObjectSet accessor's ClientObject()")
	}
	for _, ws := range creates {
		fn := ws.Call.Fn
		site := ws.Call.Instr
		acc, _ := rvObjectSetWriterAcc(ws)

		// guard
		og := c.Ob(fn, "Create-guard", site, "Create only when there is no current ObjectSet and the template has phases")
		og.Require("current == nil", "len(template.Spec.Phases) != 0")
		okg, why := p.guardedInterproc(site, func(fs []Fact) bool {
			curNil, phases := false, false
			for _, f := range fs {
				if y, trueMeansNonNil, ok := errNilTest(f.Cond); ok {
					if prm, isP := stripConv(y).(*ssa.Parameter); isP && rvIsObjectSetAccessor(prm.Type()) && f.Pol != trueMeansNonNil {
						curNil = true
					}
				}
				if x, nonEmptyWhenTrue, ok := lenCmp(f.Cond); ok && f.Pol == nonEmptyWhenTrue {
					root, path := rvFieldPath(x)
					_ = path
					for _, m := range []string{"GetObjectSetTemplate", "GetTemplateSpec"} {
						if recv, _, ok := rvMethodOn(root, m); ok {
							if prm, isP := stripConv(recv).(*ssa.Parameter); isP && rvIsDeploymentAccessor(prm.Type()) && p.c07IsTemplateSpecOf(x, recv, "Phases") {
								phases = true
							}
						}
					}
				}
			}
			return curNil && phases
		}, 2)
		if okg {
			og.OK(why)
		} else {
			og.Fail("Create of an ObjectSet is not dominated by (current ObjectSet == nil) and (len(template phases) != 0): %s", why)
		}

		builders, bwhy := p.c07Builders(fn, site, acc)
		mk := func(name, stmt string) *Obligation { return c.Ob(fn, "Create-"+name, site, stmt) }
		oSpec := mk("spec", "the created ObjectSet's template spec is the deployment's template spec")
		oPrev := mk("previous", "the created ObjectSet's previous list is the list handed to the sub-reconciler")
		oName := mk("name", "the created ObjectSet's name contains the deployment name and status.templateHash")
		oAnno := mk("hash-annotation", "the created ObjectSet carries annotations["+hashKey+"] = status.templateHash")
		oCtrl := mk("controller-ref", "the created ObjectSet is controlled by the deployment")
		all := []*Obligation{oSpec, oPrev, oName, oAnno, oCtrl}
		if builders == nil {
			for _, o := range all {
				o.Unknown("%s", bwhy)
			}
			continue
		}
		var pSpec, pPrev, pName, pAnno, pCtrl []string
		for _, b := range builders {
			c.Visit(b.Fn)
			pSpec = append(pSpec, p.c07CheckSetter(b, "SetTemplateSpec", func(arg ssa.Value) bool { return p.c07IsTemplateSpecOf(arg, b.Dep) }, "<deployment>.GetObjectSetTemplate().Spec")...)
			for _, cc := range callsIn(b.Fn) {
				if calleeName(cc.Common) == "SetPhases" && p.sameValue(callRecv(cc.Common), b.Obj) {
					pSpec = append(pSpec, "phases of the new ObjectSet are overwritten at "+p.IPos(cc.Instr))
				}
			}
			if b.PrevMismatch != "" {
				pPrev = append(pPrev, b.PrevMismatch)
			}
			pPrev = append(pPrev, p.c07CheckSetter(b, "SetPreviousRevisions", func(arg ssa.Value) bool { return stripConv(arg) == b.Prev }, "the previous-revisions parameter")...)
			pName = append(pName, p.c07CheckName(b)...)
			pAnno = append(pAnno, p.c07CheckAnnotation(b, hashKey)...)
			pCtrl = append(pCtrl, p.c07CheckControllerRef(b)...)
		}
		for i, probs := range [][]string{pSpec, pPrev, pName, pAnno, pCtrl} {
			if len(probs) > 0 {
				all[i].Fail("%s", strings.Join(rvDedup(probs), "; "))
			} else {
				all[i].OK("populated in " + shortFuncID(builders[0].Fn))
			}
		}
	}
}

// c07CheckSetter: a call of `setter` on the built object precedes b.Before, and every such call has
// an acceptable argument.
func (p *Program) c07CheckSetter(b c07Builder, setter string, argOK func(ssa.Value) bool, want string) (problems []string) {
	found := false
	for _, cc := range callsIn(b.Fn) {
		if calleeName(cc.Common) != setter || !p.sameValue(callRecv(cc.Common), b.Obj) {
			continue
		}
		args := callArgs(cc.Common)
		if len(args) != 1 {
			continue
		}
		if !argOK(args[0]) {
			problems = append(problems, fmt.Sprintf("%s(%s) at %s: argument is not %s", setter, p.describe(args[0]), p.IPos(cc.Instr), want))
			continue
		}
		in := cc.Instr
		if p.mustPrecede(b.Before, func(x ssa.Instruction) bool { return x == ssa.Instruction(in) }) {
			found = true
		}
	}
	if !found && len(problems) == 0 {
		problems = append(problems, fmt.Sprintf("no %s(%s) on the new ObjectSet on every path before %s", setter, want, p.IPos(b.Before)))
	}
	return problems
}

func (p *Program) c07IsClientObjectOf(v, acc ssa.Value) bool {
	recv, _, ok := rvMethodOn(v, "ClientObject")
	return ok && p.sameValue(recv, acc)
}

func (p *Program) c07CheckName(b c07Builder) (problems []string) {
	found := false
	for _, cc := range callsIn(b.Fn) {
		if calleeName(cc.Common) != "SetName" && calleeName(cc.Common) != "SetGenerateName" {
			continue
		}
		if !p.c07IsClientObjectOf(callRecv(cc.Common), b.Obj) {
			continue
		}
		if calleeName(cc.Common) == "SetGenerateName" {
			problems = append(problems, "the new ObjectSet uses a server-generated name (no clash detection per template hash)")
			continue
		}
		hasName, hasHash := false, false
		for _, leaf := range rvConcatLeaves(callArgs(cc.Common)[0]) {
			if recv, _, ok := rvMethodOn(leaf, "GetName"); ok && p.c07IsClientObjectOf(recv, b.Dep) {
				hasName = true
			}
			if recv, _, ok := rvMethodOn(leaf, "GetStatusTemplateHash"); ok && p.sameValue(recv, b.Dep) {
				hasHash = true
			}
		}
		if !hasName || !hasHash {
			problems = append(problems, fmt.Sprintf("SetName(%s) at %s is not composed of the deployment's name and GetStatusTemplateHash()", p.describe(callArgs(cc.Common)[0]), p.IPos(cc.Instr)))
			continue
		}
		in := cc.Instr
		if p.mustPrecede(b.Before, func(x ssa.Instruction) bool { return x == ssa.Instruction(in) }) {
			found = true
		}
	}
	if !found && len(problems) == 0 {
		problems = append(problems, "no SetName(<deployment name> … GetStatusTemplateHash()) on the new ObjectSet before "+p.IPos(b.Before))
	}
	return problems
}

func (p *Program) c07CheckAnnotation(b c07Builder, hashKey string) (problems []string) {
	found := false
	for _, blk := range b.Fn.Blocks {
		for _, in := range blk.Instrs {
			mu, ok := in.(*ssa.MapUpdate)
			if !ok || !isStringConst(mu.Key, hashKey) {
				continue
			}
			obj, _, ok := rvMethodOn(mu.Map, "GetAnnotations")
			if !ok || !p.c07IsClientObjectOf(obj, b.Obj) {
				continue
			}
			if recv, _, ok := rvMethodOn(mu.Value, "GetStatusTemplateHash"); !ok || !p.sameValue(recv, b.Dep) {
				problems = append(problems, fmt.Sprintf("annotations[%s] = %s at %s is not the deployment's GetStatusTemplateHash()", hashKey, p.describe(mu.Value), p.IPos(mu)))
				continue
			}
			if !p.mustPrecede(b.Before, func(x ssa.Instruction) bool { return x == ssa.Instruction(mu) }) {
				continue
			}
			replaced := false
			for _, later := range reachableAfter(mu, func(x ssa.Instruction) bool { return x == b.Before }) {
				if ci, isCall := later.(ssa.CallInstruction); isCall && calleeName(ci.Common()) == "SetAnnotations" && p.c07IsClientObjectOf(callRecv(ci.Common()), b.Obj) {
					replaced = true
					problems = append(problems, "annotations are replaced after the hash annotation was set, at "+p.IPos(later))
				}
			}
			if !replaced {
				found = true
			}
		}
	}
	if !found && len(problems) == 0 {
		problems = append(problems, "no annotations["+hashKey+"] = GetStatusTemplateHash() on the new ObjectSet before "+p.IPos(b.Before))
	}
	return problems
}

func (p *Program) c07CheckControllerRef(b c07Builder) (problems []string) {
	found := false
	for _, cc := range callsIn(b.Fn) {
		if !isCallTo(cc.Common, pkgCtrlUtil+".SetControllerReference") || len(cc.Common.Args) < 2 {
			continue
		}
		if !p.c07IsClientObjectOf(cc.Common.Args[1], b.Obj) {
			continue
		}
		if !p.c07IsClientObjectOf(cc.Common.Args[0], b.Dep) {
			problems = append(problems, fmt.Sprintf("controller of the new ObjectSet is %s, not the deployment, at %s", p.describe(cc.Common.Args[0]), p.IPos(cc.Instr)))
			continue
		}
		call, isCall := cc.Instr.(*ssa.Call)
		if !isCall {
			continue
		}
		in := cc.Instr
		if !p.mustPrecede(b.Before, func(x ssa.Instruction) bool { return x == ssa.Instruction(in) }) {
			continue
		}
		if !p.errOfCallIsNil(p.FactsAt(b.Before.Block()), call) {
			problems = append(problems, "the object is used although SetControllerReference may have failed")
			continue
		}
		found = true
	}
	if !found && len(problems) == 0 {
		problems = append(problems, "no error-checked controllerutil.SetControllerReference(<deployment>, <new ObjectSet>) before "+p.IPos(b.Before))
	}
	return problems
}

// ---------------------------------------------------------------------------------------------
// R4

// c07IsLatestOfPrev: v is the revision of the last element of the previous list (directly or via
// a helper that returns it).
func (p *Program) c07IsLatestOfPrev(v, prev ssa.Value, depth int) bool {
	v = p.rvParamRoot(v) // the value may have been handed to an extracted helper
	if recv, _, ok := rvMethodOn(v, "GetRevision"); ok {
		ia := rvElemAddr(recv)
		return ia != nil && p.sameValue(ia.X, prev) && p.rvIsLastIndexOf(ia.Index, ia.X)
	}
	if depth <= 0 {
		return false
	}
	if ph, ok := stripConv(v).(*ssa.Phi); ok {
		// `latest := 0; if len(prev) > 0 { latest = prev[len(prev)-1].GetRevision() }`
		sawLast := false
		for k, e := range ph.Edges {
			if n, isC := constInt(e); isC {
				if n == 0 && p.emptinessFromFacts(p.FactsOnEdge(ph.Block().Preds[k], ph.Block()), prev) == yesTri {
					continue
				}
				return false
			}
			if !p.c07IsLatestOfPrev(e, prev, depth-1) {
				return false
			}
			sawLast = true
		}
		return sawLast
	}
	call, idx := asCall(v)
	if call == nil || idx > 0 {
		return false
	}
	h := staticCallee(call.Common())
	if h == nil || h.Blocks == nil {
		return false
	}
	var hp *ssa.Parameter
	for i, a := range call.Common().Args {
		if p.sameValue(a, prev) && i < len(h.Params) {
			hp = h.Params[i]
		}
	}
	if hp == nil {
		return false
	}
	sawLast := false
	for _, rc := range p.returnCases(h) {
		if len(rc.Results) != 1 || rc.Results[0] == nil {
			return false
		}
		r := rc.Results[0]
		if n, isC := constInt(r); isC {
			if n == 0 && p.emptinessFromFacts(rc.Facts, hp) == yesTri {
				continue
			}
			return false
		}
		if !p.c07IsLatestOfPrev(r, hp, depth-1) {
			return false
		}
		sawLast = true
	}
	return sawLast
}

func c07r4(c *Ctx) {
	p := c.P
	creates := c07ObjectSetCreates(p)
	if len(creates) == 0 {
		c.AnchorLost("client.Create of an ObjectSet accessor's ClientObject()")
	}
	for _, ws := range creates {
		fn := ws.Call.Fn
		create, ok := ws.Call.Instr.(*ssa.Call)
		if !ok {
			continue
		}
		newAcc, _ := rvObjectSetWriterAcc(ws)
		dep := rvParamOfType(fn, rvIsDeploymentAccessor)
		prev := rvParamOfType(fn, rvIsAccessorSlice)
		after := map[ssa.Instruction]bool{}
		for _, in := range reachableAfter(create, nil) {
			after[in] = true
		}
		isBump := func(in ssa.Instruction) bool {
			ci, ok := in.(ssa.CallInstruction)
			return ok && dep != nil && calleeName(ci.Common()) == "SetStatusCollisionCount" && p.sameValue(callRecv(ci.Common()), dep)
		}
		nReuse, nBump := 0, 0
		for _, rc := range p.returnCases(fn) {
			if !after[rc.Ret] || len(rc.Results) != 2 {
				continue
			}
			// a return behind contradictory facts (`if false { … return }`) never executes: the
			// normaliser's tail duplication copies the statements that follow a merged boolean helper
			// once per helper return, and the copy made for a `return false` keeps the reuse branch as
			// dead code
			if pfDeadByFacts(rc.Facts) {
				continue
			}
			// the reuse test may be materialised in an extracted boolean helper
			rc.Facts = p.xImplied(rc.Facts)
			errRes := rc.Results[1]
			if errRes == nil {
				c.Ob(fn, "return-after-create", rc.Ret, c.rule.Statement).Unknown("error result cannot be resolved")
				continue
			}
			if !isNilConst(stripConv(errRes)) {
				if ec, _ := asCall(errRes); ec != nil && isCallTo(ec.Common(), "fmt.Errorf", "errors.New") {
					continue // error return: retried, nothing reused
				}
				if p.nilnessFromFacts(rc.Facts, errRes) == noTri {
					continue
				}
				c.Ob(fn, "return-after-create", rc.Ret, c.rule.Statement).Unknown("cannot classify the error result %s", p.describe(errRes))
				continue
			}
			if p.errOfCall(rc.Facts, create) == yesTri {
				continue // created
			}
			if p.mustPrecedeX(rc.Ret, isBump) {
				nBump++
				o := c.Ob(fn, "collision-bump", rc.Ret, "a name clash that is not a reuse bumps status.collisionCount by exactly one")
				if why := p.c07CheckBump(fn, rc.Ret, dep); why != "" {
					o.Fail("%s", why)
				} else {
					o.OK("SetStatusCollisionCount(old+1) precedes the return")
				}
				continue
			}
			nReuse++
			o := c.Ob(fn, "reuse-return", rc.Ret, "nil-error return after a failed Create without a collision bump (reuse of the existing ObjectSet)")
			o.Require("conflict read by the new object's key, error-free", "!conflict.IsArchived()", "conflict.GetRevision() >= latest previous revision",
				"controller UID of conflict == deployment UID", "DeepEqual(new.GetTemplateSpec(), conflict.GetTemplateSpec())")
			if dep == nil || prev == nil {
				o.Unknown("creating function has no unique deployment / previous-list parameter")
				continue
			}
			// the conflicting object: read with the new object's key
			var conflict ssa.Value
			unknownKey := ""
			for _, cc := range callsIn(fn) {
				g, isCall := cc.Instr.(*ssa.Call)
				if !isCall || !isReaderGet(cc.Common) {
					continue
				}
				a := callArgs(cc.Common)
				k, _, isCO := rvMethodOn(a[2], "ClientObject")
				if !isCO || !rvIsObjectSetAccessor(stripConv(k).Type()) || !p.errOfCallIsNil(rc.Facts, g) {
					continue
				}
				kc, _ := asCall(a[1])
				if kc == nil || !isCallTo(kc.Common(), pkgClient+".ObjectKeyFromObject") || !p.c07IsClientObjectOf(kc.Common().Args[0], newAcc) {
					unknownKey = "an ObjectSet is read at " + p.IPos(g) + " but its key " + p.describe(a[1]) + " is not recognisably the new ObjectSet's key"
					continue
				}
				conflict = k
			}
			if conflict == nil && unknownKey != "" {
				o.Unknown("%s", unknownKey)
				continue
			}
			if conflict == nil {
				o.Fail("the existing ObjectSet is accepted without an error-free read of it by the new ObjectSet's key")
				continue
			}
			var problems []string
			// a. not archived
			if _, found := p.findFactCall(rc.Facts, false, []string{"method:IsArchived"}, func(cc *ssa.CallCommon) bool { return p.sameValue(callRecv(cc), conflict) }); !found {
				problems = append(problems, "an archived ObjectSet can be reused (no !IsArchived() of the conflicting ObjectSet)")
			}
			// b. revision >= latest
			revOK := false
			for _, f := range rc.Facts {
				rel, ok := rvRelOf(f)
				if !ok {
					continue
				}
				if recv, _, isRev := rvMethodOn(rel.B, "GetRevision"); isRev && p.sameValue(recv, conflict) && p.c07IsLatestOfPrev(rel.A, prev, 2) {
					revOK = true
				}
			}
			if !revOK {
				problems = append(problems, "an older revision can be reused (no conflicting.GetRevision() >= revision of the newest previous ObjectSet), so reverting to an earlier template would not yield a new revision")
			}
			// c. own
			ownOK := false
			for _, f := range rc.Facts {
				b, isBin := f.Cond.(*ssa.BinOp)
				if isBin && ((b.Op == token.EQL && f.Pol) || (b.Op == token.NEQ && !f.Pol)) {
					if (p.c07IsControllerUIDOf(b.X, conflict) && p.c07IsUIDOf(b.Y, dep)) || (p.c07IsControllerUIDOf(b.Y, conflict) && p.c07IsUIDOf(b.X, dep)) {
						ownOK = true
					}
				}
				if call, _ := asCall(f.Cond); call != nil && f.Pol && isCallTo(call.Common(), pkgMetaV1+".IsControlledBy") && len(call.Common().Args) == 2 {
					if p.c07IsClientObjectOf(call.Common().Args[0], conflict) && p.c07IsClientObjectOf(call.Common().Args[1], dep) {
						ownOK = true
					}
				}
			}
			if !ownOK {
				problems = append(problems, "an ObjectSet controlled by someone else can be reused (no controllerRef.UID == deployment UID)")
			}
			// d. equal spec
			eqOK := false
			for _, f := range rc.Facts {
				call, _ := asCall(f.Cond)
				if call == nil || !f.Pol || calleeName(call.Common()) != "DeepEqual" {
					continue
				}
				a := callArgs(call.Common())
				if len(a) != 2 {
					continue
				}
				r0, _, ok0 := rvMethodOn(a[0], "GetTemplateSpec")
				r1, _, ok1 := rvMethodOn(a[1], "GetTemplateSpec")
				if ok0 && ok1 && ((p.sameValue(r0, newAcc) && p.sameValue(r1, conflict)) || (p.sameValue(r1, newAcc) && p.sameValue(r0, conflict))) {
					eqOK = true
				}
			}
			if !eqOK {
				problems = append(problems, "an ObjectSet with a different spec can be reused (no DeepEqual of new and conflicting template spec)")
			}
			if len(problems) > 0 {
				o.Fail("%s", strings.Join(problems, "; "))
			} else {
				o.OK("conflict = " + p.describe(conflict))
			}
		}
		if nReuse == 0 && nBump == 0 {
			c.Ob(fn, "after-create", create, c.rule.Statement).Unknown("no nil-error return after a failed Create was found")
		}
	}
}

func (p *Program) c07IsUIDOf(v, acc ssa.Value) bool {
	recv, _, ok := rvMethodOn(v, "GetUID")
	return ok && p.c07IsClientObjectOf(recv, acc)
}

func (p *Program) c07IsControllerUIDOf(v, acc ssa.Value) bool {
	root, path := rvFieldPath(v)
	if prm, isP := stripConv(root).(*ssa.Parameter); isP {
		// the controller reference was handed to an extracted helper
		r2, p2 := rvFieldPath(p.rvParamRoot(prm))
		root, path = r2, append(p2, path...)
	}
	if strings.Join(path, ".") != "UID" {
		return false
	}
	call, _ := asCall(root)
	if call == nil || !isCallTo(call.Common(), pkgMetaV1+".GetControllerOf", pkgMetaV1+".GetControllerOfNoCopy") || len(call.Common().Args) != 1 {
		return false
	}
	return p.c07IsClientObjectOf(call.Common().Args[0], acc)
}

// c07CheckBump: the SetStatusCollisionCount call that precedes ret is given a pointer whose
// pointee was incremented by one, and the pointer is the old count (or a fresh zero).
func (p *Program) c07CheckBump(fn *ssa.Function, ret ssa.Instruction, dep ssa.Value) string {
	for _, xc := range p.callsInX(fn) {
		cc := xc.Call
		if calleeName(cc.Common) != "SetStatusCollisionCount" || !p.sameValue(callRecv(cc.Common), dep) {
			continue
		}
		fn := cc.Fn // the bump may live in an extracted helper; the pointer arithmetic is local to it
		arg := callArgs(cc.Common)[0]
		// ptr.To(old+1) idiom
		if pc, _ := asCall(arg); pc != nil && isCallTo(pc.Common(), "k8s.io/utils/ptr.To") {
			if add, ok := pc.Common().Args[0].(*ssa.BinOp); ok && add.Op == token.ADD {
				if one, isOne := constInt(add.Y); isOne && one == 1 {
					continue
				}
			}
			return "SetStatusCollisionCount argument is not old+1 at " + p.IPos(cc.Instr)
		}
		ptr := stripConv(arg)
		for _, pv := range p.possibleValues(ptr) {
			pv = stripConv(pv)
			if recv, _, ok := rvMethodOn(pv, "GetStatusCollisionCount"); ok && p.sameValue(recv, dep) {
				continue
			}
			if a, ok := pv.(*ssa.Alloc); ok && a.Heap {
				continue
			}
			return "collision count pointer is " + p.describe(pv) + ", neither the old count nor a fresh zero, at " + p.IPos(cc.Instr)
		}
		inc := func(in ssa.Instruction) bool {
			st, ok := in.(*ssa.Store)
			if !ok || stripConv(st.Addr) != ptr {
				return false
			}
			add, ok := st.Val.(*ssa.BinOp)
			if !ok || add.Op != token.ADD {
				return false
			}
			one, isOne := constInt(add.Y)
			ld, isLd := add.X.(*ssa.UnOp)
			return isOne && one == 1 && isLd && ld.Op == token.MUL && stripConv(ld.X) == ptr
		}
		nInc := 0
		for _, b := range fn.Blocks {
			for _, in := range b.Instrs {
				if st, ok := in.(*ssa.Store); ok && stripConv(st.Addr) == ptr {
					if !inc(in) {
						return "collision count is overwritten with something other than old+1 at " + p.IPos(in)
					}
					nInc++
				}
			}
		}
		if nInc != 1 || !p.mustPrecede(cc.Instr, inc) {
			return "collision count is not incremented exactly once before SetStatusCollisionCount at " + p.IPos(cc.Instr)
		}
	}
	return ""
}

// ---------------------------------------------------------------------------------------------
// R5

func c07NondetSink(id string) bool {
	for _, s := range []string{"time.Now", "time.Since", "time.Until", "os.Getenv", "os.LookupEnv", "os.Environ", "os.Hostname", "os.Getpid", "os.ReadFile", "os.Open"} {
		if id == s {
			return true
		}
	}
	if id == "k8s.io/apimachinery/pkg/util/rand.SafeEncodeString" {
		return false
	}
	for _, s := range []string{"math/rand.", "math/rand/v2.", "crypto/rand.", "github.com/google/uuid.", "k8s.io/apimachinery/pkg/util/uuid.", "k8s.io/apimachinery/pkg/util/rand.", "net.", "net/http."} {
		if strings.HasPrefix(id, s) || strings.Contains(id, "("+s) || strings.Contains(id, "(*"+s) {
			return true
		}
	}
	return false
}

func c07r5(c *Ctx) {
	p := c.P
	var sites []Call
	for _, fn := range p.productFuncs() {
		if funcPkgPath(fn) == pkgAdapters {
			continue
		}
		for _, cc := range callsIn(fn) {
			if calleeName(cc.Common) == "SetStatusTemplateHash" {
				if r := callRecv(cc.Common); r != nil && rvIsDeploymentAccessor(stripConv(r).Type()) {
					sites = append(sites, cc)
				}
			}
		}
	}
	if len(sites) == 0 {
		c.AnchorLost("call of ObjectDeploymentAccessor.SetStatusTemplateHash")
	}
	hashFns := map[*ssa.Function]bool{}
	for _, cc := range sites {
		o := c.Ob(cc.Fn, "hash-inputs", cc.Instr, "status.templateHash = H(deployment.GetObjectSetTemplate(), deployment.GetStatusCollisionCount())")
		dep := callRecv(cc.Common)
		hc, _ := asCall(callArgs(cc.Common)[0])
		if hc == nil || staticCallee(hc.Common()) == nil || len(hc.Common().Args) != 2 {
			o.Unknown("the hash is not the result of a two-argument static hash function: %s", p.describe(callArgs(cc.Common)[0]))
			continue
		}
		var problems []string
		if recv, _, ok := rvMethodOn(hc.Common().Args[0], "GetObjectSetTemplate"); !ok || !p.sameValue(recv, dep) {
			problems = append(problems, "hashed object is "+p.describe(hc.Common().Args[0])+", not the deployment's GetObjectSetTemplate()")
		}
		if recv, _, ok := rvMethodOn(hc.Common().Args[1], "GetStatusCollisionCount"); !ok || !p.sameValue(recv, dep) {
			problems = append(problems, "collision count argument is "+p.describe(hc.Common().Args[1])+", not the deployment's GetStatusCollisionCount()")
		}
		if len(problems) > 0 {
			o.Fail("%s", strings.Join(problems, "; "))
		} else {
			o.OK("hash function " + shortFuncID(staticCallee(hc.Common())))
		}
		hashFns[staticCallee(hc.Common())] = true
	}
	for h := range hashFns {
		c.Visit(h)
		c07CheckHashFunc(c, h)
	}
}

func c07CheckHashFunc(c *Ctx, h *ssa.Function) {
	p := c.P
	o := c.Ob(h, "collision-count-hashed", nil, "the collision count is written into the hasher after the object (whose hashing resets the hasher)")
	if h.Blocks == nil || len(h.Params) != 2 {
		o.Unknown("hash function has no body / unexpected parameters")
		return
	}
	obj, cnt := h.Params[0], h.Params[1]
	var objCall *ssa.Call
	var hasher ssa.Value
	for _, cc := range callsIn(h) {
		call, isCall := cc.Instr.(*ssa.Call)
		if !isCall || staticCallee(cc.Common) == nil || len(cc.Common.Args) != 2 {
			continue
		}
		for i, a := range cc.Common.Args {
			if stripConv(a) == ssa.Value(obj) {
				objCall = call
				hasher = stripConv(cc.Common.Args[1-i])
			}
		}
	}
	if objCall == nil {
		o.Fail("the object to hash is not passed to an object hashing helper")
		return
	}
	// The write of the count may have been moved into an extracted helper (possibly shared with the
	// other hash function): calls are taken from the inlined view and the helper's parameters are
	// interpreted through the chain of calls that leads to them.
	fromCount := func(v ssa.Value, chain []Call) bool {
		for i := 0; i < 4; i++ {
			if cv, ok := v.(*ssa.Convert); ok {
				v = cv.X
				continue
			}
			break
		}
		ld, ok := v.(*ssa.UnOp)
		return ok && ld.Op == token.MUL && p.xcResolve(ld.X, chain) == ssa.Value(cnt)
	}
	ok := false
	why := "no Write of bytes derived from *collisionCount into the hasher"
	for _, xc := range p.callsInX(h) {
		cc := xc.Call
		if calleeName(cc.Common) != "Write" || callRecv(cc.Common) == nil || p.xcResolve(callRecv(cc.Common), xc.Chain) != hasher {
			continue
		}
		data := callArgs(cc.Common)[0]
		filled := false
		for _, fc := range callsIn(cc.Fn) {
			hasData, hasCount := false, false
			for _, a := range fc.Common.Args {
				// the bytes handed to Write include the ones this call fills (the same slice value, or
				// two views `buf[:]` of one array / slice)
				if a == data || c07WriteCoversFill(data, a, fc.Common) {
					hasData = true
				}
				if fromCount(a, xc.Chain) {
					hasCount = true
				}
			}
			in := fc.Instr
			if hasData && hasCount && p.mustPrecede(cc.Instr, func(x ssa.Instruction) bool { return x == in }) {
				filled = true
			}
		}
		if !filled {
			why = "the bytes written at " + p.IPos(cc.Instr) + " are not derived from *collisionCount"
			continue
		}
		if !p.xcMustPrecede(xc, func(x ssa.Instruction) bool { return x == ssa.Instruction(objCall) }) {
			why = "the collision count is written at " + p.IPos(cc.Instr) + " before the object is hashed; hashing the object resets the hasher, so the count is lost"
			continue
		}
		if p.xcNilness(xc, cnt) != noTri {
			why = "the write of the collision count is not under collisionCount != nil"
			continue
		}
		// ... and under nothing else: every non-nil count must reach the hasher
		extra := ""
		onlyNilTests := func(in ssa.Instruction, chain []Call) {
			for _, f := range p.FactsAt(in.Block()) {
				if y, _, isNilTest := errNilTest(f.Cond); isNilTest && p.xcResolve(y, chain) == ssa.Value(cnt) {
					continue
				}
				extra = p.describeFact(f)
			}
		}
		onlyNilTests(cc.Instr, xc.Chain)
		for i := range xc.Chain {
			onlyNilTests(xc.Chain[i].Instr, xc.Chain[:i])
		}
		if extra != "" {
			why = "the write of the collision count at " + p.IPos(cc.Instr) + " is skipped for some non-nil counts (additionally guarded by " + extra + ")"
			continue
		}
		ok = true
	}
	if ok {
		o.OK("object hashed by " + p.describe(objCall) + ", then *collisionCount written")
	} else {
		o.Fail("bumping the collision count would not change the hash: %s", why)
	}

	// functions statically reachable inside the workspace
	reach := []*ssa.Function{h}
	seen := map[*ssa.Function]bool{h: true}
	for i := 0; i < len(reach); i++ {
		for _, cc := range callsIn(reach[i]) {
			if f := staticCallee(cc.Common); f != nil && f.Blocks != nil && !seen[f] {
				if _, inWs := p.ByPath[funcPkgPath(f)]; inWs {
					seen[f] = true
					reach = append(reach, f)
				}
			}
		}
	}
	os := c.Ob(h, "printer-sorts-map-keys", nil, "the spew printer used for hashing sorts map keys and prints no pointer addresses")
	nCfg := 0
	var problems, notes []string
	for _, f := range reach {
		c.Visit(f)
		for _, b := range f.Blocks {
			for _, in := range b.Instrs {
				if a, ok := in.(*ssa.Alloc); ok && namedTypeString(a.Type()) == "github.com/davecgh/go-spew/spew.ConfigState" {
					nCfg++
					fields, _, okf := compositeFields(a)
					if !okf {
						problems = append(problems, "spew.ConfigState at "+p.IPos(a)+" is not a literal")
						continue
					}
					if v, isB := rvConstBool(fields["SortKeys"]); !isB || !v {
						problems = append(problems, "spew.ConfigState at "+p.IPos(a)+" does not set SortKeys:true (map iteration order would enter the hash)")
					}
					for _, opt := range []string{"SpewKeys", "DisableMethods"} {
						if v, isB := rvConstBool(fields[opt]); isB && v {
							notes = append(notes, opt+":true")
						}
					}
					if v, isB := rvConstBool(fields["DisablePointerAddresses"]); isB && v {
						notes = append(notes, "DisablePointerAddresses:true")
					}
				}
				if ci, ok := in.(ssa.CallInstruction); ok {
					id := calleeID(ci.Common())
					if strings.HasPrefix(id, "github.com/davecgh/go-spew/spew.") && id != "github.com/davecgh/go-spew/spew.NewDefaultConfig" {
						problems = append(problems, "package-level "+id+" (global config, unsorted map keys) at "+p.IPos(in))
					}
					if strings.HasSuffix(id, "spew.ConfigState).Fprintf") || strings.HasSuffix(id, "spew.ConfigState).Sprintf") {
						for _, a := range ci.Common().Args {
							if s, isS := constString(a); isS && strings.Contains(s, "%") {
								if strings.Contains(s, "+v") {
									problems = append(problems, "format "+s+" prints pointer addresses at "+p.IPos(in))
								} else {
									notes = append(notes, "format "+s)
								}
							}
						}
					}
				}
			}
		}
	}
	switch {
	case len(problems) > 0:
		os.Fail("%s", strings.Join(problems, "; "))
	case nCfg == 0:
		os.Unknown("no spew.ConfigState literal found in the functions reachable from %s", shortFuncID(h))
	default:
		os.OK(notes...)
	}

	oh := c.Ob(h, "hermetic", nil, "no clock / randomness / environment / network call is reachable from the hash function inside the workspace")
	examined := 0
	var sinks []string
	for _, f := range reach {
		for _, cc := range callsIn(f) {
			examined++
			if id := calleeID(cc.Common); c07NondetSink(id) {
				sinks = append(sinks, id+" at "+p.IPos(cc.Instr))
			}
		}
	}
	// positive control: the same matcher finds a clock read somewhere in the product code
	control := 0
	for _, f := range p.productFuncs() {
		for _, cc := range callsIn(f) {
			if c07NondetSink(calleeID(cc.Common)) {
				control++
			}
		}
	}
	switch {
	case len(sinks) > 0:
		oh.Fail("hash depends on %s", strings.Join(sinks, ", "))
	case control == 0 || examined < 5:
		oh.Unknown("positive control failed: sink matcher found %d sinks in the workspace, examined %d calls from the hash function", control, examined)
	default:
		oh.OK(fmt.Sprintf("%d calls in %d functions examined; control: %d sink calls elsewhere in the workspace", examined, len(reach), control))
	}
}

// c07View describes a byte slice as a window [lo, hi) of its underlying storage (an array variable
// or a slice value that is not itself a constant re-slicing); hi < 0 means "up to the end of base".
type c07View struct {
	base   ssa.Value
	lo, hi int64
}

func c07BufView(v ssa.Value, depth int) (c07View, bool) {
	v = stripConv(v)
	sl, ok := v.(*ssa.Slice)
	if !ok || depth > 4 {
		return c07View{v, 0, -1}, !ok
	}
	var inner c07View
	if a, isAlloc := sl.X.(*ssa.Alloc); isAlloc {
		pt, isPtr := a.Type().Underlying().(*types.Pointer)
		if !isPtr {
			return c07View{}, false
		}
		at, isArr := pt.Elem().Underlying().(*types.Array)
		if !isArr {
			return c07View{}, false
		}
		inner = c07View{a, 0, at.Len()}
	} else {
		var ok bool
		if inner, ok = c07BufView(sl.X, depth+1); !ok {
			return c07View{}, false
		}
	}
	out := inner
	if sl.Low != nil {
		k, isC := constInt(sl.Low)
		if !isC || k < 0 {
			return c07View{}, false
		}
		out.lo = inner.lo + k
	}
	if sl.High != nil {
		k, isC := constInt(sl.High)
		if !isC || k < 0 {
			return c07View{}, false
		}
		out.hi = inner.lo + k
	}
	return out, true
}

// c07WriteCoversFill: `written` (the argument of hasher.Write) contains every byte that the call
// `fill` stores through its argument `filled`: both are windows of the same storage and the window
// written covers the filled one. encoding/binary's PutUintNN store exactly NN/8 bytes at the start
// of their argument; any other filler is taken to fill its whole argument.
func c07WriteCoversFill(written, filled ssa.Value, fill *ssa.CallCommon) bool {
	w, ok1 := c07BufView(written, 0)
	f, ok2 := c07BufView(filled, 0)
	if !ok1 || !ok2 || w.base != f.base {
		return false
	}
	if _, isSlice := f.base.Type().Underlying().(*types.Slice); !isSlice {
		if _, isAlloc := f.base.(*ssa.Alloc); !isAlloc {
			return false
		}
	}
	lo, hi := f.lo, f.hi
	if strings.Contains(calleeID(fill), "encoding/binary") {
		switch calleeName(fill) {
		case "PutUint16":
			hi = lo + 2
		case "PutUint32":
			hi = lo + 4
		case "PutUint64":
			hi = lo + 8
		}
	}
	return w.lo <= lo && (w.hi < 0 || (hi >= 0 && w.hi >= hi))
}

func rvConstBool(v ssa.Value) (bool, bool) {
	if v == nil {
		return false, false
	}
	return constBool(v)
}

// ---------------------------------------------------------------------------------------------
// R6

// c07FetchedPrev: y (an accessor) is the target of an error-free reader Get inside loop l whose key
// name is read from the loop's current element; holds at block `at`.
func (p *Program) c07FetchedPrev(l *rvLoop, y ssa.Value, at *ssa.BasicBlock) (bool, string) {
	fn := at.Parent()
	why := "the revision compared is not that of an object read inside the loop"
	for _, cc := range callsIn(fn) {
		g, isCall := cc.Instr.(*ssa.Call)
		if !isCall || !isReaderGet(cc.Common) || !l.L.Body[cc.Instr.Block()] {
			continue
		}
		a := callArgs(cc.Common)
		if !p.c07IsClientObjectOf(a[2], y) {
			continue
		}
		fields, _, ok := compositeFields(a[1])
		if !ok {
			why = "the key of the read is not a literal"
			continue
		}
		ia := rvDerivedElem(fields["Name"])
		if ia == nil || ia.Index != l.Idx || !p.sameValue(ia.X, l.Slice) {
			why = "the previous revision is not read by the name of the current list element"
			continue
		}
		if !g.Block().Dominates(at) || !p.errOfCallIsNil(p.FactsAt(at), g) {
			why = "the revision is used although reading the previous revision may have failed"
			continue
		}
		return true, ""
	}
	return false, why
}

func c07r6(c *Ctx) {
	p := c.P
	var sites []Call
	for _, fn := range p.productFuncs() {
		if funcPkgPath(fn) == pkgAdapters {
			continue
		}
		for _, cc := range callsIn(fn) {
			if calleeName(cc.Common) == "SetRevision" {
				if r := callRecv(cc.Common); r != nil && rvIsObjectSetAccessor(stripConv(r).Type()) {
					sites = append(sites, cc)
				}
			}
		}
	}
	if len(sites) == 0 {
		c.AnchorLost("call of ObjectSetAccessor.SetRevision")
	}
	for _, cc := range sites {
		fn := cc.Fn
		x := callRecv(cc.Common)
		arg := callArgs(cc.Common)[0]
		fs := p.FactsAt(cc.Instr.Block())
		kind := "next"
		if _, isC := constInt(arg); isC {
			kind = "initial"
		}
		o := c.Ob(fn, "SetRevision-"+kind, cc.Instr, c.rule.Statement)
		var problems []string
		// (i) only when unset
		unset := false
		for _, f := range fs {
			if v, trueMeansZero, ok := rvZeroTest(f.Cond); ok && f.Pol == trueMeansZero {
				if recv, _, isRev := rvMethodOn(v, "GetRevision"); isRev && p.sameValue(recv, x) {
					unset = true
				}
			}
		}
		if !unset {
			problems = append(problems, "revision can be overwritten: SetRevision is not dominated by GetRevision()==0 of the same ObjectSet")
		}
		isPrevOfX := func(v ssa.Value) bool {
			recv, _, ok := rvMethodOn(v, "GetPrevious")
			return ok && p.sameValue(recv, x)
		}
		if n, isC := constInt(arg); isC {
			o.Require("GetRevision()==0", "constant 1 only under len(GetPrevious())==0")
			if n != 1 {
				problems = append(problems, fmt.Sprintf("initial revision is %d, not 1", n))
			}
			noPrev := false
			for _, f := range fs {
				if v, nonEmptyWhenTrue, ok := lenCmp(f.Cond); ok && f.Pol != nonEmptyWhenTrue && isPrevOfX(v) {
					noPrev = true
				}
			}
			if !noPrev {
				problems = append(problems, "a constant revision is assigned although previous revisions may exist (no len(GetPrevious())==0 guard)")
			}
			if len(problems) > 0 {
				o.Fail("%s", strings.Join(problems, "; "))
			} else {
				o.OK("revision 1 without previous revisions")
			}
			continue
		}
		o.Require("GetRevision()==0", "argument = running maximum of all previous revisions + 1", "complete loop over GetPrevious()", "loop leaves when a previous revision is 0")
		add, isAdd := arg.(*ssa.BinOp)
		var m ssa.Value
		if isAdd && add.Op == token.ADD {
			if n, isC := constInt(add.Y); isC && n >= 1 {
				m = add.X
			} else if n, isC := constInt(add.X); isC && n >= 1 {
				m = add.Y
			}
		}
		if m == nil {
			problems = append(problems, "revision argument "+rvShort(p, arg)+" is not <maximum of previous revisions> + 1")
			o.Fail("%s", strings.Join(problems, "; "))
			continue
		}
		var loop *rvLoop
		lwhy := "no loop over GetPrevious() of the ObjectSet precedes SetRevision"
		for _, l := range rvRangeLoops(p, fn) {
			if !isPrevOfX(l.Slice) {
				continue
			}
			if ok, w := l.onlyByExhaustion(cc.Instr); !ok {
				lwhy = "the loop over GetPrevious() can be left early: " + w
				continue
			}
			loop = l
		}
		if loop == nil {
			problems = append(problems, lwhy+" (the new revision would not exceed all previous ones)")
			o.Fail("%s", strings.Join(problems, "; "))
			continue
		}
		mph, isPhi := m.(*ssa.Phi)
		if !isPhi || mph.Block() != loop.L.Head {
			o.Unknown("the value incremented (%s) is not a loop-carried running maximum", rvShort(p, m))
			continue
		}
		unknown := ""
		var step func(v ssa.Value, facts []Fact, at *ssa.BasicBlock, depth int)
		step = func(v ssa.Value, facts []Fact, at *ssa.BasicBlock, depth int) {
			v = stripConv(v)
			// relWith(true, sr): facts establish m <= sr (or <); relWith(false, nil): some sr <= m.
			relWith := func(lowIsM bool, other ssa.Value) bool {
				for _, f := range facts {
					rel, ok := rvRelOf(f)
					if !ok {
						continue
					}
					lo, hi := rel.A, rel.B
					if lowIsM && lo == m && p.sameValue(hi, other) {
						return true
					}
					if !lowIsM && hi == m && p.c07IsPrevRevision(loop, lo, at) {
						return true
					}
				}
				return false
			}
			switch {
			case v == m:
				if !relWith(false, nil) {
					problems = append(problems, "the running maximum is kept on a path where the previous revision just read is not known to be <= it (not a maximum)")
				}
			case p.c07IsPrevRevision(loop, v, at):
				if !relWith(true, v) {
					problems = append(problems, "the running value is replaced by a previous revision that is not known to be >= it (last value, not the maximum)")
				}
			default:
				if ph, ok := v.(*ssa.Phi); ok && loop.L.Body[ph.Block()] && ph.Block() != loop.L.Head && depth < 4 {
					for k, e := range ph.Edges {
						step(e, p.FactsOnEdge(ph.Block().Preds[k], ph.Block()), ph.Block().Preds[k], depth+1)
					}
					return
				}
				if mc, _ := asCall(v); mc != nil && isCallTo(mc.Common(), "builtin:max") {
					hasM, hasRev := false, false
					for _, a := range mc.Common().Args {
						if a == m {
							hasM = true
						} else if p.c07IsPrevRevision(loop, a, at) {
							hasRev = true
						}
					}
					if hasM && hasRev {
						return
					}
				}
				unknown = "unrecognised update of the running maximum: " + rvShort(p, v)
			}
		}
		for k, e := range mph.Edges {
			pred := loop.L.Head.Preds[k]
			if !loop.L.Body[pred] {
				if n, isC := constInt(e); !isC || n < 0 {
					problems = append(problems, "the running maximum does not start at a non-negative constant: "+p.describe(e))
				}
				continue
			}
			step(e, p.FactsOnEdge(pred, loop.L.Head), pred, 0)
		}
		// (iv) wait while a previous revision is 0
		tb, w := loop.everyIterationGuard(cc.Instr, func(cond ssa.Value, b *ssa.BasicBlock) (bool, bool) {
			v, trueMeansZero, ok := rvZeroTest(cond)
			if !ok || !p.c07IsPrevRevision(loop, v, b) {
				return false, false
			}
			return trueMeansZero, true
		})
		if tb == nil {
			problems = append(problems, "a revision can be assigned while a previous revision still reports 0: "+w)
		}
		switch {
		case len(problems) > 0:
			o.Fail("%s", strings.Join(rvDedup(problems), "; "))
		case unknown != "":
			o.Unknown("%s", unknown)
		default:
			o.OK("running maximum over the complete loop over " + p.describe(loop.Slice) + ", +1; waits on revision 0 at " + p.IPos(tb.Instrs[len(tb.Instrs)-1]))
		}
	}
}

// c07IsPrevRevision: v is GetRevision() of the object fetched for the loop's current element.
func (p *Program) c07IsPrevRevision(l *rvLoop, v ssa.Value, at *ssa.BasicBlock) bool {
	recv, call, ok := rvMethodOn(v, "GetRevision")
	if !ok || !l.L.Body[call.Block()] {
		return false
	}
	fetched, _ := p.c07FetchedPrev(l, recv, call.Block())
	return fetched
}
