package main

// Helpers shared by the C03 / C04 / C06 rules (phase loops, per-iteration regions, result
// provenance, loop index direction). Generic helpers carry the prefix "pf" (phase flow).

import (
	"go/token"
	"go/types"
	"strings"

	"golang.org/x/tools/go/ssa"
)

const (
	pfTypProbingResult = pkgControllers + ".ProbingResult"
	pfTypPhase         = pkgCoreV1 + ".ObjectSetTemplatePhase"
	pfTypCondition     = pkgMetaV1 + ".Condition"
	pfCachedFinalizer  = "package-operator.run/cached"
)

// pfResultIndex returns the index of the first result whose (non-pointer) named type is ts;
// ts == "error" selects the last error result. -1 when absent.
func pfResultIndex(sig *types.Signature, ts string) int {
	idx := -1
	for i := 0; i < sig.Results().Len(); i++ {
		t := sig.Results().At(i).Type()
		if ts == "error" {
			if t.String() == "error" {
				idx = i
			}
			continue
		}
		if _, isPtr := t.(*types.Pointer); isPtr {
			continue
		}
		if namedTypeString(t) == ts && idx < 0 {
			idx = i
		}
	}
	return idx
}

// pfParamIndexOfType returns the index (in sig.Params) of the first parameter of named type ts.
func pfParamIndexOfType(sig *types.Signature, ts string) int {
	for i := 0; i < sig.Params().Len(); i++ {
		t := sig.Params().At(i).Type()
		if _, isPtr := t.(*types.Pointer); isPtr {
			continue
		}
		if namedTypeString(t) == ts {
			return i
		}
	}
	return -1
}

// pfIsResultOf: every value that may flow into v is result idx of call.
func (p *Program) pfIsResultOf(v ssa.Value, call *ssa.Call, idx int) bool {
	vals := p.possibleValues(v)
	if len(vals) == 0 {
		return false
	}
	n := call.Common().Signature().Results().Len()
	for _, pv := range vals {
		c, i := asCall(pv)
		if c != call {
			return false
		}
		if !(i == idx || (i == -1 && n == 1 && idx == 0)) {
			return false
		}
	}
	return true
}

// pfPointeeIsResultOf: ptr is a local variable (Alloc) that is assigned exactly once in the whole
// function, and that assignment stores result idx of call (so every later read — also through a
// pointer-receiver method — sees that result).
func (p *Program) pfPointeeIsResultOf(ptr ssa.Value, call *ssa.Call, idx int) bool {
	a, ok := ptr.(*ssa.Alloc)
	if !ok {
		return false
	}
	af := p.allocInfo(a)
	if af.unknown || len(af.stores) != 1 {
		return false
	}
	return p.pfIsResultOf(af.stores[0].Val, call, idx)
}

// pfValueOrPointeeIsResultOf accepts both a value and a pointer to a single-assignment local.
func (p *Program) pfValueOrPointeeIsResultOf(v ssa.Value, call *ssa.Call, idx int) bool {
	if _, isAlloc := v.(*ssa.Alloc); isAlloc {
		return p.pfPointeeIsResultOf(v, call, idx)
	}
	return p.pfIsResultOf(v, call, idx)
}

// pfIsZeroFact: do the facts decide `<result idx of call>.IsZero()`? yes = known zero.
func (p *Program) pfIsZeroFact(fs []Fact, call *ssa.Call, idx int) tri {
	for _, f := range fs {
		zc, _ := asCall(f.Cond)
		if zc == nil || calleeName(zc.Common()) != "IsZero" {
			continue
		}
		recv := callRecv(zc.Common())
		if recv == nil || !p.pfValueOrPointeeIsResultOf(recv, call, idx) {
			continue
		}
		if f.Pol {
			return yesTri
		}
		return noTri
	}
	return unknownTri
}

// pfPossiblyNil: some value flowing into v is the nil constant.
func (p *Program) pfPossiblyNil(v ssa.Value) bool {
	for _, pv := range p.possibleValues(v) {
		if isNilConst(stripConv(pv)) {
			return true
		}
	}
	return false
}

// pfPossiblyNilUnder: some value that may flow into v on a path on which the facts hold is the nil
// constant.
func (p *Program) pfPossiblyNilUnder(v ssa.Value, facts []Fact) bool {
	for _, pv := range p.pfPossibleValuesUnder(v, facts) {
		if isNilConst(stripConv(pv)) {
			return true
		}
	}
	return false
}

// pfDeadClosure: fn is a function literal that its enclosing function never instantiates — no
// instruction of the (live) parent uses it as an operand. go/ssa keeps the body of a literal whose
// creating block was removed as unreachable (code after a constant-false branch, copies made by the
// normaliser's tail duplication); nothing in it ever executes, so its call sites are not callers.
func pfDeadClosure(fn *ssa.Function) bool {
	for d := 0; fn != nil && fn.Parent() != nil && d < 8; d++ {
		parent := fn.Parent()
		used := false
		var ops []*ssa.Value
		for _, b := range parent.Blocks {
			for _, in := range b.Instrs {
				ops = in.Operands(ops[:0])
				for _, op := range ops {
					if op != nil && *op == ssa.Value(fn) {
						used = true
					}
				}
			}
		}
		if !used {
			return true
		}
		fn = parent
	}
	return false
}

// pfDeadByFacts: the facts are contradictory, so the block they belong to never executes: a constant
// condition with the opposite value (`if false {…}`), a boolean Phi all of whose incoming values are
// the opposite constant, a nil test whose outcome contradicts what the tested value is (a freshly
// built error known nil, the nil constant known non-nil). Such blocks are what remains of copies of
// code that the normaliser's tail duplication specialised for one helper return
// (`err := fmt.Errorf(…); if err != nil { return err }; <rest>`).
func pfDeadByFacts(fs []Fact) bool {
	var constOf func(v ssa.Value, d int) (bool, bool)
	constOf = func(v ssa.Value, d int) (bool, bool) {
		if cb, ok := constBool(v); ok {
			return cb, true
		}
		ph, isPhi := v.(*ssa.Phi)
		if !isPhi || d > 3 || len(ph.Edges) == 0 {
			return false, false
		}
		first, ok := constOf(ph.Edges[0], d+1)
		if !ok {
			return false, false
		}
		for _, e := range ph.Edges[1:] {
			if cb, ok := constOf(e, d+1); !ok || cb != first {
				return false, false
			}
		}
		return first, true
	}
	for _, f := range fs {
		if cb, ok := constOf(f.Cond, 0); ok && cb != f.Pol {
			return true
		}
		if x, trueMeansNonNil, ok := errNilTest(f.Cond); ok {
			nonNil := f.Pol == trueMeansNonNil
			if nonNil && isNilConst(stripConv(x)) {
				return true
			}
			if !nonNil && definitelyNonNil(x) {
				return true
			}
		}
	}
	return false
}

// pfFeasibleEdges: which incoming edges of block b can have been taken (the last time b was entered)
// on a path on which the facts hold. A fact that tests a Phi of b — `q != nil` / `q == nil` for a
// nil-able Phi, `q` / `!q` for a boolean Phi — excludes the edges whose incoming value of q
// contradicts the test: a nil constant where q is known non-nil, a freshly built error/allocation
// where q is known nil, the opposite boolean constant. All Phis of one block select the same edge,
// so the verdict narrows every Phi of b (the several results of a multi-return helper whose body
// was merged into its caller travel as sibling Phis: `obj, err := phi(nil, nil, X), phi(E1, E2, nil)`
// followed by `if err != nil { return }` leaves obj == X).
func (p *Program) pfFeasibleEdges(b *ssa.BasicBlock, facts []Fact) []bool {
	ok := make([]bool, len(b.Preds))
	for i := range ok {
		ok[i] = true
	}
	for _, f := range facts {
		if q, isPhi := f.Cond.(*ssa.Phi); isPhi && q.Block() == b && len(q.Edges) == len(ok) {
			for i, e := range q.Edges {
				if cb, isC := constBool(e); isC && cb != f.Pol {
					ok[i] = false
				}
			}
			continue
		}
		x, trueMeansNonNil, isTest := errNilTest(f.Cond)
		if !isTest {
			continue
		}
		q, isPhi := stripConv(x).(*ssa.Phi)
		if !isPhi || q.Block() != b || len(q.Edges) != len(ok) {
			continue
		}
		nonNil := f.Pol == trueMeansNonNil
		for i, e := range q.Edges {
			if nonNil && isNilConst(stripConv(e)) {
				ok[i] = false
			}
			if !nonNil && definitelyNonNil(e) {
				ok[i] = false
			}
		}
	}
	return ok
}

// pfPossibleValuesUnder is possibleValues narrowed by guard facts: a Phi contributes only the values
// of the incoming edges that are feasible under the facts (see pfFeasibleEdges). With no applicable
// fact the result equals possibleValues(v).
func (p *Program) pfPossibleValuesUnder(v ssa.Value, facts []Fact) []ssa.Value {
	if len(facts) == 0 {
		return p.possibleValues(v)
	}
	var out []ssa.Value
	seen := map[ssa.Value]bool{}
	var walk func(v ssa.Value, d int)
	walk = func(v ssa.Value, d int) {
		if v == nil || seen[v] {
			return
		}
		seen[v] = true
		if d > 8 {
			out = append(out, v)
			return
		}
		switch x := v.(type) {
		case *ssa.Phi:
			feasible := p.pfFeasibleEdges(x.Block(), facts)
			any := false
			for i := range x.Edges {
				if i < len(feasible) && feasible[i] {
					any = true
				}
			}
			for i, e := range x.Edges {
				if !any || i >= len(feasible) || feasible[i] {
					walk(e, d+1)
				}
			}
			return
		case *ssa.UnOp:
			if x.Op == token.MUL {
				if a, isAlloc := x.X.(*ssa.Alloc); isAlloc {
					// spilled local: the reaching stores decide (exactly as in possibleValues)
					sts, okk := p.storesReaching(a, x)
					zero := p.mayHoldZero(a, x)
					if ai := p.allocInfo(a); !ai.unknown && len(ai.stores) > 0 && (okk || zero) {
						for _, s := range sts {
							walk(s.Val, d+1)
						}
						if zero {
							out = append(out, zeroConst(x.Type()))
						}
						return
					}
				}
			}
		}
		out = append(out, v)
	}
	walk(v, 0)
	return out
}

// pfDefinitelyNil: every value flowing into v is the nil constant.
func (p *Program) pfDefinitelyNil(v ssa.Value) bool {
	vals := p.possibleValues(v)
	if len(vals) == 0 {
		return false
	}
	for _, pv := range vals {
		if !isNilConst(stripConv(pv)) {
			return false
		}
	}
	return true
}

// pfIsZeroConst: v is the zero-value constant of a struct type (go/ssa renders T{} as a Const with nil Value).
func pfIsZeroConst(v ssa.Value) bool {
	c, ok := stripConv(v).(*ssa.Const)
	return ok && c.Value == nil
}

// pfIterRegion returns the blocks that may execute after `from` within the same loop iteration:
// reachable from `from` without entering the loop head again (blocks after a `break`/`return`
// are included, the head itself is not).
func pfIterRegion(from ssa.Instruction, head *ssa.BasicBlock) map[*ssa.BasicBlock]bool {
	region := map[*ssa.BasicBlock]bool{from.Block(): true}
	work := append([]*ssa.BasicBlock{}, from.Block().Succs...)
	for len(work) > 0 {
		b := work[len(work)-1]
		work = work[:len(work)-1]
		if b == head || region[b] {
			continue
		}
		region[b] = true
		work = append(work, b.Succs...)
	}
	return region
}

// pfReturnInRegion: does the return case leave the function from inside the region?
func pfReturnInRegion(rc ReturnCase, region map[*ssa.BasicBlock]bool) bool {
	if rc.Pred != nil {
		return region[rc.Pred]
	}
	return region[rc.Ret.Block()]
}

// pfEveryPathPasses: every CFG path from just after `from` to the end of block `to` (not entering
// `barrier`) executes an instruction satisfying match. Returns the first offending block otherwise.
func pfEveryPathPasses(from ssa.Instruction, to, barrier *ssa.BasicBlock, match func(ssa.Instruction) bool) (bool, *ssa.BasicBlock) {
	seen := map[*ssa.BasicBlock]bool{}
	var walk func(b *ssa.BasicBlock, start int) (bool, *ssa.BasicBlock)
	walk = func(b *ssa.BasicBlock, start int) (bool, *ssa.BasicBlock) {
		for i := start; i < len(b.Instrs); i++ {
			if match(b.Instrs[i]) {
				return true, nil
			}
		}
		if b == to {
			return false, b
		}
		for _, s := range b.Succs {
			if s == barrier || seen[s] {
				continue
			}
			seen[s] = true
			if ok, bad := walk(s, 0); !ok {
				return false, bad
			}
		}
		return true, nil
	}
	return walk(from.Block(), instrIndex(from)+1)
}

// pfLoopTailsAfter: the back-edge sources of loop that can be reached from `from` in the same iteration.
func pfLoopTailsAfter(from ssa.Instruction, loop *Loop) []*ssa.BasicBlock {
	region := pfIterRegion(from, loop.Head)
	var out []*ssa.BasicBlock
	for _, t := range loop.Tails {
		if region[t] {
			out = append(out, t)
		}
	}
	return out
}

// pfIndexWalk describes how a loop visits the elements of a slice.
type pfIndexWalk struct {
	Slice ssa.Value // the indexed slice
	Dir   int       // +1: from element 0 upwards, -1: from the last element downwards
}

// pfElementWalk: v is (a copy of) slice[idx] where idx is the induction variable of `loop`;
// decides the direction of the walk. ok=false when the shape is not recognised.
func (p *Program) pfElementWalk(v ssa.Value, loop *Loop) (pfIndexWalk, bool) {
	vals := p.possibleValues(v)
	if len(vals) != 1 {
		return pfIndexWalk{}, false
	}
	var ia *ssa.IndexAddr
	switch x := vals[0].(type) {
	case *ssa.UnOp:
		if x.Op == token.MUL {
			ia, _ = x.X.(*ssa.IndexAddr)
		}
	case *ssa.IndexAddr:
		ia = x
	}
	if ia == nil {
		return pfIndexWalk{}, false
	}
	dir, ok := p.pfIndexDirection(ia.Index, ia.X, loop)
	if !ok {
		return pfIndexWalk{}, false
	}
	return pfIndexWalk{Slice: ia.X, Dir: dir}, true
}

func pfAddConst(v ssa.Value) (base ssa.Value, off int64, ok bool) {
	b, isBin := v.(*ssa.BinOp)
	if !isBin {
		return v, 0, true
	}
	switch b.Op {
	case token.ADD:
		if c, isC := constInt(b.Y); isC {
			return b.X, c, true
		}
		if c, isC := constInt(b.X); isC {
			return b.Y, c, true
		}
	case token.SUB:
		if c, isC := constInt(b.Y); isC {
			return b.X, -c, true
		}
	}
	return nil, 0, false
}

// pfIndexDirection recognises idx = φ+k where φ is a header phi of loop with a constant step of
// ±1, and the first index used is 0 (ascending) or len(slice)-1 (descending).
func (p *Program) pfIndexDirection(idx, slice ssa.Value, loop *Loop) (int, bool) {
	base, off, ok := pfAddConst(idx)
	if !ok {
		return 0, false
	}
	phi, isPhi := base.(*ssa.Phi)
	if !isPhi || phi.Block() != loop.Head {
		return 0, false
	}
	var step int64
	var init ssa.Value
	for i, pred := range loop.Head.Preds {
		e := phi.Edges[i]
		if loop.Body[pred] {
			eb, eo, ok := pfAddConst(e)
			if !ok || eb != ssa.Value(phi) || (step != 0 && step != eo) {
				return 0, false
			}
			step = eo
		} else {
			if init != nil && init != e {
				return 0, false
			}
			init = e
		}
	}
	if init == nil {
		return 0, false
	}
	switch step {
	case 1:
		if c, isC := constInt(init); isC && c+off == 0 {
			return 1, true
		}
	case -1:
		ib, io, ok := pfAddConst(init)
		if !ok {
			return 0, false
		}
		if lc, isCall := ib.(*ssa.Call); isCall {
			if bi, isB := lc.Call.Value.(*ssa.Builtin); isB && bi.Name() == "len" && p.sameValue(lc.Call.Args[0], slice) && io+off == -1 {
				return -1, true
			}
		}
	}
	return 0, false
}

// pfIsAccessorCallOnParam: v is `<param>.<name>()` (through conversions); returns the parameter.
func pfAccessorOnParam(v ssa.Value, name string) *ssa.Parameter {
	call, _ := asCall(v)
	if call == nil || calleeName(call.Common()) != name {
		return nil
	}
	r := callRecv(call.Common())
	if r == nil {
		return nil
	}
	prm, _ := stripConv(r).(*ssa.Parameter)
	return prm
}

// pfStaticCallees lists the functions statically reachable from fn within depth (fn included).
func pfStaticCallees(fn *ssa.Function, depth int) []*ssa.Function {
	seen := map[*ssa.Function]bool{fn: true}
	out := []*ssa.Function{fn}
	frontier := []*ssa.Function{fn}
	for d := 0; d < depth; d++ {
		var next []*ssa.Function
		for _, f := range frontier {
			for _, c := range callsIn(f) {
				callee := staticCallee(c.Common)
				if callee == nil || callee.Blocks == nil || seen[callee] {
					continue
				}
				seen[callee] = true
				out = append(out, callee)
				next = append(next, callee)
			}
		}
		frontier = next
	}
	return out
}

// pfReachesWriter: fn or a static callee within depth issues a Create/Update/Patch through a
// controller-runtime writer.
func pfReachesWriter(fn *ssa.Function, depth int) bool {
	for _, f := range pfStaticCallees(fn, depth) {
		for _, ws := range allWriterSites([]*ssa.Function{f}) {
			switch ws.Verb {
			case "Create", "Update", "Patch":
				return true
			}
		}
	}
	return false
}

// pfReachesCallNamed: fn or a static callee within depth calls (statically or through an
// interface) a method with one of the given names.
func pfReachesCallNamed(fn *ssa.Function, depth int, names ...string) bool {
	for _, f := range pfStaticCallees(fn, depth) {
		for _, c := range callsIn(f) {
			n := calleeName(c.Common)
			for _, want := range names {
				if n == want && (c.Common.IsInvoke() || (staticCallee(c.Common) != nil && staticCallee(c.Common).Signature.Recv() != nil)) {
					return true
				}
			}
		}
	}
	return false
}

// pfFuncsInPkgs returns the product functions of the given packages.
func (p *Program) pfFuncsInPkgs(pkgs ...string) []*ssa.Function {
	var out []*ssa.Function
	for _, fn := range p.productFuncs() {
		pk := funcPkgPath(fn)
		for _, want := range pkgs {
			if pk == want {
				out = append(out, fn)
			}
		}
	}
	return out
}

// pfFieldLoad: v is a load of field `name` of a struct reachable from root (`root.name`,
// `(*root).name`, or a local copy of root); returns the root value.
func (p *Program) pfFieldLoad(v ssa.Value, name string) (root ssa.Value, ok bool) {
	v = stripConv(v)
	switch x := v.(type) {
	case *ssa.Field:
		if fieldName(x.X.Type(), x.Field) == name {
			return x.X, true
		}
	case *ssa.UnOp:
		if x.Op != token.MUL {
			return nil, false
		}
		if fa, isFA := x.X.(*ssa.FieldAddr); isFA && fieldName(fa.X.Type(), fa.Field) == name {
			return fa.X, true
		}
	}
	return nil, false
}

// pfRootValue resolves a local copy (`local T; *local = v`) to v when the local is assigned once.
func (p *Program) pfRootValue(v ssa.Value) ssa.Value {
	if a, ok := v.(*ssa.Alloc); ok {
		af := p.allocInfo(a)
		if len(af.stores) == 1 {
			return stripConv(af.stores[0].Val)
		}
	}
	if u, ok := v.(*ssa.UnOp); ok && u.Op == token.MUL {
		if src, ok := p.loadSource(u); ok {
			return stripConv(src)
		}
	}
	return stripConv(v)
}

// pfConditionSetsIn lists SetStatusCondition literal sites of the given packages.
func (p *Program) pfConditionSetsIn(pkgs ...string) []ConditionSet {
	var out []ConditionSet
	for _, fn := range p.pfFuncsInPkgs(pkgs...) {
		out = append(out, conditionSets(fn)...)
	}
	return out
}

func pfJoin(ss []string) string { return strings.Join(ss, "; ") }

// pfReturnCases is returnCases without the synthetic recover block of functions that contain a
// defer: that block is only entered after a deferred call recovered from a panic, which none of
// the analysed functions does (a function whose deferred closures call recover() keeps it).
func (p *Program) pfReturnCases(fn *ssa.Function) []ReturnCase {
	recovers := false
	for _, f := range append([]*ssa.Function{fn}, fn.AnonFuncs...) {
		for _, cc := range callsIn(f) {
			if b, ok := cc.Common.Value.(*ssa.Builtin); ok && b.Name() == "recover" {
				recovers = true
			}
		}
	}
	var out []ReturnCase
	for _, rc := range p.returnCases(fn) {
		if !recovers && fn.Recover != nil && rc.Ret.Block() == fn.Recover {
			continue
		}
		out = append(out, rc)
	}
	return out
}

// ---------------------------------------------------------------------------------------------
// Values as seen after one particular call ("per reaching definition")
//
// When alternative calls deliver their results into the same variables
//
//	if c { a, b, err = f() } else { a, b, err = g() }; if err != nil { … }
//
// the code that follows tests and uses merge values: Phis of the block where the alternatives join, or
// loads of a local with one store per alternative. An obligation about ONE of the calls ("after f
// failed …") is about the paths on which that call was the one that executed. pfAfterView resolves
// values on exactly those paths: a Phi of a block that lies strictly after the call (within the same
// loop iteration) contributes only the edges that can be taken after the call; a load of a local
// yields only the stores executed after the call when every path from the call to the load passes
// one of them.

type pfAfterView struct {
	p      *Program
	call   *ssa.Call
	head   *ssa.BasicBlock // head of the innermost loop around the call (nil: none)
	region map[*ssa.BasicBlock]bool
	after  map[*ssa.BasicBlock]int // 1 = strictly after the call, 2 = not
}

func (p *Program) pfAfter(call *ssa.Call) *pfAfterView {
	w := &pfAfterView{p: p, call: call, after: map[*ssa.BasicBlock]int{}}
	if l := innermostLoop(call.Parent(), call.Block()); l != nil {
		w.head = l.Head
	}
	w.region = pfIterRegion(call, w.head)
	return w
}

// strictlyAfter: b executes only after the call within the iteration (reachable from the call's
// block without passing the loop head, and the call's block is not reachable from b that way).
func (w *pfAfterView) strictlyAfter(b *ssa.BasicBlock) bool {
	if v, ok := w.after[b]; ok {
		return v == 1
	}
	res := 2
	if w.region[b] && b != w.call.Block() && b != w.head {
		back := false
		seen := map[*ssa.BasicBlock]bool{b: true}
		work := append([]*ssa.BasicBlock{}, b.Succs...)
		for len(work) > 0 && !back {
			x := work[len(work)-1]
			work = work[:len(work)-1]
			if x == w.head || seen[x] {
				continue
			}
			seen[x] = true
			if x == w.call.Block() {
				back = true
			}
			work = append(work, x.Succs...)
		}
		if !back {
			res = 1
		}
	}
	w.after[b] = res
	return res == 1
}

// instrAfter: the instruction executes after the call in the same iteration.
func (w *pfAfterView) instrAfter(in ssa.Instruction) bool {
	if in.Block() == w.call.Block() {
		return instrIndex(in) > instrIndex(w.call)
	}
	return w.strictlyAfter(in.Block())
}

// phiEdges: which incoming edges of the Phi can be taken on a path from the call.
func (w *pfAfterView) phiEdges(q *ssa.Phi) []bool {
	b := q.Block()
	ok := make([]bool, len(q.Edges))
	narrow := w.strictlyAfter(b)
	any := false
	for i := range ok {
		ok[i] = !narrow || (i < len(b.Preds) && w.region[b.Preds[i]])
		any = any || ok[i]
	}
	if !any {
		for i := range ok {
			ok[i] = true
		}
	}
	return ok
}

// storesAt: the stores to local a that can be its last store at instruction `at` on a path from the
// call. narrowed=false: the plain reaching stores (no store after the call is certain to have run).
func (w *pfAfterView) storesAt(a *ssa.Alloc, at ssa.Instruction) (sts []*ssa.Store, complete, narrowed bool) {
	all, okk := w.p.storesReaching(a, at)
	if !w.instrAfter(at) {
		return all, okk, false
	}
	var kept []*ssa.Store
	isKept := map[ssa.Instruction]bool{}
	for _, s := range all {
		if w.instrAfter(s) {
			kept = append(kept, s)
			isKept[s] = true
		}
	}
	if len(kept) == 0 {
		return all, okk, false
	}
	// every path from the call to `at` passes one of the kept stores
	seen := map[*ssa.BasicBlock]bool{}
	var walk func(b *ssa.BasicBlock, start int) bool
	walk = func(b *ssa.BasicBlock, start int) bool {
		for i := start; i < len(b.Instrs); i++ {
			if isKept[b.Instrs[i]] {
				return true
			}
			if b.Instrs[i] == at {
				return false
			}
		}
		for _, s := range b.Succs {
			if s == w.head || seen[s] {
				continue
			}
			seen[s] = true
			if !walk(s, 0) {
				return false
			}
		}
		return true
	}
	if !walk(w.call.Block(), instrIndex(w.call)+1) {
		return all, okk, false
	}
	return kept, !w.p.allocInfo(a).unknown, true
}

// values is possibleValues restricted to the paths that executed the call.
func (w *pfAfterView) values(v ssa.Value) []ssa.Value {
	p := w.p
	var out []ssa.Value
	seen := map[ssa.Value]bool{}
	var walk func(v ssa.Value, d int)
	walk = func(v ssa.Value, d int) {
		if v == nil || seen[v] {
			return
		}
		seen[v] = true
		if d > 8 {
			out = append(out, v)
			return
		}
		switch x := v.(type) {
		case *ssa.Phi:
			ok := w.phiEdges(x)
			for i, e := range x.Edges {
				if ok[i] {
					walk(e, d+1)
				}
			}
			return
		case *ssa.UnOp:
			if x.Op == token.MUL {
				if a, isAlloc := x.X.(*ssa.Alloc); isAlloc {
					sts, okk, narrowed := w.storesAt(a, x)
					zero := !narrowed && p.mayHoldZero(a, x)
					if ai := p.allocInfo(a); !ai.unknown && len(ai.stores) > 0 && (okk || zero) {
						for _, s := range sts {
							walk(s.Val, d+1)
						}
						if zero {
							out = append(out, zeroConst(x.Type()))
						}
						return
					}
				}
			}
		}
		out = append(out, v)
	}
	walk(v, 0)
	return out
}

// isResult: on the paths that executed the call, every value that may flow into v is its result idx.
func (w *pfAfterView) isResult(v ssa.Value, idx int) bool {
	vals := w.values(v)
	if len(vals) == 0 {
		return false
	}
	n := w.call.Common().Signature().Results().Len()
	for _, pv := range vals {
		c, i := asCall(pv)
		if c != w.call {
			return false
		}
		if !(i == idx || (i == -1 && n == 1 && idx == 0)) {
			return false
		}
	}
	return true
}

// pointeeIsResult: ptr is a local whose content at instruction `at` is, on the paths that executed
// the call, result idx of the call, and the local is not assigned again between `at` and the end of
// the iteration (so what a pointer-receiver method saw at `at` still describes the variable).
func (w *pfAfterView) pointeeIsResult(ptr ssa.Value, at ssa.Instruction, idx int) bool {
	a, ok := ptr.(*ssa.Alloc)
	if !ok {
		return false
	}
	af := w.p.allocInfo(a)
	if af.unknown || len(af.stores) == 0 {
		return false
	}
	if len(af.stores) == 1 {
		return w.isResult(af.stores[0].Val, idx)
	}
	if at == nil {
		return false
	}
	sts, complete, narrowed := w.storesAt(a, at)
	if !narrowed || !complete || len(sts) == 0 {
		return false
	}
	for _, s := range sts {
		if !w.isResult(s.Val, idx) {
			return false
		}
	}
	// no later re-assignment in this iteration
	for _, in := range reachableAfter(at, func(in ssa.Instruction) bool { return w.head != nil && in.Block() == w.head }) {
		if s, isStore := in.(*ssa.Store); isStore && s.Addr == ssa.Value(a) && in.Block() != w.head {
			return false
		}
	}
	return true
}

// errOf: do the facts decide the error result of the call (yes = known nil) on the paths that
// executed it?
func (w *pfAfterView) errOf(fs []Fact) tri {
	res := w.call.Common().Signature().Results()
	errIdx := pfResultIndex(w.call.Common().Signature(), "error")
	if errIdx < 0 {
		return unknownTri
	}
	for _, f := range fs {
		x, trueMeansNonNil, ok := errNilTest(f.Cond)
		if !ok {
			continue
		}
		vals := w.values(x)
		if len(vals) != 1 {
			continue
		}
		cc, idx := asCall(vals[0])
		if cc != w.call || !(res.Len() == 1 && idx == -1 || idx == errIdx) {
			continue
		}
		if f.Pol == trueMeansNonNil {
			return noTri
		}
		return yesTri
	}
	return unknownTri
}

// isZero: do the facts decide `<result idx of the call>.IsZero()` on the paths that executed it?
func (w *pfAfterView) isZero(fs []Fact, idx int) tri {
	for _, f := range fs {
		zc, _ := asCall(f.Cond)
		if zc == nil || calleeName(zc.Common()) != "IsZero" {
			continue
		}
		recv := callRecv(zc.Common())
		if recv == nil {
			continue
		}
		if _, isAlloc := recv.(*ssa.Alloc); isAlloc {
			if !w.pointeeIsResult(recv, zc, idx) {
				continue
			}
		} else if !w.isResult(recv, idx) {
			continue
		}
		if f.Pol {
			return yesTri
		}
		return noTri
	}
	return unknownTri
}

// ---------------------------------------------------------------------------------------------
// Results collected in one local and returned once
//
//	var res T                      |   if a { return x, T{F: …}, nil }
//	if a { res.F = … } else if b { res.G = … }     |   if b { return x, T{G: …}, nil }
//	return x, res, nil             |   return x, T{}, nil
//
// Both columns return the same values on the same paths. In the left one the return block is shared
// and the returned value is a load of the local; what the local holds depends on the way the block
// was entered. pfSplitCollected judges such a return per reaching definition: one case per incoming
// edge of the return block (looking through blocks that merely join and jump on), with the facts of
// that edge and a verdict on what the local holds there.

const (
	pfNotCollected  = 0 // the case was passed through unchanged
	pfNeverWritten  = 1 // no assignment to (a field of) the local on any path through this edge: zero value
	pfAlwaysWritten = 2 // every path through this edge assigned the fields in Must
	pfMaybeWritten  = 3 // some paths through this edge assigned fields, others may not have
)

type pfCollectedCase struct {
	ReturnCase
	Written int
	Must    map[string]bool // fields assigned on every path (Written == pfAlwaysWritten)
}

type pfLocalState struct {
	top  bool
	may  bool
	must map[string]bool
}

// pfLocalFieldStates: for a struct local that is only ever assigned field by field, the state at the
// end of every block: may = some field was assigned since the variable was (re)initialised, must =
// the fields assigned on every path. ok=false when the local is also assigned as a whole, or its
// address is used in a way that is not modelled.
func (p *Program) pfLocalFieldStates(a *ssa.Alloc) (map[*ssa.BasicBlock]pfLocalState, bool) {
	pt, isPtr := a.Type().Underlying().(*types.Pointer)
	if !isPtr {
		return nil, false
	}
	if _, isStruct := pt.Elem().Underlying().(*types.Struct); !isStruct {
		return nil, false
	}
	fieldOf := map[ssa.Instruction]string{} // store instruction -> top-level field assigned
	var okAddr func(v ssa.Value, field string, d int) bool
	okAddr = func(v ssa.Value, field string, d int) bool {
		if d > 4 {
			return false
		}
		for _, r := range referrersOf(v) {
			switch x := r.(type) {
			case *ssa.Store:
				if x.Addr != v {
					return false // the address itself is stored somewhere
				}
				if field == "" {
					return false // assignment of the whole variable
				}
				fieldOf[x] = field
			case *ssa.FieldAddr:
				f := field
				if f == "" {
					f = fieldName(x.X.Type(), x.Field)
				}
				if !okAddr(x, f, d+1) {
					return false
				}
			case *ssa.UnOp, *ssa.DebugRef:
			case ssa.CallInstruction:
				if field != "" || callMayWriteThroughArg(x.Common(), a) {
					return false
				}
			default:
				return false
			}
		}
		return true
	}
	if !okAddr(a, "", 0) {
		return nil, false
	}
	fn := a.Parent()
	out := map[*ssa.BasicBlock]pfLocalState{}
	for _, b := range fn.Blocks {
		out[b] = pfLocalState{top: true}
	}
	transfer := func(b *ssa.BasicBlock, in pfLocalState) pfLocalState {
		st := pfLocalState{may: in.may, must: map[string]bool{}}
		for k := range in.must {
			st.must[k] = true
		}
		for _, ins := range b.Instrs {
			if ins == ssa.Instruction(a) {
				st = pfLocalState{must: map[string]bool{}}
			}
			if f, isSt := fieldOf[ins]; isSt {
				st.may = true
				st.must[f] = true
			}
		}
		return st
	}
	same := func(x, y pfLocalState) bool {
		if x.top != y.top || x.may != y.may || len(x.must) != len(y.must) {
			return false
		}
		for k := range x.must {
			if !y.must[k] {
				return false
			}
		}
		return true
	}
	for changed, iter := true, 0; changed && iter < 100; iter++ {
		changed = false
		for _, b := range fn.Blocks {
			in := pfLocalState{top: true}
			if b == fn.Blocks[0] {
				in = pfLocalState{must: map[string]bool{}}
			}
			for _, pr := range b.Preds {
				ps := out[pr]
				if ps.top {
					continue
				}
				if in.top {
					in = pfLocalState{may: ps.may, must: map[string]bool{}}
					for k := range ps.must {
						in.must[k] = true
					}
					continue
				}
				in.may = in.may || ps.may
				for k := range in.must {
					if !ps.must[k] {
						delete(in.must, k)
					}
				}
			}
			if in.top {
				continue
			}
			if st := transfer(b, in); !same(st, out[b]) {
				out[b] = st
				changed = true
			}
		}
	}
	return out, true
}

// pfSplitCollected: see above. idx selects the result that may be a collected local.
func (p *Program) pfSplitCollected(cases []ReturnCase, idx int) []pfCollectedCase {
	var out []pfCollectedCase
	for _, rc := range cases {
		pass := pfCollectedCase{ReturnCase: rc}
		if rc.Pred != nil || idx >= len(rc.Ret.Results) {
			out = append(out, pass)
			continue
		}
		ld, isLoad := rc.Ret.Results[idx].(*ssa.UnOp)
		if !isLoad || ld.Op != token.MUL || ld.Block() != rc.Ret.Block() {
			out = append(out, pass)
			continue
		}
		a, isAlloc := ld.X.(*ssa.Alloc)
		if !isAlloc || a.Block() == ld.Block() {
			out = append(out, pass)
			continue
		}
		states, ok := p.pfLocalFieldStates(a)
		touched := false // the return block itself assigns to the local before the load
		for _, ins := range ld.Block().Instrs {
			if ins == ssa.Instruction(ld) {
				break
			}
			if st, isSt := ins.(*ssa.Store); isSt && allocOf(st.Addr) == a {
				touched = true
			}
		}
		if !ok || touched || len(ld.Block().Preds) < 2 {
			out = append(out, pass)
			continue
		}
		var emit func(from, to *ssa.BasicBlock, d int)
		emit = func(from, to *ssa.BasicBlock, d int) {
			// a block that only joins paths and jumps on: judge its incoming edges instead
			if _, isJump := from.Instrs[len(from.Instrs)-1].(*ssa.Jump); isJump && len(from.Instrs) == 1 && len(from.Preds) >= 2 && d < 3 {
				for _, pp := range from.Preds {
					emit(pp, from, d+1)
				}
				return
			}
			st := states[from]
			nrc := pfCollectedCase{ReturnCase: rc}
			nrc.Pred = from
			nrc.Facts = p.FactsOnEdge(from, to)
			nrc.Results = append([]ssa.Value{}, rc.Results...)
			switch {
			case st.top || !st.may:
				nrc.Written = pfNeverWritten
				nrc.Results[idx] = zeroConst(ld.Type())
			case len(st.must) > 0:
				nrc.Written = pfAlwaysWritten
				nrc.Must = st.must
			default:
				nrc.Written = pfMaybeWritten
			}
			out = append(out, nrc)
		}
		for _, pr := range ld.Block().Preds {
			emit(pr, ld.Block(), 0)
		}
	}
	return out
}

// ---------------------------------------------------------------------------------------------
// Equivalent spellings of library predicates
//
// The rules look for API predicates (meta.FindStatusCondition, metav1.IsControlledBy, emptiness
// tests). Code may spell the same predicate with the standard-library search helpers; the
// equivalences below are evident from the vendored library sources:
//
//	meta.FindStatusCondition(conds, T)   ==  i := slices.IndexFunc(conds, func(c) bool { return c.Type == T });
//	                                         i >= 0 ? &conds[i] : nil
//	metav1.IsControlledBy(obj, owner)    ==  refs := obj.GetOwnerReferences();
//	                                         i := slices.IndexFunc(refs, func(r) bool { return r.Controller != nil && *r.Controller });
//	                                         i >= 0 && refs[i].UID == owner.GetUID()
//	len(s) == 0                          ==  s == ""        (strings)

// pfEmptyCmp is lenCmp extended by the comparison of a string with "".
func pfEmptyCmp(cond ssa.Value) (x ssa.Value, trueMeansNonEmpty bool, ok bool) {
	if x, ne, ok := lenCmp(cond); ok {
		return x, ne, true
	}
	b, isBin := cond.(*ssa.BinOp)
	if !isBin || (b.Op != token.EQL && b.Op != token.NEQ) {
		return nil, false, false
	}
	for _, pair := range [][2]ssa.Value{{b.X, b.Y}, {b.Y, b.X}} {
		if s, isStr := constString(pair[1]); isStr && s == "" {
			if _, isConst := pair[0].(*ssa.Const); !isConst {
				return pair[0], b.Op == token.NEQ, true
			}
		}
	}
	return nil, false, false
}

// pfFuncValue: v is a function used as a value (named function, closure, method value).
func pfFuncValue(v ssa.Value) *ssa.Function {
	switch x := stripConv(v).(type) {
	case *ssa.Function:
		return x
	case *ssa.MakeClosure:
		f, _ := x.Fn.(*ssa.Function)
		return f
	}
	return nil
}

// pfSearchCall: call is slices.IndexFunc(S, pred) or slices.ContainsFunc(S, pred) with a predicate
// whose body is available; returns S and the predicate.
func pfSearchCall(call *ssa.Call) (slice ssa.Value, pred *ssa.Function, index bool, ok bool) {
	if call == nil || call.Common().IsInvoke() || len(call.Common().Args) != 2 {
		return nil, nil, false, false
	}
	id := calleeID(call.Common())
	if id != "slices.IndexFunc" && id != "slices.ContainsFunc" {
		return nil, nil, false, false
	}
	f := pfFuncValue(call.Common().Args[1])
	if f == nil || f.Blocks == nil || len(f.Params) != 1 {
		return nil, nil, false, false
	}
	return call.Common().Args[0], f, id == "slices.IndexFunc", true
}

// pfParamField: v is `<the only parameter of pred>.<field>` (the parameter may be copied into a local).
func (p *Program) pfParamField(pred *ssa.Function, v ssa.Value, field string) bool {
	root, ok := p.pfFieldLoad(v, field)
	return ok && p.pfRootValue(root) == ssa.Value(pred.Params[0])
}

// pfPredTypeEquals: the predicate is true exactly for elements whose field Type equals a string
// constant: every return yields `elem.Type == T` (or the constant false).
func (p *Program) pfPredTypeEquals(pred *ssa.Function) (string, bool) {
	typ, n := "", 0
	for _, rc := range p.returnCases(pred) {
		if len(rc.Results) != 1 {
			return "", false
		}
		r := rc.Results[0]
		if cb, isC := constBool(r); isC {
			if cb {
				return "", false
			}
			continue
		}
		b, isBin := r.(*ssa.BinOp)
		if !isBin || b.Op != token.EQL {
			return "", false
		}
		found := false
		for _, pair := range [][2]ssa.Value{{b.X, b.Y}, {b.Y, b.X}} {
			if s, isStr := constString(pair[1]); isStr && p.pfParamField(pred, pair[0], "Type") {
				if typ != "" && typ != s {
					return "", false
				}
				typ, found = s, true
			}
		}
		if !found {
			return "", false
		}
		n++
	}
	return typ, n > 0
}

// pfPredIsControllerRef: the predicate is true exactly for owner references that are controller
// references: every possibly-true return yields `*ref.Controller` (reached under ref.Controller != nil).
func (p *Program) pfPredIsControllerRef(pred *ssa.Function) bool {
	isCtrl := func(v ssa.Value) bool {
		u, ok := v.(*ssa.UnOp)
		return ok && u.Op == token.MUL && p.pfParamField(pred, u.X, "Controller")
	}
	n := 0
	for _, rc := range p.returnCases(pred) {
		if len(rc.Results) != 1 {
			return false
		}
		r := rc.Results[0]
		if cb, isC := constBool(r); isC {
			if !cb {
				continue
			}
			// constant true: only under the fact that *ref.Controller is true
			ok := false
			for _, f := range rc.Facts {
				if f.Pol && isCtrl(f.Cond) {
					ok = true
				}
			}
			if !ok {
				return false
			}
			n++
			continue
		}
		f := p.mkFact(r, true) // folds `x == true` / `!x`
		if !f.Pol || !isCtrl(f.Cond) {
			return false
		}
		n++
	}
	return n > 0
}

// pfFoundCondition: v is a pointer to the first condition of type T in a condition list, or nil when
// there is none — meta.FindStatusCondition(conds, T) or its spelling with slices.IndexFunc. id is the
// value that identifies this lookup (compare with p.sameValue).
func (p *Program) pfFoundCondition(v ssa.Value) (id ssa.Value, conds ssa.Value, typ string, ok bool) {
	v = stripConv(v)
	if call, _ := asCall(v); call != nil {
		if isCallTo(call.Common(), pkgMeta+".FindStatusCondition") && len(call.Common().Args) == 2 {
			if s, isStr := constString(call.Common().Args[1]); isStr {
				return call, call.Common().Args[0], s, true
			}
		}
		return nil, nil, "", false
	}
	elem := func(e ssa.Value) (ssa.Value, string, bool) {
		ia, isIA := e.(*ssa.IndexAddr)
		if !isIA {
			return nil, "", false
		}
		sc, _ := asCall(ia.Index)
		s, pred, index, isSearch := pfSearchCall(sc)
		if !isSearch || !index || !p.sameValue(s, ia.X) {
			return nil, "", false
		}
		t, isType := p.pfPredTypeEquals(pred)
		if !isType {
			return nil, "", false
		}
		return ia.X, t, true
	}
	switch x := v.(type) {
	case *ssa.IndexAddr:
		if c, t, isElem := elem(x); isElem {
			return x, c, t, true
		}
	case *ssa.Phi:
		for _, e := range x.Edges {
			e = stripConv(e)
			if isNilConst(e) {
				continue
			}
			c, t, isElem := elem(e)
			if !isElem || (ok && (t != typ || !p.sameValue(c, conds))) {
				return nil, nil, "", false
			}
			conds, typ, ok = c, t, true
		}
		if ok {
			return x, conds, typ, true
		}
	}
	return nil, nil, "", false
}

// pfNegativeTest decomposes `x < 0`, `x == -1`, `x >= 0`, `x != -1`, `0 > x`, … into (x, condTrueMeansNegative).
func pfNegativeTest(cond ssa.Value) (x ssa.Value, trueMeansNegative bool, ok bool) {
	b, isBin := cond.(*ssa.BinOp)
	if !isBin {
		return nil, false, false
	}
	l, r, op := b.X, b.Y, b.Op
	if _, isC := constInt(l); isC {
		l, r = r, l
		switch op {
		case token.LSS:
			op = token.GTR
		case token.GTR:
			op = token.LSS
		case token.LEQ:
			op = token.GEQ
		case token.GEQ:
			op = token.LEQ
		}
	}
	n, isC := constInt(r)
	if !isC {
		return nil, false, false
	}
	switch {
	case op == token.LSS && n == 0, op == token.LEQ && n == -1, op == token.EQL && n == -1:
		return l, true, true
	case op == token.GEQ && n == 0, op == token.GTR && n == -1, op == token.NEQ && n == -1:
		return l, false, true
	}
	return nil, false, false
}

// pfControlledBy: do the facts decide metav1.IsControlledBy(obj, owner) for an object satisfying
// objOK and an owner satisfying ownerOK? Recognises the library call (and its canonical spellings)
// and the predicate written out with slices.IndexFunc over obj.GetOwnerReferences().
func (p *Program) pfControlledBy(fs []Fact, objOK, ownerOK func(ssa.Value) bool) tri {
	for _, pol := range []bool{true, false} {
		if _, ok := p.findFactCall(fs, pol, []string{pkgMetaV1 + ".IsControlledBy"}, func(cc *ssa.CallCommon) bool {
			return len(cc.Args) == 2 && objOK(cc.Args[0]) && ownerOK(cc.Args[1])
		}); ok {
			if pol {
				return yesTri
			}
			return noTri
		}
	}
	// idx := slices.IndexFunc(obj.GetOwnerReferences(), <is controller reference>)
	ctrlIndex := func(v ssa.Value) (refs ssa.Value, ok bool) {
		sc, _ := asCall(v)
		s, pred, index, isSearch := pfSearchCall(sc)
		if !isSearch || !index || !p.pfPredIsControllerRef(pred) {
			return nil, false
		}
		gc, _ := asCall(s)
		if gc == nil || calleeName(gc.Common()) != "GetOwnerReferences" || callRecv(gc.Common()) == nil || !objOK(callRecv(gc.Common())) {
			return nil, false
		}
		return s, true
	}
	for _, f := range fs {
		if x, trueMeansNeg, ok := pfNegativeTest(f.Cond); ok && f.Pol == trueMeansNeg {
			if _, isCtrl := ctrlIndex(x); isCtrl {
				return noTri // no controller reference at all
			}
		}
		b, isBin := f.Cond.(*ssa.BinOp)
		if !isBin || (b.Op != token.EQL && b.Op != token.NEQ) {
			continue
		}
		equal := (b.Op == token.EQL) == f.Pol
		for _, pair := range [][2]ssa.Value{{b.X, b.Y}, {b.Y, b.X}} {
			root, isUID := p.pfFieldLoad(pair[0], "UID")
			if !isUID {
				continue
			}
			ia, isIA := root.(*ssa.IndexAddr)
			if !isIA {
				continue
			}
			refs, isCtrl := ctrlIndex(ia.Index)
			if !isCtrl || !p.sameValue(refs, ia.X) {
				continue
			}
			gu, _ := asCall(pair[1])
			if gu == nil || calleeName(gu.Common()) != "GetUID" || callRecv(gu.Common()) == nil || !ownerOK(callRecv(gu.Common())) {
				continue
			}
			if equal {
				return yesTri
			}
			return noTri
		}
	}
	return unknownTri
}

// ---------------------------------------------------------------------------------------------
// Variables captured by closures

// pfCapturedVar: ptr is the address of a variable as a closure sees it (a FreeVar, possibly handed
// down through several closure levels) or the variable itself (an Alloc); returns the Alloc in the
// function that declares the variable.
func pfCapturedVar(ptr ssa.Value) *ssa.Alloc {
	for d := 0; d < 6 && ptr != nil; d++ {
		switch x := ptr.(type) {
		case *ssa.Alloc:
			return x
		case *ssa.FreeVar:
			ptr = freeVarBinding(x.Parent(), x)
		default:
			return nil
		}
	}
	return nil
}

// pfClosureMayWrite: the closure (or a closure it hands the variable on to) may assign to the
// captured variable bound to ptr, or lets its address escape.
func pfClosureMayWrite(mc *ssa.MakeClosure, ptr ssa.Value, d int) bool {
	f, ok := mc.Fn.(*ssa.Function)
	if !ok || d > 5 {
		return true
	}
	for i, b := range mc.Bindings {
		if b != ptr || i >= len(f.FreeVars) {
			continue
		}
		fv := f.FreeVars[i]
		for _, r := range referrersOf(fv) {
			switch x := r.(type) {
			case *ssa.UnOp, *ssa.DebugRef:
			case *ssa.MakeClosure:
				if pfClosureMayWrite(x, fv, d+1) {
					return true
				}
			default:
				return true
			}
		}
	}
	return false
}

// pfCapturedValues: ptr addresses a variable that closures capture (seen from the declaring function
// or from inside a closure); returns the values assigned to it anywhere. ok=false when ptr is not
// such a variable or it may be written in a way that is not modelled.
func (p *Program) pfCapturedValues(ptr ssa.Value) ([]ssa.Value, bool) {
	a := pfCapturedVar(ptr)
	if a == nil {
		return nil, false
	}
	captured := false
	var out []ssa.Value
	for _, r := range referrersOf(a) {
		switch x := r.(type) {
		case *ssa.Store:
			if x.Addr != ssa.Value(a) {
				return nil, false
			}
			out = append(out, x.Val)
		case *ssa.UnOp, *ssa.DebugRef:
		case *ssa.MakeClosure:
			captured = true
			if pfClosureMayWrite(x, a, 0) {
				return nil, false
			}
		case *ssa.FieldAddr, *ssa.IndexAddr:
			if derivedAddrWritten(x.(ssa.Value)) {
				return nil, false
			}
		case ssa.CallInstruction:
			if callMayWriteThroughArg(x.Common(), a) {
				return nil, false
			}
		default:
			return nil, false
		}
	}
	if _, isFV := ptr.(*ssa.FreeVar); !isFV && !captured {
		return nil, false // an ordinary local: possibleValues knows better (reaching stores)
	}
	return out, len(out) > 0
}
