package main

import (
	"fmt"
	"go/token"
	"go/types"
	"slices"
	"sort"
	"strings"

	"golang.org/x/tools/go/ssa"
)

// C01 — Collision protection: foreign objects are never taken over unasked.

func init() {
	register(&Property{
		ID: "C01",
		Explanation: "Decides the structural core of C01 on every path of the current source: (R1) every return of every implementation of the adoption-checker interface is classified — " +
			"`true` only under rev<=ownerRev and one of {collisionProtection None or forced adoption, IfNoController without controller, controlled by a previous revision with rev<ownerRev}; " +
			"`false,nil` only when the owner already controls the object or rev>ownerRev; a refusal error only when none of the permitting rows applies and only with an error type that the " +
			"CollisionDetected reporter recognises; (R2) the previous-revision test returns true only under IsController of a declared previous revision or of one of its remote phases; " +
			"(R3) ReleaseController/SetControllerReference/revision-annotation writes in the reconcile function happen only under Check()==true,nil on (a copy of) the object that was read and checked; " +
			"(R4) every write in that function is under IsController(owner, that object) or is the create-apply under NotFound of the lookup of the same key; (R5) every other non-typed writer site in " +
			"the workspace belongs to a reviewed class; (R6) refusal errors become Available=False/CollisionDetected and both controllers route every sub-reconciler error through the reporter. " +
			"rev is the annotation value returned by the revision reader for the checked object, ownerRev is owner.GetRevision().",
		NotDecided: []string{
			"interleavings with third parties between PKO's read and its write (the apply patch carries no resourceVersion precondition)",
			"what the owner strategies compute on concrete owner lists (boxcutter ownerhandling, trusted base)",
			"that refusal errors are not swallowed or re-wrapped without %w between reconcileObject and the controller (read by hand: wrapped with %w in ReconcilePhase)",
			"thorough-tier VTA variant of the writer closure (R5 uses the static enumeration of all 82 workspace packages)",
		},
		Technique: "SSA return classification + guard-fact dataflow with disjunctive (edge-set) guards + value-identity classes + interface-implementation resolution + whole-workspace writer enumeration",
		Rules: []Rule{
			{ID: "C01.R1", Min: 6, Run: c01r1, Statement: "adoption ladder: every return of the adoption checker is true only when permitted (rev<=ownerRev and None/forced, IfNoController without controller, or previous revision with rev<ownerRev), silently false only when already controller or rev>ownerRev, and a refusal error (of a type reported as CollisionDetected) only when not permitted"},
			{ID: "C01.R2", Min: 2, Run: c01r2, Statement: "the previous-revision test returns true only under IsController(prev.ClientObject(), obj) for a declared previous revision, or IsController(u, obj) for u built from name+UID of one of prev.GetRemotePhases() in prev's namespace"},
			{ID: "C01.R3", Min: 4, Run: c01r3, Statement: "ownership changes (ReleaseController, SetControllerReference, revision annotation) in the reconcile function happen only under Check(...)==(true,nil), on the object that was read and checked (or its deep copy)"},
			{ID: "C01.R4", Min: 2, Run: c01r4, Statement: "every write in the reconcile function is under IsController(owner, checked object) or is the create-apply under IsNotFound of the lookup of the written object's key"},
			{ID: "C01.R5", Min: 8, Run: c01r5, Statement: "closure: every Update/Patch/Delete site in the workspace whose object is not a typed PKO API object belongs to a reviewed class"},
			{ID: "C01.R6", Min: 4, Run: c01r6, Statement: "refusals are reported: Available=False/CollisionDetected under the refusal predicate followed by the status update; the predicate recognises every refusal type; both controllers pass every sub-reconciler error through the reporter"},
		},
	})
}

// ---------------------------------------------------------------------------------------------
// Model shared by C01 and C02 (computed once per loaded program)

type c01Model struct {
	problems []string // anchors that did not resolve

	noneVal, ifNoCtrlVal    string
	forceEnv, pkgLabel, rev string

	invokes []Call          // invoke sites of the adoption checker interface
	impls   []*ssa.Function // implementations of its method
	recFns  []*ssa.Function // functions containing an invoke site ("reconcile function")

	revUses *c02RevUses

	reporters    []*ssa.Function // functions that set reason CollisionDetected
	refusalPreds []*ssa.Function // predicate guarding that condition
	refusalTypes map[string]bool // "pkg.T" for every errors.As target *T of the predicates
}

var c01Models = map[*Program]*c01Model{}

const c01PKOPackageName = "package-operator" // value of the package label that enables forced adoption (self-bootstrap)

func isAdoptionCheckSig(sig *types.Signature) bool {
	if sig == nil || sig.Params().Len() != 4 || sig.Results().Len() != 2 {
		return false
	}
	if !isClientObjectType(sig.Params().At(1).Type()) {
		return false
	}
	if _, ok := sig.Params().At(2).Type().Underlying().(*types.Slice); !ok {
		return false
	}
	if namedTypeString(sig.Params().At(3).Type()) != pkgCoreV1+".CollisionProtection" {
		return false
	}
	return sig.Results().At(0).Type().String() == "bool" && sig.Results().At(1).Type().String() == "error"
}

func c01ModelOf(p *Program) *c01Model {
	if m, ok := c01Models[p]; ok {
		return m
	}
	m := &c01Model{refusalTypes: map[string]bool{}}
	c01Models[p] = m
	lookup := func(pkg, name string) string {
		s, ok := p.stringConstOf(pkg, name)
		if !ok {
			m.problems = append(m.problems, "constant "+pkg+"."+name)
		}
		return s
	}
	m.noneVal = lookup(pkgCoreV1, "CollisionProtectionNone")
	m.ifNoCtrlVal = lookup(pkgCoreV1, "CollisionProtectionIfNoController")
	m.forceEnv = lookup(pkgConstants, "ForceAdoptionEnvironmentVariable")
	m.pkgLabel = lookup(pkgManifestsV1, "PackageLabel")
	m.rev = lookup(pkgCoreV1, "ObjectSetRevisionAnnotation")

	// adoption checker: interface method (owner, client.Object, []previous, CollisionProtection) (bool, error)
	implSeen := map[*ssa.Function]bool{}
	recSeen := map[*ssa.Function]bool{}
	for _, fn := range p.productFuncs() {
		for _, c := range callsIn(fn) {
			if !c.Common.IsInvoke() {
				continue
			}
			sig, _ := c.Common.Method.Type().(*types.Signature)
			if !isAdoptionCheckSig(sig) {
				continue
			}
			m.invokes = append(m.invokes, c)
			if !recSeen[fn] {
				recSeen[fn] = true
				m.recFns = append(m.recFns, fn)
			}
			if it := ifaceOf(c.Common.Value); it != nil {
				for _, impl := range p.implementationsOf(it, c.Common.Method.Name()) {
					if !implSeen[impl] {
						implSeen[impl] = true
						m.impls = append(m.impls, impl)
					}
				}
			}
		}
	}
	if len(m.invokes) == 0 {
		m.problems = append(m.problems, "invoke of an adoption-checker interface method (owner, client.Object, []previous, CollisionProtection) (bool, error)")
	}
	if len(m.impls) == 0 {
		m.problems = append(m.problems, "implementation of the adoption-checker interface")
	}

	m.revUses = c02ScanRevisionUses(p, m.rev)

	// reporter: SetStatusCondition{Reason: "CollisionDetected"}; predicate = guarding call on an error parameter
	predSeen := map[*ssa.Function]bool{}
	for _, fn := range p.productFuncs() {
		for _, cs := range conditionSets(fn) {
			if cs.Reason != "CollisionDetected" {
				continue
			}
			m.reporters = append(m.reporters, fn)
			for _, f := range p.FactsAt(cs.Call.Block()) {
				if pf := c01RefusalPredCall(f); pf != nil && f.Pol && !predSeen[pf] {
					predSeen[pf] = true
					m.refusalPreds = append(m.refusalPreds, pf)
				}
			}
		}
	}
	if len(m.reporters) == 0 {
		m.problems = append(m.problems, "a meta.SetStatusCondition with constant reason CollisionDetected")
	}
	for _, pf := range m.refusalPreds {
		for _, t := range c01ErrorsAsTargets(pf) {
			m.refusalTypes[t.typ] = true
		}
	}
	return m
}

// c01RefusalPredCall: the fact's condition is a static call of a workspace function returning bool
// with exactly one argument, an error-typed parameter of the enclosing function.
func c01RefusalPredCall(f Fact) *ssa.Function {
	call, idx := asCall(f.Cond)
	if call == nil || idx != -1 {
		return nil
	}
	callee := staticCallee(call.Common())
	if callee == nil || callee.Blocks == nil || !strings.HasPrefix(funcPkgPath(callee), modPKO) {
		return nil
	}
	if callee.Signature.Results().Len() != 1 || callee.Signature.Results().At(0).Type().String() != "bool" {
		return nil
	}
	args := callArgs(call.Common())
	if len(args) != 1 {
		return nil
	}
	if prm, ok := stripConv(args[0]).(*ssa.Parameter); !ok || prm.Type().String() != "error" {
		return nil
	}
	return callee
}

type c01AsTarget struct {
	call *ssa.Call
	typ  string // "pkg.T" of target **T
}

// c01ErrorsAsTargets lists errors.As(<error parameter>, &x) calls of fn with the named type of x's element.
func c01ErrorsAsTargets(fn *ssa.Function) []c01AsTarget {
	var out []c01AsTarget
	for _, c := range callsIn(fn) {
		call, ok := c.Instr.(*ssa.Call)
		if !ok || !isCallTo(c.Common, "errors.As") || len(c.Common.Args) != 2 {
			continue
		}
		if _, isParam := stripConv(c.Common.Args[0]).(*ssa.Parameter); !isParam {
			continue
		}
		tgt := stripConv(c.Common.Args[1])
		pt, ok := tgt.Type().Underlying().(*types.Pointer)
		if !ok {
			continue
		}
		if ts := namedTypeString(pt.Elem()); ts != "" {
			out = append(out, c01AsTarget{call: call, typ: ts})
		}
	}
	return out
}

func (m *c01Model) reportAnchors(c *Ctx) bool {
	for _, pr := range m.problems {
		c.AnchorLost(pr)
	}
	return len(m.problems) == 0
}

// ---------------------------------------------------------------------------------------------
// The ladder of one adoption-checker implementation

type c01Ladder struct {
	p                    *Program
	m                    *c01Model
	fn                   *ssa.Function
	owner, obj, prev, cp *ssa.Parameter
}

func c01LadderOf(p *Program, m *c01Model, fn *ssa.Function) *c01Ladder {
	// parameters are fixed by the interface signature: receiver (if any) + 4
	n := len(fn.Params)
	if n < 4 {
		return nil
	}
	ps := fn.Params[n-4:]
	return &c01Ladder{p: p, m: m, fn: fn, owner: ps[0], obj: ps[1], prev: ps[2], cp: ps[3]}
}

func isParam(v ssa.Value, prm *ssa.Parameter) bool {
	return prm != nil && stripConv(v) == ssa.Value(prm)
}

// isRev: v is result #0 of a revision-annotation reader called on the checked object.
func (l *c01Ladder) isRev(v ssa.Value) bool {
	call, idx := asCall(v)
	if call == nil || idx != 0 {
		return false
	}
	callee := staticCallee(call.Common())
	if callee == nil || !l.m.revUses.isReader(callee) {
		return false
	}
	args := callArgs(call.Common())
	return len(args) >= 1 && isParam(args[0], l.obj)
}

// isOwnerRev: v is owner.GetRevision().
func (l *c01Ladder) isOwnerRev(v ssa.Value) bool {
	call, idx := asCall(v)
	if call == nil || idx != -1 || calleeName(call.Common()) != "GetRevision" {
		return false
	}
	return isParam(callRecv(call.Common()), l.owner)
}

func (l *c01Ladder) revRel(fs []Fact) ordRel { return l.p.relFromFacts(fs, l.isRev, l.isOwnerRev) }

// ownerControls: IsController(owner.ClientObject(), obj) known true.
func (l *c01Ladder) ownerControls(fs []Fact) bool {
	for _, f := range fs {
		if !f.Pol {
			continue
		}
		call, _ := asCall(f.Cond)
		if call == nil {
			continue
		}
		o, obj, ok := ownerStrategyCall(call.Common(), "IsController")
		if !ok || !isParam(obj, l.obj) {
			continue
		}
		oc, _ := asCall(o)
		if oc != nil && calleeName(oc.Common()) == "ClientObject" && isParam(callRecv(oc.Common()), l.owner) {
			return true
		}
	}
	return false
}

// hasController: the bool result of GetController(obj).
func (l *c01Ladder) hasController(fs []Fact) tri {
	for _, f := range fs {
		call, idx := asCall(f.Cond)
		if call == nil || idx != 1 || calleeName(call.Common()) != "GetController" {
			continue
		}
		args := callArgs(call.Common())
		if len(args) != 1 || !isParam(args[0], l.obj) {
			continue
		}
		if f.Pol {
			return yesTri
		}
		return noTri
	}
	return unknownTri
}

// prevTestCallee: the call is a static call of a workspace function returning bool whose arguments
// include the checked object and the previous-revisions parameter.
func (l *c01Ladder) prevTestCallee(call *ssa.Call) *ssa.Function {
	callee := staticCallee(call.Common())
	if callee == nil || callee.Blocks == nil {
		return nil
	}
	if callee.Signature.Results().Len() != 1 || callee.Signature.Results().At(0).Type().String() != "bool" {
		return nil
	}
	hasObj, hasPrev := false, false
	for _, a := range callArgs(call.Common()) {
		if isParam(a, l.obj) {
			hasObj = true
		}
		if isParam(a, l.prev) {
			hasPrev = true
		}
	}
	if hasObj && hasPrev {
		return callee
	}
	return nil
}

func (l *c01Ladder) prevControlled(fs []Fact) tri {
	for _, f := range fs {
		call, idx := asCall(f.Cond)
		if call == nil || idx != -1 || l.prevTestCallee(call) == nil {
			continue
		}
		if f.Pol {
			return yesTri
		}
		return noTri
	}
	return unknownTri
}

// prevTests lists the previous-revision test functions called by the ladder.
func (l *c01Ladder) prevTests() []*ssa.Function {
	seen := map[*ssa.Function]bool{}
	var out []*ssa.Function
	for _, c := range callsIn(l.fn) {
		if call, ok := c.Instr.(*ssa.Call); ok {
			if f := l.prevTestCallee(call); f != nil && !seen[f] {
				seen[f] = true
				out = append(out, f)
			}
		}
	}
	return out
}

// --- forced adoption -------------------------------------------------------------------------

func (l *c01Ladder) isForceGetenv(v ssa.Value) bool {
	call, idx := asCall(v)
	if call == nil || idx != -1 || !isCallTo(call.Common(), "os.Getenv") || len(call.Common().Args) != 1 {
		return false
	}
	return isStringConst(call.Common().Args[0], l.m.forceEnv)
}

func (l *c01Ladder) isObjLabels(v ssa.Value, d int) bool {
	v = stripConv(v)
	if call, idx := asCall(v); call != nil && idx == -1 {
		return calleeName(call.Common()) == "GetLabels" && isParam(callRecv(call.Common()), l.obj)
	}
	if ph, ok := v.(*ssa.Phi); ok && d < 3 {
		found := false
		for _, e := range ph.Edges {
			if _, isMM := stripConv(e).(*ssa.MakeMap); isMM {
				continue // fresh empty map substituted for a nil map
			}
			if !l.isObjLabels(e, d+1) {
				return false
			}
			found = true
		}
		return found
	}
	return false
}

func (l *c01Ladder) isPackageLabelLookup(v ssa.Value) bool {
	lk, ok := stripConv(v).(*ssa.Lookup)
	if !ok || lk.CommaOk {
		return false
	}
	return isStringConst(lk.Index, l.m.pkgLabel) && l.isObjLabels(lk.X, 0)
}

// forceEnv: is the force-adoption environment variable known non-empty (yes) / empty (no)?
func (l *c01Ladder) forceEnvSet(fs []Fact) tri {
	for _, f := range fs {
		if x, nonEmptyWhenTrue, ok := lenCmp(f.Cond); ok && l.isForceGetenv(x) {
			if f.Pol == nonEmptyWhenTrue {
				return yesTri
			}
			return noTri
		}
		if b, ok := f.Cond.(*ssa.BinOp); ok && (b.Op == token.EQL || b.Op == token.NEQ) {
			var other ssa.Value
			switch {
			case l.isForceGetenv(b.X):
				other = b.Y
			case l.isForceGetenv(b.Y):
				other = b.X
			default:
				continue
			}
			if !isStringConst(other, "") {
				continue
			}
			if (b.Op == token.NEQ) == f.Pol {
				return yesTri
			}
			return noTri
		}
	}
	return unknownTri
}

// forceLabel: is obj.GetLabels()[PackageLabel] == "package-operator" known true (yes) / false (no)?
func (l *c01Ladder) forceLabelSet(fs []Fact) tri {
	for _, f := range fs {
		b, ok := f.Cond.(*ssa.BinOp)
		if !ok || (b.Op != token.EQL && b.Op != token.NEQ) {
			continue
		}
		var other ssa.Value
		switch {
		case l.isPackageLabelLookup(b.X):
			other = b.Y
		case l.isPackageLabelLookup(b.Y):
			other = b.X
		default:
			continue
		}
		if !isStringConst(other, c01PKOPackageName) {
			continue
		}
		if (b.Op == token.EQL) == f.Pol {
			return yesTri
		}
		return noTri
	}
	return unknownTri
}

func (l *c01Ladder) forced(fs []Fact) bool {
	return l.forceEnvSet(fs) == yesTri || l.forceLabelSet(fs) == yesTri
}
func (l *c01Ladder) notForced(fs []Fact) bool {
	return l.forceEnvSet(fs) == noTri && l.forceLabelSet(fs) == noTri
}

// --- collisionProtection knowledge -----------------------------------------------------------

type c01CPSource struct {
	param bool
	konst string // when !param
	from  *ssa.BasicBlock
	to    *ssa.BasicBlock // phi block; nil for the bare value
}

// cpSources expands a CollisionProtection value into its sources (the parameter and constants
// assigned on phi edges). ok=false when some source is neither.
func (l *c01Ladder) cpSources(v ssa.Value, d int) (out []c01CPSource, ok bool) {
	v = stripConv(v)
	if isParam(v, l.cp) {
		return []c01CPSource{{param: true}}, true
	}
	ph, isPhi := v.(*ssa.Phi)
	if !isPhi || d > 3 {
		return nil, false
	}
	for i, e := range ph.Edges {
		e = stripConv(e)
		from, to := ph.Block().Preds[i], ph.Block()
		switch {
		case isParam(e, l.cp):
			out = append(out, c01CPSource{param: true, from: from, to: to})
		default:
			if s, isC := constString(e); isC {
				out = append(out, c01CPSource{konst: s, from: from, to: to})
				continue
			}
			if e == ssa.Value(ph) {
				continue
			}
			return nil, false // nested phis / computed values: not recognised
		}
	}
	return out, true
}

// c01CPKnow is what a fact set establishes about the collisionProtection *parameter* and forced adoption.
type c01CPKnow struct {
	noneOrForced bool            // effective protection is None: parameter None, or forced adoption
	paramEq      string          // parameter known equal to this constant
	paramNeq     map[string]bool // parameter known different from these constants
	notForced    bool            // forced adoption known off
}

func (l *c01Ladder) cpKnowledge(fs []Fact) c01CPKnow {
	k := c01CPKnow{paramNeq: map[string]bool{}}
	type vk struct {
		v   ssa.Value
		eq  string
		neq map[string]bool
	}
	var vals []*vk
	for _, f := range fs {
		b, ok := f.Cond.(*ssa.BinOp)
		if !ok || (b.Op != token.EQL && b.Op != token.NEQ) {
			continue
		}
		var v ssa.Value
		var cs string
		if s, isC := constString(b.Y); isC {
			v, cs = b.X, s
		} else if s, isC := constString(b.X); isC {
			v, cs = b.Y, s
		} else {
			continue
		}
		if namedTypeString(v.Type()) != pkgCoreV1+".CollisionProtection" {
			continue
		}
		v = stripConv(v)
		var e *vk
		for _, x := range vals {
			if x.v == v {
				e = x
			}
		}
		if e == nil {
			e = &vk{v: v, neq: map[string]bool{}}
			vals = append(vals, e)
		}
		if (b.Op == token.EQL) == f.Pol {
			e.eq = cs
		} else {
			e.neq[cs] = true
		}
	}
	if l.notForced(fs) {
		k.notForced = true
	}
	if l.forced(fs) {
		k.noneOrForced = true
	}
	for _, e := range vals {
		srcs, ok := l.cpSources(e.v, 0)
		if !ok {
			continue
		}
		allParam, constOK, paramEdgesNotForced := true, true, true
		for _, s := range srcs {
			if s.param {
				if s.to != nil && !l.p.holdsOnEdgePaths(s.from, s.to, l.notForced, 6) {
					paramEdgesNotForced = false
				}
				if s.to == nil && !l.notForced(fs) {
					paramEdgesNotForced = false
				}
				continue
			}
			// constant source: impossible if contradicted by what is known about the value
			if (e.eq != "" && s.konst != e.eq) || e.neq[s.konst] {
				continue
			}
			allParam = false
			// a possible constant source: only "None assigned under forced adoption" is understood
			if !(e.eq == l.m.noneVal && s.konst == l.m.noneVal && l.p.holdsOnEdgePaths(s.from, s.to, l.forced, 6)) {
				constOK = false
			}
		}
		if allParam {
			if e.eq != "" {
				k.paramEq = e.eq
				if e.eq == l.m.noneVal {
					k.noneOrForced = true
				}
			}
			for n := range e.neq {
				k.paramNeq[n] = true
			}
			if paramEdgesNotForced {
				k.notForced = true
			}
		} else if constOK && e.eq == l.m.noneVal {
			k.noneOrForced = true
		}
	}
	return k
}

// permitted: the facts establish a row of the decision table that permits adoption.
func (l *c01Ladder) permitted(fs []Fact) (bool, string) {
	rel := l.revRel(fs)
	if !rel.subsetOf(relLT | relEQ) {
		return false, ""
	}
	k := l.cpKnowledge(fs)
	switch {
	case k.noneOrForced:
		return true, "collisionProtection None / forced adoption"
	case k.paramEq == l.m.ifNoCtrlVal && l.hasController(fs) == noTri:
		return true, "IfNoController and object has no controller"
	case l.prevControlled(fs) == yesTri && rel.subsetOf(relLT):
		return true, "controlled by a previous revision with a lower revision"
	}
	return false, ""
}

// notPermitted: the facts exclude every permitting row (or establish rev > ownerRev).
func (l *c01Ladder) notPermitted(fs []Fact) bool {
	rel := l.revRel(fs)
	if rel.subsetOf(relGT) {
		return true
	}
	k := l.cpKnowledge(fs)
	if !(k.paramNeq[l.m.noneVal] || (k.paramEq != "" && k.paramEq != l.m.noneVal)) || !k.notForced {
		return false
	}
	if !(k.paramNeq[l.m.ifNoCtrlVal] || (k.paramEq != "" && k.paramEq != l.m.ifNoCtrlVal) || l.hasController(fs) == yesTri) {
		return false
	}
	return l.prevControlled(fs) == noTri || rel.subsetOf(relEQ|relGT)
}

// neverNewer is the obligation shared by C01.R1 and C02.R1: a return that may report "adopt" is
// reached only when rev <= ownerRev.
func (l *c01Ladder) neverNewer(rc ReturnCase) (bool, string) {
	ok := l.p.holdsForReturn(rc, func(fs []Fact) bool { return l.revRel(fs).subsetOf(relLT | relEQ) }, 8)
	rel := l.revRel(rc.Facts)
	if ok {
		return true, "rev " + rel.String() + " ownerRev on every path"
	}
	return false, fmt.Sprintf("adoption is reported although the guards only establish rev %s ownerRev (rev = revision annotation of the checked object, ownerRev = owner.GetRevision()); an object of a newer revision can be taken over", rel)
}

const c01Depth = 8

func c01r1(c *Ctx) {
	p := c.P
	m := c01ModelOf(p)
	if !m.reportAnchors(c) {
		return
	}
	for _, fn := range m.impls {
		c.Visit(fn)
		l := c01LadderOf(p, m, fn)
		if l == nil {
			c.AnchorLost("parameters of " + shortFuncID(fn))
			continue
		}
		permitClasses := map[string]bool{}
		for _, rc := range p.returnCases(fn) {
			if len(rc.Results) != 2 {
				continue
			}
			r0, isConst := constBool(stripConv(rc.Results[0]))
			errV := stripConv(rc.Results[1])
			errNil := isNilConst(errV)
			switch {
			case !isConst:
				c.Ob(fn, "return-computed", rc.Ret, c.rule.Statement).
					Unknown("the adoption result %s is not a constant; the ladder cannot be classified", p.describe(rc.Results[0]))
			case r0:
				o := c.Ob(fn, "return-adopt", rc.Ret, "adoption is reported only on a permitting row of the decision table and never for an object of a newer revision").
					Require("rev <= ownerRev", "None|forced  or  IfNoController & !hasController  or  previousRevision & rev < ownerRev", "nil error")
				if !errNil {
					o.Fail("adoption reported together with a non-nil error")
					continue
				}
				if ok, why := l.neverNewer(rc); !ok {
					o.Fail("%s", why)
					continue
				}
				var why string
				ok := p.holdsForReturn(rc, func(fs []Fact) bool {
					okk, w := l.permitted(fs)
					if okk {
						why = w
					}
					return okk
				}, c01Depth)
				if ok {
					permitClasses[why] = true
					o.OK(why)
				} else {
					o.Fail("adoption is reported on a path where no permitting row is established; guards here: %s", strings.Join(factStrings(p, rc.Facts), " && "))
				}
			case errNil:
				o := c.Ob(fn, "return-silent", rc.Ret, "adoption is silently declined only when the owner already controls the object or the object belongs to a newer revision").
					Require("IsController(owner.ClientObject(), obj)  or  rev > ownerRev")
				ok := p.holdsForReturn(rc, func(fs []Fact) bool {
					return l.ownerControls(fs) || l.revRel(fs).subsetOf(relGT)
				}, c01Depth)
				if ok {
					o.OK()
				} else {
					o.Fail("(false, nil) is returned although neither IsController(owner, obj) nor rev > ownerRev is established (rev %s ownerRev): a permitted adoption is skipped, or a refusal is not reported; guards here: %s",
						l.revRel(rc.Facts), strings.Join(factStrings(p, rc.Facts), " && "))
				}
			default:
				dyn := namedTypeString(errV.Type())
				if _, isIface := errV.Type().Underlying().(*types.Interface); isIface {
					dyn = ""
				}
				if dyn != "" && m.refusalTypes[dyn] {
					o := c.Ob(fn, "return-refusal:"+dyn[strings.LastIndex(dyn, ".")+1:], rc.Ret, "adoption is refused only when no row of the decision table permits it").
						Require("cp != None & !forced", "cp != IfNoController or hasController", "!previousRevision or rev >= ownerRev")
					if p.holdsForReturn(rc, l.notPermitted, c01Depth) {
						o.OK()
					} else {
						o.Fail("a refusal error is returned on a path where a permitting row is not excluded (a permitted adoption would be refused); guards here: %s", strings.Join(factStrings(p, rc.Facts), " && "))
					}
					continue
				}
				// not a refusal type: must be a propagated failure of a call
				o := c.Ob(fn, "return-error", rc.Ret, "any other (false, err) return propagates the failure of a call; a refusal must use an error type that is reported as CollisionDetected")
				propagated := false
				for _, f := range rc.Facts {
					if x, trueMeansNonNil, ok := errNilTest(f.Cond); ok && f.Pol == trueMeansNonNil && errResultOf(x) != nil {
						propagated = true
					}
				}
				switch {
				case propagated:
					o.OK("propagates a call failure")
				case dyn != "":
					o.Fail("adoption is refused with an error of type %s, which the CollisionDetected reporter does not recognise (recognised: %s); the refusal would not be reported as Available=False/CollisionDetected", dyn, strings.Join(sortedKeys(m.refusalTypes), ", "))
				default:
					o.Fail("(false, %s) is returned without a failed call and without a refusal error type that is reported as CollisionDetected", p.describe(rc.Results[1]))
				}
			}
		}
		// each permitting row must lead to adoption somewhere ("a permitted adoption is always carried out")
		o := c.Ob(fn, "rows-covered", nil, "each permitting row of the decision table (None/forced, IfNoController without controller, previous revision) has a return that reports adoption")
		if len(permitClasses) >= 3 {
			o.OK(sortedKeys(permitClasses)...)
		} else {
			o.Fail("only these rows lead to adoption: %s", strings.Join(sortedKeys(permitClasses), "; "))
		}
	}
}

func sortedKeys(m map[string]bool) []string {
	var out []string
	for k := range m {
		out = append(out, k)
	}
	sort.Strings(out)
	return out
}

// ---------------------------------------------------------------------------------------------
// R2 previous-revision test

// sliceOfElem: v denotes (a copy of, or the address of) an element of a slice; returns the slice.
func sliceOfElem(v ssa.Value) ssa.Value {
	if ia := elemAddrOf(v); ia != nil {
		return ia.X
	}
	return nil
}

// elemAddrOf: v denotes (a copy of, or the address of) an element of a slice; returns the element address.
func elemAddrOf(v ssa.Value) *ssa.IndexAddr {
	v = stripConv(v)
	switch x := v.(type) {
	case *ssa.IndexAddr:
		return x
	case *ssa.UnOp:
		if x.Op != token.MUL {
			return nil
		}
		switch a := x.X.(type) {
		case *ssa.IndexAddr:
			return a
		case *ssa.Alloc:
			return elemAddrOf(a)
		}
	case *ssa.Alloc:
		// local copy of an element: exactly one store, of an element load
		var st *ssa.Store
		for _, r := range referrersOf(x) {
			if s, ok := r.(*ssa.Store); ok && s.Addr == ssa.Value(x) {
				if st != nil {
					return nil
				}
				st = s
			}
		}
		if st != nil {
			if u, ok := st.Val.(*ssa.UnOp); ok && u.Op == token.MUL {
				if ia, ok := u.X.(*ssa.IndexAddr); ok {
					return ia
				}
			}
		}
	}
	return nil
}

// fieldLoadOf: v is a load of field `name` of a struct; returns the struct's address/value.
func fieldLoadOf(v ssa.Value, name string) ssa.Value {
	v = stripConv(v)
	if cv, ok := v.(*ssa.Convert); ok {
		v = cv.X
	}
	switch x := v.(type) {
	case *ssa.UnOp:
		if fa, ok := x.X.(*ssa.FieldAddr); ok && x.Op == token.MUL && fieldName(fa.X.Type(), fa.Field) == name {
			return fa.X
		}
	case *ssa.Field:
		if fieldName(x.X.Type(), x.Field) == name {
			return x.X
		}
	}
	return nil
}

func c01r2(c *Ctx) {
	p := c.P
	m := c01ModelOf(p)
	if !m.reportAnchors(c) {
		return
	}
	n := 0
	for _, impl := range m.impls {
		l := c01LadderOf(p, m, impl)
		if l == nil {
			continue
		}
		for _, fn := range l.prevTests() {
			n++
			c01PrevTest(c, fn)
		}
	}
	if n == 0 {
		c.AnchorLost("a previous-revision test (bool function of the checked object and the previous revisions) called by the adoption checker")
	}
}

func c01PrevTest(c *Ctx, fn *ssa.Function) {
	p := c.P
	c.Visit(fn)
	var obj, prev *ssa.Parameter
	for _, prm := range fn.Params {
		if isClientObjectType(prm.Type()) {
			obj = prm
		}
		if _, ok := prm.Type().Underlying().(*types.Slice); ok {
			prev = prm
		}
	}
	if obj == nil || prev == nil {
		c.AnchorLost("object / previous parameters of " + shortFuncID(fn))
		return
	}
	// The search may be written with loops or with slices.ContainsFunc / IndexFunc predicates (the
	// closure body is the loop body, its parameter is the element, `return false` is `continue`,
	// variables of the enclosing function are read through captures): sv is the function plus the
	// predicate closures of its search calls.
	sv := &c15Search{p: p, root: fn, obj: obj, prevs: prev, elemOf: map[*ssa.Function]ssa.Value{}}
	sv.collect(fn, 0)
	isObj := func(v ssa.Value) bool { return isParam(v, obj) || sv.single(v) == ssa.Value(obj) }
	isPrevList := func(v ssa.Value) bool { return isParam(v, prev) || sv.single(v) == ssa.Value(prev) }
	// predParamOver: v is the element parameter of a predicate closure; returns the searched slice
	predParamOver := func(v ssa.Value) ssa.Value {
		if prm, ok := v.(*ssa.Parameter); ok && len(prm.Parent().Params) == 1 {
			if sl, known := sv.elemOf[prm.Parent()]; known {
				return sl
			}
		}
		return nil
	}
	// isPrevElem: v is an element of the previous parameter
	isPrevElem := func(v ssa.Value) bool {
		for _, x := range []ssa.Value{v, sv.single(v)} {
			if s := sliceOfElem(x); s != nil && isPrevList(s) {
				return true
			}
			if s := predParamOver(stripConv(x)); s != nil && isPrevList(s) {
				return true
			}
		}
		return false
	}
	// prevOfClientObject: v is E.ClientObject() for an element E of previous; returns E
	prevOfClientObject := func(v ssa.Value) ssa.Value {
		call, idx := asCall(v)
		if call == nil || idx != -1 || calleeName(call.Common()) != "ClientObject" {
			return nil
		}
		if r := callRecv(call.Common()); r != nil && isPrevElem(r) {
			return stripConv(r)
		}
		return nil
	}
	classify := func(owner ssa.Value, at *ssa.Call) (bool, string) {
		if prevOfClientObject(owner) != nil {
			return true, "controller is a declared previous revision"
		}
		u, ok := stripConv(owner).(*ssa.Alloc)
		if !ok || namedTypeString(u.Type()) != pkgUnstr+".Unstructured" {
			return false, "the tested owner " + p.describe(owner) + " is neither prev.ClientObject() nor an object built from a remote phase reference"
		}
		var nameSrc, uidSrc ssa.Value
		var nsOK bool
		var nName, nUID, nNS int
		if at.Parent() != u.Parent() {
			return false, "the tested owner " + p.describe(owner) + " is not built in the function that tests it"
		}
		for _, cc := range callsIn(u.Parent()) {
			if stripConv(callRecv(cc.Common)) != ssa.Value(u) {
				continue
			}
			args := callArgs(cc.Common)
			switch calleeName(cc.Common) {
			case "SetName":
				nName++
				nameSrc = fieldLoadOf(args[0], "Name")
			case "SetUID":
				nUID++
				uidSrc = fieldLoadOf(args[0], "UID")
			case "SetNamespace":
				nNS++
				if gc, _ := asCall(args[0]); gc != nil && calleeName(gc.Common()) == "GetNamespace" {
					nsOK = prevOfClientObject(callRecv(gc.Common())) != nil
				}
			default:
				continue
			}
			site := cc.Instr
			if !p.mustPrecede(at, func(in ssa.Instruction) bool { return in == site }) {
				return false, calleeName(cc.Common) + " on the potential remote owner does not precede the IsController test"
			}
		}
		if nName != 1 || nUID != 1 || nNS != 1 {
			return false, fmt.Sprintf("potential remote owner must get name, UID and namespace exactly once (SetName×%d SetUID×%d SetNamespace×%d)", nName, nUID, nNS)
		}
		remoteSlice := func(structAddr ssa.Value) ssa.Value {
			if structAddr == nil {
				return nil
			}
			s := sliceOfElem(structAddr)
			if s == nil {
				// the element parameter of a predicate closure (or its only local copy)
				e := stripConv(structAddr)
				if a, isAlloc := e.(*ssa.Alloc); isAlloc {
					e = nil
					for _, r := range referrersOf(a) {
						if st, ok := r.(*ssa.Store); ok && st.Addr == ssa.Value(a) {
							if e != nil {
								return nil
							}
							e = stripConv(st.Val)
						}
					}
				}
				if e != nil {
					s = predParamOver(e)
				}
			}
			if s == nil {
				return nil
			}
			gc, idx := asCall(sv.single(s))
			if gc == nil || idx != -1 || calleeName(gc.Common()) != "GetRemotePhases" || !isPrevElem(callRecv(gc.Common())) {
				return nil
			}
			return s
		}
		if nameSrc == nil || remoteSlice(nameSrc) == nil {
			return false, "name of the potential remote owner is not the Name of an element of prev.GetRemotePhases()"
		}
		if uidSrc == nil || remoteSlice(uidSrc) == nil {
			return false, "UID of the potential remote owner is not the UID of an element of prev.GetRemotePhases()"
		}
		if stripConv(nameSrc) != stripConv(uidSrc) && !p.sameValue(nameSrc, uidSrc) {
			return false, "name and UID of the potential remote owner come from different remote phase references"
		}
		if !nsOK {
			return false, "namespace of the potential remote owner is not prev.ClientObject().GetNamespace()"
		}
		return true, "controller is a remote phase (name+UID) of a declared previous revision"
	}
	// IsController(X, obj) facts
	ctrlFact := func(fs []Fact) (ssa.Value, *ssa.Call) {
		for _, f := range fs {
			if !f.Pol {
				continue
			}
			call, _ := asCall(f.Cond)
			if call == nil {
				continue
			}
			o, ob, ok := ownerStrategyCall(call.Common(), "IsController")
			if ok && isObj(ob) {
				return o, call
			}
		}
		return nil, nil
	}
	// searchOf: v is the result of slices.ContainsFunc(S, pred) with a predicate of the search view
	searchOf := func(v ssa.Value) (ssa.Value, *ssa.Function) {
		call, idx := asCall(v)
		if call == nil || idx != -1 {
			return nil, nil
		}
		if sl, pred, index, isSearch := pfSearchCall(call); isSearch && !index {
			if _, known := sv.elemOf[pred]; known {
				return sl, pred
			}
		}
		return nil, nil
	}
	// searchFact: a fact "ContainsFunc(S, pred) is <pol>" among fs
	searchFact := func(fs []Fact, pol bool) (ssa.Value, *ssa.Function) {
		for _, f := range fs {
			if f.Pol != pol {
				continue
			}
			if sl, pred := searchOf(f.Cond); pred != nil {
				return sl, pred
			}
		}
		return nil, nil
	}
	// Every predicate closure of the view is judged like the function itself: each way it can
	// answer true is an obligation of its own, so a result that is "some element satisfies the
	// predicate" is justified by delegation. A predicate's false only moves on to the next element.
	var preds []*ssa.Function
	for pred := range sv.elemOf {
		preds = append(preds, pred)
	}
	sort.Slice(preds, func(i, j int) bool { return shortFuncID(preds[i]) < shortFuncID(preds[j]) })
	for _, f := range append([]*ssa.Function{fn}, preds...) {
		c01PrevTestReturns(c, fn, f, prev, classify, ctrlFact, searchOf, searchFact, isObj, isPrevList)
	}
}

// c01PrevTestReturns judges the returns of the previous-revision test `root` (f == root) or of one of
// the predicate closures of its search calls.
func c01PrevTestReturns(c *Ctx, root, fn *ssa.Function, prev *ssa.Parameter,
	classify func(ssa.Value, *ssa.Call) (bool, string),
	ctrlFact func([]Fact) (ssa.Value, *ssa.Call),
	searchOf func(ssa.Value) (ssa.Value, *ssa.Function),
	searchFact func([]Fact, bool) (ssa.Value, *ssa.Function),
	isObj, isPrevList func(ssa.Value) bool,
) {
	p := c.P
	c.Visit(fn)
	for _, rc := range p.returnCases(fn) {
		if len(rc.Results) != 1 {
			continue
		}
		res := stripConv(rc.Results[0])
		if b, isConst := constBool(res); isConst {
			if !b && fn != root {
				continue // `return false` of a predicate: the search goes on with the next element
			}
			if !b {
				// "not controlled by a previous revision" (which refuses a permitted adoption) may
				// be answered only after every declared previous revision was examined: the return
				// lies behind a loop over the whole `previous` list and is reached only through the
				// loop's exhaustion edge — not from inside an iteration (e.g. after the remote phases
				// of the first revision that has some).
				o := c.Ob(fn, "return-false", rc.Ret, "false (not controlled by a previous revision) is returned only after every declared previous revision was examined")
				var whys []string
				done := false
				if sl, pred := searchFact(rc.Facts, false); pred != nil && isPrevList(sl) {
					o.OK("slices.ContainsFunc over " + p.describe(sl) + " found no match: every element was examined")
					done = true
				}
				for _, l := range rvRangeLoops(p, fn) {
					if done {
						break
					}
					if !isPrevList(l.Slice) {
						continue
					}
					if ok, why := l.onlyByExhaustion(rc.Ret); ok {
						o.OK("after the loop over " + p.describe(l.Slice) + " ran to its end")
						done = true
						break
					} else {
						whys = append(whys, why)
					}
				}
				if !done {
					if len(whys) == 0 {
						o.Unknown("no `for … range %s` / index loop over the whole list of previous revisions found before this return", prev.Name())
					} else {
						o.Fail("returns false before every previous revision was examined (%s): an object controlled by a later declared previous revision, or by one of its delegated phases, is refused although adoption is permitted", strings.Join(rvDedup(whys), " / "))
					}
				}
				continue
			}
			o := c.Ob(fn, "return-true", rc.Ret, c.rule.Statement)
			owner, call := ctrlFact(rc.Facts)
			if owner == nil {
				if sl, pred := searchFact(rc.Facts, true); pred != nil {
					o.OK("some element of " + p.describe(sl) + " satisfies " + shortFuncID(pred) + ", whose true answers are judged separately")
					continue
				}
			}
			if owner == nil {
				o.Fail("returns true on a path that is not guarded by IsController(<previous revision or its remote phase>, obj); guards here: %s", strings.Join(factStrings(p, rc.Facts), " && "))
				continue
			}
			if ok, why := classify(owner, call); ok {
				o.OK(why)
			} else {
				o.Fail("%s", why)
			}
			continue
		}
		// `return slices.ContainsFunc(S, pred)`: true iff the predicate is for some element (judged
		// at the predicate); false only after every element of S was examined
		if sl, pred := searchOf(res); pred != nil {
			if fn != root {
				continue
			}
			o := c.Ob(fn, "return-false", rc.Ret, "false (not controlled by a previous revision) is returned only after every declared previous revision was examined")
			if isPrevList(sl) {
				o.OK("result of slices.ContainsFunc over " + p.describe(sl) + ": false only when no element matched")
			} else {
				o.Fail("the result is a search over %s, not over the whole list of previous revisions: an object controlled by a declared previous revision outside of it is refused although adoption is permitted", p.describe(sl))
			}
			continue
		}
		// `return IsController(X, obj)`
		o := c.Ob(fn, "return-computed", rc.Ret, c.rule.Statement)
		call, _ := asCall(res)
		if call == nil {
			o.Unknown("result %s is neither a constant nor an IsController call", p.describe(res))
			continue
		}
		owner, ob, ok := ownerStrategyCall(call.Common(), "IsController")
		if !ok || !isObj(ob) {
			o.Unknown("result %s is neither a constant nor IsController(_, obj)", p.describe(res))
			continue
		}
		if ok, why := classify(owner, call); ok {
			o.OK(why)
		} else {
			o.Fail("%s", why)
		}
	}
}

// ---------------------------------------------------------------------------------------------
// R3 / R4: the reconcile function (the function that invokes the adoption checker)

type c01Rec struct {
	fn      *ssa.Function
	check   *ssa.Call // the invoke
	checked ssa.Value // object handed to the checker
	owner   ssa.Value
	vals    []ssa.Value // see values
	valsOK  bool
}

// values: what the checked object can be when the check runs. The object may reach the check through
// a merge — the result of a lookup helper whose body the normaliser merged into the reconcile function
// travels as `obj, found, err := phi(nil, nil, X, X), phi(false, false, false, true), phi(E1, E2, nil,
// nil)`, and the check runs behind `err == nil` and `found` — so the merge is narrowed to the incoming
// edges that the facts at the check leave feasible (pfPossibleValuesUnder: all results of one merge
// point select the same edge). With no merge this is the checked value itself.
func (r *c01Rec) values(p *Program) []ssa.Value {
	if !r.valsOK {
		r.valsOK = true
		for _, v := range p.pfPossibleValuesUnder(stripConv(r.checked), p.FactsAt(r.check.Block())) {
			v = stripConv(v)
			dup := false
			for _, k := range r.vals {
				if k == v || (isNilConst(k) && isNilConst(v)) {
					dup = true
				}
			}
			if !dup {
				r.vals = append(r.vals, v)
			}
		}
	}
	return r.vals
}

// isChecked: x is the checked object — the value handed to the checker, or the one value that the
// merge handed to the checker can hold when the check runs.
func (r *c01Rec) isChecked(p *Program, x ssa.Value) bool {
	if p.sameValue(x, r.checked) {
		return true
	}
	if vs := r.values(p); len(vs) == 1 && !isNilConst(vs[0]) {
		return p.sameValue(x, vs[0])
	}
	return false
}

func c01RecOf(c Call) *c01Rec {
	call, ok := c.Instr.(*ssa.Call)
	if !ok {
		return nil
	}
	return &c01Rec{fn: c.Fn, check: call, checked: c.Common.Args[1], owner: c.Common.Args[0]}
}

// sameOrCopyOfChecked: x is the checked object or a DeepCopy of it.
func (r *c01Rec) sameOrCopyOfChecked(p *Program, x ssa.Value) bool {
	if r.isChecked(p, x) {
		return true
	}
	if call, idx := asCall(x); call != nil && idx == -1 && calleeName(call.Common()) == "DeepCopy" {
		return r.isChecked(p, callRecv(call.Common()))
	}
	return false
}

// underPositiveCheck: facts establish Check(...)#0 == true and Check(...)#1 == nil.
func (r *c01Rec) underPositiveCheck(p *Program, fs []Fact) (bool, string) {
	adopt := false
	for _, f := range fs {
		if cc, idx := asCall(f.Cond); cc == r.check && idx == 0 && f.Pol {
			adopt = true
		}
	}
	if !adopt {
		return false, "not guarded by the adoption checker's result being true"
	}
	if !p.errOfCallIsNil(fs, r.check) {
		return false, "not guarded by the adoption checker's error being nil"
	}
	return true, ""
}

var c01OwnershipMutators = map[string]bool{"ReleaseController": true, "SetControllerReference": true, "SetOwnerReference": true, "RemoveOwner": true}

// ownershipMutation: the call changes ownership metadata of an object; returns that object.
func c01OwnershipMutation(m *c01Model, cc *ssa.CallCommon) (obj ssa.Value, what string) {
	n := calleeName(cc)
	args := callArgs(cc)
	if c01OwnershipMutators[n] && cc.IsInvoke() && len(args) >= 1 {
		return args[len(args)-1], n
	}
	if callee := staticCallee(cc); callee != nil && m.revUses.isWriter(callee) && len(args) >= 1 {
		return args[0], "revision-annotation write"
	}
	if n == "SetOwnerReferences" && callRecv(cc) != nil { // flows into the apply patch through the patcher
		return callRecv(cc), n
	}
	return nil, ""
}

func c01r3(c *Ctx) {
	p := c.P
	m := c01ModelOf(p)
	if !m.reportAnchors(c) {
		return
	}
	for _, inv := range m.invokes {
		r := c01RecOf(inv)
		if r == nil {
			continue
		}
		fn := r.fn
		c.Visit(fn)
		// the checked object is the object the reader filled in this activation; owner/previous/protection are passed through
		o := c.Ob(fn, "checker-inspects-read-object", inv.Instr, "the adoption checker is asked about the object that was read from the cluster in this activation, for the owner of this call")
		// every value the checked object can hold when the check runs (a merge narrowed by the guards of
		// the check, see values) must have been filled by a Reader.Get on every path to the check
		var reads []string
		var unread ssa.Value
		vals := r.values(p)
		for _, v := range vals {
			n := 0
			for _, cc := range callsIn(fn) {
				if isReaderGet(cc.Common) && p.sameValue(callArgs(cc.Common)[2], v) &&
					p.mustPrecede(r.check, func(in ssa.Instruction) bool { return in == cc.Instr }) {
					n++
					if pos := p.IPos(cc.Instr); !slices.Contains(reads, pos) {
						reads = append(reads, pos)
					}
				}
			}
			if n == 0 && unread == nil {
				unread = v
			}
		}
		_, ownerIsParam := stripConv(r.owner).(*ssa.Parameter)
		switch {
		case len(vals) == 0 || unread != nil:
			what := p.describe(r.checked)
			if unread != nil && unread != stripConv(r.checked) {
				what += ", which may be " + p.describe(unread)
			}
			o.Fail("the object handed to the adoption checker (%s) is not the out-parameter of a Reader.Get that precedes the check", what)
		case !ownerIsParam:
			o.Fail("the owner handed to the adoption checker (%s) is not the owner parameter of the reconcile function", p.describe(r.owner))
		default:
			o.OK("read at " + strings.Join(reads, ", "))
		}
		for _, cc := range callsIn(fn) {
			x, what := c01OwnershipMutation(m, cc.Common)
			if x == nil || !r.sameOrCopyOfChecked(p, x) {
				continue
			}
			ob := c.Ob(fn, "mutation-"+what, cc.Instr, c.rule.Statement).Require("Check(...)#0 == true", "Check(...)#1 == nil")
			if ok, why := r.underPositiveCheck(p, p.FactsAt(cc.Block())); ok {
				ob.OK()
			} else {
				ob.Fail("%s on the cluster object's copy is %s", what, why)
			}
		}
	}
}

// c01WriterIfaceImpls: for an invoke in the reconcile function on a workspace interface that is not a
// controller-runtime writer itself, the implementations (and their static callees, depth 2) that
// contain writer call sites.
func c01WriterIfaceImpls(p *Program, cc *ssa.CallCommon) []*ssa.Function {
	if !cc.IsInvoke() {
		return nil
	}
	if !strings.HasPrefix(namedTypeString(cc.Value.Type()), modPKO) {
		return nil
	}
	it := ifaceOf(cc.Value)
	if it == nil {
		return nil
	}
	var out []*ssa.Function
	for _, impl := range p.implementationsOf(it, cc.Method.Name()) {
		fns := staticCalleesWithin(impl, 2)
		var own []*ssa.Function
		for _, f := range fns {
			if strings.HasPrefix(funcPkgPath(f), modPKO) {
				own = append(own, f)
			}
		}
		if len(allWriterSites(own)) > 0 {
			out = append(out, own...)
		}
	}
	return out
}

func c01r4(c *Ctx) {
	p := c.P
	m := c01ModelOf(p)
	if !m.reportAnchors(c) {
		return
	}
	for _, inv := range m.invokes {
		r := c01RecOf(inv)
		if r == nil {
			continue
		}
		fn := r.fn
		type site struct {
			instr ssa.CallInstruction
			objs  []ssa.Value
			what  string
			verb  string
			ws    *WriterSite
		}
		var sites []site
		// inlined view: writers that were extracted into unexported helpers of the reconcile function are
		// judged at their real site, with the facts imported from the helper's call sites
		for _, xc := range p.callsInX(fn) {
			cc := xc.Call
			if ws, ok := classifyWriter(cc); ok {
				w := ws
				sites = append(sites, site{instr: cc.Instr, objs: []ssa.Value{ws.Obj}, what: "writer." + ws.Verb, verb: ws.Verb, ws: &w})
				continue
			}
			if impls := c01WriterIfaceImpls(p, cc.Common); len(impls) > 0 {
				var objs []ssa.Value
				for _, a := range callArgs(cc.Common) {
					if t := namedTypeString(a.Type()); t == pkgUnstr+".Unstructured" || isClientObjectType(a.Type()) {
						objs = append(objs, a)
					}
				}
				sites = append(sites, site{instr: cc.Instr, objs: objs, what: "invoke " + calleeName(cc.Common) + " (implementation writes)", verb: "Patch"})
			}
		}
		for _, s := range sites {
			o := c.Ob(fn, "write-"+s.what, s.instr, c.rule.Statement)
			fs := p.FactsAtX(s.instr.Block())
			// (a) under IsController(owner, x), x the checked object / its copy, and x among the written objects
			underControl := false
			for _, x := range s.objs {
				if r.sameOrCopyOfChecked(p, x) && p.factOwnerTest(fs, "IsController", true, x) && c01OwnerOfFactIs(p, fs, x, r.owner) {
					underControl = true
				}
			}
			if underControl {
				o.OK("under IsController(owner, checked object)")
				continue
			}
			// (b) create-apply: under IsNotFound(e), e only errors of Reader.Get(key of the written object)
			if s.ws != nil {
				if ok, why := c01CreateUnderNotFound(p, fn, fs, s.ws); ok {
					o.OK(why)
					continue
				} else if why != "" {
					o.Fail("%s", why)
					continue
				}
			}
			o.Fail("a write to a (possibly pre-existing) cluster object is reachable without IsController(owner.ClientObject(), <checked object>) == true and outside the NotFound create path; guards here: %s",
				strings.Join(factStrings(p, fs), " && "))
		}
	}
}

// c01OwnerOfFactIs: the IsController fact about x tests the same owner that was handed to the checker.
func c01OwnerOfFactIs(p *Program, fs []Fact, x, owner ssa.Value) bool {
	for _, f := range fs {
		if !f.Pol {
			continue
		}
		call, _ := asCall(f.Cond)
		if call == nil {
			continue
		}
		o, obj, ok := ownerStrategyCall(call.Common(), "IsController")
		if !ok || !p.sameValue(obj, x) {
			continue
		}
		if oc, _ := asCall(o); oc != nil && p.sameValue(callRecv(oc.Common()), owner) {
			return true
		}
	}
	return false
}

// c01CreateUnderNotFound: the write is guarded by IsNotFound(e) where every value that may flow into
// e is the error of a Reader.Get whose key is ObjectKeyFromObject(<written object>) .
// Returns ok; or !ok with a non-empty reason when an IsNotFound guard exists but is not the lookup of the written object.
func c01CreateUnderNotFound(p *Program, fn *ssa.Function, fs []Fact, ws *WriterSite) (bool, string) {
	f, found := p.findFactCall(fs, true, []string{pkgAPIErr + ".IsNotFound"}, nil)
	if !found {
		return false, ""
	}
	call, _ := asCall(f.Cond)
	e := call.Common().Args[0]
	var notes []string
	for _, pv := range p.possibleValues(e) {
		gc := errResultOf(pv)
		if gc == nil || !isReaderGet(gc.Common()) {
			return false, "the create path is guarded by IsNotFound of " + p.describe(pv) + ", which is not the error of a Reader.Get"
		}
		key := callArgs(gc.Common())[1]
		kc, _ := asCall(key)
		if kc == nil || !isCallTo(kc.Common(), pkgClient+".ObjectKeyFromObject") || !p.sameValue(kc.Common().Args[0], ws.Obj) {
			return false, "the create path is guarded by NotFound of a lookup (" + p.IPos(gc) + ") whose key is not ObjectKeyFromObject(<written object>)"
		}
		notes = append(notes, p.IPos(gc))
	}
	if len(notes) == 0 {
		return false, "IsNotFound guard on a value without known sources"
	}
	return true, "create-apply under NotFound of the lookup(s) at " + strings.Join(notes, ", ")
}

// ---------------------------------------------------------------------------------------------
// R5 closure

func c01r5(c *Ctx) {
	p := c.P
	m := c01ModelOf(p)
	if !m.reportAnchors(c) {
		return
	}
	recFn := map[*ssa.Function]bool{}
	implFn := map[*ssa.Function]bool{}
	for _, inv := range m.invokes {
		recFn[inv.Fn] = true
		fs := p.FactsAt(inv.Block())
		_ = fs
		for _, xc := range p.callsInX(inv.Fn) {
			cc := xc.Call
			impls := c01WriterIfaceImpls(p, cc.Common)
			if len(impls) == 0 {
				continue
			}
			// only implementations invoked under the IsController guard count as covered by R4
			guarded := false
			for _, a := range callArgs(cc.Common) {
				if p.factOwnerTest(p.FactsAtX(cc.Block()), "IsController", true, a) {
					guarded = true
				}
			}
			if guarded {
				for _, f := range impls {
					implFn[f] = true
				}
			}
		}
	}
	hasDynDelete := map[*ssa.Function]bool{}
	all := allWriterSites(p.productFuncs())
	for _, dc := range p.dynDeleteContexts() {
		hasDynDelete[dc.Fn] = true // the teardown function, also when the Delete call sits in a helper
	}
	for _, ws := range all {
		if ws.Class == "typed" || strings.HasPrefix(ws.Verb, "Status.") {
			continue
		}
		if ws.Verb == "Create" {
			continue // a create cannot modify a pre-existing object (AlreadyExists)
		}
		if ws.Class == "unknown" && c01ParamAlwaysTyped(p, ws.Obj, 2) {
			continue
		}
		fn := ws.Call.Fn
		pk := funcPkgPath(fn)
		o := c.Ob(fn, "dyn-"+ws.Verb, ws.Call.Instr, c.rule.Statement)
		// a writer that sits in an extracted (unexported, statically called) helper belongs to the
		// functions the helper is inlined into
		switch {
		case recFn[fn] || p.inlinedInto(fn, recFn):
			o.OK("in the reconcile function: checked by C01.R4")
		case implFn[fn]:
			// reachable only through an interface of the phase reconciler that is invoked under IsController
			if p.addressTaken(fn) {
				o.Fail("patcher implementation's address is taken; other callers cannot be excluded")
			} else if bad := c01ForeignStaticCallers(p, fn, implFn); bad != "" {
				o.Fail("writer helper is also called from %s, outside the IsController-guarded patcher", bad)
			} else {
				o.OK("patcher implementation invoked under IsController (C01.R4)")
			}
		case ws.Verb == "Delete":
			o.OK("delete: checked by C05.R1")
		case (hasDynDelete[fn] || p.inlinedInto(fn, hasDynDelete)) && ws.Verb == "Patch":
			o.OK("co-owner release in the teardown function: checked by C05.R3")
		case c01HasDryRunAll(ws):
			o.OK("dry-run (client.DryRunAll): nothing is persisted")
		case pk == pkgObjTemplate:
			o.OK("ObjectTemplate's own templated object (C18); not an ObjectSet/ObjectSetPhase object")
		case pk == pkgControllers && c01OnlyCalledFrom(p, fn, pkgObjTemplate):
			o.OK("label patch helper used only by the ObjectTemplate controller on template sources (C18)")
		default:
			o.Fail("unreviewed writer of dynamic objects: %s of %s is not behind the adoption ladder and belongs to no reviewed class", ws.Verb, p.describe(ws.Obj))
		}
	}
}

func c01HasDryRunAll(ws WriterSite) bool {
	if !ws.OptsOK {
		return false
	}
	for _, opt := range ws.Opts {
		v := stripConv(opt)
		if u, ok := v.(*ssa.UnOp); ok && u.Op == token.MUL {
			if g, ok := u.X.(*ssa.Global); ok && g.String() == pkgClient+".DryRunAll" {
				return true
			}
		}
	}
	return false
}

// c01ParamAlwaysTyped: v is a parameter and every static caller passes a typed API object (bounded).
func c01ParamAlwaysTyped(p *Program, v ssa.Value, depth int) bool {
	prm, ok := stripConv(v).(*ssa.Parameter)
	if !ok || depth <= 0 {
		return false
	}
	fn := prm.Parent()
	idx := -1
	for i, x := range fn.Params {
		if x == prm {
			idx = i
		}
	}
	callers := p.callersOf(fn)
	if idx < 0 || len(callers) == 0 || p.addressTaken(fn) {
		return false
	}
	for _, cl := range callers {
		if isNonProductPkg(funcPkgPath(cl.Fn)) {
			continue
		}
		if idx >= len(cl.Common.Args) {
			return false
		}
		a := cl.Common.Args[idx]
		switch classifyObjectArg(a) {
		case "typed":
		case "unknown":
			if !c01ParamAlwaysTyped(p, a, depth-1) {
				return false
			}
		default:
			return false
		}
	}
	return true
}

func c01OnlyCalledFrom(p *Program, fn *ssa.Function, pkg string) bool {
	if p.addressTaken(fn) {
		return false
	}
	for _, cl := range p.callersOf(fn) {
		if pk := funcPkgPath(cl.Fn); pk != pkg && !isNonProductPkg(pk) {
			return false
		}
	}
	return true
}

func c01ForeignStaticCallers(p *Program, fn *ssa.Function, ok map[*ssa.Function]bool) string {
	for _, cl := range p.callersOf(fn) {
		if !ok[cl.Fn] && !isNonProductPkg(funcPkgPath(cl.Fn)) {
			return shortFuncID(cl.Fn)
		}
	}
	return ""
}

// ---------------------------------------------------------------------------------------------
// R6 reporting

func c01r6(c *Ctx) {
	p := c.P
	m := c01ModelOf(p)
	if !m.reportAnchors(c) {
		return
	}
	availType, okA := p.stringConstOf(pkgCoreV1, "ObjectSetAvailable")
	if !okA {
		c.AnchorLost("constant " + pkgCoreV1 + ".ObjectSetAvailable")
		return
	}
	isReporter := map[*ssa.Function]bool{}
	// (a) the condition
	for _, fn := range m.reporters {
		isReporter[fn] = true
		c.Visit(fn)
		for _, cs := range conditionSets(fn) {
			if cs.Reason != "CollisionDetected" {
				continue
			}
			o := c.Ob(fn, "condition-CollisionDetected", cs.Call.Instr, "refusal becomes Available=False/CollisionDetected under the refusal predicate, and the status update follows").
				Require("Type == Available", "Status == False", "guard: refusal predicate(err)", "status update callback is called before returning")
			var problems []string
			if cs.Type != availType {
				problems = append(problems, "condition type is "+cs.Type+", not "+availType)
			}
			if cs.Status != "False" {
				problems = append(problems, "condition status is "+cs.Status+", not False")
			}
			guarded := false
			for _, f := range p.FactsAt(cs.Call.Block()) {
				if f.Pol && c01RefusalPredCall(f) != nil {
					guarded = true
				}
			}
			if !guarded {
				problems = append(problems, "not guarded by a refusal predicate on the reconcile error")
			}
			// the condition only lives in memory until the status writer runs: a call of a func-typed parameter (or a Status().Update) must follow
			follows := p.mustFollow(cs.Call.Instr, func(in ssa.Instruction) bool {
				ci, ok := in.(ssa.CallInstruction)
				if !ok {
					return false
				}
				if prm, isP := ci.Common().Value.(*ssa.Parameter); isP && !ci.Common().IsInvoke() {
					_, isFn := prm.Type().Underlying().(*types.Signature)
					return isFn
				}
				if ws, ok := classifyWriter(Call{Instr: ci, Common: ci.Common(), Fn: fn}); ok && strings.HasPrefix(ws.Verb, "Status.") {
					return true
				}
				return false
			}, nil)
			if !follows {
				problems = append(problems, "no status update follows the condition on every path to return")
			}
			if len(problems) == 0 {
				o.OK()
			} else {
				o.Fail("%s", strings.Join(problems, "; "))
			}
		}
	}
	// (b) the predicate: for every recognised type T and every return: result is true, is errors.As(err,&T) itself, or errors.As(err,&T) is known false
	if len(m.refusalPreds) == 0 {
		c.AnchorLost("refusal predicate guarding the CollisionDetected condition")
	}
	for _, pf := range m.refusalPreds {
		c.Visit(pf)
		targets := c01ErrorsAsTargets(pf)
		o := c.Ob(pf, "refusal-predicate", nil, "the refusal predicate returns true whenever errors.As finds one of its refusal types")
		if len(targets) == 0 {
			o.Fail("no errors.As(err, &T) in the refusal predicate")
			continue
		}
		var problems []string
		for _, rc := range p.returnCases(pf) {
			if len(rc.Results) != 1 {
				continue
			}
			res := stripConv(rc.Results[0])
			if b, isC := constBool(res); isC && b {
				continue
			}
			for _, t := range targets {
				if rcall, _ := asCall(res); rcall == t.call {
					continue
				}
				if p.boolFromFacts(rc.Facts, t.call) == noTri {
					continue
				}
				problems = append(problems, fmt.Sprintf("return at %s can yield false although errors.As(err, *%s) is not known false", p.IPos(rc.Ret), t.typ))
			}
		}
		if len(problems) == 0 {
			var ts []string
			for _, t := range targets {
				ts = append(ts, t.typ)
			}
			o.OK("recognises " + strings.Join(ts, ", "))
		} else {
			o.Fail("%s", strings.Join(problems, "; "))
		}
	}
	// (c) controllers: every reconcile.Reconciler in the two controller packages that runs sub-reconcilers
	n := 0
	for _, fn := range p.productFuncs() {
		pk := funcPkgPath(fn)
		if pk != pkgObjectSets && pk != pkgObjSetPhases {
			continue
		}
		if fn.Name() != "Reconcile" || fn.Signature.Recv() == nil || fn.Signature.Params().Len() != 2 ||
			!strings.HasSuffix(namedTypeString(fn.Signature.Params().At(1).Type()), "reconcile.Request") {
			continue
		}
		for _, cc := range callsIn(fn) {
			call, ok := cc.Instr.(*ssa.Call)
			if !ok || !cc.Common.IsInvoke() || cc.Common.Method.Name() != "Reconcile" {
				continue
			}
			res := cc.Common.Signature().Results()
			if res.Len() != 2 || res.At(1).Type().String() != "error" {
				continue
			}
			n++
			c01ControllerRoutesError(c, fn, call, isReporter)
		}
	}
	if n < 2 {
		c.AnchorLost(fmt.Sprintf("sub-reconciler invocations in the Reconcile methods of %s and %s (found %d)", pkgObjectSets, pkgObjSetPhases, n))
	}
}

// c01ControllerRoutesError: every return reachable after the sub-reconciler call either knows the
// call's error to be nil or returns the results of the reporter applied to that error.
func c01ControllerRoutesError(c *Ctx, fn *ssa.Function, call *ssa.Call, isReporter map[*ssa.Function]bool) {
	p := c.P
	o := c.Ob(fn, "subreconciler-error-routed", call, "every non-nil sub-reconciler error is passed through the CollisionDetected reporter before the controller returns")
	var errV ssa.Value
	for _, r := range referrersOf(call) {
		if ex, ok := r.(*ssa.Extract); ok && ex.Index == 1 {
			errV = ex
		}
	}
	if errV == nil {
		o.Fail("the error result of the sub-reconciler call is discarded")
		return
	}
	carries := func(x ssa.Value) bool {
		if p.sameValue(x, errV) {
			return true
		}
		for _, pv := range p.possibleValues(x) {
			if stripConv(pv) == errV {
				return true
			}
		}
		return false
	}
	// returns that a possibly non-nil error of the call can reach (paths that pass a successful nil
	// test of the error are not followed)
	reach := map[*ssa.BasicBlock]bool{}
	for _, r := range p.returnsReachedWithErr(call, carries) {
		reach[r.Block()] = true
	}
	var problems []string
	checked := 0
	for _, rc := range p.returnCases(fn) {
		if !reach[rc.Ret.Block()] || rc.Ret.Block() == fn.Recover {
			continue
		}
		checked++
		// nil?
		known := unknownTri
		for _, f := range rc.Facts {
			if x, trueMeansNonNil, ok := errNilTest(f.Cond); ok && carries(x) {
				if f.Pol == trueMeansNonNil {
					known = noTri
				} else {
					known = yesTri
				}
			}
		}
		if known == yesTri {
			continue
		}
		// routed?
		routed := false
		if len(rc.Results) == 2 {
			if rcall, idx := asCall(rc.Results[1]); rcall != nil && idx == 1 {
				if callee := staticCallee(rcall.Common()); callee != nil && isReporter[callee] {
					for _, a := range rcall.Common().Args {
						if a.Type().String() == "error" && carries(a) {
							routed = true
						}
					}
				}
			}
		}
		if !routed {
			problems = append(problems, fmt.Sprintf("return at %s is reachable with a possibly non-nil sub-reconciler error that was not passed through the reporter", p.IPos(rc.Ret)))
		}
	}
	switch {
	case checked == 0:
		o.Unknown("no return reachable after the sub-reconciler call was found")
	case len(problems) > 0:
		o.Fail("%s", strings.Join(problems, "; "))
	default:
		o.OK(fmt.Sprintf("%d returns after the call: error nil or routed", checked))
	}
}
