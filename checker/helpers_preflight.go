package main

// Helpers shared by the C11 and C18 rules: preflight-checker call recognition, class-hierarchy
// call closure (static callees + workspace implementers of invoked interface methods), value
// derivation, constructor-wiring (A11) and "every element is checked" loop recognition.

import (
	"fmt"
	"go/constant"
	"go/token"
	"go/types"
	"sort"
	"strings"

	"golang.org/x/tools/go/ssa"
)

// ---------------------------------------------------------------------------------------------
// Signatures of the preflight checker interfaces (selected by type, never by name)

func pfIsViolationSlice(t types.Type) bool {
	sl, ok := t.Underlying().(*types.Slice)
	return ok && namedTypeString(sl.Elem()) == pkgPreflight+".Violation"
}

func pfIsErrorType(t types.Type) bool { return t.String() == "error" }

func pfResultsOK(sig *types.Signature) bool {
	r := sig.Results()
	return r.Len() == 2 && pfIsViolationSlice(r.At(0).Type()) && pfIsErrorType(r.At(1).Type())
}

// pfObjCheckSig: (ctx, owner, obj client.Object) ([]preflight.Violation, error)
func pfObjCheckSig(sig *types.Signature) bool {
	if sig == nil || !pfResultsOK(sig) || sig.Params().Len() != 3 {
		return false
	}
	return isClientObjectType(sig.Params().At(1).Type()) && isClientObjectType(sig.Params().At(2).Type())
}

// pfPhasesCheckSig: (ctx, []corev1alpha1.ObjectSetTemplatePhase) ([]preflight.Violation, error)
func pfPhasesCheckSig(sig *types.Signature) bool {
	if sig == nil || !pfResultsOK(sig) || sig.Params().Len() != 2 {
		return false
	}
	sl, ok := sig.Params().At(1).Type().Underlying().(*types.Slice)
	return ok && namedTypeString(sl.Elem()) == pkgCoreV1+".ObjectSetTemplatePhase"
}

// pfCheckerIface: t is an interface type with a method of the given checker signature.
func pfCheckerIface(t types.Type, sigOK func(*types.Signature) bool) bool {
	it, ok := t.Underlying().(*types.Interface)
	if !ok {
		return false
	}
	for i := 0; i < it.NumMethods(); i++ {
		if s, ok := it.Method(i).Type().(*types.Signature); ok && sigOK(s) {
			return true
		}
	}
	return false
}

// pfCheckCalls lists the value-calls in fn whose callee has the checker signature (invoke of an
// interface method, static method, or a call of a function value such as CheckerFn).
func pfCheckCalls(fn *ssa.Function, sigOK func(*types.Signature) bool) []*ssa.Call {
	var out []*ssa.Call
	for _, c := range callsIn(fn) {
		call, ok := c.Instr.(*ssa.Call)
		if !ok {
			continue
		}
		if _, isB := c.Common.Value.(*ssa.Builtin); isB {
			continue
		}
		if sigOK(c.Common.Signature()) {
			out = append(out, call)
		}
	}
	return out
}

// pfExtract returns the Extract #idx of a tuple-returning call (nil if never extracted).
func pfExtract(call *ssa.Call, idx int) ssa.Value {
	for _, r := range referrersOf(call) {
		if e, ok := r.(*ssa.Extract); ok && e.Index == idx {
			return e
		}
	}
	return nil
}

// pfSuccess: the facts establish that checker call `call` returned a nil error AND an empty
// violation list.
func (p *Program) pfSuccess(fs []Fact, call *ssa.Call) bool {
	if !p.errOfCallIsNil(fs, call) {
		return false
	}
	v := pfExtract(call, 0)
	if v == nil {
		return false
	}
	return p.emptinessFromFacts(fs, v) == yesTri
}

// pfAssume: values assumed nil / empty in addition to what the facts say (results of a helper
// whose caller established that outcome).
type pfAssume struct {
	Nil, Empty []ssa.Value
}

func (p *Program) pfAssumed(list []ssa.Value, v ssa.Value) bool {
	for _, a := range list {
		if a != nil && v != nil && (stripConv(a) == stripConv(v) || p.sameValue(a, v)) {
			return true
		}
	}
	return false
}

// pfSuccessAssuming: pfSuccess, where either half may also follow from an assumed value: the call's
// error is one of as.Nil, its violation list one of as.Empty.
func (p *Program) pfSuccessAssuming(fs []Fact, call *ssa.Call, as pfAssume) bool {
	v := pfExtract(call, 0)
	if v == nil {
		return false
	}
	if !p.errOfCallIsNil(fs, call) && !p.pfAssumed(as.Nil, pfExtract(call, 1)) {
		return false
	}
	return p.emptinessFromFacts(fs, v) == yesTri || p.pfAssumed(as.Empty, v)
}

// pfContradictory: the facts cannot all hold, so the block (edge) they belong to never executes:
// pfDeadByFacts, or one and the same test known both true and false. The second form is what tail
// duplication leaves when the statements behind a merged helper call start with the test the helper
// already made (`if err != nil { return err }` copied behind the helper's own `if err != nil`
// return): the copy for the error return keeps a fall-through arm "err != nil ∧ !(err != nil)".
// Only syntactically identical tests count — the same instruction, or the same operator over the
// very same SSA operands (an SSA value has one value per activation of its block, and a fact about
// a value of an earlier loop iteration does not survive the loop head).
func pfContradictory(fs []Fact) bool {
	if pfDeadByFacts(fs) {
		return true
	}
	for i, f := range fs {
		if f.Imported {
			continue
		}
		for _, g := range fs[i+1:] {
			if g.Imported || f.Pol == g.Pol {
				continue
			}
			if pfSameTest(f.Cond, g.Cond) {
				return true
			}
		}
	}
	return false
}

func pfSameTest(a, b ssa.Value) bool {
	if a == b {
		return true
	}
	x, ok1 := a.(*ssa.BinOp)
	y, ok2 := b.(*ssa.BinOp)
	if !ok1 || !ok2 || x.Op != y.Op {
		return false
	}
	same := func(u, v ssa.Value) bool {
		u, v = stripConv(u), stripConv(v)
		if u == v {
			return true
		}
		cu, uc := u.(*ssa.Const)
		cv, vc := v.(*ssa.Const)
		if !uc || !vc || !types.Identical(cu.Type(), cv.Type()) {
			return false
		}
		if cu.Value == nil || cv.Value == nil {
			return cu.Value == nil && cv.Value == nil
		}
		return constant.Compare(cu.Value, token.EQL, cv.Value)
	}
	return same(x.X, y.X) && same(x.Y, y.Y)
}

// ---------------------------------------------------------------------------------------------
// A preflight performed in a callee whose result the caller tests
//
//	if err := r.checkPhasePreflight(ctx, owner, phase, objs); err != nil { return err }
//
// The guard "the callee reported no error / no violations / true" implies that the preflight
// succeeded exactly when every return of the callee that is compatible with that outcome is itself
// behind a successful preflight. The normaliser merges new unexported helpers into their callers, so
// this is the view for helpers it leaves in place (defer, exported, several callers with different
// continuations, …).

// pfOutcome: what the facts say about result Idx of a call: 'n' nil, 'e' empty, 't' / 'f' boolean.
type pfOutcome struct {
	Idx  int
	Kind byte
}

func pfIsBool(t types.Type) bool {
	b, ok := t.Underlying().(*types.Basic)
	return ok && b.Info()&types.IsBoolean != 0
}

func (p *Program) pfKnownOutcome(fs []Fact, k *ssa.Call) []pfOutcome {
	res := k.Common().Signature().Results()
	var out []pfOutcome
	lastErr := -1
	for i := 0; i < res.Len(); i++ {
		if pfIsErrorType(res.At(i).Type()) {
			lastErr = i
		}
	}
	for i := 0; i < res.Len(); i++ {
		var v ssa.Value = k
		if res.Len() > 1 {
			if v = pfExtract(k, i); v == nil {
				continue
			}
		}
		t := res.At(i).Type()
		switch {
		case pfIsErrorType(t):
			if p.nilnessFromFacts(fs, v) == yesTri || (i == lastErr && p.errOfCallIsNil(fs, k)) {
				out = append(out, pfOutcome{i, 'n'})
			}
		case pfIsBool(t):
			switch p.boolFromFacts(fs, v) {
			case yesTri:
				out = append(out, pfOutcome{i, 't'})
			case noTri:
				out = append(out, pfOutcome{i, 'f'})
			}
		default:
			if _, isSlice := t.Underlying().(*types.Slice); isSlice && p.emptinessFromFacts(fs, v) == yesTri {
				out = append(out, pfOutcome{i, 'e'})
			}
		}
	}
	return out
}

// pfReturnCompatible: can the return case produce the outcome? When it can, facts / assumptions that
// the outcome adds to the return's own facts are returned (a returned comparison known true, a
// returned error known nil, a returned list known empty).
func (p *Program) pfReturnCompatible(rc ReturnCase, outs []pfOutcome) (bool, []Fact, pfAssume) {
	var add []Fact
	var as pfAssume
	for _, o := range outs {
		if o.Idx >= len(rc.Results) {
			return false, nil, as
		}
		r := rc.Results[o.Idx]
		switch o.Kind {
		case 'n':
			if !p.pfErrMayBeNil(rc.Facts, r) {
				return false, nil, as
			}
			if r != nil {
				as.Nil = append(as.Nil, r)
			}
		case 'e':
			if r == nil {
				continue
			}
			if p.emptinessFromFacts(rc.Facts, r) == noTri || pfNonEmptySliceLit(r) || pfAddsViolation(r) {
				return false, nil, as
			}
			as.Empty = append(as.Empty, r)
		case 't', 'f':
			if r == nil {
				continue
			}
			want := o.Kind == 't'
			if cb, isC := constBool(r); isC {
				if cb != want {
					return false, nil, as
				}
				continue
			}
			switch p.boolFromFacts(rc.Facts, r) {
			case yesTri:
				if !want {
					return false, nil, as
				}
			case noTri:
				if want {
					return false, nil, as
				}
			default:
				add = append(add, p.mkFact(r, want))
			}
		}
	}
	return true, add, as
}

// pfMayRecover: a deferred call of fn may swallow a panic, in which case fn returns the zero values
// of its (unnamed) results without having run to one of its return statements.
func (p *Program) pfMayRecover(fn *ssa.Function) bool {
	isRecover := func(c Call) bool {
		b, ok := c.Common.Value.(*ssa.Builtin)
		return ok && b.Name() == "recover"
	}
	for _, b := range fn.Blocks {
		for _, in := range b.Instrs {
			d, ok := in.(*ssa.Defer)
			if !ok {
				continue
			}
			callees := p.pfCallees(&d.Call)
			if len(callees) == 0 {
				if mc, isMC := d.Call.Value.(*ssa.MakeClosure); isMC {
					if f, isF := mc.Fn.(*ssa.Function); isF {
						callees = append(callees, f)
					}
				}
			}
			if len(callees) == 0 {
				n := calleeName(&d.Call)
				if strings.Contains(n, "Recover") || strings.Contains(n, "HandleCrash") || (staticCallee(&d.Call) == nil && !d.Call.IsInvoke()) {
					return true
				}
				continue
			}
			for _, f := range callees {
				for _, c := range callsIn(f) {
					if isRecover(c) {
						return true
					}
				}
			}
		}
	}
	return false
}

// pfPassedIn: the facts fs, which hold at a point of fn that every call accepted by `precedes`
// precedes, establish that a preflight succeeded — directly (pfSuccess of a checker call of fn) or
// through a callee (pfPassedViaCallee). isPreflight selects the checker calls; only != nil asks for
// that very call.
func (p *Program) pfPassedIn(fn *ssa.Function, fs []Fact, as pfAssume, precedes func(*ssa.Call) bool, isPreflight func(*ssa.CallCommon) bool, only *ssa.Call, depth int) (bool, string) {
	for _, c := range callsIn(fn) {
		call, ok := c.Instr.(*ssa.Call)
		if !ok {
			continue
		}
		if isPreflight(c.Common) {
			if only != nil && call != only {
				continue
			}
			if p.pfSuccessAssuming(fs, call, as) && precedes(call) {
				return true, fmt.Sprintf("%s==(∅,nil) in %s", calleeName(c.Common), shortFuncID(fn))
			}
			continue
		}
		if depth >= 2 {
			continue
		}
		if h := staticCallee(c.Common); h == nil || len(h.Blocks) == 0 || h == fn || isNonProductPkg(funcPkgPath(h)) {
			continue
		}
		if ok, why := p.pfPassedViaCallee(fs, call, isPreflight, only, depth); ok && precedes(call) {
			return true, why
		}
	}
	return false, ""
}

// pfPassedViaCallee: the facts fs say something about the results of the static call k (error nil,
// list empty, boolean true/false), and every return of the callee that can produce that outcome is
// behind a successful preflight.
func (p *Program) pfPassedViaCallee(fs []Fact, k *ssa.Call, isPreflight func(*ssa.CallCommon) bool, only *ssa.Call, depth int) (bool, string) {
	h := staticCallee(k.Common())
	if h == nil || len(h.Blocks) == 0 {
		return false, ""
	}
	outs := p.pfKnownOutcome(fs, k)
	if len(outs) == 0 {
		return false, ""
	}
	if !p.pfFuncContains(h, func(c Call) bool { return isPreflight(c.Common) }) {
		return false, ""
	}
	if h.Recover != nil && p.pfMayRecover(h) {
		return false, ""
	}
	n := 0
	via := ""
	for _, rc := range p.returnCases(h) {
		if h.Recover != nil && rc.Ret.Block() == h.Recover {
			continue
		}
		if pfContradictory(rc.Facts) {
			continue
		}
		ok, add, as := p.pfReturnCompatible(rc, outs)
		if !ok {
			continue
		}
		n++
		dom := rc.Ret.Block()
		if rc.Pred != nil {
			dom = rc.Pred
		}
		rfs := append(append([]Fact{}, rc.Facts...), add...)
		passed, why := p.pfPassedIn(h, rfs, as, func(c *ssa.Call) bool { return c.Block() == dom || c.Block().Dominates(dom) }, isPreflight, only, depth+1)
		if !passed {
			return false, ""
		}
		via = why
	}
	if n == 0 {
		return false, ""
	}
	return true, fmt.Sprintf("%s reports this outcome only after %s", shortFuncID(h), via)
}

// ---------------------------------------------------------------------------------------------
// Call closure (static callees + class-hierarchy resolution of interface invokes inside the workspace)

type pfIndex struct {
	byMethod map[string][]*ssa.Function
	callers  map[*ssa.Function][]Call
	writes   map[*ssa.Function]*WriterSite
	writesOK map[*ssa.Function]bool
}

var pfIdx = map[*Program]*pfIndex{}

func (p *Program) pfIndex() *pfIndex {
	if ix, ok := pfIdx[p]; ok {
		return ix
	}
	ix := &pfIndex{byMethod: map[string][]*ssa.Function{}, writes: map[*ssa.Function]*WriterSite{}, writesOK: map[*ssa.Function]bool{}}
	for _, f := range p.Funcs {
		if f.Signature.Recv() != nil && f.Parent() == nil {
			ix.byMethod[f.Name()] = append(ix.byMethod[f.Name()], f)
		}
	}
	pfIdx[p] = ix
	return ix
}

// pfCallees resolves the workspace functions a call may invoke: the static callee, the closure
// body, or every workspace method implementing the invoked interface method (CHA). Calls of plain
// function values are not resolved (returns nil).
func (p *Program) pfCallees(cc *ssa.CallCommon) []*ssa.Function {
	if f := staticCallee(cc); f != nil {
		if f.Blocks != nil {
			return []*ssa.Function{f}
		}
		return nil
	}
	if !cc.IsInvoke() {
		return nil
	}
	iface, ok := cc.Value.Type().Underlying().(*types.Interface)
	if !ok {
		return nil
	}
	var out []*ssa.Function
	for _, m := range p.pfIndex().byMethod[cc.Method.Name()] {
		recv := m.Signature.Recv().Type()
		if types.Implements(recv, iface) || types.Implements(types.NewPointer(recv), iface) {
			out = append(out, m)
		}
	}
	return out
}

// pfNonDryWriter: a controller-runtime writer call of an object that is not a typed PKO/Kubernetes
// API struct and that does not carry client.DryRunAll.
func pfNonDryWriter(ws WriterSite) bool {
	if ws.Class == "typed" || strings.HasPrefix(ws.Verb, "Status.") {
		return false
	}
	for _, o := range ws.Opts {
		if pfIsDryRunAll(o) {
			return false
		}
	}
	return true
}

func pfIsDryRunAll(v ssa.Value) bool {
	v = stripConv(v)
	if u, ok := v.(*ssa.UnOp); ok && u.Op == token.MUL {
		if g, ok := u.X.(*ssa.Global); ok && g.Name() == "DryRunAll" && g.Pkg != nil && g.Pkg.Pkg.Path() == pkgClient {
			return true
		}
	}
	return false
}

// pfFuncWrites: some non-dry-run dynamic write is reachable from fn (through the call closure).
func (p *Program) pfFuncWrites(fn *ssa.Function) *WriterSite {
	ix := p.pfIndex()
	if ix.writesOK[fn] {
		return ix.writes[fn]
	}
	seen := map[*ssa.Function]bool{}
	work := []*ssa.Function{fn}
	var found *WriterSite
	for len(work) > 0 && found == nil {
		f := work[len(work)-1]
		work = work[:len(work)-1]
		if seen[f] {
			continue
		}
		seen[f] = true
		work = append(work, f.AnonFuncs...)
		for _, c := range callsIn(f) {
			if ws, ok := classifyWriter(c); ok {
				if pfNonDryWriter(ws) {
					w := ws
					found = &w
					break
				}
				continue
			}
			work = append(work, p.pfCallees(c.Common)...)
		}
	}
	ix.writes[fn] = found
	ix.writesOK[fn] = true
	return found
}

// pfCallWrites: the call is, or may lead to, a non-dry-run dynamic write.
func (p *Program) pfCallWrites(c Call) *WriterSite {
	if ws, ok := classifyWriter(c); ok {
		if pfNonDryWriter(ws) {
			return &ws
		}
		return nil
	}
	for _, f := range p.pfCallees(c.Common) {
		if w := p.pfFuncWrites(f); w != nil {
			return w
		}
	}
	return nil
}

// pfFuncContains: some call satisfying pred is reachable from fn through the call closure.
func (p *Program) pfFuncContains(fn *ssa.Function, pred func(Call) bool) bool {
	seen := map[*ssa.Function]bool{}
	work := []*ssa.Function{fn}
	for len(work) > 0 {
		f := work[len(work)-1]
		work = work[:len(work)-1]
		if seen[f] {
			continue
		}
		seen[f] = true
		work = append(work, f.AnonFuncs...)
		for _, c := range callsIn(f) {
			if pred(c) {
				return true
			}
			work = append(work, p.pfCallees(c.Common)...)
		}
	}
	return false
}

// ---------------------------------------------------------------------------------------------
// Value derivation: does v (transitively, through calls, loads, field/index addressing, phis and
// stores into locals) depend on a value satisfying pred?

func (p *Program) pfDerives(v ssa.Value, pred func(ssa.Value) bool) bool {
	seen := map[ssa.Value]bool{}
	var walk func(v ssa.Value, d int) bool
	walk = func(v ssa.Value, d int) bool {
		if v == nil || seen[v] || d > 40 {
			return false
		}
		seen[v] = true
		if pred(v) {
			return true
		}
		switch x := v.(type) {
		case *ssa.MakeInterface:
			return walk(x.X, d+1)
		case *ssa.ChangeInterface:
			return walk(x.X, d+1)
		case *ssa.ChangeType:
			return walk(x.X, d+1)
		case *ssa.Convert:
			return walk(x.X, d+1)
		case *ssa.Call:
			for _, a := range x.Call.Args {
				if walk(a, d+1) {
					return true
				}
			}
			if x.Call.IsInvoke() {
				return walk(x.Call.Value, d+1)
			}
			return false
		case *ssa.Extract:
			return walk(x.Tuple, d+1)
		case *ssa.UnOp:
			return walk(x.X, d+1)
		case *ssa.BinOp:
			return walk(x.X, d+1) || walk(x.Y, d+1)
		case *ssa.FieldAddr:
			return walk(x.X, d+1)
		case *ssa.Field:
			return walk(x.X, d+1)
		case *ssa.IndexAddr:
			return walk(x.X, d+1)
		case *ssa.Index:
			return walk(x.X, d+1)
		case *ssa.Slice:
			return walk(x.X, d+1)
		case *ssa.Lookup:
			return walk(x.X, d+1) || walk(x.Index, d+1)
		case *ssa.TypeAssert:
			return walk(x.X, d+1)
		case *ssa.Phi:
			for _, e := range x.Edges {
				if walk(e, d+1) {
					return true
				}
			}
			return false
		case *ssa.Alloc:
			// anything stored into the local (or into its fields / elements)
			var addrs []ssa.Value
			addrs = append(addrs, x)
			for i := 0; i < len(addrs); i++ {
				for _, r := range referrersOf(addrs[i]) {
					switch rr := r.(type) {
					case *ssa.Store:
						if rr.Addr == addrs[i] && walk(rr.Val, d+1) {
							return true
						}
					case *ssa.FieldAddr:
						addrs = append(addrs, rr)
					case *ssa.IndexAddr:
						addrs = append(addrs, rr)
					}
				}
				if len(addrs) > 64 {
					break
				}
			}
			return false
		}
		return false
	}
	return walk(v, 0)
}

func pfIsValue(target ssa.Value) func(ssa.Value) bool {
	return func(v ssa.Value) bool { return v == target }
}

// ---------------------------------------------------------------------------------------------
// Constructor wiring (A11)

type pfComp struct {
	Name    string // constructor / literal type name ("NewAPIExistence", "List", ...)
	Kids    []*pfComp
	Unknown string // non-empty: the value could not be resolved
	Call    *ssa.Call
}

func (c *pfComp) String() string {
	if c == nil {
		return "?"
	}
	if c.Unknown != "" {
		return "?(" + c.Unknown + ")"
	}
	if len(c.Kids) == 0 {
		return c.Name
	}
	var ks []string
	for _, k := range c.Kids {
		ks = append(ks, k.String())
	}
	open, cl := "(", ")"
	if !strings.HasPrefix(c.Name, "New") {
		open, cl = "{", "}"
	}
	return c.Name + open + strings.Join(ks, ", ") + cl
}

// flat lists the constructor names in order; unknown is set when some part is unresolved.
func (c *pfComp) flat() (names []string, unknown []string) {
	var walk func(n *pfComp)
	walk = func(n *pfComp) {
		if n.Unknown != "" {
			unknown = append(unknown, n.Unknown)
			return
		}
		names = append(names, n.Name)
		for _, k := range n.Kids {
			walk(k)
		}
	}
	walk(c)
	return
}

func (c *pfComp) find(name string) *pfComp {
	if c == nil || c.Unknown != "" {
		return nil
	}
	if c.Name == name {
		return c
	}
	for _, k := range c.Kids {
		if f := k.find(name); f != nil {
			return f
		}
	}
	return nil
}

func pfIsCheckerish(t types.Type) bool {
	if pfCheckerIface(t, pfObjCheckSig) || pfCheckerIface(t, pfPhasesCheckSig) {
		return true
	}
	if sl, ok := t.Underlying().(*types.Slice); ok {
		return pfCheckerIface(sl.Elem(), pfObjCheckSig) || pfCheckerIface(sl.Elem(), pfPhasesCheckSig)
	}
	return false
}

// pfComposition resolves the constructor tree a checker value is built from.
func (p *Program) pfComposition(v ssa.Value, depth int) *pfComp {
	if depth > 8 {
		return &pfComp{Unknown: "nesting too deep"}
	}
	v = stripConv(v)
	list := func() *pfComp {
		elems, why := p.pfListElems(v)
		if why != "" {
			return &pfComp{Unknown: "slice that is not a literal: " + p.describe(v) + " (" + why + ")"}
		}
		name := "slice"
		if nt := namedTypeString(v.Type()); nt != "" {
			name = nt[strings.LastIndex(nt, ".")+1:]
		}
		n := &pfComp{Name: name}
		for _, e := range elems {
			n.Kids = append(n.Kids, p.pfComposition(e, depth+1))
		}
		return n
	}
	switch x := v.(type) {
	case *ssa.Call:
		if pfIsAppend(x) {
			return list()
		}
		f := staticCallee(x.Common())
		if f == nil {
			return &pfComp{Unknown: "result of a dynamic call " + p.describe(x)}
		}
		if funcPkgPath(f) != pkgPreflight {
			return &pfComp{Unknown: "result of " + shortFuncID(f) + " (not a preflight constructor)"}
		}
		n := &pfComp{Name: f.Name(), Call: x}
		params := f.Signature.Params()
		for i, a := range x.Common().Args {
			if i < params.Len() && pfIsCheckerish(params.At(i).Type()) {
				n.Kids = append(n.Kids, p.pfComposition(a, depth+1))
			}
		}
		return n
	case *ssa.Slice, *ssa.Const, *ssa.MakeSlice:
		return list()
	case *ssa.Alloc:
		if _, typ, ok := compositeFields(x); ok {
			nt := namedTypeString(typ)
			if strings.HasPrefix(nt, pkgPreflight+".") {
				return &pfComp{Name: "&" + nt[strings.LastIndex(nt, ".")+1:] + "{}"}
			}
		}
	}
	return &pfComp{Unknown: p.describe(v) + " (" + fmt.Sprintf("%T", v) + ")"}
}

// pfIsAppend: v is a call of the builtin append.
func pfIsAppend(v ssa.Value) bool {
	c, ok := v.(*ssa.Call)
	if !ok {
		return false
	}
	b, isB := c.Call.Value.(*ssa.Builtin)
	return isB && b.Name() == "append" && len(c.Call.Args) == 2
}

// pfListElems reads the elements of a slice value whose contents are fixed by the way it is built,
// in order: a composite literal / variadic tail (`slice (new [N]T)[:]`, see sliceElems), the nil
// slice, a fresh empty slice of any capacity (`make(T, 0)`, `make(T, 0, n)`, `T{}`), or a chain of
// appends `append(<list>, e1, e2)`, `append(<list>, <list>...)` on such a value. why != "" when the
// shape is not one of these.
//
// A value that may have spare capacity (a fresh slice made with a capacity, the result of an append)
// shares its backing array with everything appended to it: a second append on the same intermediate
// value would overwrite what the first one wrote. Such a value is accepted as the base of an append
// only when that append is its sole use (the chain is linear). Literals and nil have no spare
// capacity, appending to them copies. An append whose base arrives through a Phi (append in a loop,
// append under a condition) has no fixed contents and is not read.
func (p *Program) pfListElems(v ssa.Value) (elems []ssa.Value, why string) {
	elems, _, why = p.pfListElemsDepth(v, 0)
	return elems, why
}

func (p *Program) pfListElemsDepth(v ssa.Value, depth int) (elems []ssa.Value, spare bool, why string) {
	if depth > 32 {
		return nil, false, "append chain too long"
	}
	v = stripConv(v)
	switch x := v.(type) {
	case *ssa.Const:
		if x.Value == nil {
			return nil, false, ""
		}
		return nil, false, "constant that is not nil"
	case *ssa.MakeSlice:
		// make(T, 0, n) with a computed n
		if n, isC := constInt(x.Len); isC && n == 0 {
			c, isC := constInt(x.Cap)
			return nil, !isC || c != 0, ""
		}
		return nil, false, "make with a length that is not the constant 0: the elements are filled in elsewhere"
	case *ssa.Slice:
		a, isA := x.X.(*ssa.Alloc)
		if !isA {
			return nil, false, "re-slicing of " + p.describe(x.X)
		}
		arr := pfArrayLen(a)
		if arr < 0 {
			return nil, false, "slice of something that is not a local array"
		}
		if x.Low != nil {
			if lo, isC := constInt(x.Low); !isC || lo != 0 {
				return nil, false, "slice expression with a lower bound"
			}
		}
		if x.High != nil {
			hi, isC := constInt(x.High)
			if !isC {
				return nil, false, "slice expression with a computed upper bound"
			}
			if hi == 0 {
				// make(T, 0, n) with constant n: `slice (new [n]T)[:0]` — fresh and empty, provided nothing
				// else holds the array
				for _, r := range referrersOf(a) {
					if r != ssa.Instruction(x) {
						if _, dbg := r.(*ssa.DebugRef); !dbg {
							return nil, false, "the backing array of the fresh slice is used elsewhere"
						}
					}
				}
				return nil, arr > 0, ""
			}
			if hi != arr {
				return nil, false, "slice expression that does not cover the whole array"
			}
		}
		if arr == 0 {
			return nil, false, ""
		}
		if a.Comment == "makeslice" {
			return nil, false, "make with a length that is not the constant 0: the elements are filled in elsewhere"
		}
		elems, ok := sliceElems(x)
		if !ok {
			return nil, false, "array filled at a computed index"
		}
		if int64(len(elems)) != arr {
			return nil, false, fmt.Sprintf("array of %d elements with %d constant-index stores", arr, len(elems))
		}
		return elems, false, ""
	case *ssa.Call:
		if !pfIsAppend(x) {
			return nil, false, "result of a call"
		}
		base, tail := stripConv(x.Call.Args[0]), stripConv(x.Call.Args[1])
		if _, isPhi := base.(*ssa.Phi); isPhi {
			return nil, false, "append to a list that depends on the path taken (loop or condition)"
		}
		head, baseSpare, why := p.pfListElemsDepth(base, depth+1)
		if why != "" {
			return nil, false, why
		}
		if baseSpare {
			for _, r := range referrersOf(base) {
				if r == ssa.Instruction(x) {
					continue
				}
				if _, dbg := r.(*ssa.DebugRef); dbg {
					continue
				}
				return nil, false, "the list " + p.describe(base) + " is appended to, but also used at " + p.IPos(r) + " (shared backing array)"
			}
		}
		if _, isPhi := tail.(*ssa.Phi); isPhi {
			return nil, false, "appended elements depend on the path taken"
		}
		more, _, why := p.pfListElemsDepth(tail, depth+1)
		if why != "" {
			return nil, false, "appended elements: " + why
		}
		return append(append([]ssa.Value{}, head...), more...), true, ""
	}
	return nil, false, fmt.Sprintf("%T", v)
}

// pfArrayLen: length of the array a local `new [N]T` allocates, -1 if a is something else.
func pfArrayLen(a *ssa.Alloc) int64 {
	pt, ok := a.Type().Underlying().(*types.Pointer)
	if !ok {
		return -1
	}
	arr, ok := pt.Elem().Underlying().(*types.Array)
	if !ok {
		return -1
	}
	return arr.Len()
}

// pfSink: a function that stores a parameter of checker-interface type into a struct field.
type pfSink struct {
	Fn    *ssa.Function
	Param int // index into Fn.Params
}

func (p *Program) pfSinks(sigOK func(*types.Signature) bool) []pfSink {
	var out []pfSink
	for _, fn := range p.productFuncs() {
		if funcPkgPath(fn) == pkgPreflight || fn.Parent() != nil {
			continue
		}
		for i, prm := range fn.Params {
			if !pfCheckerIface(prm.Type(), sigOK) {
				continue
			}
			stored := false
			for _, r := range referrersOf(prm) {
				var val ssa.Value = prm
				_ = val
				switch rr := r.(type) {
				case *ssa.Store:
					if _, ok := rr.Addr.(*ssa.FieldAddr); ok && rr.Val == ssa.Value(prm) {
						stored = true
					}
				case *ssa.ChangeInterface, *ssa.ChangeType, *ssa.MakeInterface:
					for _, r2 := range referrersOf(rr.(ssa.Value)) {
						if st, ok := r2.(*ssa.Store); ok {
							if _, ok := st.Addr.(*ssa.FieldAddr); ok {
								stored = true
							}
						}
					}
				}
			}
			if stored {
				out = append(out, pfSink{fn, i})
			}
		}
	}
	return out
}

// pfWiring is one place where a concrete checker value is handed (possibly through pass-through
// constructors) to a sink.
type pfWiring struct {
	Fn    *ssa.Function // function that builds the value
	Call  Call          // the call it is passed to
	Value ssa.Value
	Via   []string
	Lost  string // non-empty: the trace ended without finding a value
}

func (p *Program) pfWirings(fn *ssa.Function, param int, via []string, depth int) []pfWiring {
	var out []pfWiring
	if depth > 5 {
		return []pfWiring{{Fn: fn, Lost: "wiring trace too deep", Via: via}}
	}
	callers := p.callersOf(fn)
	n := 0
	for _, c := range callers {
		if isNonProductPkg(funcPkgPath(c.Fn)) {
			continue
		}
		if param >= len(c.Common.Args) {
			continue
		}
		n++
		arg := stripConv(c.Common.Args[param])
		if prm, ok := arg.(*ssa.Parameter); ok && prm.Parent() == c.Fn {
			idx := -1
			for i, q := range c.Fn.Params {
				if q == prm {
					idx = i
				}
			}
			out = append(out, p.pfWirings(c.Fn, idx, append(append([]string{}, via...), shortFuncID(c.Fn)), depth+1)...)
			continue
		}
		out = append(out, pfWiring{Fn: c.Fn, Call: c, Value: arg, Via: via})
	}
	if n == 0 {
		out = append(out, pfWiring{Fn: fn, Lost: "no call site of " + shortFuncID(fn) + " in the workspace", Via: via})
	}
	if p.addressTaken(fn) {
		out = append(out, pfWiring{Fn: fn, Lost: shortFuncID(fn) + " is also used as a function value", Via: via})
	}
	sort.SliceStable(out, func(i, j int) bool { return shortFuncID(out[i].Fn) < shortFuncID(out[j].Fn) })
	return out
}

// ---------------------------------------------------------------------------------------------
// Returns

// pfErrMayBeNil: may the error value v be nil given the facts?
func (p *Program) pfErrMayBeNil(fs []Fact, v ssa.Value) bool {
	if v == nil {
		return true
	}
	// the path facts decide the value as a whole (a merged error tested by `if err != nil` before
	// it is returned: the phi's nil edge is not taken on this path)
	if p.nilnessFromFacts(fs, stripConv(v)) == noTri || p.nilnessFromFacts(fs, v) == noTri {
		return false
	}
	for _, pv := range p.possibleValues(v) {
		if p.pfOneErrMayBeNil(fs, pv) {
			return true
		}
	}
	return false
}

func (p *Program) pfOneErrMayBeNil(fs []Fact, v ssa.Value) bool {
	if isNilConst(v) {
		return true
	}
	if p.nilnessFromFacts(fs, v) == noTri {
		return false
	}
	switch x := v.(type) {
	case *ssa.MakeInterface:
		// &T{...} / new(T) converted to error is never nil
		if _, ok := x.X.(*ssa.Alloc); ok {
			return false
		}
	case *ssa.Call:
		if isCallTo(x.Common(), "fmt.Errorf", "errors.New") {
			return false
		}
	}
	// IsNoMatchError(v) / IsNotFound(v) == true implies non-nil
	for _, f := range fs {
		if !f.Pol {
			continue
		}
		if c, _ := asCall(f.Cond); c != nil && len(c.Common().Args) == 1 && p.sameValue(c.Common().Args[0], v) {
			if isCallTo(c.Common(), pkgMeta+".IsNoMatchError", pkgAPIErr+".IsNotFound", pkgAPIErr+".IsAlreadyExists", pkgAPIErr+".IsConflict") {
				return false
			}
		}
	}
	return true
}

// pfNonEmptySliceLit: v is a slice expression over a fixed-size array with at least one element
// (composite literal `[]T{a, ...}` or the variadic tail of append), or a `make` of constant length >= 1.
func pfNonEmptySliceLit(v ssa.Value) bool {
	// make([]T, n) with a constant n >= 1 (elements are filled in afterwards): as long as a
	// composite literal of the same length
	if mk, isMk := stripConv(v).(*ssa.MakeSlice); isMk {
		n, isC := constInt(mk.Len)
		return isC && n >= 1
	}
	sl, ok := stripConv(v).(*ssa.Slice)
	if !ok || sl.Low != nil {
		return false
	}
	// go/ssa writes make([]T, n) with a constant n as `new [n]T` sliced with [:n]
	if sl.High != nil {
		if n, isC := constInt(sl.High); !isC || n < 1 {
			return false
		}
	}
	a, ok := sl.X.(*ssa.Alloc)
	if !ok {
		return false
	}
	pt, ok := a.Type().Underlying().(*types.Pointer)
	if !ok {
		return false
	}
	arr, ok := pt.Elem().Underlying().(*types.Array)
	return ok && arr.Len() >= 1
}

// pfAddsViolation: v is `append(x, <non-empty literal>...)`.
func pfAddsViolation(v ssa.Value) bool {
	c, ok := stripConv(v).(*ssa.Call)
	if !ok {
		return false
	}
	b, ok := c.Call.Value.(*ssa.Builtin)
	if !ok || b.Name() != "append" || len(c.Call.Args) != 2 {
		return false
	}
	return pfNonEmptySliceLit(c.Call.Args[1])
}

// pfReachable: blocks reachable from the entry when the given edges and blocks are removed.
func pfReachable(fn *ssa.Function, cutEdge func(from, to *ssa.BasicBlock) bool, cutBlock func(b *ssa.BasicBlock) bool) map[*ssa.BasicBlock]*ssa.BasicBlock {
	parent := map[*ssa.BasicBlock]*ssa.BasicBlock{}
	if len(fn.Blocks) == 0 {
		return parent
	}
	entry := fn.Blocks[0]
	parent[entry] = entry
	work := []*ssa.BasicBlock{entry}
	for len(work) > 0 {
		b := work[0]
		work = work[1:]
		if cutBlock != nil && cutBlock(b) {
			continue
		}
		for _, s := range b.Succs {
			if _, ok := parent[s]; ok {
				continue
			}
			if cutEdge != nil && cutEdge(b, s) {
				continue
			}
			parent[s] = b
			work = append(work, s)
		}
	}
	return parent
}

func (p *Program) pfPath(parent map[*ssa.BasicBlock]*ssa.BasicBlock, to *ssa.BasicBlock) string {
	var ids []string
	for b := to; ; b = parent[b] {
		pos := "-"
		for _, in := range b.Instrs {
			if in.Pos().IsValid() {
				pos = p.Pos(in.Pos())
				if i := strings.LastIndex(pos, ":"); i >= 0 {
					pos = "L" + pos[i+1:]
				}
				break
			}
		}
		ids = append(ids, fmt.Sprintf("b%d(%s)", b.Index, pos))
		if parent[b] == b || len(ids) > 40 {
			break
		}
	}
	for i, j := 0, len(ids)-1; i < j; i, j = i+1, j-1 {
		ids[i], ids[j] = ids[j], ids[i]
	}
	return strings.Join(ids, "→")
}

// ---------------------------------------------------------------------------------------------
// "The loop checks every element and returns without error only when it is exhausted"

type pfLoopSpec struct {
	IsCheck    func(*ssa.Call) bool        // the per-element call
	Collection func(v ssa.Value) bool      // the value whose length bounds the loop must derive from a value satisfying this
	Element    func(c *ssa.Call) ssa.Value // the operand of the call that must be the loop element
	CollName   string
}

// pfLoopChecksAll returns problems (violations) and unknown (unrecognised shapes).
func (p *Program) pfLoopChecksAll(fn *ssa.Function, spec pfLoopSpec) (problems, unknown, notes []string) {
	var calls []*ssa.Call
	for _, c := range callsIn(fn) {
		if call, ok := c.Instr.(*ssa.Call); ok && spec.IsCheck(call) {
			calls = append(calls, call)
		}
	}
	if len(calls) != 1 {
		return []string{fmt.Sprintf("expected exactly one per-element checker call, found %d", len(calls))}, nil, nil
	}
	call := calls[0]
	L := innermostLoop(fn, call.Block())
	if L == nil {
		return []string{"the per-element checker call at " + p.IPos(call) + " is not inside a loop"}, nil, nil
	}
	cl, why := p.pfCountingLoop(L)
	if cl == nil {
		return nil, []string{why}, nil
	}
	idx := cl.Idx
	lc, ok := cl.Bound.(*ssa.Call)
	if !ok {
		return nil, []string{"loop bound is not a len() call: " + p.describe(cl.Bound)}, nil
	}
	if b, isB := lc.Call.Value.(*ssa.Builtin); !isB || b.Name() != "len" {
		return nil, []string{"loop bound is not a len() call: " + p.describe(cl.Bound)}, nil
	}
	if !p.pfDerives(lc.Call.Args[0], spec.Collection) {
		problems = append(problems, "the loop is bounded by len("+p.describe(lc.Call.Args[0])+"), which is not the length of "+spec.CollName)
	} else {
		notes = append(notes, "loop over "+spec.CollName+cl.Form())
	}
	exit := cl.Exit
	// called on every iteration
	for _, t := range L.Tails {
		if !call.Block().Dominates(t) {
			problems = append(problems, "some iteration skips the checker call (the call at "+p.IPos(call)+" does not dominate the loop back edge)")
			break
		}
	}
	// the element
	el := spec.Element(call)
	isElem := func(v ssa.Value) bool {
		switch x := v.(type) {
		case *ssa.IndexAddr:
			return x.Index == idx
		case *ssa.Index:
			return x.Index == idx
		}
		return false
	}
	if el == nil || !p.pfDerives(el, isElem) {
		problems = append(problems, "the checked value "+p.describe(el)+" is not the element at the loop index")
	}
	// accumulation
	var app ssa.Value
	ex0 := pfExtract(call, 0)
	for b := range L.Body {
		for _, in := range b.Instrs {
			c, ok := in.(*ssa.Call)
			if !ok {
				continue
			}
			if bi, isB := c.Call.Value.(*ssa.Builtin); isB && bi.Name() == "append" && len(c.Call.Args) == 2 && ex0 != nil && stripConv(c.Call.Args[1]) == ex0 {
				all := true
				for _, t := range L.Tails {
					if !c.Block().Dominates(t) {
						all = false
					}
				}
				if all {
					app = c
				}
			}
		}
	}
	if app == nil {
		problems = append(problems, "the violations returned by the per-element check are not appended to the result on every iteration")
	}
	// nil-error returns only after the loop is exhausted
	reach := pfReachable(fn, cl.exitEdge, nil)
	targets := 0
	for _, rc := range p.returnCases(fn) {
		if len(rc.Results) < 2 {
			continue
		}
		if !p.pfErrMayBeNil(rc.Facts, rc.Results[len(rc.Results)-1]) {
			continue
		}
		if p.emptinessFromFacts(rc.Facts, rc.Results[0]) == noTri {
			continue // returns a non-empty violation list: not a pass
		}
		targets++
		rb := rc.Ret.Block()
		reachable := false
		if rc.Pred != nil {
			_, okp := reach[rc.Pred]
			reachable = okp && !cl.exitEdge(rc.Pred, rb)
		} else {
			_, reachable = reach[rb]
		}
		if reachable {
			problems = append(problems, "a return without error and without violations at "+p.IPos(rc.Ret)+" is reachable before the loop is exhausted (path "+p.pfPath(reach, rb)+")")
			continue
		}
		if app != nil {
			has := false
			for _, pv := range p.possibleValues(rc.Results[0]) {
				if pv == app {
					has = true
				}
			}
			// bottom-tested loop, return split on the edge guard → exit (the collection is empty, no
			// iteration ran): the accumulator still has its initial value, which is what a top-tested
			// loop returns through its head phi on that path
			if !has && cl.Rot != nil && rc.Pred != nil && rb == exit && rc.Pred != cl.Rot.Latch && cl.exitEdge(rc.Pred, rb) {
				has = p.pfInitialOfCarried(L, rc.Pred, rc.Results[0], app)
			}
			if !has {
				problems = append(problems, "the error-free return at "+p.IPos(rc.Ret)+" does not return the accumulated violations")
			}
		}
	}
	if targets == 0 {
		problems = append(problems, "no error-free return found")
	}
	return problems, unknown, notes
}

// ---------------------------------------------------------------------------------------------
// Counting loops over every index 0 … bound-1, in either form go/ssa gives them.

// pfCountLoop describes a loop that visits the indexes 0, 1, … in steps of one while index < Bound.
//
//	top-tested    (`for i := range s`, `for _, x := range s`, `for i := 0; i < n; i++`):
//	              head: if idx < bound goto body else Exit
//	bottom-tested (`for i := range n`, see rotatedLoop in helpers_guards.go):
//	              guard: if 0 < bound goto head else Exit … latch: if idx+1 < bound goto head else Exit
//
// The loop is exhausted (every index below Bound had its iteration) exactly when control takes one of
// the exitEdge edges: head → Exit, or latch → Exit / guard → Exit.
type pfCountLoop struct {
	L     *Loop
	Idx   ssa.Value       // the index of the running iteration as the body sees it
	Bound ssa.Value       // the loop runs while index < Bound
	Exit  *ssa.BasicBlock // entered when the loop condition is false
	Rot   *loopRotation   // non-nil: bottom-tested
}

// exitEdge: from → to is a loop-condition-false edge.
func (cl *pfCountLoop) exitEdge(from, to *ssa.BasicBlock) bool {
	if to != cl.Exit {
		return false
	}
	if cl.Rot != nil {
		return rotExitEdge(cl.Rot, from)
	}
	return from == cl.L.Head
}

func (cl *pfCountLoop) Form() string {
	if cl.Rot != nil {
		return " (bottom-tested counting loop)"
	}
	return ""
}

// pfLessThan reads `cond` taken with polarity pol as a strict comparison small < big.
func pfLessThan(cond ssa.Value, pol bool) (small, big ssa.Value, ok bool) {
	bin, isBin := cond.(*ssa.BinOp)
	if !isBin {
		return nil, nil, false
	}
	op := bin.Op
	if !pol {
		switch op {
		case token.GEQ:
			op = token.LSS
		case token.LEQ:
			op = token.GTR
		default:
			return nil, nil, false
		}
	}
	switch op {
	case token.LSS:
		return bin.X, bin.Y, true
	case token.GTR:
		return bin.Y, bin.X, true
	}
	return nil, nil, false
}

// pfCountingLoop recognises L as a counting loop from index 0 upwards in steps of one; why says what
// was not recognised otherwise.
func (p *Program) pfCountingLoop(L *Loop) (cl *pfCountLoop, why string) {
	if len(L.Head.Instrs) == 0 {
		return nil, "empty loop header"
	}
	// top-tested: the head decides
	if iff, ok := L.Head.Instrs[len(L.Head.Instrs)-1].(*ssa.If); ok && len(L.Head.Succs) == 2 {
		why = "loop condition is not `index < len(collection)`: " + p.describe(iff.Cond)
		var idx, bound ssa.Value
		var exit *ssa.BasicBlock
		switch {
		case L.Body[L.Head.Succs[0]] && !L.Body[L.Head.Succs[1]]:
			if s, b, ok := pfLessThan(iff.Cond, true); ok {
				idx, bound, exit = s, b, L.Head.Succs[1]
			}
		case L.Body[L.Head.Succs[1]] && !L.Body[L.Head.Succs[0]]:
			if s, b, ok := pfLessThan(iff.Cond, false); ok {
				idx, bound, exit = s, b, L.Head.Succs[0]
			}
		default:
			why = "loop header edges are not (body, exit)"
		}
		if idx != nil {
			if dir, ok := p.pfIndexDirection(idx, nil, L); !ok || dir != 1 {
				return nil, "the loop index " + p.describe(idx) + " is not a counter that starts at 0 and is incremented by one per iteration"
			}
			return &pfCountLoop{L: L, Idx: idx, Bound: bound, Exit: exit}, ""
		}
	} else {
		why = "loop header does not end in a condition"
	}
	// bottom-tested: the latch decides, a guard in front of the loop decides for the first iteration
	rot := rotatedLoop(L)
	if rot == nil {
		return nil, why
	}
	iff := rot.Latch.Instrs[len(rot.Latch.Instrs)-1].(*ssa.If)
	next, bound, ok := pfLessThan(iff.Cond, rot.Latch.Succs[0] == L.Head)
	if !ok {
		return nil, "loop condition is not `index < len(collection)`: " + p.describe(iff.Cond)
	}
	if base, off, ok := pfAddConst(next); !ok || base != ssa.Value(rot.IV) || off != 1 {
		return nil, "the value tested at the end of the iteration, " + p.describe(next) + ", is not the loop index incremented by one"
	}
	for i, pred := range L.Head.Preds {
		if L.Body[pred] {
			if pred != rot.Latch {
				return nil, "more than one back edge"
			}
			if i >= len(rot.IV.Edges) || rot.IV.Edges[i] != next {
				return nil, "the loop index is not advanced by the value the loop condition tests"
			}
			continue
		}
		if c, isC := constInt(rot.IV.Edges[i]); !isC || c != 0 {
			return nil, "the loop index starts at " + p.describe(rot.IV.Edges[i]) + ", not at 0"
		}
	}
	return &pfCountLoop{L: L, Idx: rot.IV, Bound: bound, Exit: rot.Exit, Rot: rot}, ""
}

// pfInitialOfCarried: v, the value flowing over the edge pred → exit of a bottom-tested loop where
// pred is a guard in front of the loop (no iteration ran), is the initial value of a loop-carried
// variable (a phi of the head) that holds `carried` after an iteration.
func (p *Program) pfInitialOfCarried(L *Loop, pred *ssa.BasicBlock, v, carried ssa.Value) bool {
	same := func(a, b ssa.Value) bool {
		a, b = stripConv(a), stripConv(b)
		if a == b {
			return true
		}
		if isNilConst(a) && isNilConst(b) {
			return types.Identical(a.Type(), b.Type())
		}
		return false
	}
	for i, hp := range L.Head.Preds {
		if hp != pred {
			continue
		}
		for _, in := range L.Head.Instrs {
			ph, isPhi := in.(*ssa.Phi)
			if !isPhi {
				break
			}
			if i >= len(ph.Edges) || !same(ph.Edges[i], v) {
				continue
			}
			for j, bp := range L.Head.Preds {
				if !L.Body[bp] || j >= len(ph.Edges) {
					continue
				}
				for _, pv := range p.possibleValues(ph.Edges[j]) {
					if pv == carried {
						return true
					}
				}
			}
		}
	}
	return false
}

// pfParamOfType returns the first parameter of fn satisfying pred.
func pfParam(fn *ssa.Function, pred func(t types.Type) bool) *ssa.Parameter {
	for _, prm := range fn.Params {
		if pred(prm.Type()) {
			return prm
		}
	}
	return nil
}

// pfIdentitySetters are the accessor methods that change which API object an unstructured value denotes.
var pfIdentitySetters = map[string]bool{"SetNamespace": true, "SetName": true, "SetGenerateName": true, "SetKind": true, "SetAPIVersion": true,
	"SetGroupVersionKind": true, "SetUnstructuredContent": true, "UnmarshalJSON": true}

// pfIdentityMutation: instruction `in` may change namespace / name / kind of object x. allowedNS
// (may be nil) tells whether a SetNamespace argument is acceptable.
func (p *Program) pfIdentityMutation(in ssa.Instruction, x ssa.Value, allowedNS func(arg ssa.Value) bool) (bool, string) {
	ci, ok := in.(ssa.CallInstruction)
	if !ok {
		return false, ""
	}
	cc := ci.Common()
	n := calleeName(cc)
	if r := callRecv(cc); r != nil && p.sameValue(r, x) && pfIdentitySetters[n] {
		if n == "SetNamespace" && allowedNS != nil {
			a := callArgs(cc)
			if len(a) == 1 && allowedNS(a[0]) {
				return false, ""
			}
		}
		return true, n + " at " + p.IPos(in)
	}
	id := calleeID(cc)
	if strings.HasSuffix(id, ".Unmarshal") || strings.HasSuffix(id, ".Decode") || strings.HasSuffix(id, ".FromUnstructured") || strings.HasSuffix(id, ".DeepCopyInto") {
		for _, a := range cc.Args {
			if p.sameValue(a, x) {
				return true, calleeName(cc) + " into the object at " + p.IPos(in)
			}
		}
	}
	return false, ""
}

// ---------------------------------------------------------------------------------------------
// Reverse call closure: who may call fn (static calls + CHA-resolved invokes).

func (p *Program) pfCallersCHA(fn *ssa.Function) []Call {
	ix := p.pfIndex()
	if ix.callers == nil {
		ix.callers = map[*ssa.Function][]Call{}
		for _, f := range p.Funcs {
			for _, c := range callsIn(f) {
				for _, callee := range p.pfCallees(c.Common) {
					ix.callers[callee] = append(ix.callers[callee], c)
					if o := callee.Origin(); o != nil && o != callee {
						ix.callers[o] = append(ix.callers[o], c)
					}
				}
			}
		}
	}
	return ix.callers[fn]
}

// pfGuardedUp: pred holds at `site`, or at every call site (static or CHA) through which the
// function containing `site` may be entered, recursively (bounded). A function that nobody calls
// is an entry point: unguarded.
func (p *Program) pfGuardedUp(site ssa.Instruction, pred func(site ssa.Instruction) (bool, string), depth int, seen map[*ssa.Function]bool) (bool, []string) {
	if ok, why := pred(site); ok {
		return true, []string{why}
	}
	fn := site.Parent()
	if depth <= 0 {
		return false, []string{"no guard found within the call-depth bound above " + shortFuncID(fn)}
	}
	if seen[fn] {
		return true, nil // cycle: decided by the other paths
	}
	seen[fn] = true
	defer delete(seen, fn)
	if fn.Parent() != nil {
		for _, b := range fn.Parent().Blocks {
			for _, in := range b.Instrs {
				if mc, ok := in.(*ssa.MakeClosure); ok && mc.Fn == ssa.Value(fn) {
					return p.pfGuardedUp(mc, pred, depth-1, seen)
				}
			}
		}
		return false, []string{"closure creation site not found for " + shortFuncID(fn)}
	}
	if p.addressTaken(fn) {
		return false, []string{shortFuncID(fn) + " is used as a function value; its callers are unknown"}
	}
	callers := p.pfCallersCHA(fn)
	if len(callers) == 0 {
		return false, []string{"unguarded up to the entry point " + shortFuncID(fn) + " at " + p.IPos(site)}
	}
	var notes []string
	for _, c := range callers {
		ok, why := p.pfGuardedUp(c.Instr, pred, depth-1, seen)
		if !ok {
			return false, append([]string{"via " + shortFuncID(c.Fn) + " (" + p.IPos(c.Instr) + ")"}, why...)
		}
		notes = append(notes, why...)
	}
	return true, notes
}

func uniqStrings(in []string) []string {
	seen := map[string]bool{}
	var out []string
	for _, s := range in {
		if s != "" && !seen[s] {
			seen[s] = true
			out = append(out, s)
		}
	}
	return out
}

// returnsReachedWithErr: the Return instructions that can be reached after call k while the error
// result of k may still be non-nil. CFG paths are followed from k; an edge whose facts establish
// `x == nil` for an x that isErr accepts (x holds the error of k there) is not followed: beyond it
// the error is known to be nil, whatever shape the test has (`if err != nil { return … }` inside
// the loop that makes the call, `if err != nil || … { break }` and a test behind the loop,
// inverted guards, a boolean that materialises the test). When the walk comes back to k the error
// is assigned anew and the walk simply goes on from there.
func (p *Program) returnsReachedWithErr(k *ssa.Call, isErr func(x ssa.Value) bool) []*ssa.Return {
	nilOnEdge := func(from, to *ssa.BasicBlock) bool {
		for _, f := range p.FactsOnEdge(from, to) {
			x, trueMeansNonNil, ok := errNilTest(f.Cond)
			if ok && f.Pol != trueMeansNonNil && isErr(x) {
				return true
			}
		}
		return false
	}
	var out []*ssa.Return
	kb := k.Block()
	if r, ok := kb.Instrs[len(kb.Instrs)-1].(*ssa.Return); ok {
		out = append(out, r)
	}
	seen := map[*ssa.BasicBlock]bool{}
	var walk func(from *ssa.BasicBlock)
	walk = func(from *ssa.BasicBlock) {
		for _, to := range from.Succs {
			if seen[to] || nilOnEdge(from, to) {
				continue
			}
			seen[to] = true
			if to == kb {
				continue // the successors of k's block are being walked already
			}
			if r, ok := to.Instrs[len(to.Instrs)-1].(*ssa.Return); ok {
				out = append(out, r)
			}
			walk(to)
		}
	}
	walk(kb)
	return out
}
