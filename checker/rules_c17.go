package main

import (
	"fmt"
	"go/token"
	"go/types"
	"sort"
	"strings"

	"golang.org/x/tools/go/ssa"
)

// C17 — Availability probing is a pure conjunction over selected, up-to-date status.

const (
	c17TypeProber   = pkgProbing + ".Prober"
	c17TypeGK       = "k8s.io/apimachinery/pkg/runtime/schema.GroupKind"
	c17TypeSelector = "k8s.io/apimachinery/pkg/labels.Selector"
	c17PkgCEL       = "github.com/google/cel-go/cel"
)

func init() {
	register(&Property{
		ID: "C17",
		Explanation: "Decides the structural core of C17 on every path of the current source of pkg/probing and internal/probing. (R1) The list prober calls " +
			"every element on the probed object, its loop has no exit but exhaustion, the messages of every failing element are appended to the one " +
			"accumulator, success is returned exactly under an empty accumulator and failure returns the accumulator. (R2) The kind and label selectors " +
			"return the wrapped prober's verdict on the same object exactly under 'selector matches this object' and the constant (true, nil) otherwise. " +
			"(R3) Every error-free return of the probe-list parser is the observedGeneration wrapper around the list of all parsed probes; the wrapper " +
			"returns false exactly under err==nil ∧ found ∧ observedGeneration != obj.GetGeneration() and delegates otherwise; the top-level parser stores " +
			"ParseSelector(selector, ParseProbes(probes)) of entry i at index i of a list of len(entries) and only exhaustion returns it; the selector " +
			"parser returns the bare prober only when no selector is set. (R4) The condition probe returns true only for a well-formed condition of the " +
			"probed type whose status matches, after the observedGeneration test of that same condition, and a stale generation only reaches 'false'. " +
			"(R5) fieldsEqual returns true only when both fields were found without error and DeepEqual holds. (R6) A CEL probe value is only built " +
			"where ast.OutputType()==cel.BoolType was established. (R7) No write through a value aliasing the probed object.",
		NotDecided: []string{
			"equivalence with a reference evaluator on concrete objects (values of conditions, fields, labels)",
			"CEL compilation and evaluation semantics; what the CEL runtime does with the map it is handed",
			"that third-party helpers the object is passed to (unstructured.Nested*, converter, labels) do not write to it (trusted; known mutators are listed)",
		},
		Technique: "SSA return classification + guard-dominance dataflow + loop-shape and accumulator analysis + alias/taint propagation for writes",
		Rules: []Rule{
			{ID: "C17.R1", Min: 4, Run: c17r1, Statement: "the list prober probes every element, collects the messages of every failing one, and succeeds exactly when nothing was collected"},
			{ID: "C17.R2", Min: 2, Run: c17r2, Statement: "selectors delegate to the wrapped prober exactly when the object matches and pass (true, nil) otherwise"},
			{ID: "C17.R3", Min: 5, Run: c17r3, Statement: "every parsed probe list is wrapped in the observedGeneration guard, which fails exactly on a declared, different generation; entries are wrapped by their selectors and stored at their index"},
			{ID: "C17.R4", Min: 3, Run: c17r4, Statement: "the condition probe succeeds only on a well-formed, type-matching, status-matching condition after that condition's observedGeneration test; a stale condition only reaches false"},
			{ID: "C17.R5", Min: 2, Run: c17r5, Statement: "fieldsEqual succeeds only when both fields exist (no error, found) and are deeply equal; the two lookups use different configured paths"},
			{ID: "C17.R6", Min: 2, Run: c17r6, Statement: "CEL probes are only constructed behind ast.OutputType()==cel.BoolType, with the program compiled from that ast"},
			{ID: "C17.R7", Min: 12, Run: c17r7, Statement: "probing code performs no write (map update, store, delete/append/copy, Set*/SetNested*/Remove* call) through a value that aliases the probed object"},
		},
	})
}

// ---------------------------------------------------------------------------------------------
// anchors and small helpers

func c17ProberIface(p *Program) *types.Interface {
	pk := p.ByPath[pkgProbing]
	if pk == nil || pk.Types == nil {
		return nil
	}
	tn, ok := pk.Types.Scope().Lookup("Prober").(*types.TypeName)
	if !ok {
		return nil
	}
	i, _ := tn.Type().Underlying().(*types.Interface)
	return i
}

// c17ProbeMethods: product methods named like the Prober method whose receiver implements Prober.
func c17ProbeMethods(p *Program) []*ssa.Function {
	iface := c17ProberIface(p)
	if iface == nil || iface.NumMethods() != 1 {
		return nil
	}
	name := iface.Method(0).Name()
	var out []*ssa.Function
	for _, f := range p.Funcs {
		if f.Name() != name || f.Signature.Recv() == nil || f.Parent() != nil || isNonProductPkg(funcPkgPath(f)) {
			continue
		}
		if !strings.HasPrefix(funcPkgPath(f), modPKO) {
			continue
		}
		if types.Implements(f.Signature.Recv().Type(), iface) {
			out = append(out, f)
		}
	}
	return out
}

func c17RecvStruct(f *ssa.Function) *types.Struct {
	t := f.Signature.Recv().Type()
	if pt, ok := t.Underlying().(*types.Pointer); ok {
		t = pt.Elem()
	}
	st, _ := t.Underlying().(*types.Struct)
	return st
}

// kind of a Probe implementation by the shape of its receiver type.
func c17Classify(f *ssa.Function) string {
	t := f.Signature.Recv().Type()
	if sl, ok := t.Underlying().(*types.Slice); ok && namedTypeString(sl.Elem()) == c17TypeProber {
		return "list"
	}
	st := c17RecvStruct(f)
	if st == nil {
		return "leaf"
	}
	hasProber, gk, sel := false, false, false
	for i := 0; i < st.NumFields(); i++ {
		switch namedTypeString(st.Field(i).Type()) {
		case c17TypeProber:
			hasProber = true
		case c17TypeGK:
			gk = true
		case c17TypeSelector:
			sel = true
		}
	}
	switch {
	case hasProber && gk:
		return "kind-selector"
	case hasProber && sel:
		return "label-selector"
	case hasProber && st.NumFields() == 1:
		return "wrapper"
	case hasProber:
		return "other-wrapper"
	}
	return "leaf"
}

// c17RecvField: v is a load of field of f's receiver with the given named type → true.
func c17RecvFieldOfType(f *ssa.Function, v ssa.Value, typ string) bool {
	u, ok := stripConv(v).(*ssa.UnOp)
	if !ok || u.Op != token.MUL {
		return false
	}
	fa, ok := u.X.(*ssa.FieldAddr)
	if !ok || len(f.Params) == 0 || fa.X != ssa.Value(f.Params[0]) {
		return false
	}
	return namedTypeString(u.Type()) == typ
}

// c17ObjParam: the parameter holding the probed object (client.Object or *Unstructured).
func c17ObjParam(f *ssa.Function) *ssa.Parameter {
	for _, prm := range f.Params {
		ts := namedTypeString(prm.Type())
		if ts == pkgClient+".Object" || ts == pkgUnstr+".Unstructured" {
			return prm
		}
	}
	return nil
}

// c17Delegate: the return case returns both results of <recv>.Prober.Probe(obj).
func (p *Program) c17Delegate(f *ssa.Function, rc ReturnCase) bool {
	if len(rc.Results) != 2 {
		return false
	}
	c0, i0 := asCall(rc.Results[0])
	c1, i1 := asCall(rc.Results[1])
	if c0 == nil || c0 != c1 || i0 != 0 || i1 != 1 || !c0.Common().IsInvoke() {
		return false
	}
	cc := c0.Common()
	if namedTypeString(cc.Value.Type()) != c17TypeProber || !c17RecvFieldOfType(f, cc.Value, c17TypeProber) {
		return false
	}
	obj := c17ObjParam(f)
	return obj != nil && len(cc.Args) == 1 && p.sameValue(cc.Args[0], obj)
}

func c17ConstBoolResult(v ssa.Value) (bool, bool) {
	k, ok := stripConv(v).(*ssa.Const)
	if !ok {
		return false, false
	}
	return constBool(k)
}

func c17IsNilResult(v ssa.Value) bool {
	k, ok := stripConv(v).(*ssa.Const)
	return ok && k.Value == nil
}

// c17EqFact: fact is a (in)equality comparison; returns operands and whether the fact says "equal".
func c17EqFact(f Fact) (a, b ssa.Value, equal bool, ok bool) {
	bo, isBin := f.Cond.(*ssa.BinOp)
	if !isBin || (bo.Op != token.EQL && bo.Op != token.NEQ) {
		return nil, nil, false, false
	}
	return bo.X, bo.Y, (bo.Op == token.EQL) == f.Pol, true
}

// c17CallChain: v is obj.m1().m2()...; names are given outermost last.
func (p *Program) c17CallChain(v ssa.Value, obj ssa.Value, names ...string) bool {
	for i := len(names) - 1; i >= 0; i-- {
		call, _ := asCall(v)
		if call == nil || calleeName(call.Common()) != names[i] {
			return false
		}
		v = callRecv(call.Common())
		if v == nil {
			return false
		}
	}
	return p.sameValue(v, obj)
}

// c17VariadicConsts returns the constant strings of a variadic string argument.
func c17VariadicConsts(v ssa.Value) ([]string, bool) {
	elems, ok := sliceElems(v)
	if !ok {
		return nil, false
	}
	var out []string
	for _, e := range elems {
		s, ok := constString(e)
		if !ok {
			return nil, false
		}
		out = append(out, s)
	}
	return out, true
}

// c17DerivesFrom: v is computed from root through loads, field accesses, conversions, extracts and
// calls that receive it (bounded).
func c17DerivesFrom(v, root ssa.Value, depth int) bool {
	if v == nil || depth > 10 {
		return false
	}
	v = stripConv(v)
	if v == stripConv(root) {
		return true
	}
	switch x := v.(type) {
	case *ssa.UnOp:
		return c17DerivesFrom(x.X, root, depth+1)
	case *ssa.FieldAddr:
		return c17DerivesFrom(x.X, root, depth+1)
	case *ssa.Field:
		return c17DerivesFrom(x.X, root, depth+1)
	case *ssa.Extract:
		return c17DerivesFrom(x.Tuple, root, depth+1)
	case *ssa.Call:
		for _, a := range x.Call.Args {
			if c17DerivesFrom(a, root, depth+1) {
				return true
			}
		}
		if x.Call.IsInvoke() {
			return c17DerivesFrom(x.Call.Value, root, depth+1)
		}
	case *ssa.Phi:
		for _, e := range x.Edges {
			if e != ssa.Value(x) && c17DerivesFrom(e, root, depth+1) {
				return true
			}
		}
	case *ssa.Alloc:
		// a spilled parameter / local: the stored value
		for _, r := range referrersOf(x) {
			if st, ok := r.(*ssa.Store); ok && st.Addr == ssa.Value(x) && c17DerivesFrom(st.Val, root, depth+1) {
				return true
			}
		}
	}
	return false
}

// c17FieldPath unwraps loads and field accesses: returns the root value and the field names.
func c17FieldPath(v ssa.Value) (root ssa.Value, path []string) {
	for i := 0; i < 12; i++ {
		v = stripConv(v)
		switch x := v.(type) {
		case *ssa.UnOp:
			if x.Op != token.MUL {
				return v, path
			}
			v = x.X
		case *ssa.FieldAddr:
			path = append([]string{fieldName(x.X.Type(), x.Field)}, path...)
			v = x.X
		case *ssa.Field:
			path = append([]string{fieldName(x.X.Type(), x.Field)}, path...)
			v = x.X
		default:
			return v, path
		}
	}
	return v, path
}

// c17IsParamOrSpill: root is the parameter prm or the local it was spilled to.
func c17IsParamOrSpill(root ssa.Value, prm *ssa.Parameter) bool {
	if root == ssa.Value(prm) {
		return true
	}
	a, ok := root.(*ssa.Alloc)
	if !ok {
		return false
	}
	n := 0
	good := false
	for _, r := range referrersOf(a) {
		if st, ok := r.(*ssa.Store); ok && st.Addr == ssa.Value(a) {
			n++
			good = st.Val == ssa.Value(prm)
		}
	}
	return n == 1 && good
}

// c17NonNilErr: the error result of a return case is certainly non-nil.
func (p *Program) c17NonNilErr(rc ReturnCase, v ssa.Value) bool {
	if p.nilnessFromFacts(rc.Facts, v) == noTri {
		return true
	}
	if call, _ := asCall(v); call != nil && isCallTo(call.Common(), "fmt.Errorf", "errors.New") {
		return true
	}
	if g, ok := c16GlobalLoad(v); ok && strings.HasPrefix(g.Name(), "Err") {
		return true
	}
	return false
}

func c17ErrResultIsNil(rc ReturnCase) bool {
	return len(rc.Results) > 0 && c17IsNilResult(rc.Results[len(rc.Results)-1])
}

// c17ReturnCases: the return cases of f without the synthetic recover block (it only re-loads the
// named results after a recovered panic; none of the analysed functions recovers).
func (p *Program) c17ReturnCases(f *ssa.Function) []ReturnCase {
	var out []ReturnCase
	for _, rc := range p.returnCases(f) {
		if f.Recover != nil && rc.Ret.Block() == f.Recover {
			continue
		}
		out = append(out, rc)
	}
	return out
}

func c17Short(s string) string {
	if len(s) > 160 {
		return s[:157] + "..."
	}
	return s
}

// pathsAvoiding: can `to` be reached from `from` without entering block `avoid`?
func c17ReachAvoiding(from, to, avoid *ssa.BasicBlock) bool {
	seen := map[*ssa.BasicBlock]bool{}
	work := []*ssa.BasicBlock{from}
	for len(work) > 0 {
		b := work[len(work)-1]
		work = work[:len(work)-1]
		if b == avoid || seen[b] {
			continue
		}
		seen[b] = true
		if b == to {
			return true
		}
		work = append(work, b.Succs...)
	}
	return false
}

// c17ReachAvoidingGiven: like c17ReachAvoiding, not following edges that are infeasible.
func c17ReachAvoidingGiven(from, to, avoid *ssa.BasicBlock, infeasible func(from, to *ssa.BasicBlock) bool) bool {
	seen := map[*ssa.BasicBlock]bool{}
	work := []*ssa.BasicBlock{from}
	for len(work) > 0 {
		b := work[len(work)-1]
		work = work[:len(work)-1]
		if b == avoid || seen[b] {
			continue
		}
		seen[b] = true
		if b == to {
			return true
		}
		for _, s := range b.Succs {
			if infeasible != nil && infeasible(b, s) {
				continue
			}
			work = append(work, s)
		}
	}
	return false
}

// ---------------------------------------------------------------------------------------------
// R1

// c17LoopOverSlice checks that loop l iterates idx over every element of slice s:
// header condition `I < len(s)`, I advancing by one from the first element.
func (p *Program) c17LoopOverSlice(l *Loop, s ssa.Value, idx ssa.Value) (bool, string) {
	iff, ok := l.Head.Instrs[len(l.Head.Instrs)-1].(*ssa.If)
	if !ok {
		return false, "loop header does not end in a bounds test"
	}
	cond, ok := iff.Cond.(*ssa.BinOp)
	if !ok || cond.Op != token.LSS || !l.Body[l.Head.Succs[0]] {
		return false, "loop condition is not `index < len(list)`: " + p.describe(iff.Cond)
	}
	lc, _ := asCall(cond.Y)
	if lc == nil || !isCallTo(lc.Common(), "builtin:len") || !p.sameValue(lc.Call.Args[0], s) {
		return false, "loop bound is " + p.describe(cond.Y) + ", not len(" + p.describe(s) + ")"
	}
	if stripConv(cond.X) != stripConv(idx) {
		return false, "the element index " + p.describe(idx) + " is not the tested loop index " + p.describe(cond.X)
	}
	one := func(v ssa.Value) bool { n, ok := constInt(v); return ok && n == 1 }
	startsAt := func(ph *ssa.Phi, first int64, next ssa.Value) bool {
		if ph.Block() != l.Head {
			return false
		}
		for i, e := range ph.Edges {
			if l.Body[ph.Block().Preds[i]] {
				if stripConv(e) != stripConv(next) {
					return false
				}
			} else if n, ok := constInt(e); !ok || n != first {
				return false
			}
		}
		return true
	}
	switch x := stripConv(idx).(type) {
	case *ssa.BinOp: // range form: idx = phi + 1, phi starts at -1
		if ph, ok := x.X.(*ssa.Phi); ok && x.Op == token.ADD && one(x.Y) && startsAt(ph, -1, x) {
			return true, ""
		}
	case *ssa.Phi: // classic form: idx = phi, starts at 0, next = idx + 1
		for i, e := range x.Edges {
			if l.Body[x.Block().Preds[i]] {
				if b, ok := e.(*ssa.BinOp); ok && b.Op == token.ADD && b.X == ssa.Value(x) && one(b.Y) && startsAt(x, 0, b) {
					return true, ""
				}
			}
		}
	}
	return false, "loop index progression not recognised: " + p.describe(idx)
}

func c17r1(c *Ctx) {
	p := c.P
	n := 0
	for _, f := range c17ProbeMethods(p) {
		if c17Classify(f) != "list" {
			continue
		}
		n++
		c.Visit(f)
		recv, obj := f.Params[0], c17ObjParam(f)
		// the element probe call
		var probe *ssa.Call
		var idx ssa.Value
		for _, cl := range callsIn(f) {
			call, ok := cl.Instr.(*ssa.Call)
			if !ok || !cl.Common.IsInvoke() || namedTypeString(cl.Common.Value.Type()) != c17TypeProber {
				continue
			}
			switch e := stripConv(cl.Common.Value).(type) {
			case *ssa.UnOp:
				if ia, ok := e.X.(*ssa.IndexAddr); ok && e.Op == token.MUL && ia.X == ssa.Value(recv) {
					probe, idx = call, ia.Index
				}
			case *ssa.Index:
				if e.X == ssa.Value(recv) {
					probe, idx = call, e.Index
				}
			}
		}
		const stmt1 = "every element of the list is probed with the probed object; the loop has no exit other than exhaustion"
		if probe == nil || obj == nil {
			c.Ob(f, "loop:every-element-probed", nil, stmt1).Unknown("no call of an element's Probe found")
			continue
		}
		o1 := c.Ob(f, "loop:every-element-probed", probe, stmt1)
		l := innermostLoop(f, probe.Block())
		if l == nil {
			o1.Fail("the element probe is not inside a loop over the list")
			continue
		}
		var pr []string
		if len(probe.Call.Args) != 1 || !p.sameValue(probe.Call.Args[0], obj) {
			pr = append(pr, "elements are probed with "+p.describe(probe.Call.Args[0])+", not the object handed in")
		}
		if ok, why := p.c17LoopOverSlice(l, recv, idx); !ok {
			pr = append(pr, why)
		}
		for b := range l.Body {
			for _, s := range b.Succs {
				if !l.Body[s] && b != l.Head {
					pr = append(pr, "the loop can be left early at "+p.IPos(b.Instrs[len(b.Instrs)-1])+" before all elements were probed")
				}
			}
			if len(b.Succs) == 0 {
				pr = append(pr, "the loop body returns/panics at "+p.IPos(b.Instrs[len(b.Instrs)-1]))
			}
		}
		if !p.mustPrecedeInLoop(l, probe) {
			pr = append(pr, "an iteration can skip the element's Probe call")
		}
		sort.Strings(pr)
		if len(pr) == 0 {
			o1.OK()
		} else {
			o1.Fail("%s", strings.Join(pr, "; "))
		}

		// accumulator
		o2 := c.Ob(f, "loop:failing-messages-collected", probe, "the messages of every failing element are appended to the accumulator that is carried around the loop")
		succ, msgs := c16Extract(probe, 0), c16Extract(probe, 1)
		var acc *ssa.Phi
		var app *ssa.Call
		for b := range l.Body {
			for _, in := range b.Instrs {
				call, ok := in.(*ssa.Call)
				if !ok || !isCallTo(call.Common(), "builtin:append") || len(call.Call.Args) != 2 || msgs == nil || !p.sameValue(call.Call.Args[1], msgs) {
					continue
				}
				if ph, ok := stripConv(call.Call.Args[0]).(*ssa.Phi); ok && ph.Block() == l.Head {
					acc, app = ph, call
				}
			}
		}
		if acc == nil || succ == nil {
			o2.Fail("no append(<loop-carried accumulator>, <messages of this element>...) in the loop")
			continue
		}
		pr = nil
		if p.boolFromFacts(p.FactsAt(app.Block()), succ) != noTri {
			pr = append(pr, "the append is not under `success == false` of the element's result")
		}
		// from the failing edge every path to the next iteration passes the append
		for b := range l.Body {
			iff, ok := b.Instrs[len(b.Instrs)-1].(*ssa.If)
			if !ok {
				continue
			}
			for i, s := range b.Succs {
				if p.boolFromFacts(p.edgeFacts(b, s), succ) == noTri && s != app.Block() && c17ReachAvoiding(s, l.Head, app.Block()) {
					pr = append(pr, fmt.Sprintf("a failing element can reach the next iteration without its messages being appended (edge %d of %s)", i, p.IPos(iff)))
				}
			}
		}
		sawApp := false
		for i, e := range acc.Edges {
			if !l.Body[acc.Block().Preds[i]] {
				continue
			}
			var walk func(v ssa.Value, d int)
			walk = func(v ssa.Value, d int) {
				v = stripConv(v)
				switch {
				case v == ssa.Value(app):
					sawApp = true
				case v == ssa.Value(acc):
				default:
					if ph, ok := v.(*ssa.Phi); ok && d < 6 {
						for _, x := range ph.Edges {
							walk(x, d+1)
						}
						return
					}
					pr = append(pr, "the accumulator is overwritten with "+c17Short(p.describe(v))+" inside the loop")
				}
			}
			walk(e, 0)
		}
		if !sawApp {
			pr = append(pr, "the result of the append is not carried to the next iteration")
		}
		if len(pr) == 0 {
			o2.OK("accumulator " + p.describe(acc))
		} else {
			o2.Fail("%s", strings.Join(pr, "; "))
		}

		// returns
		for _, rc := range p.c17ReturnCases(f) {
			b, isConst := c17ConstBoolResult(rc.Results[0])
			name := "return:computed"
			if isConst {
				name = fmt.Sprintf("return:%v", b)
			}
			o := c.Ob(f, name, rc.Ret, "success is returned exactly when no failing message was collected; failure returns all collected messages")
			switch {
			case isConst && b:
				if p.emptinessFromFacts(rc.Facts, acc) == yesTri {
					o.OK("under len(acc)==0")
				} else {
					o.Fail("returns success without len(<accumulator>)==0 being established: a failing element can be ignored")
				}
			case isConst && !b:
				if p.emptinessFromFacts(rc.Facts, acc) != noTri {
					o.Fail("returns failure without len(<accumulator>)>0 being established")
				} else if !p.sameValue(rc.Results[1], acc) {
					o.Fail("failure returns %s, not the accumulated messages of all failing elements", p.describe(rc.Results[1]))
				} else {
					o.OK("under len(acc)>0, returns acc")
				}
			default:
				if x, nonEmptyWhenTrue, ok := lenCmp(stripConv(rc.Results[0])); ok && !nonEmptyWhenTrue && p.sameValue(x, acc) && p.sameValue(rc.Results[1], acc) {
					o.OK("returns len(acc)==0, acc")
				} else {
					o.Unknown("success result %s is neither a constant nor `len(<accumulator>) == 0`", p.describe(rc.Results[0]))
				}
			}
		}
	}
	if n == 0 {
		c.AnchorLost("Probe method on a slice of " + c17TypeProber)
	}
}

// mustPrecedeInLoop: every path from the loop header through the body back to the header executes `in`.
func (p *Program) mustPrecedeInLoop(l *Loop, in ssa.Instruction) bool {
	for _, s := range l.Head.Succs {
		if !l.Body[s] {
			continue
		}
		// search a path s → ... → Head inside the body avoiding in.Block()
		seen := map[*ssa.BasicBlock]bool{}
		work := []*ssa.BasicBlock{s}
		for len(work) > 0 {
			b := work[len(work)-1]
			work = work[:len(work)-1]
			if b == in.Block() || seen[b] || !l.Body[b] {
				continue
			}
			seen[b] = true
			for _, x := range b.Succs {
				if x == l.Head {
					return false
				}
				work = append(work, x)
			}
		}
	}
	return true
}

// ---------------------------------------------------------------------------------------------
// R2

// c17PerEdge judges a block that is entered over several edges per edge (facts of the edge): the
// common answer of all ways in, unknown when they differ or one is undecided.
func c17PerEdge(p *Program, b *ssa.BasicBlock, judge func([]Fact) tri) tri {
	if len(b.Preds) == 0 {
		return unknownTri
	}
	res := unknownTri
	for i, pr := range b.Preds {
		m := judge(p.FactsOnEdge(pr, b))
		if m == unknownTri {
			return unknownTri
		}
		if i > 0 && m != res {
			return unknownTri
		}
		res = m
	}
	return res
}

// c17ReadOnlyLocal: the value a local variable holds when it is assigned exactly once as a whole and
// otherwise only read (loads of the variable or of its fields).
func c17ReadOnlyLocal(a *ssa.Alloc) ssa.Value {
	var val ssa.Value
	for _, r := range referrersOf(a) {
		switch x := r.(type) {
		case *ssa.Store:
			if x.Addr != ssa.Value(a) || val != nil {
				return nil
			}
			val = x.Val
		case *ssa.UnOp:
			if x.Op != token.MUL {
				return nil
			}
		case *ssa.FieldAddr:
			for _, rr := range referrersOf(x) {
				if u, ok := rr.(*ssa.UnOp); !ok || u.Op != token.MUL {
					if _, dbg := rr.(*ssa.DebugRef); !dbg {
						return nil
					}
				}
			}
		case *ssa.DebugRef:
		default:
			return nil
		}
	}
	return val
}

// c17KindFieldwise reads the kind selector's match test when it is written field by field
// (recv.GroupKind.Group == gvk.Group && recv.GroupKind.Kind == gvk.Kind): two GroupKind values are
// equal iff all their fields are. yes = every field of the receiver's GroupKind is known equal to the
// field of the same name of obj's group/kind; no = one of them is known to differ.
func (p *Program) c17KindFieldwise(f *ssa.Function, obj ssa.Value, fs []Fact) tri {
	st := c17RecvStruct(f)
	if st == nil || len(f.Params) == 0 {
		return unknownTri
	}
	var gkField string
	var gkStruct *types.Struct
	for i := 0; i < st.NumFields(); i++ {
		if namedTypeString(st.Field(i).Type()) == c17TypeGK {
			gkField = st.Field(i).Name()
			gkStruct, _ = st.Field(i).Type().Underlying().(*types.Struct)
		}
	}
	if gkStruct == nil || gkStruct.NumFields() == 0 {
		return unknownTri
	}
	// field of the receiver's pair / of the object's group-version-kind that v reads
	recvField := func(v ssa.Value) (string, bool) {
		root, path := c17FieldPath(v)
		if root != ssa.Value(f.Params[0]) || len(path) != 2 || path[0] != gkField {
			return "", false
		}
		return path[1], true
	}
	objField := func(v ssa.Value) (string, bool) {
		root, path := c17FieldPath(v)
		if len(path) != 1 {
			return "", false
		}
		if a, ok := root.(*ssa.Alloc); ok {
			root = c17ReadOnlyLocal(a)
			if root == nil {
				return "", false
			}
		}
		if p.c17CallChain(root, obj, "GetObjectKind", "GroupVersionKind") ||
			p.c17CallChain(root, obj, "GetObjectKind", "GroupVersionKind", "GroupKind") {
			return path[0], true
		}
		return "", false
	}
	equal := map[string]bool{}
	for _, fc := range fs {
		a, b, eq, ok := c17EqFact(fc)
		if !ok {
			continue
		}
		for _, pr := range [][2]ssa.Value{{a, b}, {b, a}} {
			rf, ok1 := recvField(pr[0])
			of, ok2 := objField(pr[1])
			if !ok1 || !ok2 || rf != of {
				continue
			}
			if !eq {
				return noTri
			}
			equal[rf] = true
		}
	}
	for i := 0; i < gkStruct.NumFields(); i++ {
		if !equal[gkStruct.Field(i).Name()] {
			return unknownTri
		}
	}
	return yesTri
}

func c17r2(c *Ctx) {
	p := c.P
	n := 0
	for _, f := range c17ProbeMethods(p) {
		kind := c17Classify(f)
		if kind != "kind-selector" && kind != "label-selector" {
			continue
		}
		n++
		c.Visit(f)
		obj := c17ObjParam(f)
		o := c.Ob(f, kind, nil, c.rule.Statement)
		if obj == nil {
			o.Unknown("no object parameter")
			continue
		}
		// matches(fs): yes = facts say the selector matches obj, no = does not match
		matches := func(fs []Fact) tri {
			if kind == "kind-selector" {
				// the pair compared field by field: equal iff every field is equal
				if m := p.c17KindFieldwise(f, obj, fs); m != unknownTri {
					return m
				}
			}
			for _, fc := range fs {
				if kind == "kind-selector" {
					a, b, equal, ok := c17EqFact(fc)
					if !ok {
						continue
					}
					for _, pr := range [][2]ssa.Value{{a, b}, {b, a}} {
						if c17RecvFieldOfType(f, pr[0], c17TypeGK) && p.c17CallChain(pr[1], obj, "GetObjectKind", "GroupVersionKind", "GroupKind") {
							if equal {
								return yesTri
							}
							return noTri
						}
					}
					continue
				}
				call, _ := asCall(fc.Cond)
				if call == nil || calleeName(call.Common()) != "Matches" || len(callArgs(call.Common())) != 1 {
					continue
				}
				if !c17RecvFieldOfType(f, callRecv(call.Common()), c17TypeSelector) {
					continue
				}
				if !p.c17CallChain(callArgs(call.Common())[0], obj, "GetLabels") {
					continue
				}
				if fc.Pol {
					return yesTri
				}
				return noTri
			}
			return unknownTri
		}
		var pr []string
		nDel, nPass := 0, 0
		for _, rc := range p.c17ReturnCases(f) {
			m := matches(rc.Facts)
			if m == unknownTri && rc.Pred == nil {
				// a return block shared by several tests (a && b failing at a or at b): per way in
				m = c17PerEdge(p, rc.Ret.Block(), matches)
			}
			switch {
			case p.c17Delegate(f, rc):
				nDel++
				if m != yesTri {
					pr = append(pr, fmt.Sprintf("the wrapped prober's verdict is returned at %s without the selector being known to match the probed object", p.IPos(rc.Ret)))
				}
			default:
				b, isConst := c17ConstBoolResult(rc.Results[0])
				if isConst && b && c17IsNilResult(rc.Results[1]) {
					nPass++
					if m != noTri {
						pr = append(pr, fmt.Sprintf("(true, nil) is returned at %s without the selector being known not to match: a selected object could skip its probe", p.IPos(rc.Ret)))
					}
				} else {
					pr = append(pr, fmt.Sprintf("return at %s yields (%s, %s): neither the wrapped prober's verdict nor the pass-by-default (true, nil)", p.IPos(rc.Ret), p.describe(rc.Results[0]), p.describe(rc.Results[1])))
				}
			}
		}
		if nDel == 0 {
			pr = append(pr, "the wrapped prober is never consulted")
		}
		if nPass == 0 {
			pr = append(pr, "non-matching objects are never passed")
		}
		if len(pr) == 0 {
			o.OK(fmt.Sprintf("%d delegating, %d passing return(s)", nDel, nPass))
		} else {
			o.Fail("%s", strings.Join(pr, "; "))
		}
	}
	if n < 2 {
		c.AnchorLost("kind and label selector probers (struct with embedded Prober and a schema.GroupKind / labels.Selector field)")
	}
}
