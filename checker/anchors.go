package main

import (
	_ "embed"
	"encoding/json"
	"fmt"
	"go/token"
	"go/types"
	"os"
	"sort"
	"strings"

	"golang.org/x/tools/go/ssa"
)

// Rename tracking for function anchors.
//
// Rules, result tables and known-finding keys name repository functions. A pure rename of such a
// function (a behaviour-preserving edit) must not turn into an alarm. anchors.json records, for
// every top-level function of the workspace at the pinned tree, a structural fingerprint (package,
// receiver type, signature, resolved callees). At load time every recorded function that no longer
// exists under its name is matched against the functions of the same package that are new: same
// receiver type and signature and a sufficiently similar, unambiguous callee set. A match makes the
// new function answer to the old identity (lookups, obligation keys, tables).
//
// The fingerprints are only consulted for names that disappeared, so they never influence a verdict
// on a tree where the names still exist; an ambiguous or missing match leaves the anchor lost (fails
// loudly, as before).

//go:embed anchors.json
var anchorsJSON []byte

type anchorFP struct {
	Pkg     string   `json:"pkg"`
	Recv    string   `json:"recv,omitempty"`
	Sig     string   `json:"sig"`
	Callees []string `json:"callees"`
	Blocks  int      `json:"blocks"`
}

// namelessTuple drops parameter / result names: renaming a parameter is not a change of signature.
func namelessTuple(t *types.Tuple) *types.Tuple {
	if t == nil {
		return nil
	}
	vars := make([]*types.Var, t.Len())
	for i := range vars {
		vars[i] = types.NewVar(token.NoPos, nil, "", t.At(i).Type())
	}
	return types.NewTuple(vars...)
}

// anchorUnit is a function as seen by rename tracking. Generic functions appear twice: every
// instance (the code that is analysed) under its own id, and the generic origin — which has no body
// of its own in the program — under the origin's id with the body of its first instance.
type anchorUnit struct {
	ID   string
	Fn   *ssa.Function // the function that answers to ID
	Body *ssa.Function // where the callees are taken from
}

func (p *Program) anchorUnits() []anchorUnit {
	var out []anchorUnit
	seenOrigin := map[*ssa.Function]bool{}
	for _, fn := range p.Funcs {
		if fn.Parent() != nil {
			continue
		}
		if fn.Synthetic != "" && fn.Origin() == nil {
			continue
		}
		out = append(out, anchorUnit{funcID(fn), fn, fn})
		if o := fn.Origin(); o != nil && !seenOrigin[o] {
			seenOrigin[o] = true
			if _, isSrc := p.funcByID[funcID(o)]; !isSrc {
				out = append(out, anchorUnit{funcID(o), o, fn})
			}
		}
	}
	return out
}

func fingerprint(fn *ssa.Function) anchorFP { return fingerprintOf(fn, fn) }

func fingerprintOf(fn, body *ssa.Function) anchorFP {
	fp := anchorFP{Pkg: funcPkgPath(fn), Blocks: len(body.Blocks)}
	if r := fn.Signature.Recv(); r != nil {
		fp.Recv = types.TypeString(r.Type(), nil)
	}
	sig := fn.Signature
	fp.Sig = types.TypeString(types.NewSignatureType(nil, nil, nil, namelessTuple(sig.Params()), namelessTuple(sig.Results()), sig.Variadic()), nil)
	set := map[string]bool{}
	var walk func(f *ssa.Function)
	walk = func(f *ssa.Function) {
		for _, c := range callsIn(f) {
			id := calleeID(c.Common)
			if id == "dynamic" || strings.HasPrefix(id, "closure:") {
				continue
			}
			set[id] = true
		}
		for _, af := range f.AnonFuncs {
			walk(af)
		}
	}
	walk(body)
	for k := range set {
		fp.Callees = append(fp.Callees, k)
	}
	sort.Strings(fp.Callees)
	return fp
}

func genAnchors(p *Program, path string) error {
	out := map[string]anchorFP{}
	for _, u := range p.anchorUnits() {
		if isNonProductPkg(funcPkgPath(u.Fn)) {
			continue
		}
		out[u.ID] = fingerprintOf(u.Fn, u.Body)
	}
	b, err := json.MarshalIndent(out, "", " ")
	if err != nil {
		return err
	}
	return os.WriteFile(path, append(b, '\n'), 0o644)
}

func jaccard(a, b []string) float64 {
	if len(a) == 0 && len(b) == 0 {
		return 1
	}
	set := map[string]bool{}
	for _, x := range a {
		set[x] = true
	}
	bset := map[string]bool{}
	for _, x := range b {
		bset[x] = true
	}
	inter := 0
	for x := range bset {
		if set[x] {
			inter++
		}
	}
	union := len(set) + len(bset) - inter
	if union == 0 {
		return 1
	}
	return float64(inter) / float64(union)
}

func isIdentByte(c byte) bool {
	return c == '_' || (c >= '0' && c <= '9') || (c >= 'a' && c <= 'z') || (c >= 'A' && c <= 'Z')
}

// pkgIdents calls f for every occurrence `<pkg>.<Ident>` in s (a type string, callee id or function
// id) and returns s with the identifiers for which f returns true replaced by "?".
func pkgIdents(s, pkg string, f func(name string) bool) string {
	var out strings.Builder
	for i := 0; i < len(s); {
		j := strings.Index(s[i:], pkg+".")
		if j < 0 {
			out.WriteString(s[i:])
			break
		}
		j += i
		k := j + len(pkg) + 1
		e := k
		for e < len(s) && isIdentByte(s[e]) {
			e++
		}
		// the package path must not be the tail of a longer path
		startOK := j == 0 || !(isIdentByte(s[j-1]) || s[j-1] == '/' || s[j-1] == '.' || s[j-1] == '-')
		out.WriteString(s[i:k])
		if startOK && e > k && f(s[k:e]) {
			out.WriteString("?")
		} else {
			out.WriteString(s[k:e])
		}
		i = e
	}
	return out.String()
}

// resolveRenames fills p.funcByID for recorded functions that disappeared under their name.
//
// A recorded function and a candidate are compared modulo renames: parameter names are not part of
// the signature; identifiers of the function's own package that exist in only one of the two trees
// (a renamed receiver or parameter type, a renamed callee) compare as a placeholder; callees that
// were already matched in an earlier round compare under their recorded identity.
func (p *Program) resolveRenames() {
	var recorded map[string]anchorFP
	if len(anchorsJSON) == 0 || json.Unmarshal(anchorsJSON, &recorded) != nil {
		return
	}
	p.alias = map[*ssa.Function]string{}
	p.renameCand = map[*ssa.Function]bool{}
	units := p.anchorUnits()
	present := map[string]bool{}
	for _, u := range units {
		present[u.ID] = true
	}
	// identifiers known per package in the recorded tree / declared in the current tree
	oldNames := map[string]map[string]bool{}
	note := func(pkg, s string) {
		if oldNames[pkg] == nil {
			oldNames[pkg] = map[string]bool{}
		}
		pkgIdents(s, pkg, func(n string) bool { oldNames[pkg][n] = true; return false })
	}
	for id, fp := range recorded {
		note(fp.Pkg, id)
		note(fp.Pkg, fp.Recv)
		note(fp.Pkg, fp.Sig)
		for _, c := range fp.Callees {
			note(fp.Pkg, c)
		}
	}
	declaredNow := func(pkg, name string) bool {
		if pk := p.ByPath[pkg]; pk != nil && pk.Types != nil {
			return pk.Types.Scope().Lookup(name) != nil
		}
		return true
	}
	normOld := func(pkg, s string) string {
		return pkgIdents(s, pkg, func(n string) bool { return !declaredNow(pkg, n) })
	}
	normNew := func(pkg, s string) string {
		return pkgIdents(s, pkg, func(n string) bool { return !oldNames[pkg][n] })
	}
	normList := func(pkg string, l []string, norm func(pkg, s string) string) []string {
		out := make([]string, len(l))
		for i, x := range l {
			out[i] = norm(pkg, x)
		}
		return out
	}
	shortName := func(id string) string {
		if i := strings.LastIndex(id, "."); i >= 0 {
			return id[i+1:]
		}
		return id
	}
	// functions of the current tree that are not recorded (new names), per package
	added := map[string][]anchorUnit{}
	for _, u := range units {
		if _, ok := recorded[u.ID]; !ok {
			added[funcPkgPath(u.Fn)] = append(added[funcPkgPath(u.Fn)], u)
		}
	}
	var missing []string
	for id := range recorded {
		if !present[id] {
			missing = append(missing, id)
		}
	}
	sort.Strings(missing)
	taken := map[*ssa.Function]bool{}
	newToOld := map[string]string{} // current id -> recorded id of matched functions
	resolved := map[string]bool{}
	// rounds 0..3: same receiver type (modulo renames); rounds 4..5: a method whose receiver was
	// dropped (a method -> function conversion keeps the parameter list only if the receiver was unused)
	// rounds 6..7: same (short) name with a changed receiver or parameter list — a method that became a
	// function taking what it used of its receiver as a parameter, or the reverse
	for round := 0; round < 8; round++ {
		dropped := round >= 4 && round < 6
		sameName := round >= 6
		progress := false
		for _, id := range missing {
			if resolved[id] {
				continue
			}
			want := recorded[id]
			if dropped && want.Recv == "" {
				continue
			}
			wRecv, wSig := normOld(want.Pkg, want.Recv), normOld(want.Pkg, want.Sig)
			wCallees := normList(want.Pkg, want.Callees, normOld)
			var best *anchorUnit
			bestScore, second := 0.0, 0.0
			for i := range added[want.Pkg] {
				cand := &added[want.Pkg][i]
				if taken[cand.Fn] {
					continue
				}
				fp := fingerprintOf(cand.Fn, cand.Body)
				if sameName {
					if shortName(cand.ID) != shortName(id) {
						continue
					}
				} else {
					if normNew(fp.Pkg, fp.Sig) != wSig {
						continue
					}
					if !dropped && normNew(fp.Pkg, fp.Recv) != wRecv {
						continue
					}
					if dropped && fp.Recv != "" {
						continue
					}
				}
				if !sameName {
					// a new function with the signature of a recorded function that disappeared: possibly
					// its renamed successor whose body changed too much (yet) to be matched
					p.renameCand[cand.Fn] = true
				}
				callees := make([]string, len(fp.Callees))
				for j, c := range fp.Callees {
					if old, ok := newToOld[c]; ok {
						callees[j] = normOld(want.Pkg, old)
					} else {
						callees[j] = normNew(fp.Pkg, c)
					}
				}
				s := jaccard(callees, wCallees)
				if shortName(cand.ID) == shortName(id) {
					s += 0.2 // same method name on a renamed receiver type
				}
				if s > bestScore {
					second = bestScore
					bestScore, best = s, cand
				} else if s > second {
					second = s
				}
			}
			if best != nil && bestScore >= 0.6 && bestScore-second >= 0.15 {
				taken[best.Fn] = true
				resolved[id] = true
				progress = true
				newToOld[best.ID] = id
				if best.Fn == best.Body {
					p.funcByID[id] = best.Fn
				}
				p.alias[best.Fn] = id
				p.Renames = append(p.Renames, fmt.Sprintf("%s is now %s (callee similarity %.2f)", id, best.ID, min(bestScore, 1.0)))
			}
		}
		if !progress {
			// go on with the next kind of round
			switch {
			case round < 3:
				round = 3
			case round < 5:
				round = 5
			default:
				round = 8
			}
		}
	}
}

// stableName returns the recorded (pinned-tree) name of fn if it was matched by rename tracking,
// else its current name. Use it wherever a function name becomes part of an obligation key.
func stableName(fn *ssa.Function) string {
	if fn == nil {
		return ""
	}
	if currentProgram != nil {
		if id, ok := currentProgram.alias[fn]; ok {
			return aliasBaseName(id)
		}
	}
	return fn.Name()
}
