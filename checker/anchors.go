package main

import (
	_ "embed"
	"encoding/json"
	"fmt"
	"go/types"
	"os"
	"sort"
	"strings"

	"golang.org/x/tools/go/ssa"
)

// Rename tracking for function anchors.
//
// Rules, result tables and known-finding keys name repository functions. A pure rename of such a
// function (a behaviour-preserving edit) must not turn into an alarm. anchors.json records, for
// every top-level function of the workspace at the pinned tree, a structural fingerprint (package,
// receiver type, signature, resolved callees). At load time every recorded function that no longer
// exists under its name is matched against the functions of the same package that are new: same
// receiver type and signature and a sufficiently similar, unambiguous callee set. A match makes the
// new function answer to the old identity (lookups, obligation keys, tables).
//
// The fingerprints are only consulted for names that disappeared, so they never influence a verdict
// on a tree where the names still exist; an ambiguous or missing match leaves the anchor lost (fails
// loudly, as before).

//go:embed anchors.json
var anchorsJSON []byte

type anchorFP struct {
	Pkg     string   `json:"pkg"`
	Recv    string   `json:"recv,omitempty"`
	Sig     string   `json:"sig"`
	Callees []string `json:"callees"`
	Blocks  int      `json:"blocks"`
}

func fingerprint(fn *ssa.Function) anchorFP {
	fp := anchorFP{Pkg: funcPkgPath(fn), Blocks: len(fn.Blocks)}
	if r := fn.Signature.Recv(); r != nil {
		fp.Recv = types.TypeString(r.Type(), nil)
	}
	// parameter and result *types* only: renaming a parameter must not change the fingerprint
	sig := fn.Signature
	var ps, rs []string
	for i := 0; i < sig.Params().Len(); i++ {
		ps = append(ps, types.TypeString(sig.Params().At(i).Type(), nil))
	}
	for i := 0; i < sig.Results().Len(); i++ {
		rs = append(rs, types.TypeString(sig.Results().At(i).Type(), nil))
	}
	fp.Sig = "func(" + strings.Join(ps, ", ") + ") (" + strings.Join(rs, ", ") + ")"
	if sig.Variadic() {
		fp.Sig += " variadic"
	}
	set := map[string]bool{}
	var walk func(f *ssa.Function)
	walk = func(f *ssa.Function) {
		for _, c := range callsIn(f) {
			id := calleeID(c.Common)
			if id == "dynamic" || strings.HasPrefix(id, "closure:") {
				continue
			}
			set[id] = true
		}
		for _, af := range f.AnonFuncs {
			walk(af)
		}
	}
	walk(fn)
	for k := range set {
		fp.Callees = append(fp.Callees, k)
	}
	sort.Strings(fp.Callees)
	return fp
}

func genAnchors(p *Program, path string) error {
	out := map[string]anchorFP{}
	for _, fn := range p.Funcs {
		if fn.Parent() != nil || isNonProductPkg(funcPkgPath(fn)) {
			continue
		}
		if fn.Synthetic != "" {
			continue
		}
		out[funcID(fn)] = fingerprint(fn)
	}
	b, err := json.MarshalIndent(out, "", " ")
	if err != nil {
		return err
	}
	return os.WriteFile(path, append(b, '\n'), 0o644)
}

func jaccard(a, b []string) float64 {
	if len(a) == 0 && len(b) == 0 {
		return 1
	}
	set := map[string]bool{}
	for _, x := range a {
		set[x] = true
	}
	inter := 0
	for _, x := range b {
		if set[x] {
			inter++
		}
	}
	union := len(a) + len(b) - inter
	if union == 0 {
		return 1
	}
	return float64(inter) / float64(union)
}

// resolveRenames fills p.funcByID for recorded functions that disappeared under their name.
func (p *Program) resolveRenames() {
	var recorded map[string]anchorFP
	if len(anchorsJSON) == 0 || json.Unmarshal(anchorsJSON, &recorded) != nil {
		return
	}
	p.alias = map[*ssa.Function]string{}
	// functions of the current tree that are not recorded (new names), per package
	added := map[string][]*ssa.Function{}
	for _, fn := range p.Funcs {
		if fn.Parent() != nil || fn.Synthetic != "" {
			continue
		}
		if _, ok := recorded[funcID(fn)]; !ok {
			added[funcPkgPath(fn)] = append(added[funcPkgPath(fn)], fn)
		}
	}
	var missing []string
	for id := range recorded {
		if _, ok := p.funcByID[id]; !ok {
			missing = append(missing, id)
		}
	}
	sort.Strings(missing)
	taken := map[*ssa.Function]bool{}
	// round 0: same receiver type; round 1: a method whose receiver was dropped (method -> function
	// conversion keeps the parameter list only if the receiver was unused)
	for round := 0; round < 2; round++ {
		for _, id := range missing {
			if _, done := p.funcByID[id]; done {
				continue
			}
			want := recorded[id]
			if round == 1 && want.Recv == "" {
				continue
			}
			var best *ssa.Function
			bestScore, second := 0.0, 0.0
			for _, cand := range added[want.Pkg] {
				if taken[cand] {
					continue
				}
				fp := fingerprint(cand)
				if fp.Sig != want.Sig {
					continue
				}
				if round == 0 && fp.Recv != want.Recv {
					continue
				}
				if round == 1 && fp.Recv != "" {
					continue
				}
				s := jaccard(fp.Callees, want.Callees)
				if s > bestScore {
					second = bestScore
					bestScore, best = s, cand
				} else if s > second {
					second = s
				}
			}
			if best != nil && bestScore >= 0.6 && bestScore-second >= 0.15 {
				taken[best] = true
				p.funcByID[id] = best
				p.alias[best] = id
				p.Renames = append(p.Renames, fmt.Sprintf("%s is now %s (callee similarity %.2f)", id, funcID(best), bestScore))
			}
		}
	}
}

// stableName returns the recorded (pinned-tree) name of fn if it was matched by rename tracking,
// else its current name. Use it wherever a function name becomes part of an obligation key.
func stableName(fn *ssa.Function) string {
	if fn == nil {
		return ""
	}
	if currentProgram != nil {
		if id, ok := currentProgram.alias[fn]; ok {
			if i := strings.LastIndex(id, "."); i >= 0 {
				return id[i+1:]
			}
			return id
		}
	}
	return fn.Name()
}
