package main

import (
	"go/constant"
	"go/token"
	"go/types"
	"sort"
	"strconv"
	"strings"

	"golang.org/x/tools/go/ssa"
)

// Fact: on every path reaching a program point, the condition Cond evaluated to Pol when it was
// last tested (A1 guard facts). Cond is normalised: leading `!` are folded into Pol.
type Fact struct {
	Cond ssa.Value
	Pol  bool
	key  string
	// Imported: the fact was established in a caller of this (extracted, unexported) helper, at every
	// static call site; Cond is a value of the calling function. Only FactsAtX / FactsOnEdgeX
	// return such facts.
	Imported bool
}

type factSet map[string]Fact

func (fs factSet) list() []Fact {
	var out []Fact
	for _, f := range fs {
		out = append(out, f)
	}
	sort.Slice(out, func(i, j int) bool { return out[i].key < out[j].key })
	return out
}

type funcFacts struct {
	fn     *ssa.Function
	allocs map[*ssa.Alloc]*allocFacts
	in     map[*ssa.BasicBlock]factSet
	out    map[*ssa.BasicBlock]factSet
	done   bool
}

func (p *Program) facts(fn *ssa.Function) *funcFacts {
	ff, ok := p.df[fn]
	if !ok {
		ff = &funcFacts{fn: fn, allocs: map[*ssa.Alloc]*allocFacts{}}
		p.df[fn] = ff
	}
	return ff
}

func (p *Program) mkFact(cond ssa.Value, pol bool) Fact {
	for {
		if u, ok := cond.(*ssa.UnOp); ok && u.Op == token.NOT {
			cond = u.X
			pol = !pol
			continue
		}
		// `x == false`, `x != true`, `true == x`, ... are folded into the polarity of x
		if b, ok := cond.(*ssa.BinOp); ok && (b.Op == token.EQL || b.Op == token.NEQ) {
			x, c := b.X, b.Y
			cv, isC := constBool(c)
			if !isC {
				x, c = b.Y, b.X
				cv, isC = constBool(c)
			}
			if isC {
				if (b.Op == token.EQL) != cv {
					pol = !pol
				}
				cond = x
				continue
			}
		}
		break
	}
	k := p.key(cond)
	if pol {
		k = "T:" + k
	} else {
		k = "F:" + k
	}
	return Fact{Cond: cond, Pol: pol, key: k}
}

// edgeFacts returns the facts established by taking the CFG edge from -> to.
func (p *Program) edgeFacts(from, to *ssa.BasicBlock) []Fact {
	if len(from.Instrs) == 0 {
		return nil
	}
	iff, ok := from.Instrs[len(from.Instrs)-1].(*ssa.If)
	if !ok {
		return nil
	}
	if from.Succs[0] == from.Succs[1] {
		return nil
	}
	var out []Fact
	if from.Succs[0] == to {
		out = append(out, p.mkFact(iff.Cond, true))
	} else if from.Succs[1] == to {
		out = append(out, p.mkFact(iff.Cond, false))
	}
	return out
}

// computeFacts runs the forward must-dataflow: IN(b) = ∩_{p∈preds} (OUT(p) ∪ edge(p,b)).
func (p *Program) computeFacts(fn *ssa.Function) *funcFacts {
	ff := p.facts(fn)
	if ff.done {
		return ff
	}
	ff.in = map[*ssa.BasicBlock]factSet{}
	ff.out = map[*ssa.BasicBlock]factSet{}
	if len(fn.Blocks) == 0 {
		ff.done = true
		return ff
	}
	// initialise: entry = {}, others = TOP (nil means TOP)
	top := map[*ssa.BasicBlock]bool{}
	for _, b := range fn.Blocks {
		top[b] = true
	}
	entry := fn.Blocks[0]
	ff.in[entry] = p.importedFacts(fn)
	ff.out[entry] = ff.in[entry]
	top[entry] = false
	// fn.Recover block (if any) is reachable only via panics; leave TOP -> treat as {} below.
	changed := true
	for iter := 0; changed && iter < 1000; iter++ {
		changed = false
		for _, b := range fn.Blocks {
			if b == entry {
				continue
			}
			var in factSet
			first := true
			for _, pr := range b.Preds {
				if top[pr] {
					continue // TOP ∩ x = x
				}
				cand := factSet{}
				for k, f := range ff.out[pr] {
					cand[k] = f
				}
				for _, f := range p.edgeFacts(pr, b) {
					cand[f.key] = f
					for _, g := range p.phiImplied(ff, top, f, 0, cand) {
						cand[g.key] = g
					}
					for _, g := range p.phiNilImplied(ff, top, f, cand) {
						cand[g.key] = g
					}
				}
				if first {
					in = cand
					first = false
				} else {
					for k := range in {
						if _, ok := cand[k]; !ok {
							delete(in, k)
						}
					}
				}
			}
			if first {
				continue // still TOP (no processed predecessor yet)
			}
			if top[b] || !sameFactKeys(in, ff.in[b]) {
				top[b] = false
				ff.in[b] = in
				ff.out[b] = in // blocks do not kill facts (see DESIGN A1: loop headers intersect them away)
				changed = true
			}
		}
	}
	for _, b := range fn.Blocks {
		if top[b] {
			ff.in[b] = factSet{}
			ff.out[b] = factSet{}
		}
	}
	ff.done = true
	return ff
}

func sameFactKeys(a, b factSet) bool {
	if len(a) != len(b) {
		return false
	}
	for k := range a {
		if _, ok := b[k]; !ok {
			return false
		}
	}
	return true
}

// FactsAt returns the guard facts established within b's own function that hold on entry to b.
func (p *Program) FactsAt(b *ssa.BasicBlock) []Fact {
	return localFacts(p.FactsAtX(b))
}

// FactsAtX additionally returns the facts imported from the call sites of an extracted helper.
func (p *Program) FactsAtX(b *ssa.BasicBlock) []Fact {
	ff := p.computeFacts(b.Parent())
	return ff.in[b].list()
}

func localFacts(fs []Fact) []Fact {
	out := fs[:0:0]
	for _, f := range fs {
		if !f.Imported {
			out = append(out, f)
		}
	}
	return out
}

// FactsOnEdge returns the (local) facts that hold when control flows from -> to.
func (p *Program) FactsOnEdge(from, to *ssa.BasicBlock) []Fact {
	return localFacts(p.FactsOnEdgeX(from, to))
}

// FactsOnEdgeX includes facts imported from callers.
func (p *Program) FactsOnEdgeX(from, to *ssa.BasicBlock) []Fact {
	ff := p.computeFacts(from.Parent())
	fs := factSet{}
	for k, f := range ff.out[from] {
		fs[k] = f
	}
	for _, f := range p.edgeFacts(from, to) {
		fs[f.key] = f
		for _, g := range p.phiImplied(ff, map[*ssa.BasicBlock]bool{}, f, 0, fs) {
			fs[g.key] = g
		}
		for _, g := range p.phiNilImplied(ff, map[*ssa.BasicBlock]bool{}, f, fs) {
			fs[g.key] = g
		}
	}
	return fs.list()
}

// hasFact reports whether some fact at b satisfies m.
func (p *Program) hasFact(b *ssa.BasicBlock, m func(Fact) bool) bool {
	for _, f := range p.FactsAt(b) {
		if m(f) {
			return true
		}
	}
	return false
}

func factStrings(p *Program, fs []Fact) []string {
	var out []string
	for _, f := range fs {
		out = append(out, p.describeFact(f))
	}
	return out
}

func (p *Program) describeFact(f Fact) string {
	s := p.describe(f.Cond)
	if f.Pol {
		return s
	}
	return "!(" + s + ")"
}

// describe renders a value for human-readable reports (not used for matching).
func (p *Program) describe(v ssa.Value) string {
	return p.describeDepth(v, 0)
}

func (p *Program) describeDepth(v ssa.Value, d int) string {
	if v == nil {
		return "?"
	}
	if d > 6 {
		return v.Name()
	}
	v = stripConv(v)
	switch x := v.(type) {
	case *ssa.Const:
		return x.String()
	case *ssa.Parameter:
		return x.Name()
	case *ssa.Extract:
		return p.describeDepth(x.Tuple, d+1) + "#" + itoa(x.Index)
	case *ssa.Call:
		c := x.Common()
		var parts []string
		for _, a := range callArgs(c) {
			parts = append(parts, p.describeDepth(a, d+1))
		}
		recv := ""
		if r := callRecv(c); r != nil {
			recv = p.describeDepth(r, d+1) + "."
		}
		return recv + calleeName(c) + "(" + strings.Join(parts, ", ") + ")"
	case *ssa.BinOp:
		return p.describeDepth(x.X, d+1) + " " + x.Op.String() + " " + p.describeDepth(x.Y, d+1)
	case *ssa.UnOp:
		if x.Op == token.MUL {
			if src, ok := p.loadSource(x); ok {
				return p.describeDepth(src, d+1)
			}
			if a, ok := x.X.(*ssa.Alloc); ok && a.Comment != "" {
				return a.Comment
			}
			return p.describeDepth(x.X, d+1)
		}
		return x.Op.String() + p.describeDepth(x.X, d+1)
	case *ssa.FieldAddr:
		return p.describeDepth(x.X, d+1) + "." + fieldName(x.X.Type(), x.Field)
	case *ssa.Field:
		return p.describeDepth(x.X, d+1) + "." + fieldName(x.X.Type(), x.Field)
	case *ssa.Alloc:
		if x.Comment != "" {
			return x.Comment
		}
	case *ssa.Phi:
		var parts []string
		for _, e := range x.Edges {
			parts = append(parts, p.describeDepth(e, d+1))
		}
		if x.Comment != "" {
			return x.Comment + "=phi(" + strings.Join(parts, "|") + ")"
		}
		return "phi(" + strings.Join(parts, "|") + ")"
	case *ssa.Lookup:
		return p.describeDepth(x.X, d+1) + "[" + p.describeDepth(x.Index, d+1) + "]"
	case *ssa.Index:
		return p.describeDepth(x.X, d+1) + "[" + p.describeDepth(x.Index, d+1) + "]"
	case *ssa.IndexAddr:
		return p.describeDepth(x.X, d+1) + "[" + p.describeDepth(x.Index, d+1) + "]"
	case *ssa.Global:
		return x.Name()
	case *ssa.Function:
		return x.Name()
	}
	return v.Name()
}

func itoa(i int) string {
	return strconv.Itoa(i)
}

func itoaOld(i int) string {
	return strings.TrimSpace(strings.Join([]string{string(rune('0' + i%10))}, ""))
}

// ---------------------------------------------------------------------------------------------
// Error / bool guard helpers built on facts.

type tri int

const (
	unknownTri tri = iota
	yesTri
	noTri
)

// nilnessAt: is value x known nil / non-nil on entry to block b?
func (p *Program) nilnessFromFacts(fs []Fact, x ssa.Value) tri {
	for _, f := range fs {
		if y, trueMeansNonNil, ok := errNilTest(f.Cond); ok && p.sameValue(x, y) {
			if f.Pol == trueMeansNonNil {
				return noTri // non-nil
			}
			return yesTri // nil
		}
	}
	return unknownTri
}

// isNilAt reports whether x is known to be nil at block b.
func (p *Program) isNilAt(b *ssa.BasicBlock, x ssa.Value) bool {
	return p.nilnessFromFacts(p.FactsAt(b), x) == yesTri
}

// boolFromFacts: is boolean value v known true/false given facts?
func (p *Program) boolFromFacts(fs []Fact, v ssa.Value) tri {
	pol := true
	for {
		if u, ok := v.(*ssa.UnOp); ok && u.Op == token.NOT {
			v = u.X
			pol = !pol
			continue
		}
		break
	}
	for _, f := range fs {
		if p.sameValue(f.Cond, v) {
			if f.Pol == pol {
				return yesTri
			}
			return noTri
		}
	}
	return unknownTri
}

// ---------------------------------------------------------------------------------------------
// Instruction-level must-precede / must-follow (A2)

// instrIndex returns the index of in within its block.
func instrIndex(in ssa.Instruction) int {
	for i, x := range in.Block().Instrs {
		if x == in {
			return i
		}
	}
	return -1
}

// mustPrecede: on every path from function entry to `site`, an instruction satisfying match is
// executed before site.
func (p *Program) mustPrecede(site ssa.Instruction, match func(ssa.Instruction) bool) bool {
	fn := site.Parent()
	sb := site.Block()
	for _, in := range sb.Instrs {
		if in == site {
			break
		}
		if match(in) {
			return true
		}
	}
	// holdsOut[b]: every path from entry to the end of b has passed a match.
	holdsOut := map[*ssa.BasicBlock]bool{}
	contains := map[*ssa.BasicBlock]bool{}
	for _, b := range fn.Blocks {
		for _, in := range b.Instrs {
			if match(in) {
				contains[b] = true
				break
			}
		}
		holdsOut[b] = true // gfp
	}
	entry := fn.Blocks[0]
	holdsOut[entry] = contains[entry]
	changed := true
	for changed {
		changed = false
		for _, b := range fn.Blocks {
			if b == entry {
				continue
			}
			v := contains[b]
			if !v {
				v = len(b.Preds) > 0
				for _, pr := range b.Preds {
					if !holdsOut[pr] {
						v = false
					}
				}
			}
			if v != holdsOut[b] {
				holdsOut[b] = v
				changed = true
			}
		}
	}
	if sb == entry {
		return false
	}
	if len(sb.Preds) == 0 {
		return false
	}
	for _, pr := range sb.Preds {
		if !holdsOut[pr] {
			return false
		}
	}
	return true
}

// isPanicBlock: block ends in panic (not a normal exit).
func isPanicBlock(b *ssa.BasicBlock) bool {
	if len(b.Instrs) == 0 {
		return false
	}
	_, ok := b.Instrs[len(b.Instrs)-1].(*ssa.Panic)
	return ok
}

// mustFollow: on every path from `site` to a normal return of the function, an instruction
// satisfying match is executed after site. Paths ending in panic are ignored. If stop is non-nil,
// paths that reach an instruction satisfying stop are treated as satisfied (used for "or returns
// the error").
func (p *Program) mustFollow(site ssa.Instruction, match func(ssa.Instruction) bool, stop func(ssa.Instruction) bool) bool {
	fn := site.Parent()
	sb := site.Block()
	after := false
	for _, in := range sb.Instrs {
		if in == site {
			after = true
			continue
		}
		if !after {
			continue
		}
		if match(in) || (stop != nil && stop(in)) {
			return true
		}
		if _, ok := in.(*ssa.Return); ok {
			return false
		}
	}
	// holdsIn[b]: every path starting at the top of b passes a match before returning.
	holdsIn := map[*ssa.BasicBlock]bool{}
	kind := map[*ssa.BasicBlock]int{} // 1 = match/stop before any return, 2 = returns without match, 0 = passes through
	for _, b := range fn.Blocks {
		for _, in := range b.Instrs {
			if match(in) || (stop != nil && stop(in)) {
				kind[b] = 1
				break
			}
			if _, ok := in.(*ssa.Return); ok {
				kind[b] = 2
				break
			}
		}
		if kind[b] == 0 && isPanicBlock(b) {
			kind[b] = 1
		}
		holdsIn[b] = true
	}
	changed := true
	for changed {
		changed = false
		for i := len(fn.Blocks) - 1; i >= 0; i-- {
			b := fn.Blocks[i]
			var v bool
			switch kind[b] {
			case 1:
				v = true
			case 2:
				v = false
			default:
				v = true
				if len(b.Succs) == 0 {
					v = false
				}
				for _, s := range b.Succs {
					if !holdsIn[s] {
						v = false
					}
				}
			}
			if v != holdsIn[b] {
				holdsIn[b] = v
				changed = true
			}
		}
	}
	if len(sb.Succs) == 0 {
		return isPanicBlock(sb)
	}
	for _, s := range sb.Succs {
		if !holdsIn[s] {
			return false
		}
	}
	return true
}

// reachableAfter returns every instruction that may execute after `site` (same activation).
// If barrier is non-nil, exploration does not continue past instructions satisfying it.
func reachableAfter(site ssa.Instruction, barrier func(ssa.Instruction) bool) []ssa.Instruction {
	var out []ssa.Instruction
	sb := site.Block()
	seen := map[*ssa.BasicBlock]bool{}
	var work []*ssa.BasicBlock
	after := false
	blocked := false
	for _, in := range sb.Instrs {
		if in == site {
			after = true
			continue
		}
		if after {
			out = append(out, in)
			if barrier != nil && barrier(in) {
				blocked = true
				break
			}
		}
	}
	if !blocked {
		work = append(work, sb.Succs...)
	}
	for len(work) > 0 {
		b := work[len(work)-1]
		work = work[:len(work)-1]
		if seen[b] {
			continue
		}
		seen[b] = true
		stop := false
		for _, in := range b.Instrs {
			out = append(out, in)
			if barrier != nil && barrier(in) {
				stop = true
				break
			}
		}
		if !stop {
			work = append(work, b.Succs...)
		}
	}
	return out
}

// reachableFromEdge returns every instruction that may execute after taking edge from->to.
func reachableFromEdge(to *ssa.BasicBlock, barrier func(ssa.Instruction) bool) []ssa.Instruction {
	var out []ssa.Instruction
	seen := map[*ssa.BasicBlock]bool{}
	work := []*ssa.BasicBlock{to}
	for len(work) > 0 {
		b := work[len(work)-1]
		work = work[:len(work)-1]
		if seen[b] {
			continue
		}
		seen[b] = true
		stop := false
		for _, in := range b.Instrs {
			out = append(out, in)
			if barrier != nil && barrier(in) {
				stop = true
				break
			}
		}
		if !stop {
			work = append(work, b.Succs...)
		}
	}
	return out
}

// ---------------------------------------------------------------------------------------------
// Loops

// backEdges returns the CFG back edges (tail -> head, head dominates tail).
func backEdges(fn *ssa.Function) [][2]*ssa.BasicBlock {
	var out [][2]*ssa.BasicBlock
	for _, b := range fn.Blocks {
		for _, s := range b.Succs {
			if s.Dominates(b) {
				out = append(out, [2]*ssa.BasicBlock{b, s})
			}
		}
	}
	return out
}

// loopBody returns the natural loop of back edge tail->head.
func loopBody(tail, head *ssa.BasicBlock) map[*ssa.BasicBlock]bool {
	body := map[*ssa.BasicBlock]bool{head: true}
	work := []*ssa.BasicBlock{tail}
	for len(work) > 0 {
		b := work[len(work)-1]
		work = work[:len(work)-1]
		if body[b] {
			continue
		}
		body[b] = true
		work = append(work, b.Preds...)
	}
	return body
}

// loopsContaining returns the loops (as head + body) whose body contains block b, innermost first.
type Loop struct {
	Head  *ssa.BasicBlock
	Body  map[*ssa.BasicBlock]bool
	Tails []*ssa.BasicBlock
}

func loopsOf(fn *ssa.Function) []*Loop {
	byHead := map[*ssa.BasicBlock]*Loop{}
	var order []*ssa.BasicBlock
	for _, e := range backEdges(fn) {
		l, ok := byHead[e[1]]
		if !ok {
			l = &Loop{Head: e[1], Body: map[*ssa.BasicBlock]bool{}}
			byHead[e[1]] = l
			order = append(order, e[1])
		}
		l.Tails = append(l.Tails, e[0])
		for b := range loopBody(e[0], e[1]) {
			l.Body[b] = true
		}
	}
	var out []*Loop
	for _, h := range order {
		out = append(out, byHead[h])
	}
	return out
}

func innermostLoop(fn *ssa.Function, b *ssa.BasicBlock) *Loop {
	var best *Loop
	for _, l := range loopsOf(fn) {
		if l.Body[b] {
			if best == nil || len(l.Body) < len(best.Body) {
				best = l
			}
		}
	}
	return best
}

// ---------------------------------------------------------------------------------------------
// Return classification (A5)

type ReturnCase struct {
	Ret     *ssa.Return
	Results []ssa.Value // one resolved value per result (nil when several values may flow)
	Alts    [][]ssa.Value
	Facts   []Fact
	Pred    *ssa.BasicBlock // non-nil when the case was split on an incoming edge of the return block
}

// returnCases enumerates the returns of fn. When a result is a Phi located in the return's own
// block, the return is split per incoming edge, with the facts of that edge.
func (p *Program) returnCases(fn *ssa.Function) []ReturnCase {
	var out []ReturnCase
	for _, b := range fn.Blocks {
		if len(b.Instrs) == 0 {
			continue
		}
		ret, ok := b.Instrs[len(b.Instrs)-1].(*ssa.Return)
		if !ok {
			continue
		}
		split := false
		for _, r := range ret.Results {
			if ph, ok := stripConv(r).(*ssa.Phi); ok && ph.Block() == b {
				split = true
			}
		}
		if !split {
			rc := ReturnCase{Ret: ret, Facts: p.FactsAt(b)}
			for _, r := range ret.Results {
				rc.Results = append(rc.Results, refineByFacts(p.resolveResult(r, ret), rc.Facts))
			}
			out = append(out, rc)
			continue
		}
		for pi, pr := range b.Preds {
			rc := ReturnCase{Ret: ret, Facts: p.FactsOnEdge(pr, b), Pred: pr}
			for _, r := range ret.Results {
				if ph, ok := stripConv(r).(*ssa.Phi); ok && ph.Block() == b {
					rc.Results = append(rc.Results, refineByFacts(p.resolveResult(ph.Edges[pi], ret), rc.Facts))
				} else {
					rc.Results = append(rc.Results, refineByFacts(p.resolveResult(r, ret), rc.Facts))
				}
			}
			out = append(out, rc)
		}
	}
	return out
}

// resolveResult resolves loads of spilled named results to the single reaching stored value.
func (p *Program) resolveResult(v ssa.Value, at ssa.Instruction) ssa.Value {
	if u, ok := v.(*ssa.UnOp); ok && u.Op == token.MUL {
		if src, ok := p.loadSource(u); ok {
			return src
		}
	}
	return v
}

// refineByFacts narrows a returned phi by the nil tests known on the path: `if err != nil { return
// ..., err }` where err merges nil and one non-nil value returns that non-nil value (the shape a
// multi-return helper takes once its result travels through a variable).
func refineByFacts(v ssa.Value, facts []Fact) ssa.Value {
	for depth := 0; depth < 4; depth++ {
		ph, ok := stripConv(v).(*ssa.Phi)
		if !ok {
			return v
		}
		var only ssa.Value
		decided := false
		for _, f := range facts {
			x, trueMeansNonNil, ok := errNilTest(f.Cond)
			if !ok || stripConv(x) != ssa.Value(ph) {
				continue
			}
			nonNil := f.Pol == trueMeansNonNil
			var keep []ssa.Value
			for _, e := range ph.Edges {
				isNil := isNilConst(stripConv(e))
				if isNil != nonNil {
					dup := false
					for _, k := range keep {
						if k == e || (isNil && isNilConst(stripConv(k))) {
							dup = true
						}
					}
					if !dup {
						keep = append(keep, e)
					}
				}
			}
			if len(keep) == 1 {
				only, decided = keep[0], true
			}
			break
		}
		if !decided {
			return v
		}
		v = only
	}
	return v
}

// possibleValues expands phis and spilled loads into the set of values that may flow into v
// (bounded depth).
func (p *Program) possibleValues(v ssa.Value) []ssa.Value {
	var out []ssa.Value
	seen := map[ssa.Value]bool{}
	var walk func(v ssa.Value, d int)
	walk = func(v ssa.Value, d int) {
		if v == nil || seen[v] {
			return
		}
		seen[v] = true
		if d > 8 {
			out = append(out, v)
			return
		}
		switch x := v.(type) {
		case *ssa.Phi:
			for _, e := range x.Edges {
				walk(e, d+1)
			}
			return
		case *ssa.UnOp:
			if x.Op == token.MUL {
				if a, ok := x.X.(*ssa.Alloc); ok {
					sts, okk := p.storesReaching(a, x)
					zero := p.mayHoldZero(a, x)
					// allocs that are never stored to as a whole (composite literals built field by
					// field) stay unresolved: callers inspect them with compositeFields.
					if ai := p.allocInfo(a); !ai.unknown && len(ai.stores) > 0 && (okk || zero) {
						for _, s := range sts {
							walk(s.Val, d+1)
						}
						if zero {
							// the variable may still hold its zero value here
							out = append(out, zeroConst(x.Type()))
						}
						return
					}
				}
			}
		}
		out = append(out, v)
	}
	walk(v, 0)
	return out
}

// zeroConst returns the zero value of t as an SSA constant (nil for nil-able types).
func zeroConst(t types.Type) ssa.Value {
	switch u := t.Underlying().(type) {
	case *types.Basic:
		switch {
		case u.Info()&types.IsBoolean != 0:
			return ssa.NewConst(constant.MakeBool(false), t)
		case u.Info()&types.IsString != 0:
			return ssa.NewConst(constant.MakeString(""), t)
		case u.Info()&types.IsNumeric != 0:
			return ssa.NewConst(constant.MakeInt64(0), t)
		}
	}
	return ssa.NewConst(nil, t)
}

// phiImplied: facts implied by a fact whose condition is a boolean Phi (a guard that was
// materialised in a variable, e.g. `stale := a == nil; if !stale { stale = x != y }; if stale {…}`).
// If the phi evaluated to f.Pol, control entered the phi's block through an incoming edge whose
// value can equal f.Pol; the implied facts are those common to all such edges: the facts at the end
// of the predecessor, the facts of the edge itself and (for non-constant edge values) the fact that
// the edge value equals f.Pol.
func (p *Program) phiImplied(ff *funcFacts, top map[*ssa.BasicBlock]bool, f Fact, depth int, known factSet) []Fact {
	ph, ok := f.Cond.(*ssa.Phi)
	if !ok || depth > 3 {
		return nil
	}
	if b, isBasic := ph.Type().Underlying().(*types.Basic); !isBasic || b.Info()&types.IsBoolean == 0 {
		return nil
	}
	blk := ph.Block()
	var common factSet
	first := true
	for i, e := range ph.Edges {
		if i >= len(blk.Preds) {
			return nil
		}
		pr := blk.Preds[i]
		if cb, isConst := constBool(e); isConst && cb != f.Pol {
			continue // this edge cannot have produced the value
		}
		if phiEdgeExcluded(blk, i, known) {
			continue // what is known about a sibling phi rules this edge out
		}
		if top[pr] {
			continue // not yet computed: no constraint (optimistic, refined by the fixpoint)
		}
		cand := factSet{}
		for k, g := range ff.out[pr] {
			cand[k] = g
		}
		for _, g := range p.edgeFacts(pr, blk) {
			cand[g.key] = g
		}
		if _, isConst := constBool(e); !isConst {
			g := p.mkFact(e, f.Pol)
			// the edge is infeasible for this value if the opposite is already known on it
			opp := p.mkFact(e, !f.Pol)
			if _, contradiction := cand[opp.key]; contradiction {
				continue
			}
			cand[g.key] = g
			for _, h := range p.phiImplied(ff, top, g, depth+1, nil) {
				cand[h.key] = h
			}
		}
		if first {
			common = cand
			first = false
		} else {
			for k := range common {
				if _, ok := cand[k]; !ok {
					delete(common, k)
				}
			}
		}
	}
	if first {
		return nil
	}
	return common.list()
}

// importedFacts: an extracted helper (see inlinable) starts with the facts that hold at every one of
// its static call sites — what was known where the block used to be is still known inside it.
func (p *Program) importedFacts(fn *ssa.Function) factSet {
	out := factSet{}
	if !p.inlinable(fn) || p.importing[fn] {
		return out
	}
	if p.importing == nil {
		p.importing = map[*ssa.Function]bool{}
	}
	p.importing[fn] = true
	defer delete(p.importing, fn)
	first := true
	for _, c := range p.callersOf(fn) {
		if c.Fn == fn {
			continue
		}
		cand := factSet{}
		for _, f := range p.FactsAtX(c.Instr.Block()) {
			f.Imported = true
			cand[f.key] = f
		}
		if first {
			out = cand
			first = false
		} else {
			for k := range out {
				if _, ok := cand[k]; !ok {
					delete(out, k)
				}
			}
		}
	}
	return out
}

// definitelyNonNil: values that are never nil (freshly built errors / allocations).
func definitelyNonNil(v ssa.Value) bool {
	v = stripConv(v)
	switch x := v.(type) {
	case *ssa.Alloc:
		return true
	case *ssa.Call:
		switch calleeID(x.Common()) {
		case "fmt.Errorf", "errors.New":
			return true
		}
	}
	return false
}

// phiNilImplied: facts implied by a nil test of a Phi (typically the error result of an inlined
// helper: phi(Errorf(...), Errorf(...), nil)). If the phi is nil, control came through an edge
// whose value can be nil; if it is non-nil, through an edge whose value is not the nil constant.
// The implied facts are those common to the remaining edges.
func (p *Program) phiNilImplied(ff *funcFacts, top map[*ssa.BasicBlock]bool, f Fact, known factSet) []Fact {
	x, trueMeansNonNil, ok := errNilTest(f.Cond)
	if !ok {
		return nil
	}
	ph, isPhi := stripConv(x).(*ssa.Phi)
	if !isPhi {
		return nil
	}
	isNil := f.Pol != trueMeansNonNil
	blk := ph.Block()
	var common factSet
	first := true
	for i, e := range ph.Edges {
		if i >= len(blk.Preds) {
			return nil
		}
		if isNil && definitelyNonNil(e) {
			continue
		}
		if !isNil && isNilConst(stripConv(e)) {
			continue
		}
		if phiEdgeExcluded(blk, i, known) {
			continue
		}
		pr := blk.Preds[i]
		if top[pr] {
			continue
		}
		cand := factSet{}
		for k, g := range ff.out[pr] {
			cand[k] = g
		}
		for _, g := range p.edgeFacts(pr, blk) {
			cand[g.key] = g
		}
		// the edge is infeasible for this outcome if the opposite is already known of its value on
		// it (`if err != nil { goto end }` of an inlined helper: that edge carries err != nil, so it
		// is not the way a nil phi was produced)
		if _, isConst := stripConv(e).(*ssa.Const); !isConst {
			contradiction := false
			for _, g := range cand {
				if y, nonNilWhenTrue, isTest := errNilTest(g.Cond); isTest && !g.Imported && p.sameValue(y, e) {
					if (g.Pol == nonNilWhenTrue) == isNil {
						contradiction = true
						break
					}
				}
			}
			if contradiction {
				continue
			}
		}
		if first {
			common = cand
			first = false
		} else {
			for k := range common {
				if _, ok := cand[k]; !ok {
					delete(common, k)
				}
			}
		}
	}
	if first {
		return nil
	}
	return common.list()
}

// ---------------------------------------------------------------------------------------------
// Correlated branches
//
// edgeContradicts reports whether taking the CFG edge from->to is incompatible with the facts
// known at a later program point (e.g. the facts at a return that a backward path walk started
// from): the edge tests the very same SSA value with the opposite outcome, and that value cannot be
// recomputed between the edge and the later point (its defining block is not reachable from `to`).
// A path through such an edge cannot end at that point, so per-path rules may skip it:
// `if !done && x { A }; if !done { return }` — the edge done==true cannot lead to the return.
func (p *Program) edgeContradicts(from, to *ssa.BasicBlock, facts []Fact) bool {
	for _, ef := range p.edgeFacts(from, to) {
		for _, f := range facts {
			if f.Imported || f.Cond != ef.Cond || f.Pol == ef.Pol {
				continue
			}
			if in, ok := ef.Cond.(ssa.Instruction); ok && in.Block() != nil {
				if blockReachableFrom(to, in.Block()) {
					continue // may be recomputed (loop): no conclusion
				}
			}
			return true
		}
	}
	return false
}

// blockReachableFrom: target is reachable from start (start itself counts).
func blockReachableFrom(start, target *ssa.BasicBlock) bool {
	seen := map[*ssa.BasicBlock]bool{}
	work := []*ssa.BasicBlock{start}
	for len(work) > 0 {
		b := work[len(work)-1]
		work = work[:len(work)-1]
		if seen[b] {
			continue
		}
		seen[b] = true
		if b == target {
			return true
		}
		work = append(work, b.Succs...)
	}
	return false
}

// phiEdgeExcluded: control cannot have entered blk through its i-th predecessor given what is known
// (facts holding at the point of interest) about the phis of blk: a boolean phi known true/false
// whose i-th edge is the opposite constant, a phi known nil whose i-th edge is a fresh error, a phi
// known non-nil whose i-th edge is the nil constant. Used to judge several results of one merge
// point together (`found, err := helper(); if err != nil {…}; if !found {…}`).
func phiEdgeExcluded(blk *ssa.BasicBlock, i int, known factSet) bool {
	for _, g := range known {
		if g.Imported {
			continue
		}
		if ph, ok := g.Cond.(*ssa.Phi); ok && ph.Block() == blk && i < len(ph.Edges) {
			if cb, isConst := constBool(ph.Edges[i]); isConst && cb != g.Pol {
				return true
			}
			continue
		}
		if x, trueMeansNonNil, ok := errNilTest(g.Cond); ok {
			if ph, isPhi := stripConv(x).(*ssa.Phi); isPhi && ph.Block() == blk && i < len(ph.Edges) {
				isNil := g.Pol != trueMeansNonNil
				e := ph.Edges[i]
				if isNil && definitelyNonNil(e) {
					return true
				}
				if !isNil && isNilConst(stripConv(e)) {
					return true
				}
			}
		}
	}
	return false
}
