package main

import (
	"fmt"
	"go/token"
	"go/types"
	"sort"
	"strings"

	"golang.org/x/tools/go/ssa"
)

// C11 — No write before preflight passes, and never outside the owner's namespace.

func init() {
	register(&Property{
		ID: "C11",
		Explanation: "Decides the structural core of C11 on every path of the current source: (R1) every non-dry-run write of a dynamic object in internal/controllers is " +
			"reachable only through a call site dominated by err==nil ∧ len(violations)==0 of preflight.CheckAllInPhase (rollout) or of the wired checker's Check (teardown), " +
			"CheckAllInPhase checks the element at every index of phase.Objects of the very slice that is reconciled and returns without error only when the loop is exhausted; " +
			"(R2) the ObjectSet phases reconciler reaches its writers only after the phases checker returned no error and no violation, the wired phases checker contains ObjectDuplicate, " +
			"which visits every object of every phase; (R3) the checker handed to every PhaseReconciler / ObjectTemplate reconciler is built from the reviewed constructors " +
			"(APIExistence{List{NoOwnerReferences, DryRun, [NamespaceEscalation]}}) per wiring site, APIExistence delegates every pass to its sub-checker and List runs every element; " +
			"(R4) NamespaceEscalation.Check returns 'no violation, no error' only for a cluster-scoped owner, a delegated (class) phase, or after BOTH namespace ∈ {\"\", owner's} " +
			"and the RESTMapping scope of the object's own kind equal to namespace scope were established; (R5) in teardown the preflight of the desired object dominates the read, " +
			"the patch and the delete of that object; (R6) a *preflight.Error is mapped to Available=False/PreflightError with a requeue and a status update, and both controllers " +
			"let no sub-reconciler error leave Reconcile other than through that mapping. It does not decide what the API server's dry run accepts nor the contents of the RESTMapper.",
		NotDecided: []string{"what the server-side dry run accepts (API server, trusted)", "RESTMapper contents / discovery freshness",
			"calls of plain function values (CheckerFn) are not followed by the call closure",
			"a preflight moved into a closure of ReconcilePhase, or into a callee that is reached through an interface or a function value, is not followed (reported as a violation, never passed silently); a statically called helper is followed through its returns",
			"R1 accepts any successful checker.Check in the same function as the guard of a teardown/template write; identity of checked and written object is decided by R5 / C18.R2",
			"that the multi-cluster phase manager's target cluster confines objects (out of the property's scope: same-cluster only)"},
		Technique: "SSA guard-dominance dataflow + CHA call closure (who-may-write) + constructor-wiring resolution + path-cut reachability over guard edges (return classification)",
		Rules: []Rule{
			{ID: "C11.R1", Min: 8, Run: c11r1, Statement: "every non-dry-run write of a dynamic object in internal/controllers is reachable only through call sites dominated by a successful preflight (CheckAllInPhase: nil error and zero violations) of the same objects; CheckAllInPhase checks every object of the phase and returns without error only when all were checked"},
			{ID: "C11.R2", Min: 5, Run: c11r2, Statement: "the ObjectSet phases reconciler reaches a writer only after the phases checker returned nil error and zero violations for objectSet.GetPhases(); the wired phases checker contains ObjectDuplicate, which visits every object of every phase"},
			{ID: "C11.R3", Min: 7, Run: c11r3, Statement: "every preflight-checker wiring site is built from the reviewed constructors and contains the checks the property names for that controller flavour; APIExistence.Check passes only by delegating to its sub-checker; List.Check runs every element"},
			{ID: "C11.R4", Min: 2, Run: c11r4, Statement: "NamespaceEscalation.Check returns no violation and no error only for a cluster-scoped owner, a delegated phase, or when both obj.namespace ∈ {\"\", owner.namespace} and RESTMapping(obj kind).Scope == namespace were established on the path"},
			{ID: "C11.R5", Min: 3, Run: c11r5, Statement: "in phase teardown the read, the co-owner patch and the delete of an object are dominated by err==nil ∧ len(violations)==0 of the wired checker's Check(owner.ClientObject(), desired object) for that very object"},
			{ID: "C11.R6", Min: 3, Run: c11r6, Statement: "*preflight.Error (errors.As) is reported as Available=False/PreflightError with RequeueAfter and a status update; in the ObjectSet and ObjectSetPhase controllers an error of the sub-reconcilers leaves Reconcile only through that mapping"},
			{ID: "C11.R7", Min: 4, Run: c11r7, Statement: "ObjectTemplate: bounds checker wiring and write guards (= C18.R2 / C18.R3, evaluated by the same code)"},
		},
	})
}

// ---------------------------------------------------------------------------------------------
// R1

func c11IsCheckAllInPhase(cc *ssa.CallCommon) bool {
	f := staticCallee(cc)
	if f == nil || funcPkgPath(f) != pkgPreflight {
		return false
	}
	// selected by shape: (ctx, checker, owner client.Object, phase ObjectSetTemplatePhase, objs []unstructured.Unstructured)
	ps := f.Signature.Params()
	if ps.Len() != 5 || !pfResultsOK(f.Signature) {
		return false
	}
	return pfCheckerIface(ps.At(1).Type(), pfObjCheckSig) && namedTypeString(ps.At(3).Type()) == pkgCoreV1+".ObjectSetTemplatePhase"
}

func c11IsPreflightCall(cc *ssa.CallCommon) bool {
	return c11IsCheckAllInPhase(cc) || pfObjCheckSig(cc.Signature())
}

// c11PreflightGuard: at `site`, a preflight of the same activation is known to have succeeded —
// a checker call of the function itself, or of a callee whose outcome the function tested
// (pfPassedViaCallee). A site whose guard facts are contradictory never executes.
func (p *Program) c11PreflightGuard(site ssa.Instruction) (bool, string) {
	fn := site.Parent()
	fs := p.FactsAt(site.Block())
	if pfContradictory(fs) {
		return true, fmt.Sprintf("%s in %s never executes (its guards contradict each other)", p.IPos(site), shortFuncID(fn))
	}
	precedes := func(call *ssa.Call) bool {
		return p.mustPrecede(site, func(in ssa.Instruction) bool { return in == ssa.Instruction(call) })
	}
	if ok, why := p.pfPassedIn(fn, fs, pfAssume{}, precedes, c11IsPreflightCall, nil, 0); ok {
		return true, fmt.Sprintf("%s guarded by %s", p.IPos(site), why)
	}
	return false, ""
}

// c11ResolveClass: class of the written object, following a parameter to the call sites.
func (p *Program) c11ResolveClass(ws WriterSite, depth int) string {
	if ws.Class != "unknown" {
		return ws.Class
	}
	var resolve func(fn *ssa.Function, v ssa.Value, d int) string
	resolve = func(fn *ssa.Function, v ssa.Value, d int) string {
		cl := classifyObjectArg(v)
		if cl != "unknown" || d <= 0 {
			return cl
		}
		prm, ok := stripConv(v).(*ssa.Parameter)
		if !ok {
			return "unknown"
		}
		idx := -1
		for i, q := range fn.Params {
			if q == prm {
				idx = i
			}
		}
		callers := p.callersOf(fn)
		if idx < 0 || len(callers) == 0 || p.addressTaken(fn) {
			return "unknown"
		}
		res := ""
		for _, c := range callers {
			if isNonProductPkg(funcPkgPath(c.Fn)) || idx >= len(c.Common.Args) {
				continue
			}
			cl := resolve(c.Fn, c.Common.Args[idx], d-1)
			if res == "" {
				res = cl
			} else if res != cl {
				return "unknown"
			}
		}
		if res == "" {
			return "unknown"
		}
		return res
	}
	return resolve(ws.Call.Fn, ws.Obj, depth)
}

func c11r1(c *Ctx) {
	p := c.P
	// (a) who-may-write closure over internal/controllers
	for _, ws := range allWriterSites(p.FuncsIn(pkgControllers)) {
		if ws.Verb != "Create" && ws.Verb != "Update" && ws.Verb != "Patch" {
			continue
		}
		if !pfNonDryWriter(ws) || p.c11ResolveClass(ws, 3) == "typed" {
			continue
		}
		fn, site := ws.Call.Fn, ws.Call.Instr
		o := c.Ob(fn, "write-"+ws.Verb, site, "write of a dynamic object is reachable only through a call site dominated by a successful preflight")
		o.Require("err==nil ∧ len(violations)==0 of preflight.CheckAllInPhase / checker.Check at the site or at every (static or interface-resolved) caller")
		if fn.Parent() == nil && len(p.pfCallersCHA(fn)) == 0 && !p.addressTaken(fn) {
			o.OK("function has no caller in the workspace (dead code cannot write)")
			continue
		}
		ok, notes := p.pfGuardedUp(site, p.c11PreflightGuard, 6, map[*ssa.Function]bool{})
		if ok {
			o.OK(uniqStrings(notes)...)
		} else {
			o.Fail("write of %s reachable without a dominating successful preflight: %s", p.describe(ws.Obj), strings.Join(notes, " ← "))
		}
	}

	// (b) arguments of every CheckAllInPhase call and identity of checked and reconciled objects
	capFn := (*ssa.Function)(nil)
	for _, fn := range p.productFuncs() {
		for _, cc := range callsIn(fn) {
			call, isCall := cc.Instr.(*ssa.Call)
			if !isCall || !c11IsCheckAllInPhase(cc.Common) {
				continue
			}
			capFn = staticCallee(cc.Common)
			o := c.Ob(fn, "CheckAllInPhase-args", call, "the preflight covers the wired checker, the owner, the phase and the very slice of desired objects that is reconciled afterwards")
			args := cc.Common.Args
			var problems []string
			recv := (*ssa.Parameter)(nil)
			if len(fn.Params) > 0 && fn.Signature.Recv() != nil {
				recv = fn.Params[0]
			}
			if recv == nil || !p.pfDerives(args[1], func(v ssa.Value) bool {
				fa, ok := v.(*ssa.FieldAddr)
				return ok && fa.X == ssa.Value(recv)
			}) {
				problems = append(problems, "checker argument "+p.describe(args[1])+" is not a field of the receiver (the wired checker)")
			}
			if !isOwnerClientObject(args[2]) {
				problems = append(problems, "owner argument "+p.describe(args[2])+" is not <owner parameter>.ClientObject()")
			}
			phasePrm := pfParam(fn, func(t types.Type) bool { return namedTypeString(t) == pkgCoreV1+".ObjectSetTemplatePhase" })
			if phasePrm == nil || !p.pfDerives(args[3], pfIsValue(phasePrm)) {
				problems = append(problems, "phase argument "+p.describe(args[3])+" is not the phase parameter")
			}
			// the checked slice is the slice whose elements flow into the write-reaching calls guarded by this check
			guarded, probs := p.c11JudgeGuardedCalls(c11Scope{
				fn: fn, skip: call, objs: args[4], phasePrm: phasePrm,
				passed: func(fs []Fact) bool { return p.pfSuccess(fs, call) },
			})
			problems = append(problems, probs...)
			if guarded == 0 && len(problems) == 0 {
				// the preflight lives in a helper: the calls it guards are those of the helper's callers
				guarded, probs = p.c11JudgeThroughCallers(fn, call, recv, phasePrm)
				problems = append(problems, probs...)
			}
			if guarded == 0 {
				problems = append(problems, "no write-reaching call is guarded by this preflight")
			}
			if len(problems) == 0 {
				o.OK(fmt.Sprintf("%d write-reaching call(s) take elements of the checked slice", guarded))
			} else {
				o.Fail("%s", strings.Join(problems, "; "))
			}
		}
	}
	if capFn == nil {
		c.AnchorLost("a call of preflight.CheckAllInPhase(ctx, checker, owner, phase, objs)")
		return
	}
	// positive control for the identity-setter matcher: the ObjectTemplate renderer re-addresses its object parameter
	found := false
	for _, fn := range p.FuncsIn(pkgObjTemplate) {
		if c11SetsIdentity(fn) {
			found = true
		}
	}
	if !found {
		c.AnchorLost("positive control: no SetNamespace on an object parameter found in the ObjectTemplate controller (the identity-setter matcher is blind)")
	}

	// (c) CheckAllInPhase checks every object
	c.Visit(capFn)
	o := c.Ob(capFn, "checks-every-object", nil, "CheckAllInPhase calls checker.Check(ctx, owner, objs[i]) for every index of phase.Objects, appends all violations and returns without error only when the loop is exhausted")
	phasePrm := pfParam(capFn, func(t types.Type) bool { return namedTypeString(t) == pkgCoreV1+".ObjectSetTemplatePhase" })
	chkPrm := pfParam(capFn, func(t types.Type) bool { return pfCheckerIface(t, pfObjCheckSig) })
	objsPrm := pfParam(capFn, func(t types.Type) bool {
		sl, ok := t.Underlying().(*types.Slice)
		return ok && namedTypeString(sl.Elem()) == pkgUnstr+".Unstructured"
	})
	ownerPrm := pfParam(capFn, isClientObjectType)
	if phasePrm == nil || chkPrm == nil || objsPrm == nil || ownerPrm == nil {
		o.Unknown("parameters (checker, owner, phase, objs) not recognised")
		return
	}
	probs, unk, notes := p.pfLoopChecksAll(capFn, pfLoopSpec{
		IsCheck: func(call *ssa.Call) bool {
			return pfObjCheckSig(call.Common().Signature()) && p.pfDerives(call.Common().Value, pfIsValue(chkPrm))
		},
		Collection: func(v ssa.Value) bool {
			fa, ok := v.(*ssa.FieldAddr)
			return ok && fieldName(fa.X.Type(), fa.Field) == "Objects" && p.pfDerives(fa.X, pfIsValue(phasePrm))
		},
		CollName: "phase.Objects",
		Element: func(call *ssa.Call) ssa.Value {
			a := callArgs(call.Common())
			if len(a) != 3 {
				return nil
			}
			if !p.pfDerives(a[2], pfIsValue(objsPrm)) {
				return nil
			}
			return a[2]
		},
	})
	for _, cc := range pfCheckCalls(capFn, pfObjCheckSig) {
		if a := callArgs(cc.Common()); len(a) == 3 && stripConv(a[1]) != ssa.Value(ownerPrm) {
			probs = append(probs, "the owner passed to checker.Check is "+p.describe(a[1])+", not the owner parameter")
		}
	}
	switch {
	case len(probs) > 0:
		o.Fail("%s", strings.Join(probs, "; "))
	case len(unk) > 0:
		o.Unknown("%s", strings.Join(unk, "; "))
	default:
		o.OK(notes...)
	}
}

// c11Scope: a function in which a successful preflight (passed) guards write-reaching calls; objs is
// the checked slice and phasePrm the checked phase as values of that function.
type c11Scope struct {
	fn       *ssa.Function
	skip     ssa.Instruction // the preflight call (or the call of the helper performing it)
	objs     ssa.Value
	phasePrm *ssa.Parameter
	passed   func(fs []Fact) bool
}

// c11JudgeGuardedCalls: every write-reaching call behind the successful preflight takes an element
// of the checked slice and its phase object from the checked phase; nothing behind it re-addresses a
// dynamic object.
func (p *Program) c11JudgeGuardedCalls(sc c11Scope) (guarded int, problems []string) {
	fn := sc.fn
	for _, k := range callsIn(fn) {
		if k.Instr == sc.skip || p.pfCallWrites(k) == nil {
			continue
		}
		if !sc.passed(p.FactsAt(k.Instr.Block())) {
			continue
		}
		guarded++
		same := false
		for _, a := range k.Common.Args {
			if p.pfDerives(a, func(v ssa.Value) bool {
				ia, ok := v.(*ssa.IndexAddr)
				return ok && p.sameValue(ia.X, sc.objs)
			}) {
				same = true
			}
		}
		if !same {
			problems = append(problems, "the objects passed to "+calleeName(k.Common)+" at "+p.IPos(k.Instr)+" are not elements of the checked slice "+p.describe(sc.objs))
		}
		if sc.phasePrm != nil {
			usesPhase := false
			for _, a := range k.Common.Args {
				if p.pfDerives(a, pfIsValue(sc.phasePrm)) {
					usesPhase = true
				}
			}
			if !usesPhase {
				problems = append(problems, "the call "+calleeName(k.Common)+" at "+p.IPos(k.Instr)+" does not take its phase object from the checked phase")
			}
		}
	}
	// identity setters must not run on the checked objects after the check (same package closure)
	for _, k := range callsIn(fn) {
		if k.Instr == sc.skip || !sc.passed(p.FactsAt(k.Instr.Block())) {
			continue
		}
		for _, callee := range p.pfCallees(k.Common) {
			if funcPkgPath(callee) != funcPkgPath(fn) {
				continue
			}
			if p.c11ClosureSetsIdentity(callee) {
				problems = append(problems, "after the check, "+shortFuncID(callee)+" (called at "+p.IPos(k.Instr)+") may change namespace/name/kind of a dynamic object")
			}
		}
	}
	return guarded, problems
}

// c11JudgeThroughCallers: the preflight `call` is made in helper fn, which guards nothing itself.
// Every caller has to hand the helper its own receiver, owner parameter and phase parameter (so that
// what was said about the helper's arguments holds for the caller's), and the calls the caller makes
// after the helper reported success are judged against the slice it passed for the checked one.
func (p *Program) c11JudgeThroughCallers(fn *ssa.Function, call *ssa.Call, recv, phasePrm *ssa.Parameter) (guarded int, problems []string) {
	args := call.Common().Args
	paramIndex := func(f *ssa.Function, v ssa.Value) int {
		for i, q := range f.Params {
			if ssa.Value(q) == stripConv(v) {
				return i
			}
		}
		return -1
	}
	objsIdx := paramIndex(fn, args[4])
	ownerIdx := -1
	if oc, _ := asCall(args[2]); oc != nil {
		ownerIdx = paramIndex(fn, callRecv(oc.Common()))
	}
	phaseIdx, recvIdx := -1, -1
	if phasePrm != nil {
		phaseIdx = paramIndex(fn, phasePrm)
	}
	if recv != nil {
		recvIdx = paramIndex(fn, recv)
	}
	if objsIdx < 0 || ownerIdx < 0 || phaseIdx < 0 || recvIdx < 0 {
		return 0, nil // not a helper over (receiver, owner, phase, objects): reported as unguarded
	}
	if fn.Parent() != nil || p.addressTaken(fn) {
		return 0, []string{shortFuncID(fn) + " performs the preflight but is used as a function value; its callers are unknown"}
	}
	callers := p.pfCallersCHA(fn)
	for _, c := range callers {
		k, isCall := c.Instr.(*ssa.Call)
		if !isCall || staticCallee(c.Common) == nil || len(c.Common.Args) != len(fn.Params) {
			problems = append(problems, shortFuncID(fn)+" performs the preflight and is reached at "+p.IPos(c.Instr)+" other than by a plain static call; its arguments cannot be related to the caller's")
			continue
		}
		cf := c.Fn
		if cf.Signature.Recv() == nil || len(cf.Params) == 0 || stripConv(c.Common.Args[recvIdx]) != ssa.Value(cf.Params[0]) {
			problems = append(problems, "the preflight helper "+shortFuncID(fn)+" is called at "+p.IPos(c.Instr)+" on "+p.describe(c.Common.Args[recvIdx])+", not on the caller's own receiver (the wired checker)")
		}
		if _, isPrm := stripConv(c.Common.Args[ownerIdx]).(*ssa.Parameter); !isPrm {
			problems = append(problems, "the owner handed to "+shortFuncID(fn)+" at "+p.IPos(c.Instr)+" is "+p.describe(c.Common.Args[ownerIdx])+", not the caller's owner parameter")
		}
		callerPhase := pfParam(cf, func(t types.Type) bool { return namedTypeString(t) == pkgCoreV1+".ObjectSetTemplatePhase" })
		if callerPhase == nil || !p.pfDerives(c.Common.Args[phaseIdx], pfIsValue(callerPhase)) {
			problems = append(problems, "the phase handed to "+shortFuncID(fn)+" at "+p.IPos(c.Instr)+" is "+p.describe(c.Common.Args[phaseIdx])+", not the caller's phase parameter")
		}
		g, probs := p.c11JudgeGuardedCalls(c11Scope{
			fn: cf, skip: k, objs: c.Common.Args[objsIdx], phasePrm: callerPhase,
			passed: func(fs []Fact) bool {
				ok, _ := p.pfPassedViaCallee(fs, k, c11IsPreflightCall, call, 0)
				return ok
			},
		})
		guarded += g
		problems = append(problems, probs...)
	}
	return guarded, problems
}

// c11SetsIdentity: fn calls SetNamespace/SetName/SetKind/... on an object it received as a parameter
// (fresh local objects, e.g. lookup keys built with &unstructured.Unstructured{}, do not count).
func c11SetsIdentity(fn *ssa.Function) bool {
	for _, c := range callsIn(fn) {
		if !pfIdentitySetters[calleeName(c.Common)] {
			continue
		}
		r := callRecv(c.Common)
		if r == nil {
			continue
		}
		if t := namedTypeString(r.Type()); t != pkgUnstr+".Unstructured" && t != pkgClient+".Object" {
			continue
		}
		if _, isPrm := stripConv(r).(*ssa.Parameter); isPrm {
			return true
		}
	}
	return false
}

func (p *Program) c11ClosureSetsIdentity(fn *ssa.Function) bool {
	pkg := funcPkgPath(fn)
	seen := map[*ssa.Function]bool{}
	work := []*ssa.Function{fn}
	for len(work) > 0 {
		f := work[len(work)-1]
		work = work[:len(work)-1]
		if seen[f] || funcPkgPath(f) != pkg {
			continue
		}
		seen[f] = true
		if c11SetsIdentity(f) {
			return true
		}
		work = append(work, f.AnonFuncs...)
		for _, c := range callsIn(f) {
			work = append(work, p.pfCallees(c.Common)...)
		}
	}
	return false
}

// ---------------------------------------------------------------------------------------------
// R2

// pfAnyWriter: a non-dry-run, non-status writer call of any object class.
func pfAnyWriter(c Call) bool {
	ws, ok := classifyWriter(c)
	if !ok || strings.HasPrefix(ws.Verb, "Status.") {
		return false
	}
	for _, o := range ws.Opts {
		if pfIsDryRunAll(o) {
			return false
		}
	}
	return true
}

func c11r2(c *Ctx) {
	p := c.P
	// (a) guard in every function that consults a phases checker
	n := 0
	for _, fn := range p.productFuncs() {
		if funcPkgPath(fn) == pkgPreflight {
			continue
		}
		for _, chk := range pfCheckCalls(fn, pfPhasesCheckSig) {
			n++
			o := c.Ob(fn, "phases-preflight", chk, "every call that may lead to a write is dominated by err==nil ∧ len(violations)==0 of the phases checker, which is given <objectSet parameter>.GetPhases()")
			var problems []string
			args := callArgs(chk.Common())
			var setPrm ssa.Value
			if gp, _ := asCall(args[1]); gp != nil && calleeName(gp.Common()) == "GetPhases" {
				if prm, ok := stripConv(callRecv(gp.Common())).(*ssa.Parameter); ok {
					setPrm = prm
				}
			}
			if setPrm == nil {
				problems = append(problems, "the checked phases "+p.describe(args[1])+" are not <parameter>.GetPhases()")
			}
			guarded := 0
			for _, k := range callsIn(fn) {
				if k.Instr == ssa.Instruction(chk) {
					continue
				}
				writes := pfAnyWriter(k)
				if !writes {
					for _, callee := range p.pfCallees(k.Common) {
						if p.pfFuncContains(callee, pfAnyWriter) {
							writes = true
						}
					}
				}
				if !writes {
					continue
				}
				guarded++
				if !p.pfSuccess(p.FactsAt(k.Instr.Block()), chk) {
					problems = append(problems, fmt.Sprintf("%s at %s may write but is not dominated by a successful phases preflight", calleeName(k.Common), p.IPos(k.Instr)))
					continue
				}
				if setPrm != nil {
					takes := false
					for _, a := range k.Common.Args {
						if stripConv(a) == setPrm {
							takes = true
						}
					}
					if !takes {
						problems = append(problems, fmt.Sprintf("%s at %s does not operate on the checked object set", calleeName(k.Common), p.IPos(k.Instr)))
					}
				}
			}
			if guarded == 0 {
				problems = append(problems, "no write-reaching call found behind the phases preflight (vacuous)")
			}
			if len(problems) == 0 {
				o.OK(fmt.Sprintf("%d write-reaching call(s) behind the guard", guarded))
			} else {
				o.Fail("%s", strings.Join(problems, "; "))
			}
		}
	}
	if n == 0 {
		c.AnchorLost("a call of a phases checker Check(ctx, []ObjectSetTemplatePhase)")
	}

	// (b) closure: every invoke of a phase-rollout implementation (a function that runs CheckAllInPhase)
	// in the ObjectSet controller is behind that guard
	rolloutMemo := map[*ssa.Function]bool{}
	rollout := func(f *ssa.Function) (is bool) {
		// the function itself, or a same-package function it calls statically (the preflight step
		// extracted into a helper), runs CheckAllInPhase
		if v, done := rolloutMemo[f]; done {
			return v
		}
		defer func() { rolloutMemo[f] = is }()
		seen := map[*ssa.Function]bool{}
		work := []*ssa.Function{f}
		for len(work) > 0 {
			g := work[len(work)-1]
			work = work[:len(work)-1]
			if seen[g] || funcPkgPath(g) != funcPkgPath(f) {
				continue
			}
			seen[g] = true
			for _, cc := range callsIn(g) {
				if c11IsCheckAllInPhase(cc.Common) {
					return true
				}
				if h := staticCallee(cc.Common); h != nil && len(h.Blocks) > 0 {
					work = append(work, h)
				}
			}
		}
		return false
	}
	for _, fn := range p.FuncsIn(pkgObjectSets) {
		for _, k := range callsIn(fn) {
			isRollout := false
			for _, callee := range p.pfCallees(k.Common) {
				if rollout(callee) {
					isRollout = true
				}
			}
			if !isRollout {
				continue
			}
			o := c.Ob(fn, "call-"+calleeName(k.Common), k.Instr, "the phase rollout is reachable only through call sites dominated by a successful phases preflight")
			ok, notes := p.pfGuardedUp(k.Instr, func(site ssa.Instruction) (bool, string) {
				for _, chk := range pfCheckCalls(site.Parent(), pfPhasesCheckSig) {
					if p.pfSuccess(p.FactsAt(site.Block()), chk) {
						return true, "guarded at " + p.IPos(site)
					}
				}
				return false, ""
			}, 5, map[*ssa.Function]bool{})
			if ok {
				o.OK(uniqStrings(notes)...)
			} else {
				o.Fail("reachable without the duplicate check: %s", strings.Join(notes, " ← "))
			}
		}
	}

	// (c) wiring: the phases checker contains ObjectDuplicate
	var dupCtor *ssa.Function
	sinks := p.pfSinks(pfPhasesCheckSig)
	if len(sinks) == 0 {
		c.AnchorLost("a constructor storing a phases checker into a reconciler field")
	}
	for _, s := range sinks {
		for _, w := range p.pfWirings(s.Fn, s.Param, nil, 0) {
			o := c.Ob(w.Fn, "phases-checker-wiring", w.Call.Instr, "the phases checker wired into the ObjectSet controller contains preflight.NewObjectDuplicate()")
			if w.Lost != "" {
				o.Unknown("%s", w.Lost)
				continue
			}
			comp := p.pfComposition(w.Value, 0)
			names, unk := comp.flat()
			if len(unk) > 0 {
				o.Unknown("unresolved part of the checker: %s (resolved: %s)", strings.Join(unk, "; "), comp)
				continue
			}
			if d := comp.find("NewObjectDuplicate"); d != nil {
				dupCtor = staticCallee(d.Call.Common())
				o.OK(comp.String())
			} else {
				o.Fail("phases checker is %s: no ObjectDuplicate (found %v)", comp, names)
			}
		}
	}

	// (d) PhasesCheckerList.Check runs every element
	if lst := c.MustFunc(pkgPreflight, "(PhasesCheckerList).Check"); lst != nil {
		o := c.Ob(lst, "runs-every-element", nil, "the phases checker list calls every element, appends its violations and returns without error only after the last element")
		probs, unk, notes := p.pfLoopChecksAll(lst, pfLoopSpec{
			IsCheck:    func(call *ssa.Call) bool { return pfPhasesCheckSig(call.Common().Signature()) },
			Collection: pfIsValue(lst.Params[0]),
			CollName:   "the list itself",
			Element: func(call *ssa.Call) ssa.Value {
				if call.Common().IsInvoke() {
					return call.Common().Value
				}
				return nil
			},
		})
		for _, cc := range pfCheckCalls(lst, pfPhasesCheckSig) {
			if a := callArgs(cc.Common()); len(a) == 2 && stripConv(a[1]) != ssa.Value(lst.Params[2]) {
				probs = append(probs, "the element is not given the phases parameter")
			}
		}
		c11Conclude(o, probs, unk, notes)
	}

	// (e) ObjectDuplicate.Check visits every object of every phase
	if dupCtor == nil {
		return
	}
	dupT := namedTypeString(dupCtor.Signature.Results().At(0).Type())
	dup := c.MustFunc(pkgPreflight, "(*"+dupT[strings.LastIndex(dupT, ".")+1:]+").Check")
	if dup == nil {
		return
	}
	o := c.Ob(dup, "visits-every-object", nil, "the duplicate check looks every object of every phase up in one key set, reports a violation when the key is present and inserts it otherwise, and returns without error only after the last phase")
	probs, unk, notes := p.c11DuplicateCheck(dup)
	c11Conclude(o, probs, unk, notes)
}

func c11Conclude(o *Obligation, probs, unk, notes []string) {
	switch {
	case len(probs) > 0:
		o.Fail("%s", strings.Join(probs, "; "))
	case len(unk) > 0:
		o.Unknown("%s", strings.Join(unk, "; "))
	default:
		o.OK(notes...)
	}
}

type c11loop struct {
	L     *Loop
	idx   ssa.Value
	coll  ssa.Value
	exit  *ssa.BasicBlock
	shape string
	cl    *pfCountLoop
}

// exitEdge: from → to is taken when the loop condition is false (head → exit of a top-tested loop;
// latch → exit and guard → exit of a bottom-tested one).
func (l *c11loop) exitEdge(from, to *ssa.BasicBlock) bool { return l.cl.exitEdge(from, to) }

// c11LoopShape: L is `for index := 0; index < len(coll); index++` in the top-tested form (head → exit
// is the only loop-condition-false edge: callers outside this file rely on that).
func (p *Program) c11LoopShape(L *Loop) (*c11loop, string) {
	l, why := p.c11CountLoop(L)
	if l != nil && l.cl.Rot != nil {
		return nil, "bottom-tested loop (the condition is tested at the end of the iteration)"
	}
	return l, why
}

// c11CountLoop: L visits every index of coll from 0 upwards, top- or bottom-tested (pfCountingLoop);
// use exitEdge to tell "the loop ran to its end" from leaving it early.
func (p *Program) c11CountLoop(L *Loop) (*c11loop, string) {
	cl, why := p.pfCountingLoop(L)
	if cl == nil {
		return nil, why
	}
	lc, ok := cl.Bound.(*ssa.Call)
	if !ok {
		return nil, "loop bound is not len(): " + p.describe(cl.Bound)
	}
	if b, isB := lc.Call.Value.(*ssa.Builtin); !isB || b.Name() != "len" {
		return nil, "loop bound is not len(): " + p.describe(cl.Bound)
	}
	return &c11loop{L: L, idx: cl.Idx, coll: lc.Call.Args[0], exit: cl.Exit, cl: cl}, ""
}

func (p *Program) c11DuplicateCheck(fn *ssa.Function) (problems, unknown, notes []string) {
	phases := pfParam(fn, func(t types.Type) bool {
		sl, ok := t.Underlying().(*types.Slice)
		return ok && namedTypeString(sl.Elem()) == pkgCoreV1+".ObjectSetTemplatePhase"
	})
	if phases == nil {
		return nil, []string{"phases parameter not found"}, nil
	}
	// the lookup
	var look *ssa.Lookup
	for _, b := range fn.Blocks {
		for _, in := range b.Instrs {
			if l, ok := in.(*ssa.Lookup); ok && l.CommaOk {
				if _, isMap := l.X.Type().Underlying().(*types.Map); isMap {
					if look != nil {
						return nil, []string{"more than one map lookup"}, nil
					}
					look = l
				}
			}
		}
	}
	if look == nil {
		return []string{"no `_, ok := visited[key]` lookup found"}, nil, nil
	}
	mm, ok := look.X.(*ssa.MakeMap)
	if !ok {
		return nil, []string{"the key set is not a map created in this call: " + p.describe(look.X)}, nil
	}
	inner := innermostLoop(fn, look.Block())
	if inner == nil {
		return []string{"the lookup is not inside a loop"}, nil, nil
	}
	var outer *Loop
	for _, l := range loopsOf(fn) {
		if l != inner && l.Head != inner.Head && l.Body[inner.Head] {
			if outer == nil || len(l.Body) < len(outer.Body) {
				outer = l
			}
		}
	}
	if outer == nil {
		return []string{"the lookup is not inside two nested loops (phases × objects)"}, nil, nil
	}
	in, why := p.c11CountLoop(inner)
	if in == nil {
		return nil, []string{"inner loop: " + why}, nil
	}
	out, why := p.c11CountLoop(outer)
	if out == nil {
		return nil, []string{"outer loop: " + why}, nil
	}
	if outer.Body[mm.Block()] {
		problems = append(problems, "the key set is re-created inside the loop over the phases: duplicates across phases are not seen")
	}
	if stripConv(out.coll) != ssa.Value(phases) {
		problems = append(problems, "the outer loop is bounded by len("+p.describe(out.coll)+"), not by the phases parameter")
	}
	outerElem := func(v ssa.Value) bool {
		ia, ok := v.(*ssa.IndexAddr)
		return ok && ia.Index == out.idx && stripConv(ia.X) == ssa.Value(phases)
	}
	okColl := p.pfDerives(in.coll, func(v ssa.Value) bool {
		fa, ok := v.(*ssa.FieldAddr)
		return ok && fieldName(fa.X.Type(), fa.Field) == "Objects" && p.pfDerives(fa.X, outerElem)
	})
	if !okColl {
		problems = append(problems, "the inner loop is bounded by len("+p.describe(in.coll)+"), not by the Objects of the current phase")
	}
	innerElem := func(v ssa.Value) bool {
		switch x := v.(type) {
		case *ssa.IndexAddr:
			return x.Index == in.idx
		case *ssa.Index:
			return x.Index == in.idx
		}
		return false
	}
	if !p.pfDerives(look.Index, innerElem) {
		problems = append(problems, "the lookup key "+p.describe(look.Index)+" is not computed from the object at the inner loop index")
	}
	for _, t := range inner.Tails {
		if !look.Block().Dominates(t) {
			problems = append(problems, "some object is skipped (the lookup does not dominate the inner loop back edge)")
			break
		}
	}
	// no way out of the loops except through the headers
	for _, l := range []*c11loop{in, out} {
		for b := range l.L.Body {
			for _, s := range b.Succs {
				if !l.L.Body[s] && !l.exitEdge(b, s) {
					problems = append(problems, fmt.Sprintf("the loop is left early from b%d (break/return before all objects were visited)", b.Index))
				}
			}
		}
	}
	// ok-edge adds a violation, !ok-edge inserts the key
	okv := c11ExtractOf(look, 1)
	var tB, fB *ssa.BasicBlock
	for _, b := range fn.Blocks {
		if iff, isIf := b.Instrs[len(b.Instrs)-1].(*ssa.If); isIf && okv != nil {
			f := p.mkFact(iff.Cond, true)
			if stripConv(f.Cond) == okv {
				if f.Pol {
					tB, fB = b.Succs[0], b.Succs[1]
				} else {
					tB, fB = b.Succs[1], b.Succs[0]
				}
			}
		}
	}
	if tB == nil {
		return problems, []string{"the ok result of the lookup is not branched on directly"}, notes
	}
	var app ssa.Value
	for _, ins := range tB.Instrs {
		if v, isV := ins.(ssa.Value); isV && pfAddsViolation(v) {
			app = v
		}
	}
	if app == nil {
		problems = append(problems, "a key that was already visited does not add a violation")
	}
	ins := false
	for _, i2 := range fB.Instrs {
		if mu, isMU := i2.(*ssa.MapUpdate); isMU && mu.Map == look.X && mu.Key == look.Index {
			ins = true
		}
	}
	if !ins {
		problems = append(problems, "a key that was not yet visited is not inserted into the key set")
	}
	// error-free returns only after the outer loop is exhausted, returning the accumulated violations
	reach := pfReachable(fn, out.exitEdge, nil)
	for _, rc := range p.returnCases(fn) {
		if !p.pfErrMayBeNil(rc.Facts, rc.Results[len(rc.Results)-1]) {
			continue
		}
		if _, ok := reach[rc.Ret.Block()]; ok {
			problems = append(problems, "an error-free return at "+p.IPos(rc.Ret)+" is reachable before all phases were visited")
		}
		if app != nil {
			has := false
			for _, pv := range p.possibleValues(rc.Results[0]) {
				if pv == app {
					has = true
				}
			}
			// bottom-tested outer loop, return split on the edge guard → exit (no phase at all):
			// the accumulator still has its initial value
			if rot := out.cl.Rot; !has && rot != nil && rc.Pred != nil && rc.Pred != rot.Latch && out.exitEdge(rc.Pred, rc.Ret.Block()) {
				has = p.pfInitialOfCarried(out.L, rc.Pred, rc.Results[0], app)
			}
			if !has {
				problems = append(problems, "the error-free return at "+p.IPos(rc.Ret)+" does not return the collected violations")
			}
		}
	}
	notes = append(notes, "phases × objects, key "+p.describe(look.Index))
	return problems, nil, notes
}

func c11ExtractOf(v ssa.Value, idx int) ssa.Value {
	for _, r := range referrersOf(v) {
		if e, ok := r.(*ssa.Extract); ok && e.Index == idx {
			return e
		}
	}
	return nil
}

// ---------------------------------------------------------------------------------------------
// R3

type c11WiringReq struct {
	need   []string
	reason string
}

var c11Base = []string{"NewAPIExistence", "NewNoOwnerReferences", "NewDryRun"}

// Frozen from reading the constructors on the pinned tree. Key: function that builds the checker.
var c11WiringTable = map[string]c11WiringReq{
	"internal/controllers/objectsets.newGenericObjectSetController": {
		need:   append([]string{"NewNamespaceEscalation"}, c11Base...),
		reason: "serves namespaced ObjectSets (and ClusterObjectSets, for which the check is a no-op) on the local cluster"},
	"internal/controllers/objectsetphases.NewSameClusterObjectSetPhaseController": {
		need:   append([]string{"NewNamespaceEscalation"}, c11Base...),
		reason: "namespaced ObjectSetPhases reconciled on the same cluster"},
	"internal/controllers/objectsetphases.NewSameClusterClusterObjectSetPhaseController": {
		need:   c11Base,
		reason: "owner is the cluster-scoped ClusterObjectSetPhase: NamespaceEscalation returns early for owners without namespace, omission is legitimate"},
	"internal/controllers/objectsetphases.NewMultiClusterObjectSetPhaseController": {
		need:   c11Base,
		reason: "remote phase manager: objects are written to another (hosted) cluster through targetWriter; the property bounds same-cluster phases only"},
	"internal/controllers/objectsetphases.NewMultiClusterClusterObjectSetPhaseController": {
		need:   c11Base,
		reason: "remote phase manager with a cluster-scoped owner"},
	"internal/controllers/objecttemplate.newGenericObjectTemplateController": {
		need:   []string{"NewNamespaceEscalation"},
		reason: "ObjectTemplate sources and target must stay inside the template's namespace (C18.R3); no dry run / ownerReference clause in the property for templates"},
}

var c11KnownCtors = map[string]bool{"NewAPIExistence": true, "List": true, "NewNoOwnerReferences": true, "NewNamespaceEscalation": true,
	"NewDryRun": true, "NewEmptyNamespaceNoDefault": true}

// c11WiringObligations evaluates the wiring table: template=false for the PhaseReconciler wiring
// sites, template=true for the ObjectTemplate wiring site.
func c11WiringObligations(c *Ctx, template bool) {
	p := c.P
	sinks := p.pfSinks(pfObjCheckSig)
	if len(sinks) == 0 {
		c.AnchorLost("a constructor storing a preflight checker into a reconciler field")
		return
	}
	isTemplateKey := func(k string) bool { return strings.HasPrefix(k, strings.TrimPrefix(pkgObjTemplate, modPKO+"/")+".") }
	seen := map[string]bool{}
	for _, s := range sinks {
		spkg := funcPkgPath(s.Fn)
		if spkg != pkgControllers && spkg != pkgObjTemplate {
			if !template {
				c.Ob(s.Fn, "unreviewed-sink", nil, "every reconciler that stores a preflight checker is reviewed").Unknown("%s stores a preflight checker but is not one of the reviewed reconcilers (PhaseReconciler, templateReconciler)", shortFuncID(s.Fn))
			}
			continue
		}
		for _, w := range p.pfWirings(s.Fn, s.Param, nil, 0) {
			key := shortFuncID(w.Fn)
			if isTemplateKey(key) != template {
				continue
			}
			seen[key] = true
			o := c.Ob(w.Fn, "checker-wiring", w.Call.Instr, "the checker handed to "+shortFuncID(s.Fn)+" is built from the reviewed preflight constructors and contains the checks required for this controller flavour")
			if w.Lost != "" {
				o.Unknown("%s", w.Lost)
				continue
			}
			comp := p.pfComposition(w.Value, 0)
			names, unk := comp.flat()
			if len(unk) > 0 {
				o.Unknown("unresolved part of the checker: %s (resolved: %s)", strings.Join(unk, "; "), comp)
				continue
			}
			req, ok := c11WiringTable[key]
			if !ok {
				o.Unknown("wiring site %s is not in the reviewed table (checker: %s); decide which checks this controller flavour needs", key, comp)
				continue
			}
			o.Require(req.need...)
			o.Note("checker: "+comp.String(), "reason: "+req.reason)
			var missing, strange []string
			have := map[string]bool{}
			for _, n := range names {
				have[n] = true
				if !c11KnownCtors[n] {
					strange = append(strange, n)
				}
			}
			for _, n := range req.need {
				if !have[n] {
					missing = append(missing, n)
				}
			}
			// the dry run must talk to the same writer the phase reconciler writes with
			if d := comp.find("NewDryRun"); d != nil && spkg == pkgControllers {
				if wi := c11WriterParamIndex(s.Fn); wi >= 0 {
					switch p.c11SameWiredValue(w, s, wi, d.Call.Common().Args[0]) {
					case noTri:
						missing = append(missing, "NewDryRun on the writer that is handed to the phase reconciler (dry run targets "+p.describe(d.Call.Common().Args[0])+")")
					case unknownTri:
						strange = append(strange, "writer argument could not be followed to the phase reconciler")
					}
				}
			}
			switch {
			case len(missing) > 0:
				o.Fail("checker %s lacks %s", comp, strings.Join(missing, ", "))
			case len(strange) > 0:
				o.Unknown("checker %s: %s", comp, strings.Join(strange, ", "))
			default:
				o.OK()
			}
		}
	}
	var keys []string
	for k := range c11WiringTable {
		keys = append(keys, k)
	}
	sort.Strings(keys)
	for _, k := range keys {
		if isTemplateKey(k) == template && !seen[k] {
			c.AnchorLost("wiring site " + k)
		}
	}
}

// c11WriterParamIndex: index of the client.Writer parameter of the sink constructor.
func c11WriterParamIndex(fn *ssa.Function) int {
	for i, prm := range fn.Params {
		if namedTypeString(prm.Type()) == pkgClient+".Writer" {
			return i
		}
	}
	return -1
}

// c11SameWiredValue: the value v used inside the wiring function is the value that reaches
// parameter `idx` of the sink (directly, or through one pass-through constructor).
func (p *Program) c11SameWiredValue(w pfWiring, s pfSink, idx int, v ssa.Value) tri {
	b2t := func(b bool) tri {
		if b {
			return yesTri
		}
		return noTri
	}
	callee := staticCallee(w.Call.Common)
	if callee == nil {
		return unknownTri
	}
	if callee == s.Fn {
		if idx >= len(w.Call.Common.Args) {
			return unknownTri
		}
		return b2t(p.sameValue(w.Call.Common.Args[idx], v))
	}
	for _, cc := range callsIn(callee) {
		if staticCallee(cc.Common) != s.Fn || idx >= len(cc.Common.Args) {
			continue
		}
		prm, ok := stripConv(cc.Common.Args[idx]).(*ssa.Parameter)
		if !ok {
			return unknownTri
		}
		for i, q := range callee.Params {
			if q == prm && i < len(w.Call.Common.Args) {
				return b2t(p.sameValue(w.Call.Common.Args[i], v))
			}
		}
	}
	return unknownTri
}

func c11r3(c *Ctx) {
	p := c.P
	// (a) wiring table for the PhaseReconciler sinks (the ObjectTemplate site is reported under C11.R7 / C18.R3)
	c11WiringObligations(c, false)

	// (b) APIExistence.Check
	if fn := c.MustFunc(pkgPreflight, "(*APIExistence).Check"); fn != nil {
		o := c.Ob(fn, "passes-only-by-delegation", nil, "every return of APIExistence.Check is an error, a non-empty violation list, or the unmodified result of sub.Check(ctx, owner, obj)")
		var problems []string
		delegations := 0
		for _, rc := range p.returnCases(fn) {
			if len(rc.Results) != 2 {
				continue
			}
			v, e := rc.Results[0], rc.Results[1]
			if !p.pfErrMayBeNil(rc.Facts, e) {
				continue
			}
			if pfNonEmptySliceLit(v) || pfAddsViolation(v) {
				continue
			}
			// delegation: both results are the extracts of one checker call on a receiver field with the own parameters
			cv, i0 := asCall(v)
			ce, i1 := asCall(e)
			if cv != nil && cv == ce && i0 == 0 && i1 == 1 && pfObjCheckSig(cv.Common().Signature()) {
				a := callArgs(cv.Common())
				okArgs := len(a) == 3 && stripConv(a[0]) == ssa.Value(fn.Params[1]) && stripConv(a[1]) == ssa.Value(fn.Params[2]) && stripConv(a[2]) == ssa.Value(fn.Params[3])
				fromField := p.pfDerives(cv.Common().Value, func(x ssa.Value) bool {
					fa, ok := x.(*ssa.FieldAddr)
					return ok && fa.X == ssa.Value(fn.Params[0])
				})
				if okArgs && fromField {
					delegations++
					continue
				}
				problems = append(problems, "the delegated call at "+p.IPos(cv)+" does not pass (ctx, owner, obj) to the sub-checker field")
				continue
			}
			problems = append(problems, "return at "+p.IPos(rc.Ret)+" passes the object ("+p.describe(v)+", "+p.describe(e)+") without consulting the sub-checker")
		}
		if delegations == 0 {
			problems = append(problems, "no return delegates to the sub-checker")
		}
		if len(problems) == 0 {
			o.OK(fmt.Sprintf("%d delegating return(s)", delegations))
		} else {
			o.Fail("%s", strings.Join(problems, "; "))
		}
	}

	// (c) List.Check
	if lst := c.MustFunc(pkgPreflight, "(List).Check"); lst != nil {
		o := c.Ob(lst, "runs-every-element", nil, "List.Check calls every element with (ctx, owner, obj), appends its violations and returns without error only after the last element")
		probs, unk, notes := p.pfLoopChecksAll(lst, pfLoopSpec{
			IsCheck:    func(call *ssa.Call) bool { return pfObjCheckSig(call.Common().Signature()) },
			Collection: pfIsValue(lst.Params[0]),
			CollName:   "the list itself",
			Element: func(call *ssa.Call) ssa.Value {
				if call.Common().IsInvoke() {
					return call.Common().Value
				}
				return nil
			},
		})
		for _, cc := range pfCheckCalls(lst, pfObjCheckSig) {
			a := callArgs(cc.Common())
			if len(a) == 3 && (stripConv(a[1]) != ssa.Value(lst.Params[2]) || stripConv(a[2]) != ssa.Value(lst.Params[3])) {
				probs = append(probs, "an element is not given the (owner, obj) parameters")
			}
		}
		c11Conclude(o, probs, unk, notes)
	}
}

// ---------------------------------------------------------------------------------------------
// R4

type c11ns struct {
	p          *Program
	owner, obj *ssa.Parameter
}

func (x *c11ns) isNSOf(v ssa.Value, prm *ssa.Parameter) bool {
	c, _ := asCall(v)
	if c == nil || calleeName(c.Common()) != "GetNamespace" {
		return false
	}
	return stripConv(callRecv(c.Common())) == ssa.Value(prm)
}

// strEmpty: the fact says the string matched by isX is empty (true) / non-empty (false).
func strEmptyFact(f Fact, isX func(ssa.Value) bool) (empty, ok bool) {
	if y, nonEmptyWhenTrue, okk := lenCmp(f.Cond); okk && isX(y) {
		return f.Pol != nonEmptyWhenTrue, true
	}
	if b, isBin := f.Cond.(*ssa.BinOp); isBin && (b.Op == token.EQL || b.Op == token.NEQ) {
		var other ssa.Value
		if s, isC := constString(b.X); isC && s == "" {
			other = b.Y
		} else if s, isC := constString(b.Y); isC && s == "" {
			other = b.X
		}
		if other != nil && isX(other) {
			return (b.Op == token.EQL) == f.Pol, true
		}
	}
	return false, false
}

func (x *c11ns) nsEqual(f Fact) (equal, ok bool) {
	b, isBin := f.Cond.(*ssa.BinOp)
	if !isBin || (b.Op != token.EQL && b.Op != token.NEQ) {
		return false, false
	}
	if (x.isNSOf(b.X, x.obj) && x.isNSOf(b.Y, x.owner)) || (x.isNSOf(b.X, x.owner) && x.isNSOf(b.Y, x.obj)) {
		return (b.Op == token.EQL) == f.Pol, true
	}
	return false, false
}

// scopeFact: the fact compares <RESTMapping result>.Scope (or its Name()) with the namespace / root scope.
func (x *c11ns) scopeFact(f Fact) (namespaced, ok bool, mapping *ssa.Call) {
	b, isBin := f.Cond.(*ssa.BinOp)
	if !isBin || (b.Op != token.EQL && b.Op != token.NEQ) {
		return false, false, nil
	}
	scopeOf := func(v ssa.Value) *ssa.Call {
		v = stripConv(v)
		if c, isC := v.(*ssa.Call); isC && calleeName(c.Common()) == "Name" && callRecv(c.Common()) != nil {
			v = stripConv(callRecv(c.Common()))
		}
		u, isU := v.(*ssa.UnOp)
		if !isU || u.Op != token.MUL {
			return nil
		}
		fa, isFA := u.X.(*ssa.FieldAddr)
		if !isFA || fieldName(fa.X.Type(), fa.Field) != "Scope" || namedTypeString(fa.X.Type()) != pkgMeta+".RESTMapping" {
			return nil
		}
		c, idx := asCall(fa.X)
		if c == nil || idx != 0 || calleeName(c.Common()) != "RESTMapping" {
			return nil
		}
		return c
	}
	which := func(v ssa.Value) string { // "namespace" | "root" | ""
		v = stripConv(v)
		if s, isC := constString(v); isC {
			return s
		}
		if c, isC := v.(*ssa.Call); isC && calleeName(c.Common()) == "Name" && callRecv(c.Common()) != nil {
			v = stripConv(callRecv(c.Common()))
		}
		if u, isU := v.(*ssa.UnOp); isU && u.Op == token.MUL {
			if g, isG := u.X.(*ssa.Global); isG && g.Pkg != nil && g.Pkg.Pkg.Path() == pkgMeta {
				switch g.Name() {
				case "RESTScopeNamespace":
					return "namespace"
				case "RESTScopeRoot":
					return "root"
				}
			}
		}
		return ""
	}
	for _, pair := range [][2]ssa.Value{{b.X, b.Y}, {b.Y, b.X}} {
		if m := scopeOf(pair[0]); m != nil {
			eq := (b.Op == token.EQL) == f.Pol
			switch which(pair[1]) {
			case "namespace":
				return eq, true, m
			case "root":
				return !eq, true, m
			}
		}
	}
	return false, false, nil
}

func c11r4(c *Ctx) {
	p := c.P
	// resolve the checker type from the constructor used at the wiring sites
	nsCtor := (*ssa.Function)(nil)
	for _, s := range p.pfSinks(pfObjCheckSig) {
		for _, w := range p.pfWirings(s.Fn, s.Param, nil, 0) {
			if w.Lost != "" {
				continue
			}
			if nc := p.pfComposition(w.Value, 0).find("NewNamespaceEscalation"); nc != nil {
				nsCtor = staticCallee(nc.Call.Common())
			}
		}
	}
	if nsCtor == nil {
		c.AnchorLost("preflight.NewNamespaceEscalation at a wiring site")
		return
	}
	t := namedTypeString(nsCtor.Signature.Results().At(0).Type())
	fn := c.MustFunc(pkgPreflight, "(*"+t[strings.LastIndex(t, ".")+1:]+").Check")
	if fn == nil {
		return
	}
	c11NamespaceRule(c, fn)
}

func c11NamespaceRule(c *Ctx, fn *ssa.Function) {
	p := c.P
	if len(fn.Params) != 4 {
		c.Ob(fn, "namespace-rule", nil, c.rule.Statement).Unknown("unexpected parameter list")
		return
	}
	x := &c11ns{p: p, owner: fn.Params[2], obj: fn.Params[3]}
	oNS := c.Ob(fn, "namespace-rule", nil, "no path returns 'no violation, no error' for a namespaced owner and a non-delegated phase unless obj.GetNamespace() is empty or equals owner.GetNamespace()")
	oSC := c.Ob(fn, "scope-rule", nil, "no path returns 'no violation, no error' for a namespaced owner and a non-delegated phase unless RESTMapping(kind of obj).Scope == namespace was established")

	// violation-adding blocks (named result spilled because of the deferred position fixer) / values
	var resAlloc *ssa.Alloc
	for _, b := range fn.Blocks {
		if r, ok := b.Instrs[len(b.Instrs)-1].(*ssa.Return); ok && len(r.Results) == 2 && b != fn.Recover {
			if u, isU := r.Results[0].(*ssa.UnOp); isU && u.Op == token.MUL {
				if a, isA := u.X.(*ssa.Alloc); isA {
					resAlloc = a
				}
			}
		}
	}
	vBlock := map[*ssa.BasicBlock]bool{}
	var unknown []string
	if resAlloc != nil {
		for _, r := range referrersOf(resAlloc) {
			st, ok := r.(*ssa.Store)
			if !ok || st.Addr != ssa.Value(resAlloc) {
				continue
			}
			if pfAddsViolation(st.Val) {
				vBlock[st.Block()] = true
				continue
			}
			if u, isU := st.Val.(*ssa.UnOp); isU && u.Op == token.MUL && u.X == ssa.Value(resAlloc) {
				continue // `return violations, err` re-stores the named result
			}
			if isNilConst(st.Val) {
				unknown = append(unknown, "violations are reset at "+p.IPos(st))
				continue
			}
			unknown = append(unknown, "unrecognised store to the violations result at "+p.IPos(st))
		}
	}
	// objects must not be modified by the checker
	for _, cc := range callsIn(fn) {
		if r := callRecv(cc.Common); r != nil && (stripConv(r) == ssa.Value(x.obj) || stripConv(r) == ssa.Value(x.owner)) && strings.HasPrefix(calleeName(cc.Common), "Set") {
			unknown = append(unknown, "the checker modifies its argument at "+p.IPos(cc.Instr))
		}
	}

	// classify edges. An edge is taken in the context of the edge through which its source block was
	// entered (prev): when the branch condition is a boolean Phi of the source block (a guard that was
	// materialised in a variable, `bad := a && b; if bad {…}`), the fact established by the branch is
	// about the value that flowed into the Phi over prev — judged per incoming edge; a constant that
	// contradicts the branch makes the combination infeasible.
	type edge struct{ prev, from, to *ssa.BasicBlock }
	exempt, nsEdge, scEdge, infeasible := map[edge]bool{}, map[edge]bool{}, map[edge]bool{}, map[edge]bool{}
	var exemptNotes []string
	var mappings []*ssa.Call
	factsVia := func(prev, from, to *ssa.BasicBlock) (out []Fact, feasible bool) {
		for _, f := range p.edgeFacts(from, to) {
			ph, isPhi := f.Cond.(*ssa.Phi)
			if !isPhi || ph.Block() != from || prev == nil {
				out = append(out, f)
				continue
			}
			for i, pr := range from.Preds {
				if pr != prev || i >= len(ph.Edges) {
					continue
				}
				if bv, isConst := constBool(ph.Edges[i]); isConst {
					if bv != f.Pol {
						return nil, false
					}
					continue
				}
				out = append(out, p.mkFact(ph.Edges[i], f.Pol))
			}
		}
		return out, true
	}
	for _, b := range fn.Blocks {
		prevs := append([]*ssa.BasicBlock{}, b.Preds...)
		if len(prevs) == 0 {
			prevs = append(prevs, nil)
		}
		for _, s := range b.Succs {
			for _, prev := range prevs {
				e := edge{prev, b, s}
				fs, feasible := factsVia(prev, b, s)
				if !feasible {
					infeasible[e] = true
					continue
				}
				for _, f := range fs {
					if empty, ok := strEmptyFact(f, func(v ssa.Value) bool { return x.isNSOf(v, x.owner) }); ok && empty {
						exempt[e] = true
						exemptNotes = append(exemptNotes, "cluster-scoped owner: "+p.describeFact(f))
					}
					if empty, ok := strEmptyFact(f, func(v ssa.Value) bool {
						u, isU := stripConv(v).(*ssa.UnOp)
						if !isU || u.Op != token.MUL {
							return false
						}
						fa, isFA := u.X.(*ssa.FieldAddr)
						return isFA && fieldName(fa.X.Type(), fa.Field) == "Class" && namedTypeString(fa.X.Type()) == pkgCoreV1+".ObjectSetTemplatePhase"
					}); ok && !empty {
						exempt[e] = true
						exemptNotes = append(exemptNotes, "delegated phase: "+p.describeFact(f))
					}
					if empty, ok := strEmptyFact(f, func(v ssa.Value) bool { return x.isNSOf(v, x.obj) }); ok && empty {
						nsEdge[e] = true
					}
					if eq, ok := x.nsEqual(f); ok && eq {
						nsEdge[e] = true
					}
					if nsd, ok, m := x.scopeFact(f); ok && nsd {
						scEdge[e] = true
						mappings = append(mappings, m)
					}
				}
			}
		}
	}
	// reachPassing: blocks reachable from the entry over feasible, non-exempt edges outside `cut`, not
	// continuing through violation-adding blocks; explored over (entered-through, block) states.
	reachPassing := func(cut map[edge]bool) map[*ssa.BasicBlock]*ssa.BasicBlock {
		parent := map[*ssa.BasicBlock]*ssa.BasicBlock{}
		if len(fn.Blocks) == 0 {
			return parent
		}
		type state struct{ prev, b *ssa.BasicBlock }
		entry := fn.Blocks[0]
		parent[entry] = entry
		seen := map[state]bool{{nil, entry}: true}
		work := []state{{nil, entry}}
		for len(work) > 0 {
			st := work[0]
			work = work[1:]
			if vBlock[st.b] {
				continue
			}
			for _, s := range st.b.Succs {
				e := edge{st.prev, st.b, s}
				if infeasible[e] || exempt[e] || cut[e] {
					continue
				}
				nx := state{st.b, s}
				if seen[nx] {
					continue
				}
				seen[nx] = true
				if _, ok := parent[s]; !ok {
					parent[s] = st.b
				}
				work = append(work, nx)
			}
		}
		return parent
	}

	// target returns: may return (no violation, nil error)
	type target struct {
		rc ReturnCase
	}
	var targets []target
	for _, rc := range p.returnCases(fn) {
		if rc.Ret.Block() == fn.Recover || len(rc.Results) != 2 {
			continue
		}
		if !p.pfErrMayBeNil(rc.Facts, rc.Results[1]) {
			continue
		}
		// NB: the raw operand, not the resolved one: the engine's reaching-stores resolution does not model
		// the path on which the named result still holds its zero value (no store), which is exactly the
		// "no violation" path this rule is about. Paths are separated by cutting the violation-adding blocks.
		v := rc.Ret.Results[0]
		if u, isU := v.(*ssa.UnOp); isU && u.Op == token.MUL && resAlloc != nil && u.X == ssa.Value(resAlloc) {
			targets = append(targets, target{rc})
			continue
		}
		if pfAddsViolation(v) || pfNonEmptySliceLit(v) {
			continue
		}
		if isNilConst(stripConv(v)) {
			targets = append(targets, target{rc})
			continue
		}
		unknown = append(unknown, "unrecognised violations result "+p.describe(v)+" at "+p.IPos(rc.Ret))
	}
	if len(targets) == 0 {
		unknown = append(unknown, "no return that passes the object was found")
	}

	check := func(o *Obligation, cut map[edge]bool, what string, n int) {
		if len(unknown) > 0 {
			o.Unknown("%s", strings.Join(uniqStrings(unknown), "; "))
			return
		}
		if n == 0 {
			o.Fail("the function never establishes %s on any branch", what)
			return
		}
		reach := reachPassing(cut)
		var bad []string
		for _, t := range targets {
			b := t.rc.Ret.Block()
			if _, ok := reach[b]; ok && !vBlock[b] {
				bad = append(bad, fmt.Sprintf("return at %s via %s", p.IPos(t.rc.Ret), p.pfPath(reach, b)))
			}
		}
		if len(bad) > 0 {
			o.Fail("a namespaced owner's object passes without %s: %s", what, strings.Join(uniqStrings(bad), "; "))
			return
		}
		o.OK(uniqStrings(exemptNotes)...)
	}
	// the scope looked up must be the scope of the object's own kind
	for _, m := range mappings {
		okArg := false
		for _, a := range m.Common().Args {
			if p.pfDerives(a, pfIsValue(x.obj)) {
				okArg = true
			}
		}
		if !okArg {
			oSC.Fail("the RESTMapping at %s is not looked up for the kind of the checked object", p.IPos(m))
			check(oNS, nsEdge, "obj.namespace ∈ {\"\", owner.namespace}", len(nsEdge))
			return
		}
	}
	oNS.Require("exempt: len(owner.GetNamespace())==0 | len(phase.Class)>0 | error", "edge: len(obj.GetNamespace())==0 or obj.GetNamespace()==owner.GetNamespace()")
	oSC.Require("edge: mapping.Scope == meta.RESTScopeNamespace of RESTMapping(obj kind)")
	check(oNS, nsEdge, "obj.namespace ∈ {\"\", owner.namespace}", len(nsEdge))
	check(oSC, scEdge, "the namespace-scope test of the object's kind", len(scEdge))
}

// ---------------------------------------------------------------------------------------------
// R5

func c11r5(c *Ctx) {
	p := c.P
	seen := map[*ssa.Function]bool{}
	viaHelper := map[*ssa.Function][]DeleteCtx{}
	for _, dc := range p.dynDeleteContexts() {
		seen[dc.Fn] = true
		if dc.Helper != nil {
			viaHelper[dc.Fn] = append(viaHelper[dc.Fn], dc)
		}
	}
	var fns []*ssa.Function
	for fn := range seen {
		fns = append(fns, fn)
	}
	sort.Slice(fns, func(i, j int) bool { return funcID(fns[i]) < funcID(fns[j]) })
	for _, fn := range fns {
		checks := pfCheckCalls(fn, pfObjCheckSig)
		type site struct {
			name  string
			in    ssa.Instruction
			obj   ssa.Value // written / read object
			key   ssa.Value // for reads
			chain []Call    // helper calls leading to the site (inlined view), outermost first
		}
		var sites []site
		// inlined view: reads and writes that were extracted into unexported helpers of the teardown
		// function are sites of the teardown function, judged with the facts imported from the call sites
		for _, xc := range p.callsInX(fn) {
			cc := xc.Call
			if ws, ok := classifyWriter(cc); ok && pfNonDryWriter(ws) {
				if len(xc.Chain) > 0 && ws.Verb == "Delete" && len(viaHelper[fn]) > 0 {
					continue // represented by its helper call below
				}
				sites = append(sites, site{ws.Verb, cc.Instr, ws.Obj, nil, xc.Chain})
			} else if isReaderGet(cc.Common) {
				a := callArgs(cc.Common)
				sites = append(sites, site{"Get", cc.Instr, a[2], a[1], xc.Chain})
			}
		}
		for _, dc := range viaHelper[fn] {
			// the delete was extracted into a helper: its call site is the delete site
			sites = append(sites, site{"Delete", dc.Site, dc.Obj, nil, nil})
		}
		for _, s := range sites {
			o := c.Ob(fn, "teardown-"+s.name, s.in, c.rule.Statement)
			fs := p.FactsAtX(s.in.Block())
			var chk *ssa.Call
			for _, k := range checks {
				if p.pfSuccess(fs, k) {
					chk = k
				}
			}
			if chk == nil {
				o.Fail("%s of %s is not dominated by err==nil ∧ len(violations)==0 of a preflight Check (found %d Check call(s) in the function)", s.name, p.describe(s.obj), len(checks))
				continue
			}
			var problems []string
			a := callArgs(chk.Common())
			if !isOwnerClientObject(a[1]) {
				problems = append(problems, "the preflight owner "+p.describe(a[1])+" is not <owner parameter>.ClientObject()")
			}
			recv := fn.Params[0]
			if !p.pfDerives(chk.Common().Value, func(v ssa.Value) bool {
				fa, ok := v.(*ssa.FieldAddr)
				return ok && fa.X == ssa.Value(recv)
			}) {
				problems = append(problems, "the checker is not a field of the receiver (the wired checker)")
			}
			x := stripConv(a[2])
			keyOf := func(k ssa.Value) bool {
				kc, _ := asCall(k)
				return kc != nil && isCallTo(kc.Common(), pkgClient+".ObjectKeyFromObject") && p.sameValue(kc.Common().Args[0], x)
			}
			switch {
			case s.key != nil:
				if !keyOf(s.key) {
					problems = append(problems, "the object read ("+p.describe(s.key)+") is not addressed by the key of the checked object "+p.describe(x))
				}
			case p.sameValue(s.obj, x):
			default:
				// written object must be the out-parameter of an error-free read keyed by the checked object
				okRead := false
				for _, g := range p.callsInX(fn) {
					gc, isCall := g.Instr.(*ssa.Call)
					if !isCall || !isReaderGet(g.Common) {
						continue
					}
					ga := callArgs(g.Common)
					if p.sameValue(ga[2], s.obj) && keyOf(ga[1]) && p.errNilX(fs, gc, g.Chain) {
						okRead = true
					}
				}
				if !okRead {
					problems = append(problems, "the written object "+p.describe(s.obj)+" is neither the checked object nor read by the key of the checked object")
				}
			}
			for _, in := range between(chk, rootSite(s.in, s.chain)) {
				if bad, what := p.pfIdentityMutation(in, x, nil); bad {
					problems = append(problems, "the checked object is re-addressed after the check: "+what)
				}
			}
			// ... and inside the helpers on the way to the site
			at := s.in
			for i := len(s.chain) - 1; i >= 0; i-- {
				reach := canReach(at.Block())
				for _, b := range at.Parent().Blocks {
					if !reach[b] {
						continue
					}
					for _, in := range b.Instrs {
						if in == at || (b == at.Block() && instrIndex(in) >= instrIndex(at)) {
							continue
						}
						if bad, what := p.pfIdentityMutation(in, x, nil); bad {
							problems = append(problems, "the checked object is re-addressed after the check: "+what)
						}
					}
				}
				at = s.chain[i].Instr
			}
			if len(problems) == 0 {
				o.OK("preflight at " + p.IPos(chk))
			} else {
				o.Fail("%s", strings.Join(problems, "; "))
			}
		}
	}
}

// ---------------------------------------------------------------------------------------------
// R7 = C18.R2 / C18.R3 (ObjectTemplate), evaluated by the C18 code under this rule id

func c11r7(c *Ctx) {
	c18TemplateWiring(c)
	c18WriteGuards(c)
}

// ---------------------------------------------------------------------------------------------
// R6

// c11ErrNilOrNotRun: the facts establish `x == nil` for a value x that can only be nil or the
// error result of call k (so either k did not run or it returned no error).
func (p *Program) c11ErrNilOrNotRun(fs []Fact, k *ssa.Call) bool {
	e0 := pfExtract(k, 1)
	if e0 == nil {
		return false
	}
	for _, f := range fs {
		x, trueMeansNonNil, ok := errNilTest(f.Cond)
		if !ok || f.Pol == trueMeansNonNil {
			continue
		}
		if p.c11OnlyErrOf(x, k) {
			return true
		}
	}
	return false
}

// c11OnlyErrOf: x can only be nil or the error result of call k.
func (p *Program) c11OnlyErrOf(x ssa.Value, k *ssa.Call) bool {
	e0 := pfExtract(k, 1)
	if e0 == nil {
		return false
	}
	has, only := false, true
	for _, pv := range p.possibleValues(x) {
		switch {
		case stripConv(pv) == e0:
			has = true
		case isNilConst(pv):
		default:
			only = false
		}
	}
	return has && only
}

func pfIsReconcileRequest(t types.Type) bool {
	s := namedTypeString(t)
	return s == "sigs.k8s.io/controller-runtime/pkg/reconcile.Request" || strings.HasPrefix(s, "sigs.k8s.io/controller-runtime/pkg/reconcile.TypedRequest")
}

// pfControllerReconciles lists the reconcile.Reconciler implementations of a package.
func (p *Program) pfControllerReconciles(pkg string) []*ssa.Function {
	var out []*ssa.Function
	for _, fn := range p.FuncsIn(pkg) {
		if fn.Name() != "Reconcile" || fn.Signature.Recv() == nil || fn.Parent() != nil {
			continue
		}
		ps := fn.Signature.Params()
		if ps.Len() == 2 && pfIsReconcileRequest(ps.At(1).Type()) {
			out = append(out, fn)
		}
	}
	return out
}

func (p *Program) pfConstString(pkg, name string) (string, bool) {
	pk := p.ByPath[pkg]
	if pk == nil || pk.Types == nil {
		return "", false
	}
	c, ok := pk.Types.Scope().Lookup(name).(*types.Const)
	if !ok {
		return "", false
	}
	s := c.Val().ExactString()
	if len(s) >= 2 && s[0] == '"' {
		s = s[1 : len(s)-1]
	}
	return s, true
}

func c11r6(c *Ctx) {
	p := c.P
	var mapper *ssa.Function
	avail, okc := p.pfConstString(pkgCoreV1, "ObjectSetAvailable")
	if !okc {
		c.AnchorLost("constant corev1alpha1.ObjectSetAvailable")
		return
	}
	for _, fn := range p.productFuncs() {
		for _, cs := range conditionSets(fn) {
			if cs.Reason != "PreflightError" {
				continue
			}
			mapper = fn
			o := c.Ob(fn, "PreflightError-condition", cs.Call.Instr, "a *preflight.Error (errors.As) sets Available=False/PreflightError, requests a requeue and persists the status")
			var problems []string
			if cs.Type != avail || cs.Status != "False" {
				problems = append(problems, fmt.Sprintf("condition is %s=%s, want %s=False", cs.Type, cs.Status, avail))
			}
			fs := p.FactsAt(cs.Call.Block())
			if _, ok := p.findFactCall(fs, true, []string{"errors.As"}, func(cc *ssa.CallCommon) bool {
				if len(cc.Args) != 2 {
					return false
				}
				if _, isPrm := stripConv(cc.Args[0]).(*ssa.Parameter); !isPrm {
					return false
				}
				a, isA := stripConv(cc.Args[1]).(*ssa.Alloc)
				if !isA {
					return false
				}
				pt, isP := a.Type().Underlying().(*types.Pointer)
				return isP && namedTypeString(pt.Elem()) == pkgPreflight+".Error"
			}); !ok {
				problems = append(problems, "not guarded by errors.As(<error parameter>, **preflight.Error) == true")
			}
			nret := 0
			for _, in := range reachableAfter(cs.Call.Instr, nil) {
				r, isRet := in.(*ssa.Return)
				if !isRet || len(r.Results) != 2 {
					continue
				}
				nret++
				ec, _ := asCall(r.Results[1])
				if ec == nil {
					problems = append(problems, "the return at "+p.IPos(r)+" does not return the result of the status update callback")
				} else if _, isPrm := ec.Common().Value.(*ssa.Parameter); !isPrm || !p.mustPrecede(ec, func(i ssa.Instruction) bool { return i == cs.Call.Instr }) {
					problems = append(problems, "the status update at "+p.IPos(ec)+" is not the callback parameter invoked after the condition was set")
				}
				requeue := false
				if u, isU := r.Results[0].(*ssa.UnOp); isU && u.Op == token.MUL {
					if a, isA := u.X.(*ssa.Alloc); isA {
						for _, ref := range referrersOf(a) {
							fa, isFA := ref.(*ssa.FieldAddr)
							if !isFA || fieldName(a.Type(), fa.Field) != "RequeueAfter" {
								continue
							}
							for _, rr := range referrersOf(fa) {
								st, isSt := rr.(*ssa.Store)
								if !isSt || st.Addr != ssa.Value(fa) {
									continue
								}
								if n, isC := constInt(st.Val); isC && n == 0 {
									continue
								}
								if st.Block() == cs.Call.Block() || st.Block().Dominates(r.Block()) && cs.Call.Block().Dominates(st.Block()) {
									requeue = true
								}
							}
						}
					}
				}
				if !requeue {
					problems = append(problems, "the result returned at "+p.IPos(r)+" carries no RequeueAfter set on the preflight-error path")
				}
			}
			if nret == 0 {
				problems = append(problems, "no return after the condition is set")
			}
			if len(problems) == 0 {
				o.OK()
			} else {
				o.Fail("%s", strings.Join(problems, "; "))
			}
		}
	}
	if mapper == nil {
		c.AnchorLost("a SetStatusCondition with Reason \"PreflightError\"")
		return
	}
	errIdx := -1
	for i, prm := range mapper.Params {
		if pfIsErrorType(prm.Type()) {
			errIdx = i
		}
	}
	for _, pkg := range []string{pkgObjectSets, pkgObjSetPhases} {
		fns := p.pfControllerReconciles(pkg)
		if len(fns) == 0 {
			c.AnchorLost("reconcile.Reconciler implementation in " + pkg)
			continue
		}
		for _, fn := range fns {
			var ks []*ssa.Call
			for _, cc := range callsIn(fn) {
				call, isCall := cc.Instr.(*ssa.Call)
				if !isCall || !cc.Common.IsInvoke() || cc.Common.Method.Name() != "Reconcile" {
					continue
				}
				res := cc.Common.Signature().Results()
				if res.Len() == 2 && pfIsErrorType(res.At(1).Type()) {
					ks = append(ks, call)
				}
			}
			if len(ks) == 0 {
				c.AnchorLost("sub-reconciler invocation in " + shortFuncID(fn))
				continue
			}
			for _, k := range ks {
				o := c.Ob(fn, "errors-through-mapping", k, "an error of the sub-reconcilers leaves the controller only through the PreflightError/CollisionDetected mapping (which sets the condition and persists the status)")
				var problems []string
				nret := 0
				for _, in := range reachableAfter(k, nil) {
					if _, isRet := in.(*ssa.Return); isRet {
						nret++
					}
				}
				// only returns that can be reached while the error may still be non-nil matter:
				// paths that pass a successful nil test of the error are not followed
				for _, r := range p.returnsReachedWithErr(k, func(x ssa.Value) bool { return p.c11OnlyErrOf(x, k) }) {
					fs := p.FactsAt(r.Block())
					if p.c11ErrNilOrNotRun(fs, k) {
						continue
					}
					ev := p.resolveResult(r.Results[len(r.Results)-1], r)
					mc, idx := asCall(ev)
					if mc != nil && idx == 1 && staticCallee(mc.Common()) == mapper && errIdx >= 0 {
						has := false
						for _, pv := range p.possibleValues(mc.Common().Args[errIdx]) {
							if stripConv(pv) == pfExtract(k, 1) {
								has = true
							}
						}
						if has {
							continue
						}
					}
					problems = append(problems, "return at "+p.IPos(r)+" may be taken with a sub-reconciler error that was not routed through "+shortFuncID(mapper))
				}
				if nret == 0 {
					problems = append(problems, "no return reachable after the sub-reconciler call")
				}
				if len(problems) == 0 {
					o.OK("mapped by " + shortFuncID(mapper))
				} else {
					o.Fail("%s", strings.Join(problems, "; "))
				}
			}
		}
	}
}
