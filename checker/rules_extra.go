package main

// Cross-cutting rules added to several properties after the seeded-change experiments
// (see DESIGN.md §8): the stale-read lint (A13), the lost-update lint (A14) and the
// remote-phase-reference rule. They are appended here so that the per-property files stay as their
// authors wrote them.

func addRule(prop string, r Rule) {
	p := properties[prop]
	if p == nil {
		panic("addRule: unknown property " + prop)
	}
	p.Rules = append(p.Rules, r)
}

func init() {
	// "trust the phase's Available status only when it refers to the phase object's current
	// generation": the generation compared must be the one the object has *after* the last client
	// call that refreshed it (the pause patch bumps and reloads it).
	addRule("C03", Rule{ID: "C03.R6", Min: 1, Statement: staleStatement, Run: staleRule(pkgObjectSets, pkgObjSetPhases, pkgControllers)})
	addRule("C06", Rule{ID: "C06.R7", Min: 1, Statement: staleStatement, Run: staleRule(pkgObjectSets, pkgObjSetPhases)})
	addRule("C15", Rule{ID: "C15.R7", Min: 1, Statement: staleStatement, Run: staleRule(pkgObjectSets, pkgObjSetPhases)})
	addRule("C09", Rule{ID: "C09.R6", Min: 1, Statement: staleStatement, Run: staleRule(pkgObjectSets, pkgObjDeploy, pkgPackagesCtl)})
	// status.remotePhases must name the phase object that exists now (adoption through delegated
	// phases of previous revisions compares UIDs).
	addRule("C15", Rule{ID: "C15.R8", Min: 3, Statement: "status.remotePhases records name+UID of the current ObjectSetPhase: merging a reference overwrites a same-name entry on every path", Run: remoteRefRule})
	addRule("C01", Rule{ID: "C01.R7", Min: 3, Statement: "adoption from delegated phases of previous revisions relies on status.remotePhases carrying the current phase UID: merging a reference overwrites a same-name entry on every path", Run: remoteRefRule})
	// rendered template / hash written to the ObjectDeployment and Package must survive conflict retries
	addRule("C16", Rule{ID: "C16.R6", Min: 1, Statement: lostUpdateStatement, Run: lostUpdateRule(pkgPkgDeploy, pkgPackagesCtl)})
	addRule("C06", Rule{ID: "C06.R8", Min: 1, Statement: lostUpdateStatement, Run: lostUpdateRule(pkgObjectSets, pkgObjSetPhases)})
	addRule("C07", Rule{ID: "C07.R7", Min: 1, Statement: lostUpdateStatement, Run: lostUpdateRule(pkgObjDeploy)})
}
