package main

import (
	"fmt"
	"go/token"
	"go/types"

	"golang.org/x/tools/go/ssa"
)

// C03 — Phases roll out in order, each gated on the probes of the previous.

func init() {
	register(&Property{
		ID: "C03",
		Explanation: "Decides, on every path of the current source, the structural core of ordered, probe-gated rollout: the loop that reconciles the phases of an " +
			"ObjectSet visits objectSet.GetPhases() from the first element upwards and starts the next iteration only when the phase call of this iteration returned " +
			"a nil error and a zero ProbingResult; a failing phase's own result (hence its PhaseName) is what the function returns, errors are never swallowed and no " +
			"path leaves the loop early claiming success; ReconcilePhase records, for every object it reconciles, either the probe outcome of the *actual* object or a " +
			"failure, and returns the recorder's result computed after the loop (zero only when no failure was recorded, carrying phase.Name); the ProbeFailure " +
			"condition message is String() of this pass's result; a delegated phase counts as passed only when its Available condition exists, is for the phase " +
			"object's current generation and is True; the prober given to every ReconcilePhase call is the one parsed from the owner's availability probes in this pass.",
		NotDecided: []string{"behaviour over several passes while object status changes underneath", "which objects a probe selects at run time and what the probe evaluates to (see C17)",
			"that the API server state read in the pass is current (informer staleness)"},
		Technique: "SSA guard-fact dataflow on loop back edges + per-iteration region return classification + result provenance (value identity through spilled locals) + loop induction-variable direction",
		Rules: []Rule{
			{ID: "C03.R1", Min: 3, Run: c03r1, Statement: "the phase loop visits GetPhases() in ascending order, continues only after a nil error and a zero ProbingResult of this iteration's phase call, returns the failing call's own result, never swallows its error and never leaves the loop early claiming success"},
			{ID: "C03.R2", Min: 4, Run: c03r2, Statement: "ReconcilePhase records for every reconciled object the probe outcome of the actual object or a failure (or returns the error), and returns the recorder's result taken after the loop; the recorder's result is zero only without failures and carries phase.Name"},
			{ID: "C03.R3", Min: 2, Run: c03r3, Statement: "the Available=False/ProbeFailure condition is written only under a non-zero ProbingResult of this pass's reconcile call and its message is rendered from that same result (with the phase name for ObjectSets)"},
			{ID: "C03.R4", Min: 2, Run: c03r4, Statement: "a delegated phase reports a zero ProbingResult with nil error only when the phase object's Available condition exists, is observed for its current generation and is True; the class-less no-op return is unreachable from the phase loop"},
			{ID: "C03.R5", Min: 2, Run: c03r5, Statement: "the prober handed to every ReconcilePhase call is the error-free result of internalprobing.Parse(owner.GetAvailabilityProbes()) of this pass"},
		},
	})
}

// c03PhaseLoopCall describes a call inside a loop whose results include a ProbingResult and an error.
type c03PhaseLoopCall struct {
	Fn       *ssa.Function
	Call     *ssa.Call
	Loop     *Loop
	ProbeIdx int
	ErrIdx   int
}

func (p *Program) c03PhaseLoopCalls(pkgs ...string) []c03PhaseLoopCall {
	var out []c03PhaseLoopCall
	for _, fn := range p.pfFuncsInPkgs(pkgs...) {
		for _, call := range callsIn(fn) {
			cv, ok := call.Instr.(*ssa.Call)
			if !ok {
				continue
			}
			sig := call.Common.Signature()
			pi, ei := pfResultIndex(sig, pfTypProbingResult), pfResultIndex(sig, "error")
			if pi < 0 || ei < 0 {
				continue
			}
			loop := innermostLoop(fn, cv.Block())
			if loop == nil {
				continue
			}
			out = append(out, c03PhaseLoopCall{Fn: fn, Call: cv, Loop: loop, ProbeIdx: pi, ErrIdx: ei})
		}
	}
	return out
}

func c03r1(c *Ctx) {
	p := c.P
	for _, lc := range p.c03PhaseLoopCalls(pkgObjectSets, pkgObjSetPhases) {
		fn, cv := lc.Fn, lc.Call
		name := calleeName(cv.Common())
		region := pfIterRegion(cv, lc.Loop.Head)
		// alternative phase calls (`if delegated { … = remote(…) } else { … = local(…) }`) deliver
		// into shared variables: everything below is judged on the paths that executed this call
		av := p.pfAfter(cv)

		// (a) the next iteration starts only after err == nil and a zero probing result
		o := c.Ob(fn, "loop-continue:"+name, cv, "the next phase is reconciled only after this phase returned nil error and a zero ProbingResult")
		o.Require("on every back edge: err(call)==nil", "on every back edge: ProbingResult(call).IsZero()==true")
		tails := pfLoopTailsAfter(cv, lc.Loop)
		if len(tails) == 0 {
			o.Unknown("no back edge of the enclosing loop is reachable from the call")
		} else {
			var bad []string
			for _, t := range tails {
				fs := p.FactsOnEdge(t, lc.Loop.Head)
				if av.errOf(fs) != yesTri {
					bad = append(bad, fmt.Sprintf("back edge from block %d (%s): the call's error is not known to be nil", t.Index, p.blockPos(t)))
				}
				if av.isZero(fs, lc.ProbeIdx) != yesTri {
					bad = append(bad, fmt.Sprintf("back edge from block %d (%s): the call's ProbingResult is not known to be zero (a later phase is reconciled although this one failed its probes)", t.Index, p.blockPos(t)))
				}
			}
			if len(bad) == 0 {
				o.OK(fmt.Sprintf("%d back edge(s) guarded", len(tails)))
			} else {
				o.Fail("%s", pfJoin(bad))
			}
		}

		// (b) returns taken from inside the iteration
		o2 := c.Ob(fn, "loop-exit:"+name, cv, "a return from inside the phase loop hands back the failing phase's own ProbingResult or its error; nothing leaves the loop early claiming success")
		piFn, eiFn := pfResultIndex(fn.Signature, pfTypProbingResult), pfResultIndex(fn.Signature, "error")
		if piFn < 0 || eiFn < 0 {
			o2.Unknown("enclosing function does not return (ProbingResult, error); shape not recognised")
		} else {
			var bad []string
			n := 0
			for _, rc := range p.pfReturnCases(fn) {
				if !pfReturnInRegion(rc, region) {
					continue
				}
				n++
				at := p.IPos(rc.Ret)
				switch {
				case av.errOf(rc.Facts) == noTri:
					if p.pfPossiblyNilUnder(rc.Results[eiFn], rc.Facts) {
						bad = append(bad, "return at "+at+" may return a nil error although the phase call failed (error swallowed)")
					}
				case av.errOf(rc.Facts) == yesTri && av.isZero(rc.Facts, lc.ProbeIdx) == noTri:
					if !av.isResult(rc.Results[piFn], lc.ProbeIdx) {
						bad = append(bad, "return at "+at+" on the failing-probe path does not return the ProbingResult of the failing call (found "+p.describe(rc.Results[piFn])+")")
					}
				default:
					bad = append(bad, "return at "+at+" leaves the phase loop on a path where this phase is not known to have failed (later phases are skipped without being reported)")
				}
			}
			if len(bad) == 0 {
				o2.OK(fmt.Sprintf("%d in-loop return(s) classified", n))
			} else {
				o2.Fail("%s", pfJoin(bad))
			}
		}

		// (c) order
		o3 := c.Ob(fn, "loop-order:"+name, cv, "phases are visited in the order of objectSet.GetPhases(), first element first")
		pix := pfParamIndexOfType(cv.Common().Signature(), pfTypPhase)
		if pix < 0 {
			o3.Unknown("phase call has no ObjectSetTemplatePhase parameter")
			continue
		}
		arg := callArgs(cv.Common())[pix]
		w, ok := p.pfElementWalk(arg, lc.Loop)
		switch {
		case !ok:
			o3.Unknown("the phase argument %s is not recognised as the element of a slice indexed by the loop variable", p.describe(arg))
		case pfAccessorOnParam(w.Slice, "GetPhases") == nil:
			o3.Fail("the loop walks %s, not <owner>.GetPhases()", p.describe(w.Slice))
		case w.Dir != 1:
			o3.Fail("the loop walks GetPhases() from the last element downwards")
		default:
			o3.OK("ascending over " + p.describe(w.Slice))
		}
	}
}

func (p *Program) blockPos(b *ssa.BasicBlock) string {
	if len(b.Instrs) == 0 {
		return "-"
	}
	return p.IPos(b.Instrs[len(b.Instrs)-1])
}

// ---------------------------------------------------------------------------------------------
// R2

// c03RecordsFailureUnconditionally: every normal return of fn is preceded by an append-store into a
// field of its receiver (directly or through a static callee that does so unconditionally).
func (p *Program) c03RecordsFailure(fn *ssa.Function, depth int) bool {
	if fn == nil || fn.Blocks == nil || len(fn.Params) == 0 {
		return false
	}
	recv := fn.Params[0]
	match := func(in ssa.Instruction) bool {
		switch x := in.(type) {
		case *ssa.Store:
			fa, ok := x.Addr.(*ssa.FieldAddr)
			if !ok || fa.X != ssa.Value(recv) {
				return false
			}
			ac, _ := asCall(x.Val)
			if ac == nil {
				return false
			}
			if b, isB := ac.Common().Value.(*ssa.Builtin); isB && b.Name() == "append" {
				// appended to the previous content of the same field
				if root, ok := p.pfFieldLoad(ac.Common().Args[0], fieldName(fa.X.Type(), fa.Field)); ok && root == ssa.Value(recv) {
					return true
				}
			}
		case *ssa.Call:
			if depth > 0 {
				if callee := staticCallee(x.Common()); callee != nil && len(x.Common().Args) > 0 && x.Common().Args[0] == ssa.Value(recv) {
					return p.c03RecordsFailure(callee, depth-1)
				}
			}
		}
		return false
	}
	any := false
	for _, b := range fn.Blocks {
		if len(b.Instrs) == 0 {
			continue
		}
		ret, ok := b.Instrs[len(b.Instrs)-1].(*ssa.Return)
		if !ok {
			continue
		}
		any = true
		if !p.mustPrecede(ret, match) {
			return false
		}
	}
	return any
}

// c03ProbeMethod: fn invokes pkg/probing.Prober.Probe on its object parameter; returns the invoke.
func c03ProberInvoke(fn *ssa.Function) *ssa.Call {
	if fn == nil {
		return nil
	}
	for _, cc := range callsIn(fn) {
		if cc.Common.IsInvoke() && cc.Common.Method.Name() == "Probe" && namedTypeString(cc.Common.Value.Type()) == pkgProbing+".Prober" {
			if cv, ok := cc.Instr.(*ssa.Call); ok {
				return cv
			}
		}
	}
	return nil
}

func c03r2(c *Ctx) {
	p := c.P
	for _, fn := range p.productFuncs() {
		if fn.Name() != "ReconcilePhase" || fn.Signature.Recv() == nil {
			continue
		}
		piFn, eiFn := pfResultIndex(fn.Signature, pfTypProbingResult), pfResultIndex(fn.Signature, "error")
		if piFn < 0 || eiFn < 0 {
			continue
		}
		c.Visit(fn)
		// the loop call(s) that may write objects
		type site struct {
			cv   *ssa.Call
			loop *Loop
		}
		var sites []site
		for _, cc := range callsIn(fn) {
			cv, ok := cc.Instr.(*ssa.Call)
			if !ok {
				continue
			}
			callee := staticCallee(cc.Common)
			if callee == nil || callee.Blocks == nil || !pfReachesWriter(callee, 3) {
				continue
			}
			if l := innermostLoop(fn, cv.Block()); l != nil {
				sites = append(sites, site{cv, l})
			}
		}
		if len(sites) == 0 {
			c.Ob(fn, "object-loop", nil, c.rule.Statement).Unknown("no loop call that reaches an object write was found in ReconcilePhase; shape not recognised")
			continue
		}
		// the recorder: receiver of the call that yields the returned ProbingResult on nil-error returns
		// (the recorder is whatever object that call is made on: a local variable, a literal behind a
		// pointer, or the pointer a constructor returned — see c03RecHandle)
		var recorder ssa.Value
		var resultCall *ssa.Call
		oRes := c.Ob(fn, "result-from-recorder", nil, "every return that may carry a nil error returns the recorder's result computed after the object loop")
		var badRes, undecRes []string
		for _, rc := range p.pfReturnCases(fn) {
			if !p.pfPossiblyNilUnder(rc.Results[eiFn], rc.Facts) {
				continue
			}
			rcall, ri := asCall(rc.Results[piFn])
			var recv ssa.Value
			if rcall != nil && ri < 0 && staticCallee(rcall.Common()) != nil {
				if r := callRecv(rcall.Common()); r != nil {
					if recv = p.c03RecHandle(r, 0); recv == nil {
						undecRes = append(undecRes, "return at "+p.IPos(rc.Ret)+": the ProbingResult is "+p.describe(rc.Results[piFn])+", whose receiver is neither a local recorder variable nor the pointer returned by a constructor call; which object recorded the probes is not decided")
						continue
					}
				}
			}
			if recv == nil {
				badRes = append(badRes, "return at "+p.IPos(rc.Ret)+" may return a nil error with ProbingResult "+p.describe(rc.Results[piFn])+" which is not produced by a probe recorder")
				continue
			}
			if recorder != nil && recorder != recv {
				badRes = append(badRes, "returns use different recorders")
				continue
			}
			recorder, resultCall = recv, rcall
			for _, s := range sites {
				if s.loop.Body[rcall.Block()] || !s.loop.Head.Dominates(rcall.Block()) {
					badRes = append(badRes, "the recorder's result at "+p.IPos(rcall)+" is not taken after the object loop has finished")
				}
			}
		}
		switch {
		case len(badRes) > 0:
			oRes.Fail("%s", pfJoin(append(badRes, undecRes...)))
		case len(undecRes) > 0:
			oRes.Unknown("%s", pfJoin(undecRes))
		case recorder == nil:
			oRes.Unknown("no nil-error return found")
		default:
			oRes.OK("result = " + p.describe(resultCall) + " at " + p.IPos(resultCall))
		}
		if recorder == nil || len(undecRes) > 0 {
			continue
		}
		isRecorderCall := func(in ssa.Instruction) *ssa.Call {
			cv, ok := in.(*ssa.Call)
			if !ok || cv == resultCall {
				return nil
			}
			if r := callRecv(cv.Common()); r != nil && staticCallee(cv.Common()) != nil && p.c03RecHandle(r, 0) == recorder {
				return cv
			}
			return nil
		}
		for _, s := range sites {
			cv := s.cv
			o := c.Ob(fn, "object-probed:"+calleeName(cv.Common()), cv, "every iteration that reconciles an object probes the actual object, records a failure, or returns the error")
			o.Require("Probe(<actual object returned by the call>) under err==nil, or an unconditional failure record, on every path to the back edge", "in-loop returns carry a non-nil error")
			objIdx := 0
			errIdx := pfResultIndex(cv.Common().Signature(), "error")
			var bad []string
			match := func(in ssa.Instruction) bool {
				rc := isRecorderCall(in)
				if rc == nil {
					return false
				}
				callee := staticCallee(rc.Common())
				if inv := c03ProberInvoke(callee); inv != nil {
					args := callArgs(rc.Common())
					if len(args) != 1 || !p.pfIsResultOf(args[0], cv, objIdx) {
						bad = append(bad, "probe at "+p.IPos(rc)+" is applied to "+p.describe(args[0])+", not to the actual object returned by "+calleeName(cv.Common()))
						return false
					}
					if errIdx >= 0 && p.errOfCall(p.FactsAt(rc.Block()), cv) != yesTri {
						bad = append(bad, "probe at "+p.IPos(rc)+" is not on the err==nil path of the reconcile call")
						return false
					}
					return true
				}
				return p.c03RecordsFailure(callee, 2)
			}
			tails := pfLoopTailsAfter(cv, s.loop)
			if len(tails) == 0 {
				o.Unknown("no back edge reachable from the call")
				continue
			}
			for _, t := range tails {
				if ok, at := pfEveryPathPasses(cv, t, s.loop.Head, match); !ok {
					bad = append(bad, fmt.Sprintf("a path from the call to the back edge (block %d, %s) neither probes the actual object nor records a failure", at.Index, p.blockPos(at)))
				}
			}
			region := pfIterRegion(cv, s.loop.Head)
			for _, rc := range p.pfReturnCases(fn) {
				if pfReturnInRegion(rc, region) && p.pfPossiblyNilUnder(rc.Results[eiFn], rc.Facts) {
					bad = append(bad, "return at "+p.IPos(rc.Ret)+" leaves the object loop with a possibly nil error (remaining objects unprobed)")
				}
			}
			if len(bad) == 0 {
				o.OK(fmt.Sprintf("%d back edge(s)", len(tails)))
			} else {
				o.Fail("%s", pfJoin(bad))
			}
		}
		c03RecorderInternals(c, fn, recorder, resultCall)
	}
}

// c03RecHandle resolves the receiver of a method call to the SSA value that stands for the object
// the method works on, independent of how the function holds it: the local variable the object
// lives in (`rec := T{…}`, `var rec T`, `rec := newT(…)` returning a value — the Alloc whose address
// the pointer-receiver calls take; also `rec := &T{…}` / `new(T)`, an Alloc as well), or the call
// that built the object and returned a pointer to it (`rec := newT(…)` returning *T). A pointer kept
// in a local variable with one reaching assignment is looked through, and a value-receiver call
// (`(T).M(*rec)`) stands for the variable it copies. nil: anything else (a merge of several
// objects, a parameter, a field of something).
func (p *Program) c03RecHandle(recv ssa.Value, depth int) ssa.Value {
	recv = stripConv(recv)
	switch x := recv.(type) {
	case *ssa.Alloc:
		if c03PointeeStruct(x.Type()) != nil {
			return x
		}
	case *ssa.Call:
		if callee := staticCallee(x.Common()); callee != nil && callee.Blocks != nil && c03PointeeStruct(x.Type()) != nil {
			return x
		}
	case *ssa.UnOp:
		a, isAlloc := x.X.(*ssa.Alloc)
		if x.Op != token.MUL || !isAlloc || depth > 3 {
			return nil
		}
		if _, isStruct := x.Type().Underlying().(*types.Struct); isStruct {
			return a // value receiver: the call sees a copy of this variable
		}
		if src, ok := p.loadSource(x); ok {
			return p.c03RecHandle(src, depth+1)
		}
	}
	return nil
}

// c03PointeeStruct: t is a pointer to a struct type; returns the struct.
func c03PointeeStruct(t types.Type) *types.Struct {
	pt, ok := t.Underlying().(*types.Pointer)
	if !ok {
		return nil
	}
	st, _ := pt.Elem().Underlying().(*types.Struct)
	return st
}

func c03FieldIndex(t types.Type, name string) int {
	if pt, ok := t.Underlying().(*types.Pointer); ok {
		t = pt.Elem()
	}
	if st, ok := t.Underlying().(*types.Struct); ok {
		for i := 0; i < st.NumFields(); i++ {
			if st.Field(i).Name() == name {
				return i
			}
		}
	}
	return -1
}

// c03FieldAlt is one value a field of a returned struct value can have (Val nil: still zero) with
// what is known on the ways that definition is the one in effect.
type c03FieldAlt struct {
	Val   ssa.Value
	Facts []Fact
}

// c03FieldAlts: the values field `field` of the struct value v can hold — v is a literal, a local
// variable filled field by field (judged per reaching definition, fieldDefsAt), a zero constant or
// a merge of those.
func (p *Program) c03FieldAlts(v ssa.Value, field string, depth int) (alts []c03FieldAlt, ok bool) {
	v = stripConv(v)
	if depth > 4 {
		return nil, false
	}
	switch x := v.(type) {
	case *ssa.Const:
		if x.Value == nil {
			return []c03FieldAlt{{}}, true
		}
	case *ssa.UnOp:
		a, isAlloc := x.X.(*ssa.Alloc)
		if x.Op != token.MUL || !isAlloc {
			return nil, false
		}
		idx := c03FieldIndex(a.Type(), field)
		if idx < 0 {
			return nil, false
		}
		defs, ok := p.fieldDefsAt(a, idx, x, nil)
		if !ok {
			return nil, false
		}
		for _, d := range defs {
			switch {
			case d.Whole != nil:
				sub, ok := p.c03FieldAlts(d.Whole, field, depth+1)
				if !ok {
					return nil, false
				}
				for _, sa := range sub {
					alts = append(alts, c03FieldAlt{Val: sa.Val, Facts: append(append([]Fact{}, d.Facts...), sa.Facts...)})
				}
			default:
				alts = append(alts, c03FieldAlt{Val: d.Val, Facts: d.Facts})
			}
		}
		return alts, true
	case *ssa.Phi:
		for i, e := range x.Edges {
			if i >= len(x.Block().Preds) {
				return nil, false
			}
			sub, ok := p.c03FieldAlts(e, field, depth+1)
			if !ok {
				return nil, false
			}
			ef := p.FactsOnEdge(x.Block().Preds[i], x.Block())
			for _, sa := range sub {
				alts = append(alts, c03FieldAlt{Val: sa.Val, Facts: append(append([]Fact{}, ef...), sa.Facts...)})
			}
		}
		return alts, true
	}
	return nil, false
}

// c03NameCtx: the function a definition of the recorder's name is read in; inside a constructor the
// parameters stand for the arguments of the constructor call (judged in the context above).
type c03NameCtx struct {
	fn   *ssa.Function
	call *ssa.Call
	up   *c03NameCtx
}

// c03NameJudge collects, for the recorder object `h` (see c03RecHandle) as it is when `use` runs,
// every definition its name field can have: the variable assigned as a whole from a literal, from
// another variable or from a constructor call (value result: each return of the constructor is
// judged the same way), the name field stored on its own (literal built in place, field-by-field
// construction), or — the recorder being the pointer a constructor returned — the object each
// return of the constructor hands out, plus the stores made through that pointer afterwards. Every
// definition must satisfy good; always reports that one definition is executed on every way to use.
type c03NameJudge struct {
	p         *Program
	c         *Ctx
	nameField string
	good      func(v ssa.Value) bool // judged in the outermost function
	bad       []string
	n         int
}

// resolve follows a constructor parameter to the argument given at the constructor call (up to the
// outermost function); nil when the value is computed inside a constructor.
func (j *c03NameJudge) resolve(v ssa.Value, ctx *c03NameCtx) ssa.Value {
	v = stripConv(v)
	if ctx.up == nil {
		return v
	}
	prm, ok := v.(*ssa.Parameter)
	if !ok {
		return nil
	}
	for i, q := range ctx.fn.Params {
		if q == prm && i < len(ctx.call.Common().Args) {
			return j.resolve(ctx.call.Common().Args[i], ctx.up)
		}
	}
	return nil
}

func (j *c03NameJudge) isGood(v ssa.Value, ctx *c03NameCtx) bool {
	r := j.resolve(v, ctx)
	return r != nil && j.good(r)
}

func (j *c03NameJudge) describe(v ssa.Value, ctx *c03NameCtx) string {
	if r := j.resolve(v, ctx); r != nil {
		return j.p.describe(r)
	}
	return j.p.describe(v) + " (computed in " + ctx.fn.Name() + ")"
}

func c03Dominates(d, use ssa.Instruction) bool {
	db, ub := d.Block(), use.Block()
	if db == nil || ub == nil || db.Parent() != ub.Parent() {
		return false
	}
	if db == ub {
		return instrIndex(d) < instrIndex(use)
	}
	return db.Dominates(ub)
}

// object: definitions of the name of the object behind handle h at `use`.
func (j *c03NameJudge) object(h ssa.Value, ctx *c03NameCtx, use ssa.Instruction, depth int) (always bool) {
	p := j.p
	if depth > 5 {
		j.bad = append(j.bad, "the recorder is built through too many steps")
		return false
	}
	// stores through the handle: the whole object, or its name field
	for _, r := range referrersOf(h) {
		switch x := r.(type) {
		case *ssa.Store:
			if x.Addr != h {
				continue
			}
			j.n++
			if j.value(x.Val, ctx, x, depth+1) && c03Dominates(x, use) {
				always = true
			}
		case *ssa.FieldAddr:
			if fieldName(x.X.Type(), x.Field) != j.nameField {
				continue
			}
			for _, rr := range referrersOf(x) {
				if st, isSt := rr.(*ssa.Store); isSt && st.Addr == ssa.Value(x) {
					j.n++
					if !j.isGood(st.Val, ctx) {
						j.bad = append(j.bad, "the recorder is named "+j.describe(st.Val, ctx)+" at "+p.IPos(st)+", not <phase parameter>.Name")
					} else if c03Dominates(st, use) {
						always = true
					}
				}
			}
		}
	}
	if call, isCall := h.(*ssa.Call); isCall {
		// the object was built by the constructor: what every return of it hands out
		ctor := staticCallee(call.Common())
		if ctor == nil || ctor.Blocks == nil {
			j.bad = append(j.bad, "the recorder is not built by a constructor call or a literal")
			return false
		}
		for u := ctx; u != nil; u = u.up {
			if u.fn == ctor {
				j.bad = append(j.bad, "recursive constructor "+ctor.Name())
				return false
			}
		}
		j.c.Visit(ctor)
		sub := &c03NameCtx{fn: ctor, call: call, up: ctx}
		all, any := true, false
		for _, rc := range p.pfReturnCases(ctor) {
			if len(rc.Results) != 1 {
				j.bad = append(j.bad, "constructor "+ctor.Name()+" does not return one recorder")
				return false
			}
			any = true
			rh := p.c03RecHandle(rc.Results[0], 0)
			if rh == nil {
				j.bad = append(j.bad, "constructor "+ctor.Name()+" returns "+p.describe(rc.Results[0])+" at "+p.IPos(rc.Ret)+", which is not an object built there")
				all = false
				continue
			}
			if !j.object(rh, sub, rc.Ret, depth+1) {
				all = false
			}
		}
		if any && all {
			always = true
		}
	}
	return always
}

// value: the struct value v (assigned to the recorder as a whole) carries a good name.
func (j *c03NameJudge) value(v ssa.Value, ctx *c03NameCtx, at ssa.Instruction, depth int) bool {
	p := j.p
	v = stripConv(v)
	if depth > 5 {
		j.bad = append(j.bad, "the recorder is built through too many steps")
		return false
	}
	switch x := v.(type) {
	case *ssa.UnOp:
		if a, isAlloc := x.X.(*ssa.Alloc); isAlloc && x.Op == token.MUL {
			// a literal (`local T (complit)`) or another local variable, read here
			if !j.object(a, ctx, x, depth+1) {
				j.bad = append(j.bad, "the recorder value assigned at "+p.IPos(at)+" is not named <phase parameter>.Name on every path")
				return false
			}
			return true
		}
	case *ssa.Call:
		ctor := staticCallee(x.Common())
		if ctor == nil || ctor.Blocks == nil {
			break
		}
		for u := ctx; u != nil; u = u.up {
			if u.fn == ctor {
				j.bad = append(j.bad, "recursive constructor "+ctor.Name())
				return false
			}
		}
		j.c.Visit(ctor)
		sub := &c03NameCtx{fn: ctor, call: x, up: ctx}
		all, any := true, false
		for _, rc := range p.pfReturnCases(ctor) {
			if len(rc.Results) != 1 {
				all = false
				break
			}
			any = true
			if !j.value(rc.Results[0], sub, rc.Ret, depth+1) {
				all = false
			}
		}
		if !any || !all {
			j.bad = append(j.bad, "constructor "+ctor.Name()+" does not initialise "+j.nameField+" from a parameter that is given <phase parameter>.Name")
			return false
		}
		return true
	}
	j.bad = append(j.bad, "the recorder is not built by a constructor call or a literal ("+p.describe(v)+" at "+p.IPos(at)+")")
	return false
}

// c03RecorderInternals checks the recorder type: Result() is zero only without failures and carries
// the name the recorder was constructed with, which is phase.Name; the probing method records a
// failure whenever the prober says not ok.
func c03RecorderInternals(c *Ctx, fn *ssa.Function, recorder ssa.Value, resultCall *ssa.Call) {
	p := c.P
	resFn := staticCallee(resultCall.Common())
	o := c.Ob(resFn, "recorder-result", nil, "the recorder's result is the zero ProbingResult only when no failure was recorded; otherwise it carries the recorder's name and failures; the name is phase.Name")
	if resFn == nil || resFn.Blocks == nil || len(resFn.Params) == 0 {
		o.Unknown("recorder result method has no body")
		return
	}
	recv := resFn.Params[0]
	var bad []string
	nameField, failField := "", ""
	// recvField: v reads a field of the method's receiver (pointer or value receiver)
	recvField := func(v ssa.Value) string {
		switch x := stripConv(v).(type) {
		case *ssa.UnOp:
			if fa, isFA := x.X.(*ssa.FieldAddr); isFA && x.Op == token.MUL && fa.X == ssa.Value(recv) {
				return fieldName(fa.X.Type(), fa.Field)
			}
		case *ssa.Field:
			if x.X == ssa.Value(recv) {
				return fieldName(x.X.Type(), x.Field)
			}
		}
		return ""
	}
	emptyGuard := func(fs []Fact) string {
		for _, f := range fs {
			if x, nonEmptyWhenTrue, isLen := lenCmp(f.Cond); isLen && f.Pol != nonEmptyWhenTrue {
				if n := recvField(x); n != "" {
					return n
				}
			}
		}
		return ""
	}
	for _, rc := range p.pfReturnCases(resFn) {
		v := rc.Results[0]
		names, ok1 := p.c03FieldAlts(v, "PhaseName", 0)
		fails, ok2 := p.c03FieldAlts(v, "FailedProbes", 0)
		if !ok1 || !ok2 {
			bad = append(bad, "result at "+p.IPos(rc.Ret)+" is neither a ProbingResult literal nor a local ProbingResult filled field by field")
			continue
		}
		// a field left zero claims "nothing failed" (IsZero needs both empty): only under len(<recorded failures>) == 0
		allZero := true
		for _, alts := range [][]c03FieldAlt{names, fails} {
			for _, a := range alts {
				if a.Val != nil {
					allZero = false
				}
			}
		}
		unguarded := false
		for _, alts := range [][]c03FieldAlt{names, fails} {
			for _, a := range alts {
				if a.Val != nil {
					continue
				}
				g := emptyGuard(append(append([]Fact{}, rc.Facts...), a.Facts...))
				if g == "" {
					unguarded = true
					continue
				}
				if failField == "" {
					failField = g
				} else if failField != g {
					bad = append(bad, "the emptiness guards test "+failField+" and "+g)
				}
			}
		}
		if unguarded {
			if allZero {
				bad = append(bad, "zero ProbingResult returned at "+p.IPos(rc.Ret)+" without the guard len(<recorded failures>) == 0")
			} else {
				bad = append(bad, "result at "+p.IPos(rc.Ret)+" may leave PhaseName or FailedProbes unset without the guard len(<recorded failures>) == 0")
			}
		}
		if allZero {
			continue
		}
		for _, a := range names {
			if a.Val == nil {
				continue
			}
			if n := recvField(a.Val); n == "" {
				bad = append(bad, "PhaseName of the result is not the recorder's name field")
			} else if nameField != "" && nameField != n {
				bad = append(bad, "PhaseName of the result is taken from "+nameField+" and from "+n)
			} else {
				nameField = n
			}
		}
		for _, a := range fails {
			if a.Val == nil {
				continue
			}
			ff := recvField(a.Val)
			if ff == "" {
				bad = append(bad, "FailedProbes of the result is not the recorder's failure list")
			} else if failField != "" && ff != failField {
				bad = append(bad, "the emptiness guard tests "+failField+" but the result carries "+ff)
			}
		}
	}
	// construction: every definition of the recorder's name that can be in effect when the result is
	// taken gives it <phase parameter>.Name (c03NameJudge); one of the definitions is always executed
	// before the result is taken, and no method called on the recorder renames it.
	if nameField != "" {
		isPhaseName := func(v ssa.Value) bool {
			root, ok := p.pfFieldLoad(v, "Name")
			if !ok {
				return false
			}
			prm, isP := p.pfRootValue(root).(*ssa.Parameter)
			return isP && namedTypeString(prm.Type()) == pfTypPhase
		}
		j := &c03NameJudge{p: p, c: c, nameField: nameField, good: isPhaseName}
		always := j.object(recorder, &c03NameCtx{fn: fn}, resultCall, 0)
		bad = append(bad, dedupe(j.bad)...)
		switch {
		case len(j.bad) > 0:
		case j.n == 0 && !always:
			bad = append(bad, "no definition of the recorder's "+nameField+" found")
		case !always:
			bad = append(bad, "the recorder's "+nameField+" may still be unset when the result is taken")
		}
		for _, cc := range callsIn(fn) {
			callee := staticCallee(cc.Common)
			if callee == nil || callee.Blocks == nil || len(callee.Params) == 0 || callRecv(cc.Common) == nil || p.c03RecHandle(callRecv(cc.Common), 0) != recorder {
				continue
			}
			for _, b := range callee.Blocks {
				for _, in := range b.Instrs {
					if st, isSt := in.(*ssa.Store); isSt {
						if fa, isFA := st.Addr.(*ssa.FieldAddr); isFA && fa.X == ssa.Value(callee.Params[0]) && fieldName(fa.X.Type(), fa.Field) == nameField {
							bad = append(bad, calleeName(cc.Common)+" renames the recorder at "+p.IPos(st))
						}
					}
				}
			}
		}
	}
	if len(bad) == 0 {
		o.OK("name field " + nameField + ", failure field " + failField)
	} else {
		o.Fail("%s", pfJoin(bad))
	}

	// probing method(s) of the recorder used in fn
	seen := map[*ssa.Function]bool{}
	for _, cc := range callsIn(fn) {
		callee := staticCallee(cc.Common)
		if callee == nil || seen[callee] || callRecv(cc.Common) == nil || p.c03RecHandle(callRecv(cc.Common), 0) != recorder {
			continue
		}
		seen[callee] = true
		inv := c03ProberInvoke(callee)
		if inv == nil {
			continue
		}
		o2 := c.Ob(callee, "probe-records-failure", inv, "the recorder probes the object it is given and records a failure whenever the prober does not report ok")
		var bad2 []string
		if len(callee.Params) < 2 || stripConv(inv.Common().Args[0]) != ssa.Value(callee.Params[1]) {
			bad2 = append(bad2, "the prober is not applied to the method's object parameter")
		}
		okVal := ssa.Value(nil)
		for _, r := range referrersOf(inv) {
			if ex, isEx := r.(*ssa.Extract); isEx && ex.Index == 0 {
				okVal = ex
			}
		}
		for _, b := range callee.Blocks {
			if len(b.Instrs) == 0 {
				continue
			}
			ret, isRet := b.Instrs[len(b.Instrs)-1].(*ssa.Return)
			if !isRet {
				continue
			}
			if okVal != nil && p.boolFromFacts(p.FactsAt(b), okVal) == yesTri {
				continue
			}
			// judged per path: a path to the return is fine when it takes an edge on which ok==true is
			// established (`if ok { return }; record` and `if !ok { record }` differ only in whether the
			// two paths share the return block) or passes a recording call
			recorded := p.pfMustPrecedeOrEdge(ret, func(in ssa.Instruction) bool {
				cv, isCall := in.(*ssa.Call)
				if !isCall {
					return false
				}
				cl := staticCallee(cv.Common())
				return cl != nil && len(cv.Common().Args) > 0 && cv.Common().Args[0] == ssa.Value(callee.Params[0]) && p.c03RecordsFailure(cl, 2)
			}, func(from, to *ssa.BasicBlock) bool {
				return okVal != nil && p.boolFromFacts(p.FactsOnEdge(from, to), okVal) == yesTri
			})
			if !recorded {
				bad2 = append(bad2, "return at "+p.IPos(ret)+" is reachable with ok==false without recording a failure")
			}
		}
		if len(bad2) == 0 {
			o2.OK()
		} else {
			o2.Fail("%s", pfJoin(bad2))
		}
	}
}

// ---------------------------------------------------------------------------------------------
// R3

// c03ProbingResultSource: recv is the ProbingResult local of a call in fn; returns that call and index.
func (p *Program) c03ProbingSource(fn *ssa.Function, recv ssa.Value) (*ssa.Call, int) {
	for _, cc := range callsIn(fn) {
		cv, ok := cc.Instr.(*ssa.Call)
		if !ok {
			continue
		}
		pi := pfResultIndex(cc.Common.Signature(), pfTypProbingResult)
		if pi < 0 || pfResultIndex(cc.Common.Signature(), "error") < 0 {
			continue
		}
		if p.pfValueOrPointeeIsResultOf(recv, cv, pi) {
			return cv, pi
		}
	}
	return nil, -1
}

// c03MethodReadsField: the method body reads field `name` of its receiver (directly or via a callee on the receiver).
func c03MethodReadsField(fn *ssa.Function, name string) bool {
	if fn == nil || fn.Blocks == nil || len(fn.Params) == 0 {
		return false
	}
	for _, b := range fn.Blocks {
		for _, in := range b.Instrs {
			switch x := in.(type) {
			case *ssa.FieldAddr:
				if x.X == ssa.Value(fn.Params[0]) && fieldName(x.X.Type(), x.Field) == name {
					return true
				}
			case *ssa.Field:
				if fieldName(x.X.Type(), x.Field) == name {
					return true
				}
			}
		}
	}
	return false
}

func c03r3(c *Ctx) {
	p := c.P
	for _, cs := range p.pfConditionSetsIn(pkgObjectSets, pkgObjSetPhases) {
		if cs.Type != "Available" || cs.Reason != "ProbeFailure" {
			continue
		}
		fn := cs.Call.Fn
		o := c.Ob(fn, "ProbeFailure-condition", cs.Call.Instr, c.rule.Statement)
		if cs.Status != "False" {
			o.Fail("ProbeFailure is reported with Status=%q", cs.Status)
			continue
		}
		msg, _ := asCall(cs.Fields["Message"])
		if msg == nil || callRecv(msg.Common()) == nil {
			o.Fail("the message %s is not rendered from a ProbingResult", p.describe(cs.Fields["Message"]))
			continue
		}
		src, pi := p.c03ProbingSource(fn, callRecv(msg.Common()))
		if src == nil {
			o.Fail("the message is rendered from %s which is not the ProbingResult returned by a reconcile call of this function", p.describe(callRecv(msg.Common())))
			continue
		}
		var bad []string
		fs := p.FactsAt(cs.Call.Instr.Block())
		if p.pfIsZeroFact(fs, src, pi) != noTri {
			bad = append(bad, "the site is not guarded by IsZero()==false of the result of "+p.describe(src))
		}
		if p.errOfCall(fs, src) != yesTri {
			bad = append(bad, "the site is not on the err==nil path of "+p.describe(src))
		}
		m := staticCallee(msg.Common())
		if !c03MethodReadsField(m, "FailedProbes") && !pfAnyCalleeReadsField(m, "FailedProbes") {
			bad = append(bad, "the message method does not render the failed probes")
		}
		if funcPkgPath(fn) == pkgObjectSets && !c03MethodReadsField(m, "PhaseName") {
			bad = append(bad, "the ObjectSet's message method "+calleeName(msg.Common())+" does not include the PhaseName of the failing phase")
		}
		if len(bad) == 0 {
			o.OK("message = " + p.describe(msg) + " of " + p.describe(src))
		} else {
			o.Fail("%s", pfJoin(bad))
		}
	}
}

func pfAnyCalleeReadsField(fn *ssa.Function, name string) bool {
	if fn == nil {
		return false
	}
	for _, f := range pfStaticCallees(fn, 2) {
		if c03MethodReadsField(f, name) {
			return true
		}
	}
	return false
}

// ---------------------------------------------------------------------------------------------
// R4

// c03AvailableCondOf: v is FindStatusCondition(X.GetConditions(), "Available") — or an equivalent
// spelling of that lookup (pfFoundCondition); returns X.
func (p *Program) c03AvailableCondOf(v ssa.Value) (ssa.Value, bool) {
	_, conds, typ, ok := p.pfFoundCondition(v)
	if !ok || typ != "Available" {
		return nil, false
	}
	if u, ok := conds.(*ssa.UnOp); ok && u.Op == token.MUL {
		conds = u.X
	}
	gc, _ := asCall(conds)
	if gc == nil || calleeName(gc.Common()) != "GetConditions" || callRecv(gc.Common()) == nil {
		return nil, false
	}
	return callRecv(gc.Common()), true
}

func c03r4(c *Ctx) {
	p := c.P
	for _, fn := range p.pfFuncsInPkgs(pkgObjectSets) {
		if fn.Name() != "Reconcile" || fn.Signature.Recv() == nil || pfParamIndexOfType(fn.Signature, pfTypPhase) < 0 {
			continue
		}
		piFn, eiFn := pfResultIndex(fn.Signature, pfTypProbingResult), pfResultIndex(fn.Signature, "error")
		if piFn < 0 || eiFn < 0 {
			continue
		}
		var phaseParam *ssa.Parameter
		for _, prm := range fn.Params {
			if namedTypeString(prm.Type()) == pfTypPhase {
				phaseParam = prm
			}
		}
		n := 0
		// the status decision tree may live in an extracted helper: its returns are judged in place
		// … and a result collected in one local and returned once is judged per reaching definition
		for _, cc := range p.pfSplitCollected(p.mwExpandResult(p.pfReturnCases(fn), piFn), piFn) {
			rc := cc.ReturnCase
			if !p.pfPossiblyNilUnder(rc.Results[eiFn], rc.Facts) {
				continue
			}
			zero := false
			switch cc.Written {
			case pfMaybeWritten:
				zero = true // some paths through this edge leave the collected result untouched
			case pfAlwaysWritten:
				zero = !cc.Must["PhaseName"] && !cc.Must["FailedProbes"]
			default:
				for _, pv := range p.possibleValues(rc.Results[piFn]) {
					if pfIsZeroConst(pv) {
						zero = true
					} else if _, _, isLit := compositeFields(pv); !isLit {
						zero = true // not a literal we can see is non-zero: treat as possibly zero
					} else if f, _, _ := compositeFields(pv); f["PhaseName"] == nil && f["FailedProbes"] == nil {
						zero = true
					}
				}
			}
			if !zero {
				continue
			}
			n++
			// class-less no-op
			classless := false
			for _, f := range rc.Facts {
				if x, nonEmptyWhenTrue, ok := pfEmptyCmp(f.Cond); ok && f.Pol != nonEmptyWhenTrue {
					if root, ok := p.pfFieldLoad(x, "Class"); ok && p.pfRootValue(root) == ssa.Value(phaseParam) {
						classless = true
					}
				}
			}
			if classless {
				oc := c.Ob(fn, "classless-noop-return", rc.Ret, "the class-less no-op return of the delegated phase reconciler is unreachable from the phase loop")
				c03ClasslessUnreachable(c, oc, fn)
				continue
			}
			o := c.Ob(fn, "passing-return", rc.Ret, "a delegated phase passes only on Available=True observed for the phase object's current generation")
			o.Require("availableCond != nil", "availableCond.ObservedGeneration == <phase object>.GetGeneration()", "availableCond.Status == True")
			var owner ssa.Value
			nonNil, genOK, statusOK := false, false, false
			for _, f := range rc.Facts {
				if x, trueMeansNonNil, ok := errNilTest(f.Cond); ok {
					if X, isAC := p.c03AvailableCondOf(x); isAC && f.Pol == trueMeansNonNil {
						nonNil = true
						owner = X
					}
				}
			}
			for _, f := range rc.Facts {
				b, ok := f.Cond.(*ssa.BinOp)
				if !ok || (b.Op != token.EQL && b.Op != token.NEQ) {
					continue
				}
				equal := (b.Op == token.EQL) == f.Pol
				for _, pair := range [][2]ssa.Value{{b.X, b.Y}, {b.Y, b.X}} {
					if root, ok := p.pfFieldLoad(pair[0], "ObservedGeneration"); ok && equal {
						if X, isAC := p.c03AvailableCondOf(root); isAC {
							gc, _ := asCall(pair[1])
							if gc != nil && calleeName(gc.Common()) == "GetGeneration" {
								r := callRecv(gc.Common())
								if co, _ := asCall(r); co != nil && calleeName(co.Common()) == "ClientObject" {
									r = callRecv(co.Common())
								}
								if p.sameValue(r, X) {
									genOK = true
								}
							}
						}
					}
					if root, ok := p.pfFieldLoad(pair[0], "Status"); ok && equal {
						if _, isAC := p.c03AvailableCondOf(root); isAC && isStringConst(pair[1], "True") {
							statusOK = true
						}
					}
				}
			}
			var bad []string
			if !nonNil {
				bad = append(bad, "no guard that the Available condition of the phase object exists")
			}
			if !genOK {
				bad = append(bad, "no guard availableCond.ObservedGeneration == <same phase object>.GetGeneration() (a stale Available=True of an older generation would pass the phase)")
			}
			if !statusOK {
				bad = append(bad, "no guard availableCond.Status == True")
			}
			if len(bad) == 0 {
				o.OK("phase object " + p.describe(owner))
			} else {
				o.Fail("%s", pfJoin(bad))
			}
		}
		if n == 0 {
			c.Ob(fn, "passing-return", nil, c.rule.Statement).Unknown("no passing return found in the delegated phase reconciler")
		}
	}
}

// c03ClasslessUnreachable: every interface call of a Reconcile(ctx, owner, phase) method in the
// ObjectSet controller package is guarded by len(phase.Class) > 0 for the phase it passes.
func c03ClasslessUnreachable(c *Ctx, o *Obligation, impl *ssa.Function) {
	p := c.P
	n := 0
	for _, fn := range p.pfFuncsInPkgs(pkgObjectSets) {
		for _, cc := range callsIn(fn) {
			if calleeName(cc.Common) != "Reconcile" || !(cc.Common.IsInvoke() || staticCallee(cc.Common) == impl) {
				continue
			}
			pix := pfParamIndexOfType(cc.Common.Signature(), pfTypPhase)
			if pix < 0 || pfResultIndex(cc.Common.Signature(), pfTypProbingResult) < 0 {
				continue
			}
			n++
			arg := callArgs(cc.Common)[pix]
			argRoot := p.pfRootValue(arg)
			if u, ok := arg.(*ssa.UnOp); ok && u.Op == token.MUL {
				if a, isA := u.X.(*ssa.Alloc); isA {
					argRoot = p.pfRootValue(a)
				}
			}
			guarded := false
			for _, f := range p.FactsAt(cc.Instr.Block()) {
				if x, nonEmptyWhenTrue, ok := pfEmptyCmp(f.Cond); ok && f.Pol == nonEmptyWhenTrue {
					if root, ok := p.pfFieldLoad(x, "Class"); ok && p.pfRootValue(root) == argRoot {
						guarded = true
					}
				}
			}
			if !guarded {
				o.Fail("the class-less return yields a zero ProbingResult and the call at %s is not guarded by len(phase.Class) > 0", p.IPos(cc.Instr))
				return
			}
		}
	}
	if n == 0 {
		o.Unknown("no caller of the delegated phase reconciler found")
		return
	}
	o.OK(fmt.Sprintf("class-less no-op return; all %d caller(s) guard len(phase.Class) > 0", n))
}

// ---------------------------------------------------------------------------------------------
// R5

// c03TraceParam follows v back through parameters to the argument values at static call sites
// (bounded); returns the origin values with the call-site function of each.
func (p *Program) c03Origins(v ssa.Value, depth int) []ssa.Value {
	v = stripConv(v)
	prm, ok := v.(*ssa.Parameter)
	if !ok || depth == 0 {
		return []ssa.Value{v}
	}
	fn := prm.Parent()
	idx := -1
	for i, q := range fn.Params {
		if q == prm {
			idx = i
		}
	}
	callers := p.callersOf(fn)
	if idx < 0 || len(callers) == 0 || p.addressTaken(fn) {
		return []ssa.Value{v}
	}
	var out []ssa.Value
	for _, cs := range callers {
		if isNonProductPkg(funcPkgPath(cs.Fn)) || pfDeadClosure(cs.Fn) {
			continue
		}
		if idx >= len(cs.Common.Args) {
			return []ssa.Value{v}
		}
		out = append(out, p.c03Origins(cs.Common.Args[idx], depth-1)...)
	}
	if len(out) == 0 {
		return []ssa.Value{v}
	}
	return out
}

func c03r5(c *Ctx) {
	p := c.P
	for _, fn := range p.pfFuncsInPkgs(pkgObjectSets, pkgObjSetPhases) {
		for _, cc := range callsIn(fn) {
			if calleeName(cc.Common) != "ReconcilePhase" {
				continue
			}
			sig := cc.Common.Signature()
			pix := -1
			for i := 0; i < sig.Params().Len(); i++ {
				if namedTypeString(sig.Params().At(i).Type()) == pkgProbing+".Prober" {
					pix = i
				}
			}
			if pix < 0 {
				continue
			}
			o := c.Ob(fn, "ReconcilePhase-prober", cc.Instr, c.rule.Statement)
			var bad []string
			n := 0
			for _, org := range p.c03Origins(callArgs(cc.Common)[pix], 3) {
				n++
				pc, idx := asCall(org)
				if pc == nil || idx != 0 || !isCallTo(pc.Common(), pkgIntProbing+".Parse") {
					bad = append(bad, "prober originates from "+p.describe(org)+", not from internalprobing.Parse")
					continue
				}
				c.Visit(pc.Parent())
				if pfAccessorOnParam(pc.Common().Args[1], "GetAvailabilityProbes") == nil {
					bad = append(bad, "Parse at "+p.IPos(pc)+" is not applied to <owner>.GetAvailabilityProbes()")
				}
				// err == nil of Parse where the prober leaves the parsing function
				for _, r := range referrersOf(org) {
					ci, isCall := r.(ssa.CallInstruction)
					if !isCall {
						continue
					}
					if p.errOfCall(p.FactsAt(ci.Block()), pc) != yesTri {
						bad = append(bad, "prober of Parse at "+p.IPos(pc)+" is used at "+p.IPos(ci)+" without the parse error being known nil")
					}
				}
			}
			if len(bad) == 0 {
				o.OK(fmt.Sprintf("%d origin(s), all internalprobing.Parse", n))
			} else {
				o.Fail("%s", pfJoin(bad))
			}
		}
	}
}

// pfMustPrecedeOrEdge: every path from the function entry to `site` executes an instruction
// satisfying match before site, or takes a CFG edge for which edgeOK holds (an edge that establishes
// the fact under which nothing is required). Judging edges instead of the block that contains the
// site makes the verdict independent of whether the excused path has a return of its own or joins
// the other paths before a shared return.
func (p *Program) pfMustPrecedeOrEdge(site ssa.Instruction, match func(ssa.Instruction) bool, edgeOK func(from, to *ssa.BasicBlock) bool) bool {
	fn := site.Parent()
	sb := site.Block()
	for _, in := range sb.Instrs {
		if in == site {
			break
		}
		if match(in) {
			return true
		}
	}
	contains := map[*ssa.BasicBlock]bool{}
	holdsOut := map[*ssa.BasicBlock]bool{}
	for _, b := range fn.Blocks {
		for _, in := range b.Instrs {
			if match(in) {
				contains[b] = true
				break
			}
		}
		holdsOut[b] = true // greatest fixpoint
	}
	entry := fn.Blocks[0]
	holdsOut[entry] = contains[entry]
	holdsIn := func(b *ssa.BasicBlock) bool {
		if b == entry || len(b.Preds) == 0 {
			return false
		}
		for _, pr := range b.Preds {
			if !holdsOut[pr] && !edgeOK(pr, b) {
				return false
			}
		}
		return true
	}
	for changed := true; changed; {
		changed = false
		for _, b := range fn.Blocks {
			if b == entry {
				continue
			}
			v := contains[b] || holdsIn(b)
			if v != holdsOut[b] {
				holdsOut[b] = v
				changed = true
			}
		}
	}
	return holdsIn(sb)
}
