package main

import (
	"go/token"
	"go/types"
	"sort"
	"strings"

	"golang.org/x/tools/go/ssa"
)

const (
	pkgClient   = "sigs.k8s.io/controller-runtime/pkg/client"
	pkgAPIErr   = "k8s.io/apimachinery/pkg/api/errors"
	pkgMeta     = "k8s.io/apimachinery/pkg/api/meta"
	pkgUnstr    = "k8s.io/apimachinery/pkg/apis/meta/v1/unstructured"
	pkgCtrlUtil = "sigs.k8s.io/controller-runtime/pkg/controller/controllerutil"
	pkgMetaV1   = "k8s.io/apimachinery/pkg/apis/meta/v1"

	modPKO          = "package-operator.run"
	pkgControllers  = modPKO + "/internal/controllers"
	pkgObjectSets   = modPKO + "/internal/controllers/objectsets"
	pkgObjSetPhases = modPKO + "/internal/controllers/objectsetphases"
	pkgObjDeploy    = modPKO + "/internal/controllers/objectdeployments"
	pkgObjTemplate  = modPKO + "/internal/controllers/objecttemplate"
	pkgPackagesCtl  = modPKO + "/internal/controllers/packages"
	pkgPreflight    = modPKO + "/internal/preflight"
	pkgDynCache     = modPKO + "/internal/dynamiccache"
	pkgAdapters     = modPKO + "/internal/adapters"
	pkgCoreV1       = modPKO + "/apis/core/v1alpha1"
	pkgManifestsV1  = modPKO + "/apis/manifests/v1alpha1"
	pkgConstants    = modPKO + "/internal/constants"
	pkgProbing      = modPKO + "/pkg/probing"
	pkgIntProbing   = modPKO + "/internal/probing"
	pkgPkgDeploy    = modPKO + "/internal/packages/internal/packagedeploy"
	pkgPkgRender    = modPKO + "/internal/packages/internal/packagerender"
	pkgPkgImport    = modPKO + "/internal/packages/internal/packageimport"
	pkgPkgTypes     = modPKO + "/internal/packages/internal/packagetypes"
	pkgPkgValid     = modPKO + "/internal/packages/internal/packagevalidation"
	pkgTransform    = modPKO + "/internal/transform"
	pkgUtils        = modPKO + "/internal/utils"
)

// ---------------------------------------------------------------------------------------------
// Variadic slices and composite literals

// allocOf returns the Alloc a pointer value is derived from (through Slice / FieldAddr / IndexAddr).
func allocOf(v ssa.Value) *ssa.Alloc {
	for i := 0; i < 10; i++ {
		switch x := v.(type) {
		case *ssa.Alloc:
			return x
		case *ssa.Slice:
			v = x.X
		case *ssa.FieldAddr:
			v = x.X
		case *ssa.IndexAddr:
			v = x.X
		default:
			return nil
		}
	}
	return nil
}

// sliceElems returns the values stored into the backing array of a slice built as
// `slice (new [N]T)[:]` (varargs, slice literals). ok=false when the shape is not recognised;
// a nil constant yields an empty list.
func sliceElems(v ssa.Value) (elems []ssa.Value, ok bool) {
	v = stripConv(v)
	if c, isC := v.(*ssa.Const); isC && c.Value == nil {
		return nil, true
	}
	sl, isSl := v.(*ssa.Slice)
	if !isSl {
		return nil, false
	}
	a, isA := sl.X.(*ssa.Alloc)
	if !isA {
		return nil, false
	}
	type ent struct {
		idx int64
		val ssa.Value
	}
	var ents []ent
	for _, r := range referrersOf(a) {
		ia, isIA := r.(*ssa.IndexAddr)
		if !isIA {
			continue
		}
		idx, isConst := constInt(ia.Index)
		if !isConst {
			return nil, false
		}
		for _, rr := range referrersOf(ia) {
			if st, isSt := rr.(*ssa.Store); isSt && st.Addr == ssa.Value(ia) {
				ents = append(ents, ent{idx, st.Val})
			}
		}
	}
	sort.Slice(ents, func(i, j int) bool { return ents[i].idx < ents[j].idx })
	for _, e := range ents {
		elems = append(elems, e.val)
	}
	return elems, true
}

// compositeFields resolves the field initialisers of a composite literal. v may be the load of a
// `local T (complit)` alloc, or the alloc pointer itself (&T{...}).
func compositeFields(v ssa.Value) (fields map[string]ssa.Value, typ types.Type, ok bool) {
	v = stripConv(v)
	var a *ssa.Alloc
	switch x := v.(type) {
	case *ssa.UnOp:
		if x.Op == token.MUL {
			a, _ = x.X.(*ssa.Alloc)
		}
	case *ssa.Alloc:
		a = x
	}
	if a == nil {
		return nil, nil, false
	}
	pt, isPtr := a.Type().Underlying().(*types.Pointer)
	if !isPtr {
		return nil, nil, false
	}
	if _, isStruct := pt.Elem().Underlying().(*types.Struct); !isStruct {
		return nil, nil, false
	}
	fields = map[string]ssa.Value{}
	for _, r := range referrersOf(a) {
		fa, isFA := r.(*ssa.FieldAddr)
		if !isFA {
			continue
		}
		name := fieldName(a.Type(), fa.Field)
		for _, rr := range referrersOf(fa) {
			if st, isSt := rr.(*ssa.Store); isSt && st.Addr == ssa.Value(fa) {
				if _, dup := fields[name]; dup {
					fields[name+"#dup"] = st.Val
				}
				fields[name] = st.Val
			}
		}
	}
	return fields, pt.Elem(), true
}

// ---------------------------------------------------------------------------------------------
// controller-runtime client call classification (A6)

type WriterSite struct {
	Call   Call
	Verb   string    // Create | Update | Patch | Delete | DeleteAllOf | Status.Update | Status.Patch | Status.Create
	Obj    ssa.Value // the object argument
	Class  string    // "dyn" | "typed" | "unknown"
	Opts   []ssa.Value
	OptsOK bool
}

var writerVerbs = map[string]bool{"Create": true, "Update": true, "Patch": true, "Delete": true, "DeleteAllOf": true}

// isClientObjectType: the static type is controller-runtime's client.Object.
func isClientObjectType(t types.Type) bool { return namedTypeString(t) == pkgClient+".Object" }

// classifyWriter recognises calls of controller-runtime writer methods: the callee is an
// interface method (or a method of a type in the client package) named like a writer verb whose
// second parameter is client.Object.
func classifyWriter(c Call) (WriterSite, bool) {
	cc := c.Common
	name := calleeName(cc)
	if !writerVerbs[name] {
		return WriterSite{}, false
	}
	var sig *types.Signature
	if cc.IsInvoke() {
		sig, _ = cc.Method.Type().(*types.Signature)
	} else if f := staticCallee(cc); f != nil {
		sig = f.Signature
	}
	if sig == nil || sig.Params().Len() < 2 || !isClientObjectType(sig.Params().At(1).Type()) {
		return WriterSite{}, false
	}
	if sig.Params().At(0).Type().String() != "context.Context" {
		return WriterSite{}, false
	}
	args := callArgs(cc)
	if len(args) < 2 {
		return WriterSite{}, false
	}
	ws := WriterSite{Call: c, Verb: name, Obj: args[1]}
	// Status()/SubResource writers: receiver comes from a .Status() call
	if r := callRecv(cc); r != nil {
		if rc, _ := asCall(r); rc != nil && calleeName(rc.Common()) == "Status" {
			ws.Verb = "Status." + name
		}
		rt := namedTypeString(r.Type())
		if strings.HasSuffix(rt, ".StatusWriter") || strings.HasSuffix(rt, ".SubResourceWriter") {
			ws.Verb = "Status." + name
		}
	}
	if sig.Variadic() {
		ws.Opts, ws.OptsOK = sliceElems(args[len(args)-1])
	}
	ws.Class = classifyObjectArg(ws.Obj)
	return ws, true
}

// classifyObjectArg: "dyn" for *unstructured.Unstructured, "typed" for pointers to PKO/Kubernetes
// API structs and results of ClientObject() accessors, "unknown" otherwise (parameters of
// interface type etc.).
func classifyObjectArg(v ssa.Value) string {
	v = stripConv(v)
	t := v.Type()
	ts := namedTypeString(t)
	if ts == pkgUnstr+".Unstructured" {
		return "dyn"
	}
	if _, isPtr := t.Underlying().(*types.Pointer); isPtr && ts != "" {
		return "typed"
	}
	if call, _ := asCall(v); call != nil {
		n := calleeName(call.Common())
		if n == "ClientObject" || n == "ClientObjectList" {
			return "typed"
		}
	}
	if ph, ok := v.(*ssa.Phi); ok {
		cls := ""
		for _, e := range ph.Edges {
			c := classifyObjectArg(e)
			if cls == "" {
				cls = c
			} else if cls != c {
				return "unknown"
			}
		}
		return cls
	}
	return "unknown"
}

// allWriterSites enumerates writer call sites in the given functions.
func allWriterSites(fns []*ssa.Function) []WriterSite {
	var out []WriterSite
	for _, fn := range fns {
		for _, c := range callsIn(fn) {
			if ws, ok := classifyWriter(c); ok {
				out = append(out, ws)
			}
		}
	}
	return out
}

// isReaderGet recognises client.Reader.Get style calls: (ctx, key, obj, ...opts) error.
func isReaderGet(cc *ssa.CallCommon) bool {
	if calleeName(cc) != "Get" {
		return false
	}
	var sig *types.Signature
	if cc.IsInvoke() {
		sig, _ = cc.Method.Type().(*types.Signature)
	} else if f := staticCallee(cc); f != nil {
		sig = f.Signature
	}
	if sig == nil || sig.Params().Len() < 3 {
		return false
	}
	return isClientObjectType(sig.Params().At(2).Type())
}

// isTestPkg excludes helper packages that are not part of the shipped binaries' logic.
func isNonProductPkg(path string) bool {
	return strings.Contains(path, "/testutil") || strings.HasPrefix(path, modPKO+"/cmd/build") ||
		strings.HasPrefix(path, modPKO+"/integration") || strings.Contains(path, "mocks")
}

// productFuncs returns all workspace functions outside test helper / build tooling packages.
func (p *Program) productFuncs() []*ssa.Function {
	var out []*ssa.Function
	for _, f := range p.Funcs {
		if isNonProductPkg(funcPkgPath(f)) {
			continue
		}
		out = append(out, f)
	}
	return out
}

// ---------------------------------------------------------------------------------------------
// Fact matchers

// factCall: does some fact at the given list have a condition that is a call to one of ids with
// polarity pol and satisfying argOK?
func (p *Program) findFactCall(fs []Fact, pol bool, ids []string, argOK func(c *ssa.CallCommon) bool) (Fact, bool) {
	for _, f := range fs {
		if f.Pol != pol {
			continue
		}
		call, idx := asCall(f.Cond)
		if call == nil {
			continue
		}
		_ = idx
		cc := call.Common()
		if !isCallTo(cc, ids...) {
			// an equivalent spelling of the same API predicate (canonicalCall)
			alt, isAlt := p.canonicalCall(cc)
			if !isAlt || !isCallTo(alt, ids...) {
				continue
			}
			cc = alt
		}
		if argOK == nil || argOK(cc) {
			return f, true
		}
	}
	return Fact{}, false
}

// errOfCallIsNil: the facts establish that the error result of call `c` (the call value itself
// when it returns only error, or its last tuple element) is nil.
func (p *Program) errOfCallIsNil(fs []Fact, c *ssa.Call) bool {
	return p.errOfCall(fs, c) == yesTri
}

func (p *Program) errOfCall(fs []Fact, c *ssa.Call) tri {
	res := c.Common().Signature().Results()
	errIdx := -1
	for i := 0; i < res.Len(); i++ {
		if res.At(i).Type().String() == "error" {
			errIdx = i
		}
	}
	if errIdx < 0 {
		return unknownTri
	}
	for _, f := range fs {
		x, trueMeansNonNil, ok := errNilTest(f.Cond)
		if !ok {
			continue
		}
		for _, pv := range p.possibleValues(x) {
			cc, idx := asCall(pv)
			if cc != c {
				continue
			}
			if res.Len() == 1 && idx == -1 || idx == errIdx {
				// only decisive if x can ONLY be this call's error
				if len(p.possibleValues(x)) != 1 {
					continue
				}
				if f.Pol == trueMeansNonNil {
					return noTri
				}
				return yesTri
			}
		}
	}
	return unknownTri
}

// lenCmp decomposes `len(x) > 0`, `len(x) == 0`, `len(x) != 0`, `0 < len(x)`, `len(x) >= 1`,
// `len(x) < 1` into (x, condTrueMeansNonEmpty).
func lenCmp(cond ssa.Value) (x ssa.Value, trueMeansNonEmpty bool, ok bool) {
	b, isBin := cond.(*ssa.BinOp)
	if !isBin {
		return nil, false, false
	}
	lenOf := func(v ssa.Value) ssa.Value {
		if c, okc := v.(*ssa.Call); okc {
			if bi, okb := c.Call.Value.(*ssa.Builtin); okb && bi.Name() == "len" {
				return c.Call.Args[0]
			}
		}
		return nil
	}
	l, r := b.X, b.Y
	op := b.Op
	if lenOf(l) == nil && lenOf(r) != nil {
		l, r = r, l
		switch op {
		case token.LSS:
			op = token.GTR
		case token.GTR:
			op = token.LSS
		case token.LEQ:
			op = token.GEQ
		case token.GEQ:
			op = token.LEQ
		}
	}
	x = lenOf(l)
	if x == nil {
		return nil, false, false
	}
	n, isInt := constInt(r)
	if !isInt {
		return nil, false, false
	}
	switch {
	case op == token.GTR && n == 0, op == token.NEQ && n == 0, op == token.GEQ && n == 1:
		return x, true, true
	case op == token.EQL && n == 0, op == token.LSS && n == 1, op == token.LEQ && n == 0:
		return x, false, true
	}
	return nil, false, false
}

// emptinessFromFacts: is x known empty (yes) / non-empty (no)?
func (p *Program) emptinessFromFacts(fs []Fact, x ssa.Value) tri {
	for _, f := range fs {
		if y, nonEmptyWhenTrue, ok := lenCmp(f.Cond); ok && p.sameValue(x, y) {
			if f.Pol == nonEmptyWhenTrue {
				return noTri
			}
			return yesTri
		}
	}
	return unknownTri
}

// isStringConstOf: v is a constant string equal to one of vals.
func isStringConst(v ssa.Value, vals ...string) bool {
	s, ok := constString(v)
	if !ok {
		return false
	}
	for _, x := range vals {
		if s == x {
			return true
		}
	}
	return false
}

// condition literal helpers ------------------------------------------------------------------

// ConditionSet describes a meta.SetStatusCondition(conds, metav1.Condition{...}) call.
type ConditionSet struct {
	Call   Call
	Fields map[string]ssa.Value
	Type   string // constant Type, "" when not constant
	Status string
	Reason string
}

func conditionSets(fn *ssa.Function) []ConditionSet {
	var out []ConditionSet
	for _, c := range callsIn(fn) {
		if !isCallTo(c.Common, pkgMeta+".SetStatusCondition") {
			continue
		}
		if len(c.Common.Args) != 2 {
			continue
		}
		cs := ConditionSet{Call: c}
		if f, _, ok := compositeFields(c.Common.Args[1]); ok {
			cs.Fields = f
			cs.Type, _ = constString(f["Type"])
			cs.Status, _ = constString(f["Status"])
			cs.Reason, _ = constString(f["Reason"])
		}
		out = append(out, cs)
	}
	return out
}

// conditionRemovals lists meta.RemoveStatusCondition(conds, type) calls with constant type.
func conditionRemovals(fn *ssa.Function) (out []struct {
	Call Call
	Type string
}) {
	for _, c := range callsIn(fn) {
		if !isCallTo(c.Common, pkgMeta+".RemoveStatusCondition") || len(c.Common.Args) != 2 {
			continue
		}
		t, _ := constString(c.Common.Args[1])
		out = append(out, struct {
			Call Call
			Type string
		}{c, t})
	}
	return out
}

// ---------------------------------------------------------------------------------------------
// Callers index and inter-procedural guards (bounded)

func (p *Program) callersOf(fn *ssa.Function) []Call {
	if p.callers == nil {
		p.callers = map[*ssa.Function][]Call{}
		for _, f := range p.Funcs {
			for _, c := range callsIn(f) {
				if callee := staticCallee(c.Common); callee != nil {
					if o := callee.Origin(); o != nil {
						p.callers[o] = append(p.callers[o], c)
					}
					p.callers[callee] = append(p.callers[callee], c)
				}
			}
		}
	}
	return p.callers[fn]
}

// addressTaken: fn is used as a value somewhere (method value, callback) other than in call position.
func (p *Program) addressTaken(fn *ssa.Function) bool {
	if p.addrTaken == nil {
		p.addrTaken = map[*ssa.Function]bool{}
		for _, f := range p.Funcs {
			for _, b := range f.Blocks {
				for _, in := range b.Instrs {
					var ops []*ssa.Value
					ops = in.Operands(ops)
					for i, o := range ops {
						g, ok := (*o).(*ssa.Function)
						if !ok {
							continue
						}
						if ci, isCall := in.(ssa.CallInstruction); isCall && i == 0 && ci.Common().Value == ssa.Value(g) && !ci.Common().IsInvoke() {
							continue
						}
						if g.Synthetic != "" && !strings.HasPrefix(g.Synthetic, "instance of") {
							// method value `x.m` / method expression `T.m`: go/ssa wraps the method in a
							// synthetic bound-method closure or thunk that carries the method's object
							if obj, isFn := g.Object().(*types.Func); isFn && obj != nil {
								if decl := p.SSA.FuncValue(obj); decl != nil {
									p.addrTaken[decl] = true
								}
							}
							continue
						}
						if mc, isMC := in.(*ssa.MakeClosure); isMC && mc.Fn == ssa.Value(g) {
							continue
						}
						p.addrTaken[g] = true
					}
				}
			}
		}
	}
	return p.addrTaken[fn]
}

// guardedInterproc: pred holds on the facts at `site`, or site's function is a helper that is only
// called statically and pred holds (recursively, bounded by depth) at every call site.
// Closures are followed to the point where they are created.
func (p *Program) guardedInterproc(site ssa.Instruction, pred func(fs []Fact) bool, depth int) (bool, string) {
	if pred(p.FactsAt(site.Block())) {
		return true, "guarded at " + p.IPos(site)
	}
	if depth <= 0 {
		return false, "not guarded at " + p.IPos(site)
	}
	fn := site.Parent()
	if fn.Parent() != nil {
		// closure: look at the MakeClosure site in the parent
		for _, b := range fn.Parent().Blocks {
			for _, in := range b.Instrs {
				if mc, ok := in.(*ssa.MakeClosure); ok && mc.Fn == ssa.Value(fn) {
					return p.guardedInterproc(mc, pred, depth-1)
				}
			}
		}
		return false, "closure creation site not found"
	}
	callers := p.callersOf(fn)
	if len(callers) == 0 {
		return false, "not guarded in " + shortFuncID(fn) + " and it has no static callers"
	}
	if p.addressTaken(fn) {
		return false, "not guarded in " + shortFuncID(fn) + " whose address is taken"
	}
	var notes []string
	for _, c := range callers {
		ok, why := p.guardedInterproc(c.Instr, pred, depth-1)
		if !ok {
			return false, "caller " + shortFuncID(c.Fn) + ": " + why
		}
		notes = append(notes, why)
	}
	return true, "guarded at every caller: " + strings.Join(notes, ", ")
}

// ---------------------------------------------------------------------------------------------
// Map literals

// mapLiteral returns constant-key → value for a map built by `make map` + MapUpdate instructions.
// complete=false if some key is not a constant string or the map escapes before all updates.
func mapLiteral(v ssa.Value) (kv map[string]ssa.Value, ok bool) {
	v = stripConv(v)
	mm, isMM := v.(*ssa.MakeMap)
	if !isMM {
		return nil, false
	}
	kv = map[string]ssa.Value{}
	for _, r := range referrersOf(mm) {
		if mu, isMU := r.(*ssa.MapUpdate); isMU && mu.Map == ssa.Value(mm) {
			k, isConst := constString(mu.Key)
			if !isConst {
				return nil, false
			}
			kv[k] = mu.Value
		}
	}
	return kv, true
}

// ---------------------------------------------------------------------------------------------
// Instructions between two points

// canReach returns the set of blocks from which block `to` is reachable (including to itself).
func canReach(to *ssa.BasicBlock) map[*ssa.BasicBlock]bool {
	seen := map[*ssa.BasicBlock]bool{}
	work := []*ssa.BasicBlock{to}
	for len(work) > 0 {
		b := work[len(work)-1]
		work = work[:len(work)-1]
		if seen[b] {
			continue
		}
		seen[b] = true
		work = append(work, b.Preds...)
	}
	return seen
}

// between returns the instructions that may execute after `from` and before `to` on some path
// from `from` to `to`.
func between(from, to ssa.Instruction) []ssa.Instruction {
	reach := canReach(to.Block())
	var out []ssa.Instruction
	for _, in := range reachableAfter(from, func(i ssa.Instruction) bool { return i == to }) {
		if in == to {
			continue
		}
		if !reach[in.Block()] {
			continue
		}
		if in.Block() == to.Block() && instrIndex(in) > instrIndex(to) && from.Block() != to.Block() {
			continue
		}
		out = append(out, in)
	}
	return out
}

// mutatesObject: the instruction is a call that may modify the object x (a Set*/Remove* method on
// it, an unstructured.SetNested*/RemoveNestedField on its content, or a reader call filling it).
func (p *Program) mutatesObject(in ssa.Instruction, x ssa.Value) bool {
	ci, ok := in.(ssa.CallInstruction)
	if !ok {
		return false
	}
	cc := ci.Common()
	n := calleeName(cc)
	if r := callRecv(cc); r != nil && p.sameValue(r, x) {
		if strings.HasPrefix(n, "Set") || strings.HasPrefix(n, "Remove") || strings.HasPrefix(n, "Unmarshal") || n == "DeepCopyInto" {
			return true
		}
	}
	if isReaderGet(cc) && p.sameValue(callArgs(cc)[2], x) {
		return true
	}
	id := calleeID(cc)
	if strings.HasPrefix(id, pkgUnstr+".SetNested") || id == pkgUnstr+".RemoveNestedField" {
		if len(cc.Args) > 0 {
			if fa, isLoad := cc.Args[0].(*ssa.UnOp); isLoad {
				if f, isFA := fa.X.(*ssa.FieldAddr); isFA && p.sameValue(f.X, x) {
					return true
				}
			}
		}
	}
	// helper functions that take the object and are known mutators
	switch n {
	case "ReleaseController", "RemoveOwner", "SetControllerReference", "SetOwnerReference", "setObjectRevision":
		for _, a := range callArgs(cc) {
			if p.sameValue(a, x) {
				return true
			}
		}
	}
	return false
}

// ---------------------------------------------------------------------------------------------
// Dynamic delete contexts: where the decision to delete a managed (unstructured) object is taken.
// Normally that is the function containing the client Delete call; when the call was extracted into
// an unexported helper that deletes its parameter, the contexts are the helper's call sites.

type DeleteCtx struct {
	Fn     *ssa.Function   // function in which the object is inspected and the delete is decided
	Site   ssa.Instruction // the Delete call, or the call of the helper that performs it
	Obj    ssa.Value       // the object deleted, as seen in Fn
	Helper *ssa.Function   // non-nil when resolved through a helper
}

// ErrCall returns the call whose value is the error of the delete (nil if the helper does not
// simply return it).
func (d DeleteCtx) ErrCall() *ssa.Call {
	call, _ := d.Site.(*ssa.Call)
	return call
}

func (p *Program) dynDeleteContexts() []DeleteCtx {
	var out []DeleteCtx
	for _, ws := range allWriterSites(p.productFuncs()) {
		if ws.Verb != "Delete" || ws.Class == "typed" {
			continue
		}
		for _, dc := range p.c05Contexts(ws.Call.Fn, ws.Call.Instr, ws.Obj, 2) {
			d := DeleteCtx{Fn: dc.fn, Site: dc.site, Obj: dc.x}
			if dc.fn != ws.Call.Fn {
				d.Helper = ws.Call.Fn
			}
			out = append(out, d)
		}
	}
	return out
}

// helperReturnsOnly: every return of fn returns (as its only / last result) the value of call.
func (p *Program) helperReturnsOnly(fn *ssa.Function, call ssa.Instruction) bool {
	cv, ok := call.(ssa.Value)
	if !ok {
		return false
	}
	for _, rc := range p.returnCases(fn) {
		if fn.Recover != nil && rc.Ret.Block() == fn.Recover {
			continue
		}
		if len(rc.Results) == 0 {
			return false
		}
		last := rc.Results[len(rc.Results)-1]
		for _, pv := range p.possibleValues(last) {
			if stripConv(pv) != cv {
				return false
			}
		}
	}
	return true
}

// canonicalCall recognises equivalent spellings of API predicates that rules look for by callee, and
// presents them as a call of the canonical function with the canonical argument list:
//
//	slices.Contains(X.GetFinalizers(), f)  ==  controllerutil.ContainsFinalizer(X, f)
//
// (controllerutil.ContainsFinalizer is exactly that loop). Only spellings whose equivalence is
// evident from the library source are listed.
func (p *Program) canonicalCall(c *ssa.CallCommon) (*ssa.CallCommon, bool) {
	if c == nil || c.IsInvoke() {
		return nil, false
	}
	if calleeID(c) == "slices.Contains" && len(c.Args) == 2 {
		if gc, _ := asCall(c.Args[0]); gc != nil && calleeName(gc.Common()) == "GetFinalizers" {
			if recv := callRecv(gc.Common()); recv != nil {
				if sp := p.SSA.ImportedPackage(pkgCtrlUtil); sp != nil {
					if fn := sp.Func("ContainsFinalizer"); fn != nil {
						return &ssa.CallCommon{Value: fn, Args: []ssa.Value{recv, c.Args[1]}}, true
					}
				}
			}
		}
	}
	return nil, false
}
