package main

import (
	"fmt"
	"go/ast"
	"go/token"
	"go/types"
	"strings"

	"golang.org/x/tools/go/ssa"
)

// C06 — ObjectSet status never claims more than the reconcile pass observed.

func init() {
	register(&Property{
		ID: "C06",
		Explanation: "Decides, on every path of the current source, that status claims are tied to what this pass computed: Available=True is written only under err==nil and a " +
			"zero ProbingResult of this activation's reconcile call on the same accessor, with ObservedGeneration taken from that object; the value given to SetStatusControllerOf " +
			"originates only from GetControllerOf (which appends under IsController only) on the objects returned by ReconcilePhase for the same owner, from a delegated phase's " +
			"GetStatusControllerOf(), or is empty, and the phase loop appends every successfully finished phase's list; Succeeded is set only to True, under Available=True ∧ " +
			"survived delay ∧ not in transition, and no code path in the workspace removes or downgrades it; InTransition is removed only when isObjectSetInTransition of the " +
			"very list that was stored returned false, which it does only for archived sets or when every object of every phase matched a controllerOf entry; an ObjectSet with " +
			"Archived=True is not touched again and completing archival clears Available and controllerOf; status is persisted only by Status().Update of the object read at the " +
			"start of the activation.",
		NotDecided: []string{"stale informer reads: the pass may observe an old world; the rules tie the claim to what the pass read", "condition histories across passes and restarts",
			"CRD-level validation (DestinationType pattern) is read from the kubebuilder marker, its enforcement by the API server is trusted"},
		Technique: "SSA guard-fact dataflow + value identity through spilled locals + inter-procedural value provenance + whole-workspace condition-writer enumeration with positive control",
		Rules: []Rule{
			{ID: "C06.R1", Min: 2, Run: c06r1, Statement: "Available=True is written only under err==nil and a zero ProbingResult of this activation's reconcile call for the same object, with ObservedGeneration of that object"},
			{ID: "C06.R2", Min: 7, Run: c06r2, Statement: "status.controllerOf is set only from what was observed: GetControllerOf (IsController-filtered) over the objects ReconcilePhase returned for this owner, a delegated phase's reported list, or empty; the phase loop accumulates every finished phase"},
			{ID: "C06.R3", Min: 5, Run: c06r3, Statement: "Succeeded is only ever set to True, only under Available=True of this pass ∧ survived delay ∧ not in transition; nothing removes, downgrades or wholesale-replaces it"},
			{ID: "C06.R4", Min: 2, Run: c06r4, Statement: "InTransition is removed only when the transition test over the stored controllerOf list is false, which requires an archived set or every object of every phase to match a controllerOf entry"},
			{ID: "C06.R5", Min: 7, Run: c06r5, Statement: "an ObjectSet whose Archived condition is True is not touched again; completing archival removes Available and empties controllerOf"},
			{ID: "C06.R6", Min: 5, Run: c06r6, Statement: "status is persisted only through Status().Update of the object read at the start of this activation; it is never re-read in between"},
		},
	})
}

// c06PassResult finds the call of fn that returns (…, ProbingResult, …, error) and is known, under
// fs, to have returned nil error and a zero ProbingResult.
func (p *Program) c06PassResult(fn *ssa.Function, fs []Fact) (*ssa.Call, []string) {
	var why []string
	for _, cc := range callsIn(fn) {
		cv, ok := cc.Instr.(*ssa.Call)
		if !ok {
			continue
		}
		pi := pfResultIndex(cc.Common.Signature(), pfTypProbingResult)
		if pi < 0 || pfResultIndex(cc.Common.Signature(), "error") < 0 {
			continue
		}
		z, e := p.pfIsZeroFact(fs, cv, pi), p.errOfCall(fs, cv)
		if z == yesTri && e == yesTri {
			return cv, nil
		}
		if z != yesTri {
			why = append(why, "ProbingResult of "+p.describe(cv)+" is not known to be zero here")
		}
		if e != yesTri {
			why = append(why, "error of "+p.describe(cv)+" is not known to be nil here")
		}
	}
	if len(why) == 0 {
		why = append(why, "no reconcile call returning a ProbingResult in this function")
	}
	return nil, why
}

// c06GenerationOf: v is X.ClientObject().GetGeneration() or X.GetGeneration(); returns X.
func c06GenerationOf(v ssa.Value) ssa.Value {
	gc, _ := asCall(v)
	if gc == nil || calleeName(gc.Common()) != "GetGeneration" {
		return nil
	}
	r := callRecv(gc.Common())
	if co, _ := asCall(r); co != nil && calleeName(co.Common()) == "ClientObject" {
		r = callRecv(co.Common())
	}
	return r
}

// c06ConditionsOwner: v is X.GetConditions(); returns X.
func c06ConditionsOwner(v ssa.Value) ssa.Value {
	gc, _ := asCall(v)
	if gc == nil || calleeName(gc.Common()) != "GetConditions" {
		return nil
	}
	return callRecv(gc.Common())
}

func c06r1(c *Ctx) {
	p := c.P
	for _, cs := range p.pfConditionSetsIn(pkgObjectSets, pkgObjSetPhases) {
		if cs.Type != "Available" || cs.Status != "True" {
			continue
		}
		fn := cs.Call.Fn
		o := c.Ob(fn, "Available=True", cs.Call.Instr, c.rule.Statement)
		o.Require("err==nil and ProbingResult.IsZero() of this function's reconcile call", "conditions of the object that was reconciled", "ObservedGeneration == that object's generation")
		fs := p.FactsAt(cs.Call.Instr.Block())
		src, why := p.c06PassResult(fn, fs)
		var bad []string
		if src == nil {
			bad = append(bad, why...)
		}
		X := c06ConditionsOwner(cs.Call.Common.Args[0])
		if X == nil {
			bad = append(bad, "condition list is not <object>.GetConditions()")
		} else {
			if _, isParam := stripConv(X).(*ssa.Parameter); !isParam {
				bad = append(bad, "conditions are written to "+p.describe(X)+", not to the object handed to this reconciler")
			}
			if src != nil {
				uses := false
				for _, a := range src.Common().Args {
					if p.sameValue(a, X) {
						uses = true
					}
				}
				if !uses {
					bad = append(bad, "the reconcile call "+p.describe(src)+" was not made for the object whose condition is written")
				}
			}
			g := c06GenerationOf(cs.Fields["ObservedGeneration"])
			if g == nil || !p.sameValue(g, X) {
				bad = append(bad, "ObservedGeneration is "+p.describe(cs.Fields["ObservedGeneration"])+", not the generation of the reconciled object")
			}
		}
		if len(bad) == 0 {
			o.OK("pass result: " + p.describe(src))
		} else {
			o.Fail("%s", pfJoin(bad))
		}
	}
}

// ---------------------------------------------------------------------------------------------
// R2: provenance of controllerOf

type c06Leaf struct {
	Kind string // empty | GetControllerOf | delegated | literal | unknown
	Val  ssa.Value
}

// c06Implementations: product methods with the given name and an identical signature.
func (p *Program) c06Implementations(name string, sig *types.Signature) []*ssa.Function {
	var out []*ssa.Function
	for _, fn := range p.productFuncs() {
		if fn.Name() != name || fn.Signature.Recv() == nil || fn.Blocks == nil {
			continue
		}
		if types.Identical(types.NewSignatureType(nil, nil, nil, fn.Signature.Params(), fn.Signature.Results(), fn.Signature.Variadic()),
			types.NewSignatureType(nil, nil, nil, sig.Params(), sig.Results(), sig.Variadic())) {
			out = append(out, fn)
		}
	}
	return out
}

func (p *Program) c06Origins(v ssa.Value, depth int, seen map[ssa.Value]bool) []c06Leaf {
	v = stripConv(v)
	if seen[v] {
		return nil
	}
	seen[v] = true
	if depth <= 0 {
		return []c06Leaf{{"unknown", v}}
	}
	var out []c06Leaf
	switch x := v.(type) {
	case *ssa.Const:
		if x.Value == nil {
			return []c06Leaf{{"empty", v}}
		}
	case *ssa.MakeSlice:
		return []c06Leaf{{"empty", v}}
	case *ssa.Phi:
		for _, e := range x.Edges {
			out = append(out, p.c06Origins(e, depth, seen)...)
		}
		return out
	case *ssa.UnOp:
		if x.Op == token.MUL {
			vals := p.possibleValues(x)
			if len(vals) == 1 && vals[0] == ssa.Value(x) {
				break
			}
			for _, pv := range vals {
				out = append(out, p.c06Origins(pv, depth, seen)...)
			}
			return out
		}
	case *ssa.Slice:
		if elems, ok := sliceElems(x); ok {
			for _, e := range elems {
				out = append(out, c06Leaf{"literal", e})
			}
			return out
		}
	case *ssa.Parameter:
		for _, org := range p.c03Origins(x, 1) {
			if org == ssa.Value(x) {
				return []c06Leaf{{"unknown", v}}
			}
			out = append(out, p.c06Origins(org, depth-1, seen)...)
		}
		return out
	case *ssa.Call, *ssa.Extract:
		call, idx := asCall(v)
		if call == nil {
			break
		}
		cc := call.Common()
		if idx < 0 {
			idx = 0
		}
		if b, isB := cc.Value.(*ssa.Builtin); isB && b.Name() == "append" {
			for _, a := range cc.Args {
				out = append(out, p.c06Origins(a, depth, seen)...)
			}
			return out
		}
		if isCallTo(cc, pkgControllers+".GetControllerOf") && idx == 0 {
			return []c06Leaf{{"GetControllerOf", call}}
		}
		if calleeName(cc) == "GetStatusControllerOf" {
			if r := callRecv(cc); r != nil && !p.c06CouldBeObjectSet(r.Type()) && strings.Contains(namedTypeString(r.Type()), "ObjectSetPhase") {
				return []c06Leaf{{"delegated", call}}
			}
			return []c06Leaf{{"unknown", v}}
		}
		var impls []*ssa.Function
		if callee := staticCallee(cc); callee != nil && callee.Blocks != nil {
			impls = []*ssa.Function{callee}
		} else if cc.IsInvoke() {
			impls = p.c06Implementations(cc.Method.Name(), cc.Signature())
		}
		if len(impls) == 0 {
			return []c06Leaf{{"unknown", v}}
		}
		for _, impl := range impls {
			for _, rc := range p.pfReturnCases(impl) {
				if idx < len(rc.Results) {
					out = append(out, p.c06Origins(rc.Results[idx], depth-1, seen)...)
				}
			}
		}
		return out
	}
	return []c06Leaf{{"unknown", v}}
}

func c06r2(c *Ctx) {
	p := c.P
	getControllerOfCalls := map[*ssa.Call]bool{}
	for _, fn := range p.pfFuncsInPkgs(pkgObjectSets, pkgObjSetPhases) {
		for _, cc := range callsIn(fn) {
			if calleeName(cc.Common) != "SetStatusControllerOf" || !cc.Common.IsInvoke() {
				continue
			}
			o := c.Ob(fn, "SetStatusControllerOf", cc.Instr, "the stored controllerOf list originates from IsController-filtered observations of this pass, a delegated phase's report, or is empty")
			leaves := p.c06Origins(cc.Common.Args[0], 6, map[ssa.Value]bool{})
			var bad []string
			kinds := map[string]int{}
			for _, l := range leaves {
				kinds[l.Kind]++
				switch l.Kind {
				case "empty", "delegated":
				case "GetControllerOf":
					getControllerOfCalls[l.Val.(*ssa.Call)] = true
				default:
					at := "-"
					if in, ok := l.Val.(ssa.Instruction); ok {
						at = p.IPos(in)
					}
					bad = append(bad, "an element may originate from "+p.describe(l.Val)+" ("+l.Kind+" at "+at+")")
				}
			}
			if len(leaves) == 0 {
				bad = append(bad, "origin of the argument could not be determined")
			}
			if len(bad) == 0 {
				o.OK(fmt.Sprintf("origins: %v", kinds))
			} else {
				o.Fail("%s", pfJoin(bad))
			}
		}
	}
	// every GetControllerOf feeding the status: owner and objects are this pass's
	for call := range getControllerOfCalls {
		fn := call.Parent()
		o := c.Ob(fn, "GetControllerOf-inputs", call, "GetControllerOf is applied to the reconciled owner and to the objects ReconcilePhase returned for that owner in this pass")
		args := call.Common().Args // ctx, scheme, strategy, owner, actualObjects
		var bad []string
		if len(args) != 5 {
			o.Unknown("unexpected GetControllerOf signature")
			continue
		}
		ownerX := pfAccessorOnParam(args[3], "ClientObject")
		if ownerX == nil {
			bad = append(bad, "owner argument is "+p.describe(args[3])+", not <reconciled object>.ClientObject()")
		}
		for _, org := range p.c03Origins(args[4], 2) {
			rc, idx := asCall(org)
			if rc == nil || idx != 0 || calleeName(rc.Common()) != "ReconcilePhase" {
				bad = append(bad, "object list originates from "+p.describe(org)+", not from ReconcilePhase of this pass")
				continue
			}
			if ownerX != nil && rc.Parent() == fn {
				same := false
				for _, a := range rc.Common().Args {
					if p.sameValue(a, ownerX) {
						same = true
					}
				}
				if !same {
					bad = append(bad, "ReconcilePhase was called for a different owner than GetControllerOf")
				}
			}
			if rc.Parent() == fn && p.errOfCall(p.FactsAt(call.Block()), rc) != yesTri {
				bad = append(bad, "GetControllerOf runs although ReconcilePhase's error is not known nil")
			}
		}
		if len(bad) == 0 {
			o.OK()
		} else {
			o.Fail("%s", pfJoin(bad))
		}
	}
	// GetControllerOf body: appends only under IsController(owner, element)
	if gfn := c.MustFunc(pkgControllers, "GetControllerOf"); gfn != nil {
		o := c.Ob(gfn, "filter", nil, "GetControllerOf reports an object only under IsController(owner, object) and names that very object")
		var bad []string
		n := 0
		ownerParam, listParam := ssa.Value(nil), ssa.Value(nil)
		for _, prm := range gfn.Params {
			if isClientObjectType(prm.Type()) {
				ownerParam = prm
			}
			if sl, ok := prm.Type().Underlying().(*types.Slice); ok && isClientObjectType(sl.Elem()) {
				listParam = prm
			}
		}
		for _, cc := range callsIn(gfn) {
			b, isB := cc.Common.Value.(*ssa.Builtin)
			if !isB || b.Name() != "append" {
				continue
			}
			n++
			elems, ok := sliceElems(cc.Common.Args[1])
			if !ok || len(elems) != 1 {
				bad = append(bad, "append at "+p.IPos(cc.Instr)+" does not add a single literal reference")
				continue
			}
			fields, _, ok := compositeFields(elems[0])
			if !ok {
				bad = append(bad, "appended value is not a literal")
				continue
			}
			nc, _ := asCall(fields["Name"])
			if nc == nil || calleeName(nc.Common()) != "GetName" {
				bad = append(bad, "reference Name is not <object>.GetName()")
				continue
			}
			obj := callRecv(nc.Common())
			if u, isLoad := stripConv(obj).(*ssa.UnOp); !isLoad || func() bool { ia, ok := u.X.(*ssa.IndexAddr); return !ok || ia.X != listParam }() {
				bad = append(bad, "the named object is not an element of the object list parameter")
			}
			guard := false
			for _, f := range p.FactsAt(cc.Instr.Block()) {
				if !f.Pol {
					continue
				}
				fc, _ := asCall(f.Cond)
				if fc == nil {
					continue
				}
				if ow, ob, ok := ownerStrategyCall(fc.Common(), "IsController"); ok && stripConv(ow) == ownerParam && p.sameValue(ob, obj) {
					guard = true
				}
			}
			if !guard {
				bad = append(bad, "append at "+p.IPos(cc.Instr)+" is not guarded by IsController(owner, <that object>) == true")
			}
			ns, _ := asCall(fields["Namespace"])
			if ns == nil || calleeName(ns.Common()) != "GetNamespace" || !p.sameValue(callRecv(ns.Common()), obj) {
				bad = append(bad, "reference Namespace is not taken from the same object")
			}
		}
		if n == 0 {
			o.Unknown("no append found in GetControllerOf")
		} else if len(bad) == 0 {
			o.OK(fmt.Sprintf("%d append(s) guarded", n))
		} else {
			o.Fail("%s", pfJoin(bad))
		}
	}
	// accumulation in the phase loop: every iteration that continues has appended this phase's list
	for _, lc := range p.c03PhaseLoopCalls(pkgObjectSets, pkgObjSetPhases) {
		fn, cv := lc.Fn, lc.Call
		o := c.Ob(fn, "accumulate:"+calleeName(cv.Common()), cv, "every phase that lets the loop continue has contributed its controllerOf list to the accumulated result, which is what the function returns after the loop")
		ri := -1
		for i := 0; i < cv.Common().Signature().Results().Len(); i++ {
			if strings.Contains(cv.Common().Signature().Results().At(i).Type().String(), "ControlledObjectReference") {
				ri = i
			}
		}
		if ri < 0 {
			o.Unknown("phase call does not return a controllerOf list")
			continue
		}
		// alternative phase calls deliver into one variable: the appended list is judged on the
		// paths that executed this call
		w := p.pfAfter(cv)
		isAcc := func(in ssa.Instruction) bool {
			ac, ok := in.(*ssa.Call)
			if !ok {
				return false
			}
			b, isB := ac.Common().Value.(*ssa.Builtin)
			return isB && b.Name() == "append" && len(ac.Common().Args) == 2 && w.isResult(ac.Common().Args[1], ri)
		}
		var bad []string
		for _, t := range loopTailsAfter(cv, lc.Loop) {
			if ok, at := pfEveryPathPasses(cv, t, lc.Loop.Head, isAcc); !ok {
				bad = append(bad, fmt.Sprintf("a path to the next iteration (block %d, %s) does not append this phase's list", at.Index, p.blockPos(at)))
			}
		}
		fri := -1
		for i := 0; i < fn.Signature.Results().Len(); i++ {
			if strings.Contains(fn.Signature.Results().At(i).Type().String(), "ControlledObjectReference") {
				fri = i
			}
		}
		eiFn := pfResultIndex(fn.Signature, "error")
		region := iterRegionOf(cv, lc.Loop)
		if fri < 0 || eiFn < 0 {
			bad = append(bad, "enclosing function does not return the accumulated list")
		} else {
			for _, rc := range p.pfReturnCases(fn) {
				if pfReturnInRegion(rc, region) || !p.pfPossiblyNilUnder(rc.Results[eiFn], rc.Facts) {
					continue
				}
				from := rc.Ret.Block()
				if rc.Pred != nil {
					from = rc.Pred
				}
				if !behindLoop(lc.Loop, from) {
					continue
				}
				for _, pv := range p.possibleValues(rc.Results[fri]) {
					if isNilConst(stripConv(pv)) {
						continue
					}
					if in, ok := pv.(ssa.Instruction); ok && isAcc(in) {
						continue
					}
					if _, isMk := pv.(*ssa.MakeSlice); isMk {
						continue
					}
					bad = append(bad, "the list returned after the loop at "+p.IPos(rc.Ret)+" may be "+p.describe(pv)+", not the accumulated list")
				}
			}
		}
		if len(bad) == 0 {
			o.OK()
		} else {
			o.Fail("%s", pfJoin(bad))
		}
	}
}

// ---------------------------------------------------------------------------------------------
// R3

// c06PatternRequiresSlash: the struct field `field` of named type (pkg.typeName) carries a
// kubebuilder validation pattern that contains an escaped or literal '/' outside optional groups
// (approximation: the pattern text contains `\/`).
func (p *Program) c06FieldPattern(pkgPath, typeName, field string) (string, bool) {
	pk := p.ByPath[pkgPath]
	if pk == nil {
		return "", false
	}
	for _, f := range pk.Syntax {
		var found string
		ast.Inspect(f, func(n ast.Node) bool {
			ts, ok := n.(*ast.TypeSpec)
			if !ok || ts.Name.Name != typeName {
				return true
			}
			st, ok := ts.Type.(*ast.StructType)
			if !ok {
				return false
			}
			for _, fl := range st.Fields.List {
				for _, nm := range fl.Names {
					if nm.Name == field && fl.Doc != nil {
						for _, cm := range fl.Doc.List {
							if i := strings.Index(cm.Text, "+kubebuilder:validation:Pattern="); i >= 0 {
								found = cm.Text[i+len("+kubebuilder:validation:Pattern="):]
							}
						}
					}
				}
			}
			return false
		})
		if found != "" {
			return found, true
		}
	}
	return "", false
}

// c06MappedMeansSlash: controllers.IsMappedCondition(cond) is exactly strings.Contains(cond.Type, "/").
func (p *Program) c06MappedMeansSlash() bool {
	fn := p.Func(pkgControllers, "IsMappedCondition")
	if fn == nil || len(fn.Params) != 1 {
		return false
	}
	rcs := p.pfReturnCases(fn)
	if len(rcs) != 1 {
		return false
	}
	subject, ok := c06ContainsSlash(rcs[0].Results[0])
	if !ok {
		return false
	}
	root, ok := p.pfFieldLoad(subject, "Type")
	return ok && p.pfRootValue(root) == ssa.Value(fn.Params[0])
}

// c06ContainsSlash: v is true exactly when string s contains '/': strings.Contains(s, "/"),
// strings.ContainsRune(s, '/'), strings.ContainsAny(s, "/"), the `found` result of strings.Cut(s, "/"),
// or strings.Index/IndexByte/IndexRune(s, '/') compared with 0 / -1. Returns s.
func c06ContainsSlash(v ssa.Value) (ssa.Value, bool) {
	slash := func(a ssa.Value) bool {
		if isStringConst(a, "/") {
			return true
		}
		n, isInt := constInt(a)
		return isInt && n == '/'
	}
	if call, idx := asCall(v); call != nil {
		if idx < 0 && isCallTo(call.Common(), "strings.Contains", "strings.ContainsRune", "strings.ContainsAny") && len(call.Common().Args) == 2 && slash(call.Common().Args[1]) {
			return call.Common().Args[0], true
		}
		// before, after, found := strings.Cut(s, "/"): found (third result) is Index(s, "/") >= 0.
		// Only the string separator "/" counts (Cut takes a string, not a rune), and only the
		// `found` result: `before`/`after` say nothing about whether the separator occurred.
		if idx == 2 && isCallTo(call.Common(), "strings.Cut") && len(call.Common().Args) == 2 && isStringConst(call.Common().Args[1], "/") {
			return call.Common().Args[0], true
		}
		return nil, false
	}
	if x, trueMeansNegative, ok := pfNegativeTest(v); ok && !trueMeansNegative {
		if call, _ := asCall(x); call != nil && isCallTo(call.Common(), "strings.Index", "strings.IndexByte", "strings.IndexRune") && len(call.Common().Args) == 2 && slash(call.Common().Args[1]) {
			return call.Common().Args[0], true
		}
	}
	return nil, false
}

// c06TypeCannotBeSucceeded decides whether a non-constant condition Type can be "Succeeded".
func (p *Program) c06TypeNotSucceeded(fn *ssa.Function, site ssa.Instruction, typ ssa.Value) (string, bool) {
	if s, ok := constString(typ); ok {
		return "constant " + s, s != "Succeeded"
	}
	// guarded by IsMappedCondition(cond) for the condition whose Type is used
	if root, ok := p.pfFieldLoad(typ, "Type"); ok {
		for _, f := range p.FactsAt(site.Block()) {
			if !f.Pol {
				continue
			}
			fc, _ := asCall(f.Cond)
			if fc == nil || !isCallTo(fc.Common(), pkgControllers+".IsMappedCondition") || !p.c06MappedMeansSlash() {
				continue
			}
			arg := fc.Common().Args[0]
			if u, isLoad := arg.(*ssa.UnOp); isLoad && (u.X == root || p.pfRootValue(u.X) == p.pfRootValue(root)) {
				return "guarded by IsMappedCondition (type contains '/')", true
			}
			if p.sameValue(arg, root) {
				return "guarded by IsMappedCondition (type contains '/')", true
			}
		}
	}
	// value of a map filled from ConditionMapping.DestinationType, whose CRD pattern requires '/'
	if ex, ok := stripConv(typ).(*ssa.Extract); ok {
		if lk, ok := ex.Tuple.(*ssa.Lookup); ok {
			if kv, ok := stripConv(lk.X).(*ssa.MakeMap); ok {
				all, n := true, 0
				for _, r := range referrersOf(kv) {
					mu, isMU := r.(*ssa.MapUpdate)
					if !isMU {
						continue
					}
					n++
					root, isF := p.pfFieldLoad(mu.Value, "DestinationType")
					if !isF || !strings.HasSuffix(namedTypeString(root.Type()), ".ConditionMapping") {
						all = false
					}
				}
				if all && n > 0 {
					pat, ok := p.c06FieldPattern(pkgCoreV1, "ConditionMapping", "DestinationType")
					if ok && strings.Contains(pat, `\/`) && !strings.Contains(pat, `(\/`) {
						return "ConditionMapping.DestinationType, CRD pattern requires '/'", true
					}
					return "ConditionMapping.DestinationType without a validation pattern that excludes plain condition types", false
				}
			}
		}
	}
	return "non-constant type " + p.describe(typ), false
}

func c06r3(c *Ctx) {
	p := c.P
	controlRemovals, sets := 0, 0
	for _, fn := range p.productFuncs() {
		for _, rm := range conditionRemovals(fn) {
			if rel, why := p.c06ObjectSetConditions(rm.Call.Common.Args[0], 3); !rel {
				continue
			} else if why != "" {
				c.Ob(fn, "conditions-owner", rm.Call.Instr, "the owner of a condition list that is modified can be determined").Unknown("%s", why)
				continue
			}
			if rm.Type == "InTransition" {
				controlRemovals++
			}
			if rm.Type == "Succeeded" {
				c.Ob(fn, "remove-Succeeded", rm.Call.Instr, "Succeeded is never removed").Fail("meta.RemoveStatusCondition(_, Succeeded)")
				continue
			}
			if rm.Type == "" {
				o := c.Ob(fn, "remove-dynamic-type", rm.Call.Instr, "a condition removal with a computed type cannot hit Succeeded")
				if why, ok := p.c06TypeNotSucceeded(fn, rm.Call.Instr, rm.Call.Common.Args[1]); ok {
					o.OK(why)
				} else {
					o.Fail("%s", why)
				}
			}
		}
		for _, cs := range conditionSets(fn) {
			if rel, why := p.c06ObjectSetConditions(cs.Call.Common.Args[0], 3); !rel {
				continue
			} else if why != "" {
				c.Ob(fn, "conditions-owner", cs.Call.Instr, "the owner of a condition list that is modified can be determined").Unknown("%s", why)
				continue
			}
			switch {
			case cs.Type == "Succeeded":
				if pfDeadByFacts(p.FactsAt(cs.Call.Instr.Block())) {
					continue // copy of the write under a constant-false guard (never executes)
				}
				sets++
				o := c.Ob(fn, "set-Succeeded", cs.Call.Instr, "Succeeded is set to True only, under Available=True of this pass, survived delay and not in transition")
				var bad []string
				if cs.Status != "True" {
					bad = append(bad, "Succeeded is written with status "+cs.Status)
				}
				fs := p.FactsAt(cs.Call.Instr.Block())
				if src, why := p.c06PassResult(fn, fs); src == nil {
					bad = append(bad, why...)
				}
				availSet := false
				for _, other := range conditionSets(fn) {
					if other.Type == "Available" && other.Status == "True" && p.mustPrecede(cs.Call.Instr, func(in ssa.Instruction) bool { return in == other.Call.Instr }) {
						availSet = true
					}
				}
				if !availSet {
					bad = append(bad, "not preceded by the Available=True write of this pass")
				}
				if !p.mwHoldsOnAllPaths(cs.Call.Instr.Block(), func(fs []Fact) bool { return p.c06DelaySurvived(fs, 0) }) {
					bad = append(bad, "not guarded by hasSurvivedDelay")
				}
				inTr := false
				for _, f := range fs {
					fc, _ := asCall(f.Cond)
					if !f.Pol && fc != nil && p.c06IsTransitionTest(fc) {
						inTr = true
					}
				}
				if !inTr {
					bad = append(bad, "not guarded by !inTransition")
				}
				if len(bad) == 0 {
					o.OK()
				} else {
					o.Fail("%s", pfJoin(bad))
				}
			case cs.Type == "" && cs.Fields != nil:
				o := c.Ob(fn, "set-dynamic-type", cs.Call.Instr, "a condition written with a computed type cannot be Succeeded")
				if why, ok := p.c06TypeNotSucceeded(fn, cs.Call.Instr, cs.Fields["Type"]); ok {
					o.OK(why)
				} else {
					o.Fail("%s", why)
				}
			case cs.Fields == nil:
				c.Ob(fn, "set-opaque", cs.Call.Instr, "condition writes use literals").Unknown("SetStatusCondition with a non-literal condition")
			}
		}
		// wholesale replacement of a status condition list (generated deep-copy code of the API
		// module is not controller logic)
		if !strings.HasPrefix(funcPkgPath(fn), modPKO+"/internal/") && !strings.HasPrefix(funcPkgPath(fn), modPKO+"/cmd/") {
			continue
		}
		for _, b := range fn.Blocks {
			for _, in := range b.Instrs {
				st, ok := in.(*ssa.Store)
				if !ok {
					continue
				}
				if owner := c06ConditionsOwner(st.Addr); owner != nil && p.c06CouldBeObjectSet(owner.Type()) {
					c.Ob(fn, "replace-conditions", st, "status conditions are never replaced wholesale").Fail("the condition list of %s is overwritten through GetConditions()", p.describe(owner))
					continue
				}
				fa, ok := st.Addr.(*ssa.FieldAddr)
				if !ok || fieldName(fa.X.Type(), fa.Field) != "Conditions" {
					continue
				}
				tn := namedTypeString(fa.X.Type())
				if strings.HasSuffix(tn, "ObjectSetStatus") || strings.HasSuffix(tn, "ObjectSetPhaseStatus") {
					c.Ob(fn, "replace-conditions", st, "status conditions are never replaced wholesale").Fail("store to %s.Conditions", tn)
				}
			}
		}
	}
	o := c.Ob(nil, "positive-control", nil, "the removal matcher finds the known RemoveStatusCondition(InTransition) site and exactly the reviewed Succeeded writer")
	if controlRemovals == 0 || sets == 0 {
		o.Fail("positive control lost: %d InTransition removal(s), %d Succeeded write(s) found", controlRemovals, sets)
	} else {
		o.OK(fmt.Sprintf("%d InTransition removal(s), %d Succeeded write(s)", controlRemovals, sets))
	}
}

// c06ObjectSetConditions: may the condition list `conds` belong to an ObjectSet / ClusterObjectSet?
// Decided by the static type of the value GetConditions() is called on (an interface the ObjectSet
// adapters implement, or an adapter type itself), following pointer parameters to their call sites.
// why != "" means the owner could not be determined.
func (p *Program) c06ObjectSetConditions(conds ssa.Value, depth int) (relevant bool, why string) {
	conds = stripConv(conds)
	if u, ok := conds.(*ssa.UnOp); ok && u.Op == token.MUL {
		conds = u.X
	}
	if owner := c06ConditionsOwner(conds); owner != nil {
		return p.c06CouldBeObjectSet(owner.Type()), ""
	}
	if fa, ok := conds.(*ssa.FieldAddr); ok {
		tn := namedTypeString(fa.X.Type())
		return strings.HasSuffix(tn, ".ObjectSetStatus") || strings.HasSuffix(tn, ".ClusterObjectSetStatus"), ""
	}
	if prm, ok := conds.(*ssa.Parameter); ok && depth > 0 {
		orgs := p.c03Origins(prm, 1)
		if len(orgs) == 1 && orgs[0] == ssa.Value(prm) {
			return true, "condition list parameter " + prm.Name() + " of " + shortFuncID(prm.Parent()) + " has no visible call sites"
		}
		for _, org := range orgs {
			rel, w := p.c06ObjectSetConditions(org, depth-1)
			if w != "" {
				return true, w
			}
			if rel {
				return true, ""
			}
		}
		return false, ""
	}
	return true, "condition list " + p.describe(conds) + " is not <object>.GetConditions()"
}

func (p *Program) c06CouldBeObjectSet(t types.Type) bool {
	pk := p.ByPath[pkgAdapters]
	if pk == nil {
		return true
	}
	for _, name := range []string{"ObjectSetAdapter", "ClusterObjectSetAdapter"} {
		obj := pk.Types.Scope().Lookup(name)
		if obj == nil {
			return true // anchor lost: stay conservative
		}
		pt := types.NewPointer(obj.Type())
		if iface, ok := t.Underlying().(*types.Interface); ok {
			if types.Implements(pt, iface) {
				return true
			}
			continue
		}
		if types.Identical(t, pt) {
			return true
		}
	}
	return false
}

// c06DelaySurvived: the facts establish that the success delay has elapsed — the guard the
// reconciler's hasSurvivedDelay gives, judged by what it tests rather than by its name:
//   - `X.GetSuccessDelaySeconds() == 0` (no delay configured), or
//   - `<clock>.Now().After(T)` / `T.Before(<clock>.Now())` with T computed from the
//     LastTransitionTime of a condition, or
//   - a true result of a workspace predicate each of whose possibly-true returns establishes one of
//     the above (the helper itself, under any name, as a method or a function).
//
// A disjunction of the first two is recognised by the callers through mwHoldsOnAllPaths /
// mwHoldsCaseSplit (each way into the guarded block establishes one of them).
func (p *Program) c06DelaySurvived(fs []Fact, depth int) bool {
	isNow := func(v ssa.Value) bool {
		call, _ := asCall(v)
		return call != nil && calleeName(call.Common()) == "Now" && len(callArgs(call.Common())) == 0
	}
	for _, f := range fs {
		if b, ok := f.Cond.(*ssa.BinOp); ok && (b.Op == token.EQL || b.Op == token.NEQ) && (b.Op == token.EQL) == f.Pol {
			for _, pair := range [][2]ssa.Value{{b.X, b.Y}, {b.Y, b.X}} {
				if k, isC := constInt(pair[1]); isC && k == 0 {
					if g, _ := asCall(pair[0]); g != nil && calleeName(g.Common()) == "GetSuccessDelaySeconds" {
						return true
					}
				}
			}
		}
		call, _ := asCall(f.Cond)
		if call == nil || !f.Pol {
			continue
		}
		switch calleeID(call.Common()) {
		case "(time.Time).After":
			if a := call.Common().Args; len(a) == 2 && isNow(a[0]) && c06MentionsField(a[1], "LastTransitionTime", 0) {
				return true
			}
		case "(time.Time).Before":
			if a := call.Common().Args; len(a) == 2 && isNow(a[1]) && c06MentionsField(a[0], "LastTransitionTime", 0) {
				return true
			}
		}
		g := staticCallee(call.Common())
		if g == nil || g.Blocks == nil || depth > 1 || !strings.HasPrefix(funcPkgPath(g), modPKO) {
			continue
		}
		if r := g.Signature.Results(); r.Len() != 1 || r.At(0).Type().String() != "bool" {
			continue
		}
		all, n := true, 0
		for _, rc := range p.returnCases(g) {
			res := rc.Results[0]
			facts := rc.Facts
			if cb, isC := constBool(res); isC {
				if !cb {
					continue
				}
			} else {
				facts = append(append([]Fact{}, facts...), p.mkFact(res, true))
			}
			n++
			pred := func(fs []Fact) bool { return p.c06DelaySurvived(fs, depth+1) }
			if p.mwHoldsCaseSplit(facts, pred, 0) {
				continue
			}
			if _, isC := constBool(res); isC && rc.Pred == nil && p.mwHoldsOnAllPaths(rc.Ret.Block(), pred) {
				continue
			}
			all = false
		}
		if all && n > 0 {
			return true
		}
	}
	return false
}

// c06MentionsField: the computation of v reads a struct field with that name.
func c06MentionsField(v ssa.Value, field string, d int) bool {
	if d > 8 || v == nil {
		return false
	}
	switch x := stripConv(v).(type) {
	case *ssa.BinOp:
		return c06MentionsField(x.X, field, d+1) || c06MentionsField(x.Y, field, d+1)
	case *ssa.Phi:
		for _, e := range x.Edges {
			if c06MentionsField(e, field, d+1) {
				return true
			}
		}
	case *ssa.Call:
		for _, a := range x.Common().Args {
			if c06MentionsField(a, field, d+1) {
				return true
			}
		}
	case *ssa.Convert:
		return c06MentionsField(x.X, field, d+1)
	case *ssa.Extract:
		return c06MentionsField(x.Tuple, field, d+1)
	case *ssa.Field:
		return fieldName(x.X.Type(), x.Field) == field || c06MentionsField(x.X, field, d+1)
	case *ssa.FieldAddr:
		return fieldName(x.X.Type(), x.Field) == field || c06MentionsField(x.X, field, d+1)
	case *ssa.UnOp:
		return c06MentionsField(x.X, field, d+1)
	}
	return false
}

// c06IsTransitionTest: a static call with signature (<ObjectSet>, []ControlledObjectReference) bool,
// where <ObjectSet> is the ObjectSetAccessor or any other (non-empty) interface the ObjectSet adapters
// satisfy — a parameter narrowed to the methods the test uses is still given the ObjectSet.
func (p *Program) c06IsTransitionTest(call *ssa.Call) bool {
	callee := staticCallee(call.Common())
	if callee == nil {
		return false
	}
	sig := callee.Signature
	isSet := func(t types.Type) bool {
		if isObjectSetAccessorType(t) {
			return true
		}
		iface, ok := t.Underlying().(*types.Interface)
		return ok && iface.NumMethods() > 0 && p.c06CouldBeObjectSet(t)
	}
	return sig.Params().Len() == 2 && isSet(sig.Params().At(0).Type()) &&
		strings.Contains(sig.Params().At(1).Type().String(), "ControlledObjectReference") &&
		sig.Results().Len() == 1 && sig.Results().At(0).Type().String() == "bool"
}

// ---------------------------------------------------------------------------------------------
// R4

func c06r4(c *Ctx) {
	p := c.P
	tests := map[*ssa.Function]bool{}
	for _, fn := range p.pfFuncsInPkgs(pkgObjectSets) {
		for _, rm := range conditionRemovals(fn) {
			if rm.Type != "InTransition" {
				continue
			}
			o := c.Ob(fn, "remove-InTransition", rm.Call.Instr, "InTransition is removed only when the transition test over the controllerOf list stored in this pass is false")
			var test *ssa.Call
			for _, f := range p.FactsAt(rm.Call.Instr.Block()) {
				fc, _ := asCall(f.Cond)
				if !f.Pol && fc != nil && p.c06IsTransitionTest(fc) {
					test = fc
				}
			}
			if test == nil {
				o.Fail("the removal is not guarded by <transition test>(objectSet, controllerOf) == false")
				continue
			}
			tests[staticCallee(test.Common())] = true
			X := c06ConditionsOwner(rm.Call.Common.Args[0])
			var bad []string
			if X == nil || !p.sameValue(test.Common().Args[0], X) {
				bad = append(bad, "the transition test is about a different object than the one whose condition is removed")
			}
			stored := false
			for _, cc := range callsIn(fn) {
				if calleeName(cc.Common) == "SetStatusControllerOf" && X != nil && p.sameValue(cc.Common.Value, X) && p.sameValue(cc.Common.Args[0], test.Common().Args[1]) {
					stored = true
				}
			}
			if !stored {
				bad = append(bad, "the list tested is not the list stored with SetStatusControllerOf in this pass")
			}
			if src, _ := p.c06PassResult(fn, nil); src == nil {
				// identify the pass call differently: the tested list must be result 0 of the reconcile call
				var pass *ssa.Call
				for _, cc := range callsIn(fn) {
					if cv, ok := cc.Instr.(*ssa.Call); ok && pfResultIndex(cc.Common.Signature(), pfTypProbingResult) >= 0 && p.pfIsResultOf(test.Common().Args[1], cv, 0) {
						pass = cv
					}
				}
				if pass == nil {
					bad = append(bad, "the tested list is not the controllerOf result of this pass's reconcile call")
				} else if p.errOfCall(p.FactsAt(rm.Call.Instr.Block()), pass) != yesTri {
					bad = append(bad, "the reconcile call's error is not known nil")
				}
			}
			if len(bad) == 0 {
				o.OK("guard: " + p.describe(test) + " == false")
			} else {
				o.Fail("%s", pfJoin(bad))
			}
		}
	}
	for tf := range tests {
		o := c.Ob(tf, "transition-test", nil, "the transition test answers false only for archived sets or when every object of every phase was matched by a controllerOf entry")
		acc, refs := tf.Params[0], tf.Params[1]
		var bad []string
		var m *ssa.MakeMap
		var mAlias ssa.Value
		for _, rc := range p.pfReturnCases(tf) {
			r := rc.Results[0]
			if b, isC := constBool(r); isC {
				if b {
					continue
				}
				if _, ok := p.findFactCall(rc.Facts, true, []string{"method:IsArchived"}, func(cc *ssa.CallCommon) bool { return stripConv(cc.Value) == ssa.Value(acc) }); !ok {
					bad = append(bad, "constant false at "+p.IPos(rc.Ret)+" without IsArchived()")
				}
				continue
			}
			x, nonEmptyWhenTrue, ok := lenCmp(r)
			// the set may be built by an extracted helper that returns it: the map is then known in
			// tf as the helper's result and in the helper as the MakeMap
			var mm *ssa.MakeMap
			if ok {
				if vals := p.possibleValuesX(x); len(vals) == 1 {
					mm, _ = vals[0].(*ssa.MakeMap)
				}
			}
			if !ok || !nonEmptyWhenTrue || mm == nil {
				bad = append(bad, "result at "+p.IPos(rc.Ret)+" is not `len(<remaining objects>) > 0`")
				continue
			}
			m = mm
			if stripConv(x) != ssa.Value(mm) {
				mAlias = stripConv(x)
			}
		}
		if m != nil {
			inserts := 0
			refsOfMap := referrersOf(m)
			if mAlias != nil {
				refsOfMap = append(append([]ssa.Instruction{}, refsOfMap...), referrersOf(mAlias)...)
			}
			for _, r := range refsOfMap {
				switch x := r.(type) {
				case *ssa.MapUpdate:
					inserts++
					bf := x.Parent() // the function that fills the set: tf or the extracted builder
					inner := innermostLoop(bf, x.Block())
					okNest := false
					if inner != nil {
						for _, l := range loopsOf(bf) {
							if l == inner || !l.Body[inner.Head] {
								continue
							}
							// outer loop walks GetPhases() of the accessor, inner loop walks .Objects
							outerOK, innerOK := false, false
							for b := range l.Body {
								for _, in := range b.Instrs {
									if ia, isIA := in.(*ssa.IndexAddr); isIA {
										if prm := pfAccessorOnParam(ia.X, "GetPhases"); prm != nil && (prm == acc || stripConv(p.mwThroughParam(prm)) == stripConv(p.mwThroughParam(acc))) {
											outerOK = true
										}
									}
								}
							}
							var elemAddr ssa.Instruction
							for b := range inner.Body {
								for _, in := range b.Instrs {
									if ia, isIA := in.(*ssa.IndexAddr); isIA {
										if _, isF := p.pfFieldLoad(ia.X, "Objects"); isF {
											if _, okDir := p.pfIndexDirection(ia.Index, ia.X, inner); okDir {
												innerOK = true
												elemAddr = ia
											}
										}
									}
								}
							}
							if outerOK && innerOK {
								okNest = true
								for _, t := range inner.Tails {
									if ok, _ := pfEveryPathPasses(elemAddr, t, inner.Head, func(in ssa.Instruction) bool { return in == ssa.Instruction(x) }); !ok {
										bad = append(bad, "some objects are skipped when building the set of objects that must be controlled")
									}
								}
							}
						}
					}
					if !okNest {
						bad = append(bad, "insert at "+p.IPos(x)+" is not inside a walk over every object of every phase")
					}
				case *ssa.Call:
					if b, isB := x.Common().Value.(*ssa.Builtin); isB && b.Name() == "delete" {
						for _, pv := range p.possibleValues(x.Common().Args[1]) {
							u, isLoad := pv.(*ssa.UnOp)
							okKey := false
							if isLoad {
								if ia, isIA := u.X.(*ssa.IndexAddr); isIA && ia.X == ssa.Value(refs) {
									okKey = true
								}
							}
							if !okKey && c06MatchedMapKey(p, x, pv, refs) {
								okKey = true
							}
							if !okKey {
								bad = append(bad, "delete at "+p.IPos(x)+" removes an entry that is not keyed by a controllerOf element ("+p.describe(pv)+")")
							}
						}
					}
				}
			}
			if inserts == 0 {
				bad = append(bad, "the remaining-objects set is never filled")
			}
		}
		if len(bad) == 0 && m != nil {
			o.OK()
		} else if m == nil && len(bad) == 0 {
			o.Unknown("shape of the transition test not recognised")
		} else {
			o.Fail("%s", pfJoin(bad))
		}
	}
}

// c06MatchedMapKey: the deleted key is the key of a range over the same map and the delete is
// guarded by Kind, Group and Name equality with a controllerOf element.
func c06MatchedMapKey(p *Program, del *ssa.Call, key ssa.Value, refs ssa.Value) bool {
	ex, ok := key.(*ssa.Extract)
	if !ok {
		return false
	}
	if _, isNext := ex.Tuple.(*ssa.Next); !isNext {
		return false
	}
	fromRefs := func(v ssa.Value) bool {
		for _, pv := range p.possibleValues(v) {
			u, isLoad := pv.(*ssa.UnOp)
			if !isLoad {
				return false
			}
			ia, isIA := u.X.(*ssa.IndexAddr)
			if !isIA || ia.X != refs {
				return false
			}
		}
		return true
	}
	rootIs := func(fieldVal ssa.Value, name string, want func(ssa.Value) bool) bool {
		root, ok := p.pfFieldLoad(fieldVal, name)
		if !ok {
			return false
		}
		if a, isA := root.(*ssa.Alloc); isA {
			af := p.allocInfo(a)
			if len(af.stores) == 0 {
				return false
			}
			return want(af.stores[0].Val)
		}
		return want(root)
	}
	need := map[string]bool{"Kind": false, "Group": false, "Name": false}
	for _, f := range p.FactsAt(del.Block()) {
		b, isBin := f.Cond.(*ssa.BinOp)
		if !isBin || b.Op != token.EQL || !f.Pol {
			continue
		}
		for name := range need {
			isKey := func(v ssa.Value) bool { return v == key }
			if (rootIs(b.X, name, isKey) && rootIs(b.Y, name, fromRefs)) || (rootIs(b.Y, name, isKey) && rootIs(b.X, name, fromRefs)) {
				need[name] = true
			}
		}
	}
	return need["Kind"] && need["Group"] && need["Name"]
}

// ---------------------------------------------------------------------------------------------
// R5

func isControllerReconcile(fn *ssa.Function) bool {
	if fn.Name() != "Reconcile" || fn.Signature.Recv() == nil || fn.Parent() != nil {
		return false
	}
	for i := 0; i < fn.Signature.Params().Len(); i++ {
		if strings.HasSuffix(namedTypeString(fn.Signature.Params().At(i).Type()), "/reconcile.Request") {
			return true
		}
	}
	return false
}

// c06ReconciledObject: the object fetched by the first reader Get of a controller Reconcile:
// returns X (accessor value) and the Get call.
func (p *Program) c06ReconciledObject(fn *ssa.Function) (ssa.Value, *ssa.Call) {
	for _, cc := range callsIn(fn) {
		cv, ok := cc.Instr.(*ssa.Call)
		if !ok || !isReaderGet(cc.Common) {
			continue
		}
		co, _ := asCall(callArgs(cc.Common)[2])
		if co != nil && calleeName(co.Common()) == "ClientObject" {
			return p.pfRootValue(callRecv(co.Common())), cv
		}
	}
	return nil, nil
}

func (p *Program) c06ArgIsObject(a, X ssa.Value) bool {
	// the object may be handed over as a narrower interface (implicit conversion at the call)
	r := p.pfRootValue(stripConv(a))
	if r == X {
		return true
	}
	if co, _ := asCall(r); co != nil && calleeName(co.Common()) == "ClientObject" {
		return p.pfRootValue(callRecv(co.Common())) == X
	}
	return false
}

// ---- deferred calls on the reconciled object: "observes only"
//
// A deferred call runs on every way out of Reconcile, also for an archived ObjectSet. It does not
// touch the object when everything it does with it is reading: accessor calls on the object (or on
// what such accessors return), pure functions, and workspace functions / interface implementations
// that in turn only read what they are given. Writing through the object, a client write, a
// non-accessor method, handing the object to code without a body or storing it away are touches
// (or cannot be decided). Judged identically for a deferred closure that captures the object and
// for a deferred method that receives it as an argument.

func c06RefType(t types.Type) bool {
	switch t.Underlying().(type) {
	case *types.Pointer, *types.Interface, *types.Slice, *types.Map:
		return true
	}
	return false
}

type c06Observer struct {
	p     *Program
	fn    *ssa.Function
	seed  func(ssa.Value) bool
	holds map[*ssa.Alloc]bool // locals that hold a derived value
	busy  map[ssa.Value]bool
}

// derived: v is the object, a view of it, or reference-typed data obtained from it by accessors.
func (ob *c06Observer) derived(v ssa.Value) bool {
	v = stripConv(v)
	if v == nil || ob.busy[v] {
		return false
	}
	if ob.seed(v) {
		return true
	}
	ob.busy[v] = true
	defer delete(ob.busy, v)
	switch x := v.(type) {
	case *ssa.Call:
		if !c06RefType(x.Type()) {
			return false
		}
		cc := x.Common()
		if r := callRecv(cc); r != nil && ob.derived(r) && isAccessorName(calleeName(cc)) {
			return true
		}
	case *ssa.UnOp:
		if x.Op != token.MUL {
			return false
		}
		if a, ok := x.X.(*ssa.Alloc); ok {
			return ob.holds[a]
		}
		return c06RefType(x.Type()) && ob.derived(x.X)
	case *ssa.TypeAssert:
		return ob.derived(x.X)
	case *ssa.Extract:
		if ta, ok := x.Tuple.(*ssa.TypeAssert); ok && x.Index == 0 {
			return ob.derived(ta.X)
		}
	case *ssa.Phi:
		for _, e := range x.Edges {
			if ob.derived(e) {
				return true
			}
		}
	case *ssa.FieldAddr:
		return ob.derived(x.X)
	case *ssa.IndexAddr:
		return ob.derived(x.X)
	case *ssa.Field:
		return c06RefType(x.Type()) && ob.derived(x.X)
	case *ssa.Slice:
		return ob.derived(x.X)
	}
	return false
}

// c06FuncObserves: fn only reads the values selected by seed. "" when so, else why not; touch
// reports that a modification was identified (as opposed to: cannot be decided).
func (p *Program) c06FuncObserves(fn *ssa.Function, seed func(ssa.Value) bool, depth int) (why string, touch bool) {
	if fn == nil || fn.Blocks == nil {
		return "no body", false
	}
	ob := &c06Observer{p: p, fn: fn, seed: seed, holds: map[*ssa.Alloc]bool{}, busy: map[ssa.Value]bool{}}
	for changed, n := true, 0; changed && n < 4; n++ {
		changed = false
		for _, b := range fn.Blocks {
			for _, in := range b.Instrs {
				if st, ok := in.(*ssa.Store); ok {
					if a, isA := st.Addr.(*ssa.Alloc); isA && !ob.holds[a] && c06RefType(st.Val.Type()) && ob.derived(st.Val) {
						ob.holds[a], changed = true, true
					}
				}
			}
		}
	}
	for _, b := range fn.Blocks {
		for _, in := range b.Instrs {
			switch x := in.(type) {
			case *ssa.Store:
				if a, isA := x.Addr.(*ssa.Alloc); isA && ob.holds[a] {
					continue
				}
				if ob.derived(x.Addr) {
					return "writes through the object at " + p.IPos(x), true
				}
				if c06RefType(x.Val.Type()) && ob.derived(x.Val) {
					return "stores the object away at " + p.IPos(x), false
				}
			case *ssa.MapUpdate:
				if ob.derived(x.Map) {
					return "writes into a map of the object at " + p.IPos(x), true
				}
				if c06RefType(x.Value.Type()) && ob.derived(x.Value) {
					return "stores the object away at " + p.IPos(x), false
				}
			case *ssa.Send:
				if c06RefType(x.X.Type()) && ob.derived(x.X) {
					return "sends the object away at " + p.IPos(x), false
				}
			case *ssa.MakeClosure:
				if w, t := p.c06ClosureObserves(x, ob.derived, func(a *ssa.Alloc) bool { return ob.holds[a] }, depth); w != "" {
					return w, t
				}
			case ssa.CallInstruction:
				if w, t := p.c06CallObserves(x, ob.derived, func(a *ssa.Alloc) bool { return ob.holds[a] }, depth); w != "" {
					return w, t
				}
			}
		}
	}
	return "", false
}

// c06ClosureObserves: a closure that captures the object (by value or through the local holding it).
func (p *Program) c06ClosureObserves(mc *ssa.MakeClosure, derived func(ssa.Value) bool, holds func(*ssa.Alloc) bool, depth int) (string, bool) {
	fn, _ := mc.Fn.(*ssa.Function)
	byVal, byRef := map[*ssa.FreeVar]bool{}, map[*ssa.FreeVar]bool{}
	for i, bnd := range mc.Bindings {
		if fn == nil || i >= len(fn.FreeVars) {
			break
		}
		if a, isA := bnd.(*ssa.Alloc); isA && holds(a) {
			byRef[fn.FreeVars[i]] = true
		} else if c06RefType(bnd.Type()) && derived(bnd) {
			byVal[fn.FreeVars[i]] = true
		}
	}
	if len(byVal)+len(byRef) == 0 {
		return "", false
	}
	if depth <= 0 {
		return "closure " + mc.Name() + " not examined (nesting too deep)", false
	}
	return p.c06FuncObserves(fn, func(v ssa.Value) bool {
		if fv, ok := v.(*ssa.FreeVar); ok {
			return byVal[fv]
		}
		if u, ok := v.(*ssa.UnOp); ok && u.Op == token.MUL {
			if fv, ok := u.X.(*ssa.FreeVar); ok {
				return byRef[fv]
			}
		}
		return false
	}, depth-1)
}

// c06CallObserves judges one call that may receive the object.
func (p *Program) c06CallObserves(ci ssa.CallInstruction, derived func(ssa.Value) bool, holds func(*ssa.Alloc) bool, depth int) (string, bool) {
	cc := ci.Common()
	recv := callRecv(cc)
	recvDerived := recv != nil && derived(recv)
	argDerived := make([]bool, len(cc.Args))
	any := recvDerived
	for i, a := range cc.Args {
		if c06RefType(a.Type()) && derived(a) {
			argDerived[i], any = true, true
		}
	}
	mc, isClosure := cc.Value.(*ssa.MakeClosure)
	if !any {
		if isClosure {
			return p.c06ClosureObserves(mc, derived, holds, depth) // `defer func() { … }()`
		}
		return "", false
	}
	name := calleeName(cc)
	at := " at " + p.IPos(ci)
	if w, isW := classifyWriter(Call{Instr: ci, Common: cc, Fn: ci.Parent()}); isW {
		return "writes the object with " + w.Verb + at, true
	}
	if recvDerived && isAccessorName(name) {
		return "", false
	}
	if recvDerived {
		return "calls " + name + " on the object" + at, strings.HasPrefix(name, "Set") || strings.HasPrefix(name, "Remove")
	}
	id := calleeID(cc)
	if pureFuncs[id] || id == "builtin:len" || id == "builtin:cap" {
		return "", false
	}
	if depth <= 0 {
		return "hands the object to " + name + at + " (not examined: nesting too deep)", false
	}
	if callee := staticCallee(cc); callee != nil {
		if callee.Blocks == nil {
			return "hands the object to " + id + at + ", which is not known to be read-only", false
		}
		if isClosure {
			if w, t := p.c06ClosureObserves(mc, derived, holds, depth); w != "" {
				return w, t
			}
		}
		return p.c06FuncObserves(callee, func(v ssa.Value) bool {
			prm, ok := v.(*ssa.Parameter)
			if !ok {
				return false
			}
			for i, q := range callee.Params {
				if q == prm && i < len(argDerived) {
					return argDerived[i]
				}
			}
			return false
		}, depth-1)
	}
	if cc.IsInvoke() {
		iface := ifaceOf(cc.Value)
		var impls []*ssa.Function
		if iface != nil {
			impls = p.implementationsOf(iface, cc.Method.Name())
		}
		if len(impls) == 0 {
			return "hands the object to " + id + at + ", which has no implementation in the workspace", false
		}
		for _, impl := range impls {
			impl := impl
			w, t := p.c06FuncObserves(impl, func(v ssa.Value) bool {
				prm, ok := v.(*ssa.Parameter)
				if !ok {
					return false
				}
				for i, q := range impl.Params {
					if q == prm && i >= 1 && i-1 < len(argDerived) {
						return argDerived[i-1]
					}
				}
				return false
			}, depth-1)
			if w != "" {
				return shortFuncID(impl) + " " + w, t
			}
		}
		return "", false
	}
	return "hands the object to a function value" + at, false
}

func c06r5(c *Ctx) {
	p := c.P
	for _, fn := range p.pfFuncsInPkgs(pkgObjectSets) {
		if !isControllerReconcile(fn) {
			continue
		}
		X, get := p.c06ReconciledObject(fn)
		if X == nil {
			c.Ob(fn, "archived-short-circuit", nil, c.rule.Statement).Unknown("the object read at the start of Reconcile was not found")
			continue
		}
		archivedFalse := func(fs []Fact) bool {
			_, ok := p.findFactCall(fs, false, []string{pkgMeta + ".IsStatusConditionTrue"}, func(cc *ssa.CallCommon) bool {
				if len(cc.Args) != 2 || !isStringConst(cc.Args[1], "Archived") {
					return false
				}
				conds := cc.Args[0]
				if u, ok := conds.(*ssa.UnOp); ok && u.Op == token.MUL {
					conds = u.X
				}
				owner := c06ConditionsOwner(conds)
				return owner != nil && p.pfRootValue(owner) == X
			})
			return ok
		}
		isObj := func(v ssa.Value) bool { return p.c06ArgIsObject(v, X) }
		isObjLocal := func(v ssa.Value) bool {
			a, ok := v.(*ssa.Alloc)
			return ok && p.pfRootValue(a) == X
		}
		for _, cc := range callsIn(fn) {
			if cc.Instr == ssa.CallInstruction(get) {
				continue
			}
			touches := false
			for _, a := range cc.Common.Args {
				if p.c06ArgIsObject(a, X) {
					touches = true
				}
			}
			if cc.Common.IsInvoke() && p.pfRootValue(cc.Common.Value) == X {
				if isAccessorName(cc.Common.Method.Name()) {
					continue
				}
				touches = true
			}
			_, isDefer := cc.Instr.(*ssa.Defer)
			if mc, isMC := cc.Common.Value.(*ssa.MakeClosure); isMC && isDefer {
				for _, bnd := range mc.Bindings {
					if isObjLocal(bnd) || (c06RefType(bnd.Type()) && isObj(bnd)) {
						touches = true // `defer func() { … objectSet … }()`
					}
				}
			}
			if !touches {
				continue
			}
			if isDefer {
				// runs on every way out, also for an archived ObjectSet: must only observe the object
				o := c.Ob(fn, "touch:"+calleeName(cc.Common), cc.Instr, "a deferred call, which also runs for an ObjectSet whose Archived condition is True, only observes the reconciled object")
				ob := &c06Observer{p: p, fn: fn, seed: isObj, holds: map[*ssa.Alloc]bool{}, busy: map[ssa.Value]bool{}}
				why, touch := p.c06CallObserves(cc.Instr, ob.derived, func(a *ssa.Alloc) bool { return isObjLocal(a) }, 4)
				switch {
				case why == "":
					o.OK("observes only")
				case touch:
					o.Fail("deferred call on the reconciled object %s", why)
				default:
					o.Unknown("deferred call on the reconciled object: %s", why)
				}
				continue
			}
			o := c.Ob(fn, "touch:"+calleeName(cc.Common), cc.Instr, "every use of the reconciled ObjectSet after it was read happens only when its Archived condition is not True")
			if archivedFalse(p.FactsAt(cc.Instr.Block())) {
				o.OK()
			} else {
				o.Fail("%s is reachable for an ObjectSet whose Archived condition is True (no IsStatusConditionTrue(conditions, Archived)==false guard)", p.describe(cc.Instr.(ssa.Value)))
			}
		}
	}
	// completion of archival
	for _, cs := range p.pfConditionSetsIn(pkgObjectSets) {
		if cs.Type != "Archived" || cs.Status != "True" {
			continue
		}
		fn := cs.Call.Fn
		o := c.Ob(fn, "archival-complete", cs.Call.Instr, "when Archived=True is written, the Available condition is removed and controllerOf is emptied in the same activation")
		X := c06ConditionsOwner(cs.Call.Common.Args[0])
		var bad []string
		rmAvail := func(in ssa.Instruction) bool {
			ci, ok := in.(ssa.CallInstruction)
			if !ok || !isCallTo(ci.Common(), pkgMeta+".RemoveStatusCondition") || len(ci.Common().Args) != 2 {
				return false
			}
			return isStringConst(ci.Common().Args[1], "Available") && X != nil && p.sameValue(c06ConditionsOwner(ci.Common().Args[0]), X)
		}
		deferred := p.mustPrecede(cs.Call.Instr, func(in ssa.Instruction) bool { _, isD := in.(*ssa.Defer); return isD && rmAvail(in) })
		after := p.mustFollow(cs.Call.Instr, func(in ssa.Instruction) bool { _, isD := in.(*ssa.Defer); return !isD && rmAvail(in) }, nil)
		if !deferred && !after {
			bad = append(bad, "Available is not removed on the path that completes archival")
		}
		for _, other := range conditionSets(fn) {
			if other.Type == "Available" {
				bad = append(bad, "Available is written in the archival handler")
			}
		}
		emptied := func(in ssa.Instruction) bool {
			ci, ok := in.(*ssa.Call)
			return ok && calleeName(ci.Common()) == "SetStatusControllerOf" && X != nil && p.sameValue(ci.Common().Value, X) && p.pfDefinitelyNil(ci.Common().Args[0])
		}
		if !p.mustFollow(cs.Call.Instr, emptied, nil) && !p.mustPrecede(cs.Call.Instr, emptied) {
			bad = append(bad, "controllerOf is not emptied on the path that completes archival")
		}
		if len(bad) == 0 {
			o.OK()
		} else {
			o.Fail("%s", pfJoin(bad))
		}
	}
}

// ---------------------------------------------------------------------------------------------
// R6

// c06ObjectOrigins traces an accessor value back through parameters and closure captures.
func (p *Program) c06ObjectOrigins(v ssa.Value, depth int) []ssa.Value {
	v = p.pfRootValue(v)
	if depth == 0 {
		return []ssa.Value{v}
	}
	switch x := v.(type) {
	case *ssa.Parameter:
		var out []ssa.Value
		for _, org := range p.c03Origins(x, 1) {
			if org == ssa.Value(x) {
				out = nil
				break
			}
			out = append(out, p.c06ObjectOrigins(org, depth-1)...)
		}
		if len(out) > 0 {
			return out
		}
		// method only reached through an interface: use the arguments of every interface call of a
		// method with the same name and signature in the same package
		fn := x.Parent()
		idx := -1
		for i, q := range fn.Params {
			if q == x {
				idx = i
			}
		}
		if fn.Signature.Recv() != nil && idx >= 1 {
			for _, caller := range p.FuncsIn(funcPkgPath(fn)) {
				for _, cc := range callsIn(caller) {
					if !cc.Common.IsInvoke() || cc.Common.Method.Name() != fn.Name() || idx-1 >= len(cc.Common.Args) {
						continue
					}
					ms := cc.Common.Signature()
					if !types.Identical(types.NewSignatureType(nil, nil, nil, ms.Params(), ms.Results(), ms.Variadic()),
						types.NewSignatureType(nil, nil, nil, fn.Signature.Params(), fn.Signature.Results(), fn.Signature.Variadic())) {
						continue
					}
					out = append(out, p.c06ObjectOrigins(cc.Common.Args[idx-1], depth-1)...)
				}
			}
		}
		if len(out) > 0 {
			return out
		}
		return []ssa.Value{v}
	case *ssa.UnOp:
		if fv, ok := x.X.(*ssa.FreeVar); ok && x.Op == token.MUL {
			fn := fv.Parent()
			idx := -1
			for i, f := range fn.FreeVars {
				if f == fv {
					idx = i
				}
			}
			if fn.Parent() != nil && idx >= 0 {
				for _, b := range fn.Parent().Blocks {
					for _, in := range b.Instrs {
						if mc, ok := in.(*ssa.MakeClosure); ok && mc.Fn == ssa.Value(fn) {
							return p.c06ObjectOrigins(mc.Bindings[idx], depth-1)
						}
					}
				}
			}
		}
	}
	return []ssa.Value{v}
}

func c06r6(c *Ctx) {
	p := c.P
	reconciled := map[ssa.Value]*ssa.Call{}
	for _, fn := range p.pfFuncsInPkgs(pkgObjectSets, pkgObjSetPhases) {
		if isControllerReconcile(fn) {
			if X, get := p.c06ReconciledObject(fn); X != nil {
				reconciled[X] = get
			}
		}
	}
	for _, ws := range allWriterSites(p.pfFuncsInPkgs(pkgObjectSets, pkgObjSetPhases)) {
		if !strings.HasPrefix(ws.Verb, "Status.") {
			continue
		}
		fn := ws.Call.Fn
		o := c.Ob(fn, ws.Verb, ws.Call.Instr, "status is written with Status().Update on the object read at the start of the activation")
		var bad []string
		if ws.Verb != "Status.Update" {
			bad = append(bad, "status is persisted with "+ws.Verb+" (no optimistic concurrency on the read resourceVersion)")
		}
		co, _ := asCall(ws.Obj)
		if co == nil || calleeName(co.Common()) != "ClientObject" {
			bad = append(bad, "written object is "+p.describe(ws.Obj)+", not <reconciled object>.ClientObject()")
		} else {
			n := 0
			for _, org := range p.c06ObjectOrigins(callRecv(co.Common()), 4) {
				n++
				if reconciled[org] == nil {
					bad = append(bad, "the written object may be "+p.describe(org)+", which is not the object read at the start of a Reconcile activation")
				}
			}
			if n == 0 {
				bad = append(bad, "origin of the written object unknown")
			}
		}
		if len(bad) == 0 {
			o.OK()
		} else {
			o.Fail("%s", pfJoin(bad))
		}
	}
	// no second read into the reconciled object
	for _, fn := range p.pfFuncsInPkgs(pkgObjectSets, pkgObjSetPhases) {
		for _, cc := range callsIn(fn) {
			if !isReaderGet(cc.Common) && calleeName(cc.Common) != "DeepCopyInto" {
				continue
			}
			var target ssa.Value
			if isReaderGet(cc.Common) {
				target = callArgs(cc.Common)[2]
			} else if len(callArgs(cc.Common)) == 1 {
				target = callArgs(cc.Common)[0]
			}
			co, _ := asCall(target)
			if co == nil || calleeName(co.Common()) != "ClientObject" {
				continue
			}
			for _, org := range p.c06ObjectOrigins(callRecv(co.Common()), 4) {
				first, isRec := reconciled[org]
				if !isRec {
					continue
				}
				o := c.Ob(fn, "read-into-reconciled-object", cc.Instr, "the reconciled object is read exactly once, at the start of the activation")
				if cv, ok := cc.Instr.(*ssa.Call); ok && cv == first {
					o.OK("initial read")
				} else {
					o.Fail("the reconciled object is overwritten by a fresh read at %s; a later Status().Update would no longer be conditional on the version the pass observed", p.IPos(cc.Instr))
				}
			}
		}
	}
}
