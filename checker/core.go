package main

import (
	"encoding/json"
	"fmt"
	"os"
	"path/filepath"
	"runtime"
	"sort"
	"strings"

	"golang.org/x/tools/go/ssa"
)

const (
	Discharged = "discharged"
	Violated   = "violated"
	Undecided  = "undecided"
	Known      = "known-finding"
)

// Obligation is one instance of a rule at one site.
type Obligation struct {
	Rule      string   `json:"rule"`
	Key       string   `json:"key"`
	Site      string   `json:"site"`
	Statement string   `json:"statement"`
	Required  []string `json:"required,omitempty"`
	Found     []string `json:"found,omitempty"`
	Verdict   string   `json:"verdict"`
	Detail    string   `json:"detail,omitempty"`
	NonTriv   bool     `json:"-"`
}

// Rule is a repository-specific rule; Run creates obligations through Ctx.
type Rule struct {
	ID        string // "C05.R1"
	Statement string
	Min       int // minimum number of obligations confirmed by hand on the pinned tree (vacuity guard)
	Run       func(c *Ctx)
	Deep      bool // only meaningful in the thorough tier (needs dependency sources)
}

type Property struct {
	ID          string
	Explanation string   // what structural condition is decided and what is not
	NotDecided  []string // behavioural remainder
	Technique   string
	Rules       []Rule
}

var properties = map[string]*Property{}

func register(p *Property) { properties[p.ID] = p }

type Ctx struct {
	P     *Program
	Prop  *Property
	rule  *Rule
	Obls  []*Obligation
	keys  map[string]int
	Sites int // call sites / constructs examined
	FnSet map[*ssa.Function]bool
}

// Visit records that fn was analysed (for evidence counts).
func (c *Ctx) Visit(fn *ssa.Function) {
	if fn != nil {
		c.FnSet[fn] = true
	}
}

// Ob creates an obligation for the current rule. construct is a stable, line-free name.
func (c *Ctx) Ob(fn *ssa.Function, construct string, at ssa.Instruction, statement string) *Obligation {
	c.Visit(fn)
	c.Sites++
	fid := "-"
	if fn != nil {
		fid = shortFuncID(fn)
	}
	key := c.rule.ID + "@" + fid + "#" + construct
	c.keys[key]++
	if n := c.keys[key]; n > 1 {
		key = fmt.Sprintf("%s#%d", key, n)
	}
	site := "-"
	if at != nil {
		site = c.P.IPos(at)
	} else if fn != nil {
		site = c.P.Pos(fn.Pos())
	}
	o := &Obligation{Rule: c.rule.ID, Key: key, Site: site, Statement: statement, Verdict: Undecided, NonTriv: true}
	c.Obls = append(c.Obls, o)
	return o
}

func (o *Obligation) Require(s ...string) *Obligation {
	o.Required = append(o.Required, s...)
	return o
}
func (o *Obligation) Note(s ...string) *Obligation { o.Found = append(o.Found, s...); return o }
func (o *Obligation) OK(found ...string) *Obligation {
	o.Verdict = Discharged
	o.Found = append(o.Found, found...)
	return o
}
func (o *Obligation) Fail(format string, a ...any) *Obligation {
	o.Verdict = Violated
	o.Detail = fmt.Sprintf(format, a...)
	return o
}
func (o *Obligation) Unknown(format string, a ...any) *Obligation {
	o.Verdict = Undecided
	o.Detail = fmt.Sprintf(format, a...)
	return o
}

// Decide: ok → discharged, else violated with detail.
func (o *Obligation) Decide(ok bool, format string, a ...any) *Obligation {
	if ok {
		return o.OK()
	}
	return o.Fail(format, a...)
}

// AnchorLost records that a function / construct a rule is anchored on cannot be found.
func (c *Ctx) AnchorLost(what string) {
	c.Sites++
	key := c.rule.ID + "@anchor#" + what
	o := &Obligation{Rule: c.rule.ID, Key: key, Site: "-", Statement: "anchor must resolve: " + what, Verdict: Violated,
		Detail: "reason=anchor-lost: " + what + " not found in the current tree", NonTriv: true}
	c.Obls = append(c.Obls, o)
}

// MustFunc resolves a function or records a lost anchor (returns nil).
func (c *Ctx) MustFunc(pkg, name string) *ssa.Function {
	f := c.P.Func(pkg, name)
	if f == nil {
		c.AnchorLost(pkg + "." + name)
		return nil
	}
	c.Visit(f)
	return f
}

// ---------------------------------------------------------------------------------------------
// Known findings

type KnownFinding struct {
	Property  string `json:"property"`
	Rule      string `json:"rule"`
	Key       string `json:"key"`
	WhatFails string `json:"what_fails"`
	Status    string `json:"status"` // "known" | "fixed"
	Commit    string `json:"commit,omitempty"`
	Defect    string `json:"defect,omitempty"`
}

type knownFile struct {
	Comment  string         `json:"_comment,omitempty"`
	Findings []KnownFinding `json:"findings"`
	Fixed    []string       `json:"fixed,omitempty"`
}

func loadKnown(path string) ([]KnownFinding, error) {
	b, err := os.ReadFile(path)
	if err != nil {
		if os.IsNotExist(err) {
			return nil, nil
		}
		return nil, err
	}
	var kf knownFile
	if err := json.Unmarshal(b, &kf); err != nil {
		return nil, err
	}
	return kf.Findings, nil
}

// ---------------------------------------------------------------------------------------------
// Running a property

type Result struct {
	Prop       *Property
	Obls       []*Obligation
	Violations []*Obligation
	KnownHits  []KnownFinding
	Funcs      int
	Sites      int
}

func runProperty(p *Program, prop *Property, known []KnownFinding, tier string) *Result {
	c := &Ctx{P: p, Prop: prop, keys: map[string]int{}, FnSet: map[*ssa.Function]bool{}}
	for i := range prop.Rules {
		r := &prop.Rules[i]
		if r.Deep && tier != "thorough" {
			continue
		}
		c.rule = r
		before := len(c.Obls)
		func() {
			defer func() {
				if rec := recover(); rec != nil {
					c.Obls = append(c.Obls, &Obligation{Rule: r.ID, Key: r.ID + "@checker#panic", Site: "-",
						Statement: r.Statement, Verdict: Undecided, Detail: fmt.Sprintf("reason=checker-panic: %v at %s", rec, panicSite()), NonTriv: true})
				}
			}()
			r.Run(c)
		}()
		n := len(c.Obls) - before
		if n < r.Min {
			c.Obls = append(c.Obls, &Obligation{Rule: r.ID, Key: r.ID + "@anchor#instances", Site: "-",
				Statement: r.Statement, Verdict: Violated, NonTriv: true,
				Detail: fmt.Sprintf("reason=anchor-lost: rule matched %d instance(s), at least %d were confirmed on the pinned tree (a rule that matches nothing passes vacuously)", n, r.Min)})
		}
	}
	res := &Result{Prop: prop, Obls: c.Obls, Funcs: len(c.FnSet), Sites: c.Sites}
	for _, o := range c.Obls {
		if o.Verdict == Discharged {
			continue
		}
		matched := false
		if o.Verdict == Violated {
			for _, k := range known {
				if k.Status == "known" && k.Property == prop.ID && k.Rule == o.Rule && k.Key == o.Key {
					o.Verdict = Known
					res.KnownHits = append(res.KnownHits, k)
					matched = true
					break
				}
			}
		}
		if !matched {
			res.Violations = append(res.Violations, o)
		}
	}
	return res
}

// ---------------------------------------------------------------------------------------------
// Evidence

type evidence struct {
	PropertyID  string         `json:"property_id"`
	Tier        string         `json:"tier"`
	Seed        int64          `json:"seed"`
	Level       string         `json:"level"`
	Coverage    map[string]any `json:"coverage"`
	Assumptions []string       `json:"assumptions"`
	WallS       float64        `json:"wall_s"`
	Violations  int            `json:"violations"`
}

var trustedBase = []string{
	"go/types and go/ssa (x/tools v0.29.0) construct a faithful typed SSA form of the current working tree",
	"semantics of controller-runtime client calls and of the Kubernetes API server (preconditions, server-side apply, optimistic concurrency)",
	"boxcutter ownerhandling.{Native,Annotation} implement IsController/IsOwner/ReleaseController/SetControllerReference as named",
	"accessor-purity table: zero-argument Get*/Is*/Has*/ClientObject methods return the same value when called twice on the same receiver within one activation",
}

func writeEvidence(path string, res *Result, p *Program, tier string, seed int64, wall float64, cmd string, extra map[string]any) error {
	distinct := map[string]bool{}
	discharged := 0
	var samples []any
	byRule := map[string]int{}
	for _, o := range res.Obls {
		if o.NonTriv {
			distinct[o.Key] = true
		}
		if o.Verdict == Discharged {
			discharged++
		}
		byRule[o.Rule]++
		samples = append(samples, o)
	}
	var ruleStmts []string
	for _, r := range res.Prop.Rules {
		ruleStmts = append(ruleStmts, fmt.Sprintf("%s (%d instance(s), min %d): %s", r.ID, byRule[r.ID], r.Min, r.Statement))
	}
	var kf []any
	for _, k := range res.KnownHits {
		kf = append(kf, k)
	}
	var viol []any
	for _, o := range res.Violations {
		viol = append(viol, o)
	}
	cov := map[string]any{
		"explanation":         res.Prop.Explanation,
		"not_decided":         res.Prop.NotDecided,
		"technique":           res.Prop.Technique,
		"obligations":         len(res.Obls),
		"discharged":          discharged,
		"evaluations":         len(res.Obls),
		"distinct_nontrivial": len(distinct),
		"rule": "sites are enumerated from the SSA form of the current tree by resolved callee / type / constant (never by line); one obligation per " +
			"(rule, enclosing function, construct); an obligation is non-trivial when it required at least one guard, ordering, identity or " +
			"absence fact to be established; distinct = distinct obligation keys",
		"rules":               ruleStmts,
		"samples":             samples,
		"checker_cmd":         cmd,
		"trusted_base":        trustedBase,
		"packages_loaded":     len(p.Pkgs),
		"functions_in_scope":  len(p.Funcs),
		"functions_analysed":  res.Funcs,
		"call_sites_examined": res.Sites,
		"known_findings":      kf,
		"violated":            viol,
		"exhaustive":          false,
	}
	for k, v := range extra {
		cov[k] = v
	}
	ev := evidence{
		PropertyID:  res.Prop.ID,
		Tier:        tier,
		Seed:        seed,
		Level:       "other",
		Coverage:    cov,
		Assumptions: append([]string{}, trustedBase...),
		WallS:       wall,
		Violations:  len(res.Violations),
	}
	b, err := json.MarshalIndent(ev, "", " ")
	if err != nil {
		return err
	}
	if err := os.MkdirAll(dirOf(path), 0o755); err != nil {
		return err
	}
	return os.WriteFile(path, append(b, '\n'), 0o644)
}

func dirOf(p string) string {
	if i := strings.LastIndexByte(p, '/'); i > 0 {
		return p[:i]
	}
	return "."
}

func sortedPropIDs() []string {
	var ids []string
	for id := range properties {
		ids = append(ids, id)
	}
	sort.Strings(ids)
	return ids
}

// panicSite names the first checker frames below the runtime's panic machinery (diagnostics only).
func panicSite() string {
	pcs := make([]uintptr, 32)
	n := runtime.Callers(3, pcs)
	frames := runtime.CallersFrames(pcs[:n])
	var out []string
	for {
		f, more := frames.Next()
		if strings.HasPrefix(f.Function, "main.") && !strings.Contains(f.Function, "panicSite") {
			out = append(out, fmt.Sprintf("%s (%s:%d)", strings.TrimPrefix(f.Function, "main."), filepath.Base(f.File), f.Line))
		}
		if !more || len(out) >= 4 {
			break
		}
	}
	return strings.Join(out, " <- ")
}
